// Package c18: traffic shaping (trafficshape.Handler / Listener / Conn) — shaping delays or cuts a
// response but never alters its bytes; invalid configurations are rejected and change nothing; an
// accepted configuration applies to later connections only; closing releases resources.
//
// Line protocol (tokens separated by one space):
//
//	config D S*                D = d:none | d:<up>:<down>:<latency>
//	                           S = null | s:<R>:<maxbw>:<T>:<H>:<C>   R = a|b|c|empty|bad
//	                           T = - | item,item..   item = nil | <hex bytes string>/<bandwidth>
//	                           H = - | item,..       item = nil | <byte>/<duration ms>/<count>
//	                           C = - | item,..       item = nil | <byte>/<count>
//	configraw <hex body>       malformed request body (oracle only)
//	conn <id>                  Listener.GetTrafficShapedConn over a recording in-memory conn
//	ctx <id> <u> <rs> <hl> <f> what proxy.go does before writing a response: URL class u (a|b|c|n),
//	                           range start rs (-1 = multipart/invalid), dumped head length hl,
//	                           f = - | <n> | <n>/<g> | -/<g>: swap in a local bucket of capacity n and/or a bucket of
//	                           capacity g shared by all connections of the shape, both draining every 200µs
//	write <id> <hex>           Conn.Write
//	close <id>                 Conn.Close
//	par <n> <u> <rs> <hl> <f> <hex>   n concurrent connections write the same response (oracle only)
//	slow <u> <rs> <bw> <len>   wall-clock measurement of a throttle with the real 1 s buckets (oracle only)
//	leak [strict]              close everything, count bucket drain goroutines (oracle only)
//
// faults of the wrapped connection (fault.go): fault <id> close | write <n> | read, read <id>, reclose <id>
//
// interleaved histories (inter.go):
//
//	wstart <id> <hex> <p>      start Conn.Write in the background; the inner conn parks the first inner
//	                           write that begins when >= p bytes of this call have been delivered
//	                           (model op: wstart <id> <hex> <p> <d|->, d = observed park position)
//	wend <id>                  release the parked write, wait for it, report it like `write`
//	cfgstart D S*              start a configuration request whose body upload stalls half-way
//	cfgend                     let the upload finish; reported (and sent to the model) as `config D S*`
//
// end-to-end tier (e2e.go): a real martian.Proxy serving the shaped listener over TCP, origin = RoundTripper
//
//	dial <id> [g|-] [ms]       TCP client connection, waits until the proxy accepted it (model op: conn <id>);
//	                           g: the shared (global) bucket of every shape is a real bucket of capacity g draining every 200µs;
//	                           ms: the connection's own write buckets drain every ms milliseconds instead of every second
//	                           (throttled bodies then get a wall-clock lower bound that costs tenths of a second)
//	req <id> <u> <R> <len> [o] one exchange (o = c: client sends Connection: close, origin does not echo it; ce: origin echoes;
//	                           h10 / h10e: the same with an HTTP/1.0 request) on the keep-alive connection; R = - | <k> (Range: bytes=k-, 206)
//	                           | m<k> (multipart/byteranges 206) | x<k> (206 without usable Content-Range)
//	                           (model op: resp <id> <u> <rs> <hl> <len>)
//	hangup <id>                client closes; waits until the proxy closed its side (model op: close <id>)
package c18

import (
	"bufio"
	"fmt"
	"net"
	"net/http/httptest"
	"regexp"
	"runtime"
	"runtime/debug"
	"sort"
	"strconv"
	"strings"
	"sync"
	"time"

	mlog "github.com/google/martian/v3/log"
	"github.com/google/martian/v3/trafficshape"

	"verif/harness/internal/core"
)

type P struct{}

func init() { core.Register(P{}) }

func (P) ID() string { return "C18" }
func (P) Rule() string {
	return "case = a history of shaping-endpoint requests (valid and invalid configurations: overlapping/malformed throttle byte ranges, " +
		"negative values, zero counts, null entries, empty/invalid regex, duplicate regex) interleaved with shaped connections created by the real " +
		"Listener over a recording in-memory conn, responses (URL class, Range start, head length, optional fast bucket of capacity 1..16) and " +
		"Conn.Write calls with random write sizes, followed by a goroutine leak check; plus concurrent-connection cases and wall-clock throttle " +
		"measurements; interleaved histories (a Write parked between two rounds of its loop while configurations are accepted or refused and connections " +
		"are accepted; connections accepted while a configuration upload is stalled half-way); end-to-end cases (real martian.Proxy on the shaped " +
		"listener over TCP, keep-alive sequences of matching / non-matching URLs, Range and multipart answers, bodies up to 12000 bytes); distinct by hash of the op list; non-trivial when the case has at least one accepted configuration and at least one " +
		"write that triggered an action (halt, close or bandwidth change) or at least one rejected configuration followed by a shaped write"
}

func (P) Nontrivial(ops []string, impl []string) bool {
	acc, rej, act, wr := false, false, false, false
	for _, l := range impl {
		switch {
		case l == "accepted":
			acc = true
		case strings.HasPrefix(l, "rejected"):
			rej = true
		case strings.HasPrefix(l, "w ") || strings.HasPrefix(l, "r "):
			wr = true
			if !strings.Contains(l, " ev=- ") {
				act = true
			}
		case strings.HasPrefix(l, "par ok") || strings.HasPrefix(l, "slow ok"):
			act = true
		}
	}
	return acc && (act || (rej && wr))
}

// ---- URL classes and regexes (disjoint, so that the map iteration order in proxy.go cannot matter) ----

var regexOf = map[string]string{"a": `^http://a\.test/.*`, "b": `^http://b\.test/`, "c": `c\.test/[0-9]+$`, "empty": "", "bad": "([a-"}
var idOfRegex = map[string]string{}
var urlOf = map[string]string{"a": "http://a.test/x/y", "b": "http://b.test/", "c": "http://c.test/42", "n": "http://n.test/a.test"}

func init() {
	for k, v := range regexOf {
		idOfRegex[v] = k
	}
}

// ---- log hook: the shaped write loop reports each action it performs through martian/log ----

type hook struct {
	mu      sync.Mutex
	evs     []string
	waiting map[string]int // remote addr -> number of "waiting for request" seen
	closing map[string]int
}

func (h *hook) seen(addr string) (int, int) {
	h.mu.Lock()
	defer h.mu.Unlock()
	return h.waiting[addr], h.closing[addr]
}

const pfx = "trafficshape: "

func (h *hook) add(s string) { h.mu.Lock(); h.evs = append(h.evs, s); h.mu.Unlock() }
func (h *hook) has(prefix string) bool {
	h.mu.Lock()
	defer h.mu.Unlock()
	for _, e := range h.evs {
		if strings.HasPrefix(e, prefix) {
			return true
		}
	}
	return false
}
func (h *hook) take() []string {
	h.mu.Lock()
	defer h.mu.Unlock()
	e := h.evs
	h.evs = nil
	return e
}
func (h *hook) Infof(f string, a ...interface{}) {
	if len(f) < 24 || !strings.HasPrefix(f, pfx) {
		return
	}
	switch {
	case strings.HasPrefix(f[len(pfx):], "Closing connection") && len(a) == 2:
		h.add(fmt.Sprintf("c@%v", a[1]))
	case strings.HasPrefix(f[len(pfx):], "Changing connection bandwidth") && len(a) == 3:
		h.add(fmt.Sprintf("b%v@%v", a[0], a[2]))
	}
}
func (h *hook) Debugf(f string, a ...interface{}) {
	if len(f) > 24 && f[0] == 'm' && len(a) == 1 {
		// proxy.go: the two points at which an exchange on a client connection is over
		switch f {
		case "martian: waiting for request: %v":
			h.mu.Lock()
			h.waiting[fmt.Sprint(a[0])]++
			h.mu.Unlock()
		case "martian: closing connection: %v":
			h.mu.Lock()
			h.closing[fmt.Sprint(a[0])]++
			h.mu.Unlock()
		}
		return
	}
	if len(f) > 24 && f[len(pfx)] == 'S' && strings.HasPrefix(f[len(pfx):], "Sleeping for time") && len(a) == 3 {
		h.add(fmt.Sprintf("s%v@%v", a[0], a[2]))
	}
}
func (h *hook) Errorf(f string, a ...interface{}) {}

var theHook = &hook{waiting: map[string]int{}, closing: map[string]int{}}
var hookOnce sync.Once

// ---- recording inner conn ----

type recConn struct {
	mu     sync.Mutex
	buf    []byte
	closed bool
	// parking (inter.go): the first inner write that begins with len(buf)-base >= parkAt blocks
	parkAt  int
	base    int
	parked  chan int
	release chan struct{}
	// scripted faults of the wrapped connection (fault.go)
	closeErr  bool // Close reports an error (it still closes)
	armed     bool
	failAfter int // armed: the inner Write that would take len(buf) beyond this accepts the part up to it and fails; later writes fail
	readErr   bool
	fired     bool // a scripted write fault has struck
	nClose    int
}

type addr struct{}

func (addr) Network() string { return "mem" }
func (addr) String() string  { return "mem" }

func (c *recConn) Read(b []byte) (int, error) {
	c.mu.Lock()
	defer c.mu.Unlock()
	if c.readErr {
		return 0, errInjected
	}
	return 0, fmt.Errorf("EOF")
}
func (c *recConn) Write(b []byte) (int, error) {
	c.mu.Lock()
	defer c.mu.Unlock()
	if c.closed {
		return 0, fmt.Errorf("closed")
	}
	if c.parked != nil && len(c.buf)-c.base >= c.parkAt {
		pc, rel, d := c.parked, c.release, len(c.buf)-c.base
		c.parked = nil
		c.mu.Unlock()
		pc <- d
		<-rel
		c.mu.Lock()
	}
	if c.armed && len(c.buf)+len(b) > c.failAfter {
		room := c.failAfter - len(c.buf)
		if room < 0 {
			room = 0
		}
		c.buf = append(c.buf, b[:room]...)
		c.fired = true
		return room, errInjected
	}
	c.buf = append(c.buf, b...)
	return len(b), nil
}
func (c *recConn) Close() error {
	c.mu.Lock()
	defer c.mu.Unlock()
	c.closed = true
	c.nClose++
	if c.closeErr {
		return errInjected
	}
	return nil
}
func (c *recConn) LocalAddr() net.Addr                { return addr{} }
func (c *recConn) RemoteAddr() net.Addr               { return addr{} }
func (c *recConn) SetDeadline(t time.Time) error      { return nil }
func (c *recConn) SetReadDeadline(t time.Time) error  { return nil }
func (c *recConn) SetWriteDeadline(t time.Time) error { return nil }
func (c *recConn) snapshot() []byte {
	c.mu.Lock()
	defer c.mu.Unlock()
	return append([]byte{}, c.buf...)
}

type stubListener struct {
	ch chan struct{}
	in chan net.Conn
}

func (s *stubListener) Accept() (net.Conn, error) {
	select {
	case c := <-s.in:
		return c, nil
	case <-s.ch:
		return nil, net.ErrClosed
	}
}
func (s *stubListener) Close() error {
	select {
	case <-s.ch:
	default:
		close(s.ch)
	}
	return nil
}
func (s *stubListener) Addr() net.Addr { return addr{} }

// ---- goroutine accounting ----

func bucketLoops() int {
	buf := make([]byte, 1<<20)
	for {
		n := runtime.Stack(buf, true)
		if n < len(buf) {
			return strings.Count(string(buf[:n]), "created by github.com/google/martian/v3/trafficshape.NewBucket")
		}
		buf = make([]byte, 2*len(buf))
	}
}

// settleBase: goroutines of the previous case may still be exiting; take the count once it is stable.
func settleBase() int {
	prev := bucketLoops()
	for i := 0; i < 200; i++ {
		time.Sleep(2 * time.Millisecond)
		n := bucketLoops()
		if n == prev && i >= 2 {
			return n
		}
		prev = n
	}
	return prev
}

// waitLoops polls until the number of drain goroutines equals want (they exit asynchronously).
func waitLoops(want int) int { return waitLoopsFor(want, 1500*time.Millisecond) }

func waitLoopsFor(want int, d time.Duration) int {
	if want < 0 {
		return bucketLoops()
	}
	dl := time.Now().Add(d)
	for {
		n := bucketLoops()
		if n == want || time.Now().After(dl) {
			return n
		}
		time.Sleep(2 * time.Millisecond)
	}
}

// ---- executor ----

type oAct struct {
	byt, dur, rem int64
}

// oShape is the oracle's own reading of an accepted shape (independent of the Lean model).
type oShape struct {
	closes, halts []*oAct
	bounds        map[int64]bool // throttle interval end points
	thr           [][3]int64     // throttle intervals: start, end (-1 = open), bandwidth
}

type resp struct {
	shaped       bool // the oracle expects shaping (URL matches a shape of the configuration current when the conn was created)
	regex        string
	rs, hl       int64
	headLeft     int64
	pos          int64 // absolute body offset delivered so far
	closedByRule bool
	os           *oShape // the oracle's reading of the shape that applies (configuration current at ctx time)
	gen          int     // number of accepted configurations at ctx time
}

type cstate struct {
	c         *trafficshape.Conn
	rec       *recConn
	gen       int
	nLocal    int
	written   []byte
	resp      *resp
	closed    bool
	firstDone bool
	lat       int64
	cut       bool // a close action already cut this connection's stream ("up to the first close action")
	// a Write parked inside the inner conn (inter.go)
	pend *pendingWrite
	// end-to-end connections (e2e.go)
	client net.Conn
	br     *bufio.Reader
	addr   string
	nreq   int
	tick   time.Duration // drain interval of the connection's own write buckets when the harness replaced them
}

type ex struct {
	sl         *stubListener
	tsl        *trafficshape.Listener
	h          *trafficshape.Handler
	conns      map[string]*cstate
	order      []string
	gen        int
	cfg        map[string]*oShape
	latency    int64
	base       int // drain goroutines alive before this case
	cfgLoops   int // global buckets of accepted configurations (never closed by the code: known finding)
	extra      []*trafficshape.Bucket
	replaced   int
	slack      int
	confirmed  bool                            // a goroutine surplus was confirmed with the long wait
	noModel    bool                            // after a scripted write fault of the wrapped connection
	gfast      map[string]*trafficshape.Bucket // shared (global) fast buckets swapped in by the harness, per pattern
	cfgBuckets []*trafficshape.Bucket          // global buckets of accepted configurations (reaped at the very end of the case)
	poisoned   string                          // a panic or a hang inside the code under test: the rest of the case is skipped
	pendCfg    *pendingConfig                  // a configuration request whose upload is stalled (inter.go)
	nParked    int                             // writes parked inside the inner conn (they hold bucket mutexes)
	w          *e2eWorld                       // real proxy on the shaped listener (e2e.go), started by the first `dial`
}

// expected is the number of drain goroutines the harness can account for right now.
func (e *ex) expected() int {
	n := e.base + e.cfgLoops + len(e.extra) + len(e.gfast) + e.slack
	if e.tsl != nil {
		n += 2
	}
	for _, id := range e.order {
		if cs := e.conns[id]; !cs.closed {
			n += 2 * cs.nLocal
		}
	}
	return n
}

// settle waits for the drain goroutines to reach the expected number and returns the surplus
// (goroutines nobody closed); the surplus is remembered so that it is reported once.
func (e *ex) settle() int {
	want := e.expected()
	d := waitLoops(want) - want
	if d != 0 && !e.confirmed {
		// a bound-dependent verdict: on a loaded machine a goroutine may need longer to exit; confirm
		// (once per case: a tree that really leaks must not cost seconds per op)
		d = waitLoopsFor(want, 3*time.Second) - want
		e.confirmed = d != 0
	}
	e.slack += d
	return d
}

func (P) NewExec() core.Exec {
	hookOnce.Do(func() { mlog.SetLogger(theHook) })
	e := &ex{conns: map[string]*cstate{}, cfg: map[string]*oShape{}}
	e.base = settleBase()
	e.sl = &stubListener{ch: make(chan struct{}), in: make(chan net.Conn)}
	e.tsl = trafficshape.NewListener(e.sl)
	e.h = trafficshape.NewHandler(e.tsl)
	theHook.take()
	return e
}

// Close is what the runner calls at the end of a case: everything is closed, and the global shape
// buckets that the code never closes (the open finding, counted by `leak` before) are reaped so that
// their drain goroutines do not pile up over thousands of cases.
func (e *ex) Close() {
	e.closeAll()
	e.reap()
}

// collect remembers the global buckets of the shapes that are active right now.
func (e *ex) collect(l *trafficshape.Listener) {
	l.Shapes.RLock()
	for _, us := range l.Shapes.M {
		if us.Shape != nil && us.Shape.WriteBucket != nil {
			e.cfgBuckets = append(e.cfgBuckets, us.Shape.WriteBucket)
		}
	}
	l.Shapes.RUnlock()
}

func (e *ex) reap() {
	for _, b := range e.cfgBuckets {
		b.Close()
	}
	e.cfgLoops -= len(e.cfgBuckets)
	if e.cfgLoops < 0 {
		e.cfgLoops = 0
	}
	e.cfgBuckets = nil
	waitLoops(e.expected())
}

func (e *ex) closeAll() {
	e.abortPending()
	for _, id := range e.order {
		cs := e.conns[id]
		if cs.client != nil {
			// an end-to-end connection belongs to the proxy: its handler closes the shaped conn when the
			// client hangs up (Conn.Close from two goroutines at once is not something the proxy does)
			if !cs.closed {
				_, c0 := theHook.seen(cs.addr)
				cs.client.Close()
				waitProxy(cs.addr, 1<<30, c0, 5*time.Second)
				cs.closed = true
			}
			continue
		}
		if !cs.closed {
			cs.c.Close()
			cs.closed = true
		}
	}
	if e.w != nil {
		e.w.stop()
	}
	for _, b := range e.extra {
		b.Close()
	}
	e.extra = nil
	for _, b := range e.gfast {
		b.Close()
	}
	e.gfast = nil
	if e.tsl != nil {
		e.tsl.Close()
		e.tsl = nil
	}
	if e.w != nil {
		e.w.finish()
		e.w = nil
	}
	waitLoops(e.expected())
}

func fail(sig, format string, a ...interface{}) core.Result {
	return core.Result{Impl: "fail", Fail: fmt.Sprintf(format, a...), Sig: sig}
}

// Do runs one op under its own watchdog: a Go panic or a deadlock inside the code under test is
// reported once (kind panic / hang) and the rest of the case is skipped, because a panic under a
// bucket mutex leaves every later operation on that bucket blocked for ever.
func (e *ex) Do(op string) core.Result {
	if e.poisoned != "" {
		return core.Result{Impl: "skipped", SkipModel: true}
	}
	ch := make(chan core.Result, 1)
	go func() {
		defer func() {
			if x := recover(); x != nil {
				st := string(debug.Stack())
				if len(st) > 1500 {
					st = st[:1500]
				}
				ch <- core.Result{Impl: "panic", Fail: fmt.Sprintf("panic: %v\n%s", x, st), Sig: "panic"}
			}
		}()
		ch <- e.do(op)
	}()
	select {
	case r := <-ch:
		if r.Sig == "panic" || r.Sig == "hang" {
			e.poisoned = r.Sig
		}
		if e.noModel { // a scripted write fault is outside the model's domain: the rest of the case is oracle-only
			r.SkipModel = true
		}
		return r
	case <-time.After(opWatchdog):
		e.poisoned = "hang"
		return core.Result{Impl: "hang", Fail: "operation did not return within " + opWatchdog.String(), Sig: "hang"}
	}
}

// opWatchdog is slightly below core.OpTimeout so that the executor learns about the hang itself.
const opWatchdog = 28 * time.Second

func (e *ex) do(op string) core.Result {
	t := strings.Fields(op)
	if len(t) == 0 {
		return core.Result{Impl: "bad-op"}
	}
	switch {
	case t[0] == "wstart" && len(t) == 4:
		return e.doWStart(t[1], t[2], t[3])
	case t[0] == "wend" && len(t) == 2:
		return e.doWEnd(t[1])
	case t[0] == "cfgstart" && len(t) >= 2:
		return e.doCfgStart(t[1:])
	case t[0] == "cfgend" && len(t) == 1:
		return e.doCfgEnd()
	case t[0] == "dial" && len(t) >= 2 && len(t) <= 4:
		g, tick := "", ""
		if len(t) >= 3 && t[2] != "-" {
			g = t[2]
		}
		if len(t) == 4 {
			tick = t[3]
		}
		return e.doDial(t[1], g, tick)
	case t[0] == "req" && (len(t) == 5 || len(t) == 6):
		opt := ""
		if len(t) == 6 {
			opt = t[5]
		}
		return e.doReq(t[1], t[2], t[3], t[4], opt)
	case t[0] == "hangup" && len(t) == 2:
		return e.doHangup(t[1])
	case t[0] == "config" && len(t) >= 2:
		return e.doConfig(t[1:])
	case t[0] == "configraw" && len(t) == 2:
		return e.doConfigRaw(t[1])
	case t[0] == "conn" && len(t) == 2:
		return e.doConn(t[1])
	case t[0] == "ctx" && len(t) == 6:
		return e.doCtx(t[1], t[2], t[3], t[4], t[5])
	case t[0] == "write" && len(t) == 3:
		return e.doWrite(t[1], t[2])
	case t[0] == "close" && len(t) == 2:
		return e.doClose(t[1])
	case t[0] == "fault" && (len(t) == 3 || len(t) == 4):
		return e.doFault(t[1:])
	case t[0] == "reclose" && len(t) == 2:
		return e.doReclose(t[1])
	case t[0] == "read" && len(t) == 2:
		return e.doRead(t[1])
	case t[0] == "par" && len(t) == 7:
		return e.doPar(t[1:])
	case t[0] == "slow" && len(t) == 5:
		return e.doSlow(t[1:])
	case t[0] == "leak":
		return e.doLeak(len(t) > 1 && t[1] == "strict")
	}
	return core.Result{Impl: "bad-op"}
}

// ---- config ----

type rawShape struct {
	null      bool
	regexID   string
	maxbw     int64
	throttles []string // "nil" or "<bytes>\x00<bw>"
	thr       [][2]string
	halts     [][]int64 // nil entry = null
	closes    [][]int64
}

func splitItems(s string) []string {
	if s == "-" {
		return nil
	}
	return strings.Split(s, ",")
}

func ints(s string, n int) ([]int64, bool) {
	p := strings.Split(s, "/")
	if len(p) != n {
		return nil, false
	}
	out := make([]int64, n)
	for i, x := range p {
		v, err := strconv.ParseInt(x, 10, 64)
		if err != nil {
			return nil, false
		}
		out[i] = v
	}
	return out, true
}

func jsonStr(s string) string {
	var b strings.Builder
	b.WriteByte('"')
	for _, c := range []byte(s) {
		if c < 0x20 || c == '"' || c == '\\' || c >= 0x7f {
			fmt.Fprintf(&b, "\\u%04x", c)
		} else {
			b.WriteByte(c)
		}
	}
	b.WriteByte('"')
	return b.String()
}

// buildConfig turns the tokens into the JSON request body and the parsed form used by the oracle.
func buildConfig(toks []string) (string, []rawShape, []int64, bool) {
	var def []int64
	var b strings.Builder
	b.WriteString(`{"trafficshape":{`)
	if toks[0] != "d:none" {
		p := strings.Split(toks[0], ":")
		if len(p) != 4 || p[0] != "d" {
			return "", nil, nil, false
		}
		var ok bool
		def, ok = ints(strings.Join(p[1:], "/"), 3)
		if !ok {
			return "", nil, nil, false
		}
		fmt.Fprintf(&b, `"default":{"bandwidth":{"up":%d,"down":%d},"latency":%d},`, def[0], def[1], def[2])
	}
	b.WriteString(`"shapes":[`)
	var shapes []rawShape
	for i, s := range toks[1:] {
		if i > 0 {
			b.WriteByte(',')
		}
		if s == "null" {
			b.WriteString("null")
			shapes = append(shapes, rawShape{null: true})
			continue
		}
		p := strings.Split(s, ":")
		if len(p) != 6 || p[0] != "s" {
			return "", nil, nil, false
		}
		re, ok := regexOf[p[1]]
		if !ok {
			return "", nil, nil, false
		}
		mb, err := strconv.ParseInt(p[2], 10, 64)
		if err != nil {
			return "", nil, nil, false
		}
		rs := rawShape{regexID: p[1], maxbw: mb}
		fmt.Fprintf(&b, `{"url_regex":%s,"max_global_bandwidth":%d,"throttles":[`, jsonStr(re), mb)
		for j, it := range splitItems(p[3]) {
			if j > 0 {
				b.WriteByte(',')
			}
			if it == "nil" {
				b.WriteString("null")
				rs.thr = append(rs.thr, [2]string{"nil", ""})
				continue
			}
			q := strings.Split(it, "/")
			if len(q) != 2 {
				return "", nil, nil, false
			}
			by, ok := core.Unhex(q[0])
			bw, err := strconv.ParseInt(q[1], 10, 64)
			if !ok || err != nil {
				return "", nil, nil, false
			}
			fmt.Fprintf(&b, `{"bytes":%s,"bandwidth":%d}`, jsonStr(string(by)), bw)
			rs.thr = append(rs.thr, [2]string{string(by), q[1]})
		}
		b.WriteString(`],"halts":[`)
		for j, it := range splitItems(p[4]) {
			if j > 0 {
				b.WriteByte(',')
			}
			if it == "nil" {
				b.WriteString("null")
				rs.halts = append(rs.halts, nil)
				continue
			}
			v, ok := ints(it, 3)
			if !ok {
				return "", nil, nil, false
			}
			fmt.Fprintf(&b, `{"byte":%d,"duration":%d,"count":%d}`, v[0], v[1], v[2])
			rs.halts = append(rs.halts, v)
		}
		b.WriteString(`],"close_connections":[`)
		for j, it := range splitItems(p[5]) {
			if j > 0 {
				b.WriteByte(',')
			}
			if it == "nil" {
				b.WriteString("null")
				rs.closes = append(rs.closes, nil)
				continue
			}
			v, ok := ints(it, 2)
			if !ok {
				return "", nil, nil, false
			}
			fmt.Fprintf(&b, `{"byte":%d,"count":%d}`, v[0], v[1])
			rs.closes = append(rs.closes, v)
		}
		b.WriteString(`]}`)
		shapes = append(shapes, rs)
	}
	b.WriteString(`]}}`)
	return b.String(), shapes, def, true
}

var tailNum = regexp.MustCompile(`: (\d+)\s*$`)
var numRe = regexp.MustCompile(`index:? (\d+)`)

func classify(msg string) string {
	enum := "other"
	for _, p := range [][2]string{
		{"nil shape at index", "nilshape"}, {"no url_regex", "noregex"}, {"doesn't compile", "badregex"},
		{"max_bandwidth cannot be negative", "negmax"}, {"nil throttle", "nilthrottle"}, {"invalid bandwidth", "badbw"},
		{"invalid bytes", "badbytes"}, {"nil halt", "nilhalt"}, {"invalid halt", "badhalt"}, {" 0 count for halt", "zerohalt"},
		{"nil close_connection", "nilclose"}, {"invalid close_connection", "badclose"}, {"0 count for close_connection", "zeroclose"},
		{"overlapping throttle", "overlap"}, {"Invalid Defaults", "defaults"},
	} {
		if strings.Contains(msg, p[0]) {
			enum = p[1]
			break
		}
	}
	// the item index and the shape index are the last "index N" groups of the message
	tail := msg
	if i := strings.LastIndex(msg, " at "); enum == "badbytes" && i >= 0 {
		tail = msg[i:]
	}
	m := numRe.FindAllStringSubmatch(tail, -1)
	switch len(m) {
	case 0:
		if t := tailNum.FindStringSubmatch(msg); t != nil {
			return enum + " s=" + t[1]
		}
		return enum
	case 1:
		return enum + " s=" + m[0][1]
	default:
		return enum + " s=" + m[len(m)-1][1] + " i=" + m[len(m)-2][1]
	}
}

func (e *ex) post(body string) (int, string) {
	req := httptest.NewRequest("POST", "http://martian.proxy/shape-traffic", strings.NewReader(body))
	rw := httptest.NewRecorder()
	done := make(chan struct{})
	go func() { defer close(done); e.h.ServeHTTP(rw, req) }()
	select {
	case <-done:
	case <-time.After(10 * time.Second):
		return -1, "timeout"
	}
	return rw.Code, rw.Body.String()
}

// wellFormedThrottle is the oracle's own reading of a throttle byte range: "<start>-<end>" with either
// side optional, decimal digits, start < end.  ok=false: malformed.
var thrRe = regexp.MustCompile(`^(\+?[0-9]{0,18})-(\+?[0-9]{0,18})$`)

func wellFormedThrottle(s string) (int64, int64, bool) {
	m := thrRe.FindStringSubmatch(s)
	if m == nil || m[1] == "+" || m[2] == "+" {
		return 0, 0, false
	}
	var st, en int64 = 0, -1
	if m[1] != "" {
		st, _ = strconv.ParseInt(m[1], 10, 64)
	}
	if m[2] != "" {
		en, _ = strconv.ParseInt(m[2], 10, 64)
		if en <= st {
			return 0, 0, false
		}
	}
	return st, en, true
}

// mustReject is the property's own list of invalid configurations (it does not try to list every
// reason the code may have; it only says which configurations MUST be refused).
func mustReject(shapes []rawShape, def []int64) string {
	if def != nil && (def[0] < 0 || def[1] < 0 || def[2] < 0) {
		return "negative default"
	}
	for _, s := range shapes {
		if s.null {
			continue
		}
		if s.regexID == "bad" {
			return "invalid pattern"
		}
		if s.maxbw < 0 {
			return "negative max bandwidth"
		}
		type iv struct{ s, e int64 }
		var ivs []iv
		for _, t := range s.thr {
			if t[0] == "nil" {
				continue
			}
			st, en, ok := wellFormedThrottle(t[0])
			if !ok {
				return "malformed throttle " + t[0]
			}
			if bw, _ := strconv.ParseInt(t[1], 10, 64); bw < 0 {
				return "negative throttle bandwidth"
			}
			ivs = append(ivs, iv{st, en})
		}
		for i := range ivs {
			for j := range ivs {
				if i == j {
					continue
				}
				a, b := ivs[i], ivs[j]
				ae, be := a.e, b.e
				if ae == -1 {
					ae = 1 << 62
				}
				if be == -1 {
					be = 1 << 62
				}
				if a.s < be && b.s < ae {
					return "overlapping throttles"
				}
			}
		}
		for _, h := range s.halts {
			if h != nil && (h[0] < 0 || h[1] < 0) {
				return "negative halt"
			}
		}
		for _, c := range s.closes {
			if c != nil && c[0] < 0 {
				return "negative close offset"
			}
		}
	}
	return ""
}

func (e *ex) doConfig(toks []string) core.Result {
	body, shapes, def, ok := buildConfig(toks)
	if !ok {
		return core.Result{Impl: "bad-op"}
	}
	if e.pendCfg != nil {
		return core.Result{Impl: "bad-op"}
	}
	code, rb := e.post(body)
	return e.configured(code, rb, body, shapes, def)
}

// configured judges the answer of the shaping endpoint and updates the oracle's view.
func (e *ex) configured(code int, rb, body string, shapes []rawShape, def []int64) core.Result {
	if code == -1 {
		return fail("hang", "ServeHTTP did not return")
	}
	why := mustReject(shapes, def)
	if code == 200 {
		if why != "" {
			return fail("c18:invalid-config-accepted", "configuration accepted although it has %s: %s", why, body)
		}
		if rb != body {
			return fail("c18:config-echo", "200 response does not echo the configuration")
		}
		core.Count("config:accepted")
		// the oracle's reading of the accepted configuration
		e.gen++
		if len(e.cfg) > 0 {
			e.replaced++
		}
		e.cfg = map[string]*oShape{}
		n := 0
		for _, s := range shapes {
			if s.null {
				continue
			}
			n++
			os := &oShape{bounds: map[int64]bool{}}
			for _, h := range s.halts {
				if h != nil {
					os.halts = append(os.halts, &oAct{byt: h[0], dur: h[1], rem: h[2]})
				}
			}
			for _, c := range s.closes {
				if c != nil {
					os.closes = append(os.closes, &oAct{byt: c[0], rem: c[1]})
				}
			}
			for _, t := range s.thr {
				st, en, _ := wellFormedThrottle(t[0])
				os.bounds[st] = true
				os.bounds[en] = true
				bw, _ := strconv.ParseInt(t[1], 10, 64)
				os.thr = append(os.thr, [3]int64{st, en, bw})
			}
			e.cfg[s.regexID] = os
		}
		e.cfgLoops += n
		e.collect(e.tsl)
		e.latency = 0
		if def != nil {
			e.latency = def[2]
		}
		// "an accepted configuration applies (in full) to connections accepted afterwards": whatever was
		// posted before - also this very body - the active shapes are now exactly the posted ones with
		// their posted counts
		d := e.settle()
		for id, os := range e.cfg {
			var want []string
			for _, h := range os.halts {
				want = append(want, strconv.FormatInt(h.rem, 10))
			}
			for _, c := range os.closes {
				want = append(want, strconv.FormatInt(c.rem, 10))
			}
			w := "-"
			if len(want) > 0 {
				w = strings.Join(want, ",")
			}
			if got := e.counts(id); got != w {
				r := fail("c18:accepted-config-not-installed", "the configuration was accepted (200) but the active shape %s has the action counts %s, posted were %s (history: %d configurations accepted before, %d bucket goroutines started instead of %d): %s",
					id, got, w, e.gen-1, n+d, n, body)
				r.Impl = "accepted"
				return r
			}
		}
		if d != 0 {
			return fail("c18:leak:accept-extra-goroutines", "accepting a configuration with %d shapes started %d bucket goroutines", n, n+d)
		}
		return core.Result{Impl: "accepted"}
	}
	if code != 400 {
		return fail("c18:config-status", "unexpected status %d", code)
	}
	cl := classify(rb)
	core.Count("config:rejected:" + strings.Fields(cl)[0])
	if d := e.settle(); d != 0 {
		return core.Result{Impl: "rejected " + cl, Sig: "c18:leak:rejected-config-bucket",
			Fail: fmt.Sprintf("a rejected configuration (%s) left %d bucket drain goroutine(s) running: %s", cl, d, body)}
	}
	return core.Result{Impl: "rejected " + cl}
}

func (e *ex) doConfigRaw(h string) core.Result {
	b, ok := core.Unhex(h)
	if !ok {
		return core.Result{Impl: "bad-op"}
	}
	code, _ := e.post(string(b))
	core.Count("configraw")
	if code != 400 {
		return core.Result{SkipModel: true, Impl: "fail", Sig: "c18:malformed-config-accepted", Fail: fmt.Sprintf("malformed body answered %d: %q", code, b)}
	}
	if d := e.settle(); d != 0 {
		return core.Result{SkipModel: true, Impl: "fail", Sig: "c18:leak:rejected-config-bucket", Fail: "a malformed body left bucket goroutines running"}
	}
	return core.Result{SkipModel: true, Impl: "rejected"}
}

// ---- connections ----

func (e *ex) doConn(id string) core.Result {
	if _, dup := e.conns[id]; dup {
		return core.Result{Impl: "bad-op"}
	}
	rec := &recConn{}
	c := e.tsl.GetTrafficShapedConn(rec)
	cs := &cstate{c: c, rec: rec, gen: e.gen, nLocal: len(c.LocalBuckets), lat: e.latency}
	e.conns[id] = cs
	e.order = append(e.order, id)
	var keys []string
	for re, b := range c.LocalBuckets {
		k, ok := idOfRegex[re]
		if !ok {
			k = "?"
		}
		keys = append(keys, fmt.Sprintf("%s:%d", k, b.WriteBucket.Capacity()))
	}
	sort.Strings(keys)
	core.Count("conn")
	if len(keys) == 0 {
		return core.Result{Impl: "conn -"}
	}
	return core.Result{Impl: "conn " + strings.Join(keys, ",")}
}

// setContext is what Proxy.handle does between the response modifiers and res.Write (proxy.go,
// "check if conn is a traffic shaped connection"), with the URL string, the range start and the
// dumped head length supplied by the case.
func setContext(c *trafficshape.Conn, url string, rangeStart, headerLen int64) {
	c.Context = &trafficshape.Context{}
	for urlregex, buckets := range c.LocalBuckets {
		if match, _ := regexp.MatchString(urlregex, url); match {
			if rangeStart > -1 {
				c.Context = &trafficshape.Context{
					Shaping:            true,
					Buckets:            buckets,
					GlobalBucket:       c.GlobalBuckets[urlregex],
					URLRegex:           urlregex,
					RangeStart:         rangeStart,
					ByteOffset:         rangeStart,
					HeaderLen:          headerLen,
					HeaderBytesWritten: 0,
				}
				c.Context.NextActionInfo = c.GetNextActionFromByte(rangeStart)
				c.Context.ThrottleContext = c.GetCurrentThrottle(rangeStart)
				if c.Context.ThrottleContext.ThrottleNow {
					c.Context.Buckets.WriteBucket.SetCapacity(c.Context.ThrottleContext.Bandwidth)
				}
			}
			break
		}
	}
}

func nextStr(n *trafficshape.NextActionInfo) string {
	if n == nil || !n.ActionNext {
		return "none"
	}
	return fmt.Sprintf("%d@%d", n.Index, n.ByteOffset)
}

// useFast swaps in small real buckets that drain every 200µs: f = - | <n> | <n>/<g> | -/<g>.  n is the
// capacity of the connection's own write bucket, g the capacity of the bucket SHARED by every
// connection of the shape (max_global_bandwidth), so that the two capacities are independent, the
// shared bucket is partly used by whoever wrote last, and no wall-clock seconds are needed.
func (e *ex) useFast(c *trafficshape.Conn, f string) {
	if f == "-" || !c.Context.Shaping {
		return
	}
	nS, gS := f, ""
	if i := strings.IndexByte(f, '/'); i >= 0 {
		nS, gS = f[:i], f[i+1:]
	}
	if nS != "-" {
		n, _ := strconv.ParseInt(nS, 10, 64)
		if n < 1 {
			n = 1
		}
		b := trafficshape.NewBucket(n, 200*time.Microsecond)
		e.extra = append(e.extra, b)
		c.Context.Buckets = &trafficshape.Buckets{ReadBucket: c.Context.Buckets.ReadBucket, WriteBucket: b}
	}
	if gS != "" {
		g, _ := strconv.ParseInt(gS, 10, 64)
		c.Context.GlobalBucket = e.sharedFast(c.Context.URLRegex, g)
		core.Count("ctx:shared-bucket-limited")
	}
}

// sharedFast: one small fast-draining bucket per pattern and case, shared by all its connections.
func (e *ex) sharedFast(regex string, g int64) *trafficshape.Bucket {
	if g < 1 {
		g = 1
	}
	if e.gfast == nil {
		e.gfast = map[string]*trafficshape.Bucket{}
	}
	b, ok := e.gfast[regex]
	if !ok {
		b = trafficshape.NewBucket(g, 200*time.Microsecond)
		e.gfast[regex] = b
	} else if b.Capacity() != g {
		b.SetCapacity(g)
	}
	return b
}

func (e *ex) doCtx(id, u, rsS, hlS, f string) core.Result {
	cs, ok := e.conns[id]
	url, ok2 := urlOf[u]
	rs, err1 := strconv.ParseInt(rsS, 10, 64)
	hl, err2 := strconv.ParseInt(hlS, 10, 64)
	if !ok || !ok2 || err1 != nil || err2 != nil || cs.closed || hl < 0 || rs < -1 || cs.pend != nil || cs.client != nil {
		return core.Result{Impl: "bad-op"}
	}
	setContext(cs.c, url, rs, hl)
	e.useFast(cs.c, f)
	ctx := cs.c.Context
	mop := "" // the model's adversary stands for both buckets: it is not told the shared capacity
	if i := strings.IndexByte(f, '/'); i >= 0 {
		mop = fmt.Sprintf("ctx %s %s %s %s %s", id, u, rsS, hlS, f[:i])
	}
	// oracle bookkeeping: is this response expected to be shaped at all?
	r := &resp{rs: rs, hl: hl, headLeft: hl, pos: rs, gen: e.gen}
	if os, has := e.cfg[u]; has && cs.gen == e.gen && rs > -1 {
		r.shaped, r.regex, r.os = true, u, os
	}
	cs.resp = r
	if !ctx.Shaping {
		core.Count("ctx:unshaped")
		if r.shaped {
			return fail("c18:matching-url-not-shaped", "URL %s matches shape %s of the configuration the connection was accepted under, but no shaping context was set", url, u)
		}
		return core.Result{Impl: "ctx shaping=0", ModelOp: mop}
	}
	core.Count("ctx:shaped")
	thr := "none"
	if ctx.ThrottleContext != nil && ctx.ThrottleContext.ThrottleNow {
		thr = strconv.FormatInt(ctx.ThrottleContext.Bandwidth, 10)
	}
	res := core.Result{Impl: fmt.Sprintf("ctx shaping=1 regex=%s next=%s thr=%s cap=%d", idOfRegex[ctx.URLRegex], nextStr(ctx.NextActionInfo), thr,
		ctx.Buckets.WriteBucket.Capacity()), ModelOp: mop}
	if r.shaped {
		if sig, msg := throttleAtStart(r.os, rs, ctx); sig != "" {
			res.Sig, res.Fail = sig, fmt.Sprintf("conn %s, URL %s: %s", id, url, msg)
		}
	}
	return res
}

// throttleAtStart is the property's reading of "throttles apply": a response that starts at body offset
// rs inside a configured throttle interval [start, end) - whatever the order the throttles were posted
// in - is written under that throttle's bandwidth from its first body byte on, and a response that
// starts outside every interval under none.
func throttleAtStart(os *oShape, rs int64, ctx *trafficshape.Context) (string, string) {
	if os == nil || ctx == nil || ctx.ThrottleContext == nil {
		return "", ""
	}
	var want int64 = -1
	for _, t := range os.thr {
		if t[0] <= rs && (t[1] == -1 || rs < t[1]) {
			want = t[2]
		}
	}
	got := int64(-1)
	if ctx.ThrottleContext.ThrottleNow {
		got = ctx.ThrottleContext.Bandwidth
	}
	switch {
	case want >= 0 && got != want:
		core.Count("ctx:starts-inside-throttle")
		return "c18:throttle-not-applied", fmt.Sprintf("the response starts at body offset %d, inside the configured throttle of %d B/s, but the write context has throttle %d (-1 = none): its bytes go out without the configured delay", rs, want, got)
	case want >= 0:
		core.Count("ctx:starts-inside-throttle")
	case got >= 0:
		return "c18:throttle-outside-interval", fmt.Sprintf("the response starts at body offset %d, outside every configured throttle interval, but is throttled to %d B/s", rs, got)
	}
	return "", ""
}

func (e *ex) counts(regexID string) string {
	e.tsl.Shapes.RLock()
	defer e.tsl.Shapes.RUnlock()
	us, ok := e.tsl.Shapes.M[regexOf[regexID]]
	if !ok {
		return "-"
	}
	var out []string
	for _, h := range us.Shape.Halts {
		out = append(out, strconv.FormatInt(h.Count, 10))
	}
	for _, c := range us.Shape.CloseConnections {
		out = append(out, strconv.FormatInt(c.Count, 10))
	}
	if len(out) == 0 {
		return "-"
	}
	return strings.Join(out, ",")
}

func isPrefix(p, s []byte) bool { return len(p) <= len(s) && string(s[:len(p)]) == string(p) }

func (e *ex) doWrite(id, hx string) core.Result {
	cs, ok := e.conns[id]
	data, ok2 := core.Unhex(hx)
	if !ok || !ok2 || cs.closed || cs.pend != nil || cs.client != nil || e.nParked > 0 {
		return core.Result{Impl: "bad-op"}
	}
	theHook.take()
	before := len(cs.rec.snapshot())
	t0 := time.Now()
	n, err := cs.c.Write(data)
	el := time.Since(t0)
	if cs.rec.struck() {
		return e.writeFaulted(id, cs, data, cs.rec.snapshot()[before:], n, err)
	}
	return e.wrote(id, cs, data, cs.rec.snapshot()[before:], n, err, el, -1, "w", true)
}

// wrote reports one finished Conn.Write (or one whole response of the end-to-end tier) and judges it.
// delta = what the client side received for it; reconfAt >= 0: a configuration was accepted while
// this call had delivered reconfAt bytes (interleaved histories); tag/withBytes select the line format.
func (e *ex) wrote(id string, cs *cstate, data, delta []byte, n int, err error, el time.Duration, reconfAt int64, tag string, withBytes bool) core.Result {
	evs := theHook.take()
	cs.written = append(cs.written, data...)
	st := "ok"
	if err != nil {
		if _, fc := err.(*trafficshape.ErrForceClose); fc {
			st = "close"
		} else {
			st = "err"
		}
	}
	core.Count("write:" + st)
	ctx := cs.c.Context
	sh := 0
	capS, rid := "-", "-"
	if ctx.Shaping {
		sh = 1
		capS = strconv.FormatInt(ctx.Buckets.WriteBucket.Capacity(), 10)
	}
	if ctx.URLRegex != "" {
		rid = idOfRegex[ctx.URLRegex]
	}
	ev := "-"
	if len(evs) > 0 {
		ev = strings.Join(evs, ",")
		for _, x := range evs {
			core.Count("event:" + x[:1])
		}
	}
	cnt := "-"
	if rid != "-" {
		cnt = e.counts(rid)
	}
	dS := ""
	if withBytes {
		dS = " d=" + core.Hex(delta)
	}
	impl := fmt.Sprintf("%s n=%d st=%s%s off=%d hw=%d next=%s shaping=%d cap=%s ev=%s counts=%s", tag, n, st, dS,
		ctx.ByteOffset, ctx.HeaderBytesWritten, nextStr(ctx.NextActionInfo), sh, capS, ev, cnt)
	res := core.Result{Impl: impl}
	bad := func(sig, format string, a ...interface{}) core.Result {
		res.Sig, res.Fail = sig, fmt.Sprintf(format, a...)
		return res
	}

	// ---- the property, stated over what the client side of the connection received ----
	if st == "close" {
		defer func() { cs.cut = true }()
	}
	if cs.rec != nil {
		if all := cs.rec.snapshot(); !cs.cut && !isPrefix(all, cs.written) {
			return bad("c18:bytes-altered", "received bytes are not a prefix of the written bytes (conn %s): wrote %s, received %s", id, brief(cs.written), brief(all))
		}
	}
	if len(delta) > len(data) || string(delta) != string(data[:len(delta)]) || n != len(delta) {
		return bad("c18:bytes-altered", "this write delivered %s (n=%d) which is not a prefix of its data %s", brief(delta), n, brief(data))
	}
	if st == "err" {
		return bad("c18:write-error", "Write failed with %v", err)
	}
	r := cs.resp
	if r == nil {
		r = &resp{}
	}
	// split this write into head part and body part as the property counts them
	hp := int64(len(data))
	if hp > r.headLeft {
		hp = r.headLeft
	}
	bodyLen := int64(len(data)) - hp
	dHead := int64(len(delta))
	if dHead > hp {
		dHead = hp
	}
	dBody := int64(len(delta)) - dHead
	posBefore := r.pos
	r.headLeft -= dHead
	r.pos += dBody
	var want time.Duration
	if !cs.firstDone && cs.lat > 0 {
		want = time.Duration(cs.lat) * time.Millisecond
		core.Count("latency-measured")
		if el < want {
			return bad("c18:delay-too-short", "first write took %v, configured latency is %v", el, want)
		}
	}
	cs.firstDone = true
	if r.closedByRule {
		return res
	}
	if !r.shaped {
		if st != "ok" || len(delta) != len(data) || len(evs) != 0 {
			return bad("c18:action-on-unmatched", "a response that no current shape applies to (conn %s, gen %d/%d) was cut, or actions ran: st=%s ev=%s", id, cs.gen, e.gen, st, ev)
		}
		return res
	}
	os := r.os
	// A configuration accepted after the response began (between two writes, or while this write was
	// parked): from body position `limit` on the old shape need not act any more, and the new
	// configuration must not act on this older connection at all.
	limit := int64(1) << 62
	if r.gen != e.gen {
		// between two writes: nothing of this write is owed to the old shape; parked at d bytes of this
		// call: the actions at body offsets up to (and including) the park position had been performed
		limit = posBefore - 1
		if reconfAt >= hp {
			limit = posBefore + reconfAt - hp
		}
		core.Count("write:across-reconfiguration")
		for _, x := range evs {
			k, perr := strconv.ParseInt(x[strings.LastIndex(x, "@")+1:], 10, 64)
			if perr == nil && !os.actsAt(k) {
				return bad("c18:action-on-older-conn", "conn %s was accepted under configuration %d; after configuration %d was accepted it performed %s, which is no action of its own shape", id, r.gen, e.gen, x)
			}
		}
	}
	active := func(lo, hi int64) *oAct { // first active close with lo <= byte < hi
		var best *oAct
		for _, c := range os.closes {
			if c.rem != 0 && c.byt >= r.rs && c.byt >= lo && c.byt < hi && (best == nil || c.byt < best.byt) {
				best = c
			}
		}
		return best
	}
	switch st {
	case "close":
		if dHead != hp {
			return bad("c18:close-in-head", "connection closed inside the response head")
		}
		var hit *oAct
		for _, c := range os.closes {
			if c.rem != 0 && c.byt == r.pos && c.byt >= r.rs {
				hit = c
				break
			}
		}
		if hit == nil {
			if r.gen != e.gen {
				return bad("c18:action-on-older-conn", "conn %s (configuration %d) was closed after body offset %d, where only configuration %d has a close action", id, r.gen, r.pos, e.gen)
			}
			return bad("c18:close-at-wrong-offset", "closed after body offset %d (range start %d) where no active close action is configured", r.pos, r.rs)
		}
		if hi := r.pos; true {
			if hi > limit+1 {
				hi = limit + 1
			}
			if sk := active(posBefore, hi); sk != nil && sk.byt < r.pos {
				return bad("c18:close-skipped", "active close action at offset %d was passed; closed only at %d", sk.byt, r.pos)
			}
		}
		if hit.rem > 0 {
			hit.rem--
		}
		r.closedByRule = true
		// the proxy closes a connection whose write failed; so does the harness
		if cs.client == nil {
			cs.c.Close()
			cs.closed = true
			if d := e.settle(); d != 0 {
				return bad("c18:leak:conn-local-buckets", "closing the cut connection (%d per-shape bucket pairs) left %d drain goroutines running", cs.nLocal, d)
			}
		}
	case "ok":
		if len(delta) != len(data) {
			return bad("c18:short-write", "Write returned no error but delivered %d of %d bytes", len(delta), len(data))
		}
		if bodyLen > 0 {
			hi := r.pos
			if hi > limit+1 {
				hi = limit + 1
			}
			if sk := active(posBefore, hi); sk != nil && sk.byt < r.pos && (sk.byt > posBefore || posBefore == r.rs) {
				return bad("c18:close-skipped", "active close action at offset %d (range start %d) did not close; body offsets %d..%d were delivered", sk.byt, r.rs, posBefore, r.pos)
			}
			if c := active(r.pos, r.pos+1); c != nil && r.pos <= limit {
				shared := os.bounds[c.byt]
				for _, h := range os.halts {
					if h.byt == c.byt {
						shared = true
					}
				}
				for _, c2 := range os.closes {
					if c2 != c && c2.byt == c.byt {
						shared = true
					}
				}
				if !shared {
					return bad("c18:close-skipped", "all body bytes before offset %d were delivered but the connection was not closed", c.byt)
				}
			}
		}
	}
	// delays (measurement): latency once per connection, infinite-count halts strictly inside the written span
	for _, h := range os.halts {
		if h.rem == -1 && h.byt > posBefore && h.byt < r.pos && h.byt >= r.rs && h.byt <= limit {
			want += time.Duration(h.dur) * time.Millisecond
		}
	}
	if want > 0 {
		core.Count("delay-measured")
		if el < want {
			return bad("c18:delay-too-short", "write took %v, configured delays sum to %v", el, want)
		}
	}
	// throttles (measurement): B body bytes inside a throttle interval of bandwidth bw need at least
	// ceil(B/bw) fills of the connection's own bucket; the first may be cut short by the drain phase and
	// the last needs no wait, hence -2 intervals, and one more for tolerance
	if cs.tick > 0 && r.gen == e.gen && st == "ok" {
		var tw time.Duration
		for _, t := range os.thr {
			lo, hi := posBefore, r.pos
			if t[0] > lo {
				lo = t[0]
			}
			if t[1] >= 0 && t[1] < hi {
				hi = t[1]
			}
			if t[2] > 0 && hi-lo >= 4*t[2] {
				tw += time.Duration((hi-lo+t[2]-1)/t[2]-3) * cs.tick
			}
		}
		if tw > 0 {
			core.Count("throttle-measured")
			core.Notes["throttle-measurement"] = fmt.Sprintf("%d body bytes took %v (lower bound used %v, bucket interval %v)", r.pos-posBefore, el, want+tw, cs.tick)
			if el < want+tw {
				return bad("c18:throttle-too-fast", "%d body bytes (offsets %d..%d) arrived in %v; the throttles of the shape allow them no sooner than %v (bucket interval %v)",
					r.pos-posBefore, posBefore, r.pos, el, want+tw, cs.tick)
			}
		}
	}
	return res
}

func brief(b []byte) string {
	if len(b) <= 48 {
		return fmt.Sprintf("%x", b)
	}
	return fmt.Sprintf("%x…(%d bytes)…%x", b[:16], len(b), b[len(b)-16:])
}

// actsAt: does the shape have any action (halt, close, throttle boundary) at body offset k?
func (o *oShape) actsAt(k int64) bool {
	if o == nil {
		return false
	}
	if o.bounds[k] {
		return true
	}
	for _, h := range o.halts {
		if h.byt == k {
			return true
		}
	}
	for _, c := range o.closes {
		if c.byt == k {
			return true
		}
	}
	return false
}

func (e *ex) doClose(id string) core.Result {
	cs, ok := e.conns[id]
	if !ok || cs.closed || cs.pend != nil || cs.client != nil {
		return core.Result{Impl: "bad-op"}
	}
	cerr := cs.c.Close()
	cs.closed = true
	if cerr != nil {
		core.Count("close:wrapped-conn-reported-error")
	}
	if d := e.settle(); d != 0 {
		return core.Result{Impl: "closed", Sig: "c18:leak:conn-local-buckets",
			Fail: fmt.Sprintf("closing a shaped connection with %d per-shape bucket pairs (Close returned %v) left %d of its %d drain goroutines running", cs.nLocal, cerr, d, 2*cs.nLocal)}
	}
	if !cs.rec.closed {
		return core.Result{Impl: "closed", Sig: "c18:inner-not-closed", Fail: "Conn.Close did not close the wrapped connection"}
	}
	return core.Result{Impl: "closed"}
}

func (e *ex) doLeak(strict bool) core.Result {
	r := core.Result{SkipModel: true, Impl: "leak ok"}
	e.closeAll()
	// what must be gone: the local buckets of every open connection, the listener's two buckets and the harness' own fast buckets
	d := e.settle()
	left := e.cfgLoops + d
	core.Count("leak-check")
	switch {
	case d != 0:
		r.Sig = "c18:leak:conn-local-buckets"
		r.Fail = fmt.Sprintf("after closing every connection and the listener %d bucket drain goroutines remain; %d belong to accepted configurations, %d to closed connections or rejected configurations",
			left, e.cfgLoops, d)
	case left > 0 && strict:
		r.Sig = "c18:leak:config-global-bucket"
		r.Fail = fmt.Sprintf("%d global shape buckets of accepted configurations (%d replaced) still drain after every connection and the listener were closed", left, e.replaced)
	case left > 0:
		core.Count("leak:config-global-bucket(tolerated outside strict cases)")
	}
	return r
}
