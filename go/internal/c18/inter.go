package c18

// Interleaved histories: a configuration request that is accepted (or refused) while a Conn.Write is
// between two rounds of its loop, and connections accepted while a configuration request is still
// being uploaded.  Both interleaving points are made deterministic from the outside: the inner
// net.Conn parks an inner write, the request body parks a Read.

import (
	"fmt"
	"io"
	"net/http/httptest"
	"strconv"
	"strings"
	"time"

	"verif/harness/internal/core"
)

type writeDone struct {
	n   int
	err error
	pan interface{}
}

type pendingWrite struct {
	data    []byte
	before  int
	t0      time.Time
	done    chan writeDone
	release chan struct{}
	d       int // bytes of this call delivered when it parked
	gen     int // accepted configurations when it parked
}

const parkWait = 20 * time.Second

// doWStart: Conn.Write in the background; the inner conn blocks the first inner write that begins
// once >= p bytes of this call are out.  While it is parked the writer holds the mutexes of its
// local and global buckets, exactly like a writer that is slow on the wire.
func (e *ex) doWStart(id, hx, pS string) core.Result {
	cs, ok := e.conns[id]
	data, ok2 := core.Unhex(hx)
	p, err := strconv.Atoi(pS)
	if !ok || !ok2 || err != nil || p < 0 || len(data) == 0 || cs.closed || cs.pend != nil || cs.client != nil || e.nParked > 0 || cs.rec.armed {
		return core.Result{Impl: "bad-op"}
	}
	theHook.take()
	pw := &pendingWrite{data: data, done: make(chan writeDone, 1), release: make(chan struct{}), gen: e.gen}
	parked := make(chan int, 1)
	cs.rec.mu.Lock()
	pw.before = len(cs.rec.buf)
	cs.rec.base, cs.rec.parkAt, cs.rec.parked, cs.rec.release = pw.before, p, parked, pw.release
	cs.rec.mu.Unlock()
	pw.t0 = time.Now()
	go func() {
		var wd writeDone
		defer func() {
			if x := recover(); x != nil {
				wd.pan = x
			}
			pw.done <- wd
		}()
		wd.n, wd.err = cs.c.Write(data)
	}()
	select {
	case d := <-parked:
		pw.d = d
		cs.pend = pw
		e.nParked++
		core.Count("wstart:parked")
		return core.Result{Impl: fmt.Sprintf("parked d=%d", d), ModelOp: fmt.Sprintf("wstart %s %s %d %d", id, hx, p, d)}
	case wd := <-pw.done:
		// finished without reaching the park position
		cs.rec.mu.Lock()
		cs.rec.parked = nil
		cs.rec.mu.Unlock()
		if wd.pan != nil {
			panic(wd.pan)
		}
		core.Count("wstart:finished")
		r := e.wrote(id, cs, data, cs.rec.snapshot()[pw.before:], wd.n, wd.err, time.Since(pw.t0), -1, "w", true)
		r.ModelOp = fmt.Sprintf("wstart %s %s %d -", id, hx, p)
		return r
	case <-time.After(parkWait):
		return core.Result{Impl: "hang", Sig: "hang", Fail: "Conn.Write neither parked nor returned"}
	}
}

func (e *ex) doWEnd(id string) core.Result {
	cs, ok := e.conns[id]
	if !ok || cs.pend == nil {
		return core.Result{Impl: "bad-op"}
	}
	pw := cs.pend
	cs.pend = nil
	e.nParked--
	close(pw.release)
	select {
	case wd := <-pw.done:
		if wd.pan != nil {
			panic(wd.pan)
		}
		reconf := int64(-1)
		if e.gen != pw.gen {
			reconf = int64(pw.d)
			core.Count("wend:reconfigured-while-parked")
		}
		return e.wrote(id, cs, pw.data, cs.rec.snapshot()[pw.before:], wd.n, wd.err, time.Since(pw.t0), reconf, "w", true)
	case <-time.After(parkWait):
		return core.Result{Impl: "hang", Sig: "hang", Fail: "released Conn.Write did not return"}
	}
}

// ---- a configuration request whose upload stalls half-way ----

type stallReader struct {
	first, rest string
	parked      chan struct{}
	release     chan struct{}
	state       int
}

func (s *stallReader) Read(p []byte) (int, error) {
	switch {
	case s.state == 0 && len(s.first) > 0:
		n := copy(p, s.first)
		s.first = s.first[n:]
		return n, nil
	case s.state == 0:
		s.state = 1
		close(s.parked)
		<-s.release
		fallthrough
	default:
		if len(s.rest) == 0 {
			return 0, io.EOF
		}
		n := copy(p, s.rest)
		s.rest = s.rest[n:]
		return n, nil
	}
}

type pendingConfig struct {
	toks   []string
	body   string
	shapes []rawShape
	def    []int64
	rw     *httptest.ResponseRecorder
	done   chan interface{}
	sr     *stallReader
}

func (e *ex) doCfgStart(toks []string) core.Result {
	body, shapes, def, ok := buildConfig(toks)
	if !ok || e.pendCfg != nil {
		return core.Result{Impl: "bad-op"}
	}
	sr := &stallReader{first: body[:len(body)/2], rest: body[len(body)/2:], parked: make(chan struct{}), release: make(chan struct{})}
	pc := &pendingConfig{toks: toks, body: body, shapes: shapes, def: def, rw: httptest.NewRecorder(), done: make(chan interface{}, 1), sr: sr}
	req := httptest.NewRequest("POST", "http://martian.proxy/shape-traffic", sr)
	go func() {
		defer func() { pc.done <- recover() }()
		e.h.ServeHTTP(pc.rw, req)
	}()
	select {
	case <-sr.parked:
	case x := <-pc.done:
		if x != nil {
			panic(x)
		}
		return fail("c18:config-before-body", "the shaping endpoint answered %d before the request body was complete", pc.rw.Code)
	case <-time.After(parkWait):
		return core.Result{Impl: "hang", Sig: "hang", Fail: "ServeHTTP neither read the body nor returned"}
	}
	e.pendCfg = pc
	core.Count("cfgstart")
	return core.Result{Impl: "cfg-pending", ModelOp: "cfgstart"}
}

func (e *ex) doCfgEnd() core.Result {
	pc := e.pendCfg
	if pc == nil {
		return core.Result{Impl: "bad-op"}
	}
	e.pendCfg = nil
	close(pc.sr.release)
	select {
	case x := <-pc.done:
		if x != nil {
			panic(x)
		}
	case <-time.After(parkWait):
		return core.Result{Impl: "hang", Sig: "hang", Fail: "ServeHTTP did not return after the body was complete"}
	}
	r := e.configured(pc.rw.Code, pc.rw.Body.String(), pc.body, pc.shapes, pc.def)
	r.ModelOp = "cfgend " + strings.Join(pc.toks, " ")
	return r
}

// abortPending releases whatever is still parked at the end of a case (generated cases always end
// their own; a shrunk case may not).
func (e *ex) abortPending() {
	if pc := e.pendCfg; pc != nil {
		e.pendCfg = nil
		close(pc.sr.release)
		select {
		case <-pc.done:
		case <-time.After(2 * time.Second):
		}
		if pc.rw.Code == 200 && e.tsl != nil { // accounted like any accepted configuration
			e.collect(e.tsl)
			for _, sh := range pc.shapes {
				if !sh.null {
					e.cfgLoops++
				}
			}
		}
	}
	for _, id := range e.order {
		cs := e.conns[id]
		if cs.pend != nil {
			close(cs.pend.release)
			select {
			case <-cs.pend.done:
			case <-time.After(2 * time.Second):
			}
			cs.pend = nil
		}
	}
	e.nParked = 0
}
