// Package c09: HTTP/2 relay flow control (shares the harness in internal/h2relay with C08).
package c09

import (
	"regexp"
	"strings"

	"verif/harness/internal/core"
	"verif/harness/internal/h2relay"
)

type P struct{}

func init() { core.Register(P{}) }

func (P) ID() string { return "C09" }
func (P) Rule() string {
	return "case = one two-way session of 1..6 interleaved streams, each message with 1..4 DATA frames of 0..70000 bytes (a third padded " +
		"with 0/1/10/255 bytes; one case in four with a response body above 65535 octets whose receiver granted the stream window before the " +
		"first response frame), fed frame by frame into the two real relays through the verif hook and interleaved with receiver-side " +
		"SETTINGS as LISTS (an identifier up to three times - the last value counts -, unknown identifiers, any order; INITIAL_WINDOW_SIZE " +
		"0/1/2/9/10/1000/16384/65535/65536/100000/2^31-1, MAX_FRAME_SIZE 16384..2^24-1 with a non-decreasing final value, " +
		"HEADER_TABLE_SIZE) and stream/connection WINDOW_UPDATEs of 1..2^31-1, also for streams on which nothing has travelled towards the " +
		"grantor yet; every line (frames delivered to each endpoint, both relays' windows and queues) is compared with the Lean model; " +
		"distinct by hash of the op list; non-trivial when some frame waited in an output queue and a WINDOW_UPDATE or SETTINGS released at " +
		"least one queued DATA frame"
}

var queued = regexp.MustCompile(`:-?\d+:[dhupr]\d`)

func (P) Nontrivial(ops []string, impl []string) bool {
	waited, released := false, false
	for i, l := range impl {
		if queued.MatchString(l) {
			waited = true
		}
		if i < len(ops) && (strings.HasPrefix(ops[i], "wu ") || strings.HasPrefix(ops[i], "settings ")) && strings.Contains(l, "[D") {
			released = true
		}
	}
	return waited && released
}

func (P) Gen(r *core.Rand, tier string, emit func([]string)) { h2relay.Gen("C09", r, tier, emit) }
func (P) NewExec() core.Exec                                 { return h2relay.NewExec("C09") }
