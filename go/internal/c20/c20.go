// Package c20: Range handling of body.Modifier / static.Modifier and path containment.
package c20

import (
	"bytes"
	"fmt"
	"io"
	"mime"
	"mime/multipart"
	"net/http"
	"net/url"
	"os"
	"path/filepath"
	"regexp"
	"strconv"
	"strings"

	"github.com/google/martian/v3/body"
	"github.com/google/martian/v3/proxyutil"
	"github.com/google/martian/v3/static"

	"verif/harness/internal/core"
	"verif/harness/internal/golib"
)

type P struct{}

func init() { core.Register(P{}) }

func (P) ID() string { return "C20" }
func (P) Rule() string {
	return "case = one content (0..64KiB) with 4-10 Range header strings drawn from a grammar (single, multiple, open-ended, suffix, " +
		"out-of-bounds, reversed, huge, signed, spaced, malformed, mutated) run through body.Modifier and static.Modifier, or a batch of " +
		"request paths (dot segments, doubled slashes, percent-encoded separators, parsed by http.ReadRequest) resolved by static.Modifier " +
		"against a fixture tree with sentinel files outside the root, or a batch of stdlib-model ops; distinct by hash of the op list; " +
		"non-trivial when the case reaches at least two different outcome kinds (full/single/multi/unsat/err, or file/notfound/dir)"
}

func (P) Nontrivial(ops []string, impl []string) bool {
	kinds := map[string]bool{}
	for _, l := range impl {
		f := strings.Fields(l)
		if len(f) > 0 {
			kinds[f[0]] = true
		}
	}
	return len(kinds) >= 2
}

// ---- fixture tree for path resolution ----

type fixture struct {
	tmp   string
	files map[string]string // symbolic absolute path -> content
}

var fixtureFiles = []string{"/T/root/a.txt", "/T/root/sub/b.txt", "/T/root/sub/deep/c.txt", "/T/root/..hidden", "/T/secret.txt", "/T/rootx/d.txt", "/T/root/sub/secret.txt"}

func newFixture() *fixture {
	tmp, err := os.MkdirTemp("/var/tmp", "verif-c20-")
	if err != nil {
		panic(err)
	}
	fx := &fixture{tmp: tmp, files: map[string]string{}}
	for _, f := range fixtureFiles {
		real := filepath.Join(tmp, f)
		os.MkdirAll(filepath.Dir(real), 0o755)
		content := "content-of:" + f
		os.WriteFile(real, []byte(content), 0o644)
		fx.files[f] = content
	}
	return fx
}

type ex struct {
	fx  *fixture
	tmp string
	// several responses in flight from ONE modifier instance (ops hold / drain)
	bodyMods   map[string]*body.Modifier
	staticMod  *static.Modifier
	staticFile map[string]string // content -> file name under tmp
	fileMod    *static.Modifier  // op sfile: one instance, one path, content rewritten between requests
	fileLen    int
	held       []heldRes
}

type heldRes struct {
	res     *http.Response
	err     error
	content []byte
	hdr     string
	hasHdr  bool
}

func (P) NewExec() core.Exec { return &ex{fileLen: -1} }
func (e *ex) Close() {
	if e.fx != nil {
		os.RemoveAll(e.fx.tmp)
	}
	if e.tmp != "" {
		os.RemoveAll(e.tmp)
	}
}

var crRe = regexp.MustCompile(`^bytes (\d+)-(\d+)/(\d+)$`)

// wellFormed is an independent reading of a Range header in the RFC 7233 grammar for
// first-last / first- specs (optional white space only in front of a list element). Suffix
// ranges and anything else are "not in the supported grammar": for those every outcome the
// property allows, and a modifier error (a rejection), is accepted.
var specRe = regexp.MustCompile(`^[ \t]*([0-9]{1,18})-([0-9]{0,18})$`)

type spec struct{ s, e int64 } // e = -1: open-ended

func wellFormed(h string) ([]spec, bool) {
	l := strings.ToLower(h)
	if !strings.HasPrefix(l, "bytes=") {
		return nil, false
	}
	var out []spec
	for _, part := range strings.Split(l[len("bytes="):], ",") {
		m := specRe.FindStringSubmatch(part)
		if m == nil {
			return nil, false
		}
		s, _ := strconv.ParseInt(m[1], 10, 64)
		e := int64(-1)
		if m[2] != "" {
			e, _ = strconv.ParseInt(m[2], 10, 64)
		}
		out = append(out, spec{s, e})
	}
	return out, true
}

type part struct {
	s, e, total int64
	body        []byte
}

func fail(sig, format string, a ...interface{}) core.Result {
	return core.Result{Fail: fmt.Sprintf(format, a...), Sig: sig}
}

// observe canonicalises a modified response and checks internal consistency against content.
func observe(res *http.Response, err error, content []byte) (string, []part, core.Result) {
	if err != nil {
		return "err", nil, core.Result{}
	}
	var bodyBytes []byte
	if res.Body != nil {
		bodyBytes, _ = io.ReadAll(res.Body)
		res.Body.Close()
	}
	switch res.StatusCode {
	case 416:
		return "unsat", nil, core.Result{}
	case 200:
		if !bytes.Equal(bodyBytes, content) {
			return "", nil, fail("c20:full-body-mismatch", "200 body differs from content (%d vs %d bytes)", len(bodyBytes), len(content))
		}
		if res.ContentLength != int64(len(content)) {
			return "", nil, fail("c20:content-length", "200 Content-Length %d for %d bytes", res.ContentLength, len(content))
		}
		return fmt.Sprintf("full %d %s", len(bodyBytes), core.Hex(bodyBytes)), nil, core.Result{}
	case 206:
		ct := res.Header.Get("Content-Type")
		if mt, params, e := mime.ParseMediaType(ct); e == nil && mt == "multipart/byteranges" {
			if res.ContentLength != int64(len(bodyBytes)) {
				return "", nil, fail("c20:content-length", "multipart Content-Length %d for %d bytes", res.ContentLength, len(bodyBytes))
			}
			mr := multipart.NewReader(bytes.NewReader(bodyBytes), params["boundary"])
			var parts []part
			var strs []string
			total := int64(-1)
			for {
				p, e := mr.NextPart()
				if e == io.EOF {
					break
				}
				if e != nil {
					return "", nil, fail("c20:bad-multipart", "multipart body does not parse: %v", e)
				}
				m := crRe.FindStringSubmatch(p.Header.Get("Content-Range"))
				if m == nil {
					return "", nil, fail("c20:bad-content-range", "part Content-Range %q", p.Header.Get("Content-Range"))
				}
				b, _ := io.ReadAll(p)
				s, _ := strconv.ParseInt(m[1], 10, 64)
				en, _ := strconv.ParseInt(m[2], 10, 64)
				t, _ := strconv.ParseInt(m[3], 10, 64)
				total = t
				parts = append(parts, part{s, en, t, b})
				strs = append(strs, fmt.Sprintf("%d-%d:%s", s, en, core.Hex(b)))
			}
			if total < 0 {
				total = int64(len(content))
			}
			ps := "-"
			if len(strs) > 0 {
				ps = strings.Join(strs, ";")
			}
			return fmt.Sprintf("multi %d %s", total, ps), parts, core.Result{}
		}
		m := crRe.FindStringSubmatch(res.Header.Get("Content-Range"))
		if m == nil {
			return "", nil, fail("c20:bad-content-range", "206 Content-Range %q", res.Header.Get("Content-Range"))
		}
		s, _ := strconv.ParseInt(m[1], 10, 64)
		en, _ := strconv.ParseInt(m[2], 10, 64)
		t, _ := strconv.ParseInt(m[3], 10, 64)
		if res.ContentLength != int64(len(bodyBytes)) {
			return "", nil, fail("c20:content-length", "206 Content-Length %d but body has %d bytes", res.ContentLength, len(bodyBytes))
		}
		return fmt.Sprintf("single %d %d %d %s", s, en, t, core.Hex(bodyBytes)), []part{{s, en, t, bodyBytes}}, core.Result{}
	}
	return "", nil, fail("c20:status", "unexpected status %d", res.StatusCode)
}

// oracle: the property stated over the observation, independent of the Lean model.
func oracle(obs string, parts []part, content []byte, hdr string, hasHdr bool) core.Result {
	n := int64(len(content))
	for _, p := range parts {
		if p.total != n {
			return fail("c20:total", "Content-Range total %d, content has %d bytes", p.total, n)
		}
		if p.s < 0 || p.s > p.e || p.e >= n {
			return fail("c20:range-outside-content", "Content-Range %d-%d/%d is not inside the content", p.s, p.e, p.total)
		}
		if !bytes.Equal(p.body, content[p.s:p.e+1]) {
			return fail("c20:partial-body-mismatch", "body of range %d-%d is not content[%d:%d] (%d bytes returned)", p.s, p.e, p.s, p.e+1, len(p.body))
		}
	}
	kind := strings.Fields(obs)[0]
	if !hasHdr || hdr == "" {
		if kind != "full" {
			return fail("c20:no-range-not-full", "no Range header but outcome %s", kind)
		}
		return core.Result{}
	}
	specs, ok := wellFormed(hdr)
	if !ok {
		return core.Result{} // malformed/unsupported syntax: any of full / 206-consistent / 416 / error is accepted
	}
	// well-formed: expected outcome is determined
	var want []spec
	unsat := false
	for _, sp := range specs {
		e := sp.e
		if e < 0 {
			e = n - 1
		}
		if sp.s > e || sp.s >= n {
			unsat = true
			break
		}
		if e >= n {
			e = n - 1
		}
		want = append(want, spec{sp.s, e})
	}
	if unsat {
		if kind != "unsat" {
			return fail("c20:expected-416", "Range %q on %d bytes cannot be satisfied but outcome is %s", hdr, n, kind)
		}
		return core.Result{}
	}
	if kind == "err" || kind == "unsat" || kind == "full" {
		return fail("c20:expected-206", "Range %q on %d bytes is satisfiable but outcome is %s", hdr, n, kind)
	}
	if len(parts) != len(want) {
		return fail("c20:part-count", "Range %q: %d parts returned, %d ranges requested", hdr, len(parts), len(want))
	}
	for i, w := range want {
		if parts[i].s != w.s || parts[i].e != w.e {
			return fail("c20:wrong-range", "Range %q: part %d is %d-%d, requested (clamped) %d-%d", hdr, i, parts[i].s, parts[i].e, w.s, w.e)
		}
	}
	return core.Result{}
}

func (e *ex) Do(op string) core.Result {
	if o, ok := golib.Do(op); ok {
		return core.Result{Impl: o}
	}
	t := strings.Fields(op)
	switch t[0] {
	case "range", "srange":
		content, _ := core.Unhex(t[1])
		hasHdr := t[2] != "none"
		var hdr string
		if hasHdr {
			b, _ := core.Unhex(t[2])
			hdr = string(b)
		}
		req, _ := http.NewRequest("GET", "http://example.com/f.bin", nil)
		if hasHdr {
			req.Header["Range"] = []string{hdr}
		}
		res := proxyutil.NewResponse(200, strings.NewReader("original"), req)
		var err error
		if t[0] == "range" {
			m := body.NewModifier(content, "text/plain")
			err = m.ModifyResponse(res)
		} else {
			if e.tmp == "" {
				e.tmp, _ = os.MkdirTemp("/var/tmp", "verif-c20s-")
			}
			os.WriteFile(filepath.Join(e.tmp, "f.bin"), content, 0o644)
			m := static.NewModifier(e.tmp)
			err = m.ModifyResponse(res)
		}
		obs, parts, r := observe(res, err, content)
		if r.Fail != "" {
			r.Impl = "inconsistent"
			return r
		}
		r = oracle(obs, parts, content, hdr, hasHdr)
		r.Impl = obs
		core.Count("outcome:" + strings.Fields(obs)[0])
		return r
	case "sfile":
		// sfile <content> <hdr>: ONE static.Modifier instance and ONE path per case; the file is rewritten to
		// <content> (its length may change) and requested again. The answer must be about the file as it is now.
		content, _ := core.Unhex(t[1])
		hasHdr := t[2] != "none"
		var hdr string
		if hasHdr {
			b, _ := core.Unhex(t[2])
			hdr = string(b)
		}
		if e.tmp == "" {
			e.tmp, _ = os.MkdirTemp("/var/tmp", "verif-c20s-")
		}
		if e.fileMod == nil {
			e.fileMod = static.NewModifier(e.tmp)
		}
		switch {
		case e.fileLen < 0:
			core.Count("sfile:first")
		case len(content) < e.fileLen:
			core.Count("sfile:shrunk")
		case len(content) > e.fileLen:
			core.Count("sfile:grown")
		default:
			core.Count("sfile:same-length")
		}
		e.fileLen = len(content)
		os.WriteFile(filepath.Join(e.tmp, "served.bin"), content, 0o644)
		req, _ := http.NewRequest("GET", "http://example.com/served.bin", nil)
		if hasHdr {
			req.Header["Range"] = []string{hdr}
		}
		res := proxyutil.NewResponse(200, strings.NewReader("original"), req)
		err := e.fileMod.ModifyResponse(res)
		obs, parts, r := observe(res, err, content)
		if r.Fail != "" {
			r.Impl = "inconsistent"
			return r
		}
		r = oracle(obs, parts, content, hdr, hasHdr)
		r.Impl = obs
		core.Count("outcome:" + strings.Fields(obs)[0])
		return r
	case "hold":
		// hold range|srange <content> <hdr>: the modifier instance of this case answers, nobody reads the body yet
		content, _ := core.Unhex(t[2])
		hasHdr := t[3] != "none"
		var hdr string
		if hasHdr {
			b, _ := core.Unhex(t[3])
			hdr = string(b)
		}
		name := "f.bin"
		if t[1] == "srange" {
			if e.tmp == "" {
				e.tmp, _ = os.MkdirTemp("/var/tmp", "verif-c20s-")
			}
			if e.staticFile == nil {
				e.staticFile = map[string]string{}
				e.staticMod = static.NewModifier(e.tmp)
			}
			n, ok := e.staticFile[t[2]]
			if !ok {
				n = fmt.Sprintf("h%d.bin", len(e.staticFile))
				e.staticFile[t[2]] = n
				os.WriteFile(filepath.Join(e.tmp, n), content, 0o644)
			}
			name = n
		}
		req, _ := http.NewRequest("GET", "http://example.com/"+name, nil)
		if hasHdr {
			req.Header["Range"] = []string{hdr}
		}
		res := proxyutil.NewResponse(200, strings.NewReader("original"), req)
		var err error
		if t[1] == "range" {
			if e.bodyMods == nil {
				e.bodyMods = map[string]*body.Modifier{}
			}
			m := e.bodyMods[t[2]]
			if m == nil {
				m = body.NewModifier(content, "text/plain")
				e.bodyMods[t[2]] = m
			}
			err = m.ModifyResponse(res)
		} else {
			err = e.staticMod.ModifyResponse(res)
		}
		e.held = append(e.held, heldRes{res, err, content, hdr, hasHdr})
		core.Count("hold:" + t[1])
		return core.Result{Impl: "held"}
	case "drain":
		// drain <i,j,k>: read the held bodies in this order; each must be what it would be alone
		if len(e.held) == 0 {
			return core.Result{Impl: "-"}
		}
		out := make([]string, len(e.held))
		var first core.Result
		seen := map[int]bool{}
		var order []int
		for _, x := range strings.Split(t[1], ",") {
			if i, err := strconv.Atoi(x); err == nil && i >= 0 && i < len(e.held) && !seen[i] {
				order = append(order, i)
				seen[i] = true
			}
		}
		for i := range e.held {
			if !seen[i] {
				order = append(order, i)
			}
		}
		for _, i := range order {
			h := e.held[i]
			obs, parts, r := observe(h.res, h.err, h.content)
			if r.Fail == "" {
				r = oracle(obs, parts, h.content, h.hdr, h.hasHdr)
			} else {
				obs = "inconsistent"
			}
			if r.Fail != "" && first.Fail == "" {
				first = core.Result{Fail: fmt.Sprintf("response %d of %d held by one modifier instance, read in order %v: %s", i, len(e.held), order, r.Fail), Sig: r.Sig}
			}
			out[i] = obs
		}
		core.Count(fmt.Sprintf("drain:%d", len(e.held)))
		e.held = nil
		first.Impl = strings.Join(out, " | ")
		return first
	case "path", "pathm":
		if e.fx == nil {
			e.fx = newFixture()
		}
		var mapKey, mapVal []byte
		if t[0] == "pathm" { // pathm <root> <key> <value> <decoded path> [<raw target>]: one explicit path mapping on the modifier
			if len(t) < 5 {
				return core.Result{Impl: "bad-op"}
			}
			mapKey, _ = core.Unhex(t[2])
			mapVal, _ = core.Unhex(t[3])
			t = append([]string{"path", t[1]}, t[4:]...)
		}
		rootSym, _ := core.Unhex(t[1])
		up, _ := core.Unhex(t[2])
		req, _ := http.NewRequest("GET", "http://example.com/", nil)
		req.URL = &url.URL{Scheme: "http", Host: "example.com", Path: string(up)}
		if len(t) > 3 {
			// the request exactly as net/http parses the client's request line (RawPath and all)
			target, _ := core.Unhex(t[3])
			if pr, err := http.ReadRequest(bufioReader("GET " + string(target) + " HTTP/1.1\r\nHost: example.com\r\n\r\n")); err == nil {
				if pr.URL.Path != string(up) {
					return core.Result{Impl: "bad-op", Fail: "harness: decoded path of the raw target differs from the op's path", Sig: "harness"}
				}
				req = pr
			}
		}
		res := proxyutil.NewResponse(200, strings.NewReader("original"), req)
		m := static.NewModifier(filepath.Join(e.fx.tmp, string(rootSym)))
		if mapKey != nil {
			m.SetExplicitPathMappings(map[string]string{string(mapKey): string(mapVal)})
			core.Count("pathm:key-slash-" + map[bool]string{true: "1", false: "0"}[strings.HasSuffix(string(mapKey), "/")])
		}
		err := m.ModifyResponse(res)
		var b []byte
		var rerr error
		if res.Body != nil {
			b, rerr = io.ReadAll(res.Body)
			res.Body.Close()
		}
		obs := ""
		switch {
		case res.StatusCode == 404:
			obs = "notfound"
		case err != nil:
			obs = "err"
		case rerr != nil:
			obs = "dir"
		default:
			obs = "other"
			for f, c := range e.fx.files {
				if string(b) == c {
					obs = "file " + core.HexS(f)
					rootClean := filepath.Clean(string(rootSym))
					if !strings.HasPrefix(f, strings.TrimSuffix(rootClean, "/")+"/") {
						return core.Result{Impl: obs, Fail: fmt.Sprintf("request path %q served %s, outside root %s", up, f, rootClean), Sig: "c20:escaped-root"}
					}
				}
			}
		}
		core.Count("path:" + strings.Fields(obs)[0])
		return core.Result{Impl: obs}
	}
	return core.Result{Impl: "bad-op"}
}

// ---- generators ----

func genNum(r *core.Rand, n int) string {
	var v string
	switch r.Intn(12) {
	case 0:
		v = "0"
	case 1:
		v = strconv.Itoa(n - 1)
	case 2:
		v = strconv.Itoa(n)
	case 3:
		v = strconv.Itoa(n + 1)
	case 4:
		v = strconv.Itoa(2*n + 3)
	case 5:
		v = r.Pick("9223372036854775806", "9223372036854775807", "9223372036854775808", "18446744073709551616", "4294967296", "2147483648")
	case 6:
		v = ""
	default:
		if n > 0 {
			v = strconv.Itoa(r.Intn(n + 2))
		} else {
			v = strconv.Itoa(r.Intn(3))
		}
	}
	if v == "-1" {
		v = "0"
	}
	if r.Chance(1, 12) {
		v = r.Pick("+", "00", " ", "\t") + v
	}
	if r.Chance(1, 15) {
		v = v + r.Pick(" ", "x", "_")
	}
	return v
}

// spell writes a position the way a client may: 1*DIGIT allows leading zeros (decimal, never
// octal); now and then a spelling of another number base that strconv would accept with base 0.
func spell(r *core.Rand, v int) string {
	switch r.Intn(16) {
	case 0:
		return "0" + strconv.Itoa(v)
	case 1:
		return fmt.Sprintf("%04d", v)
	case 2:
		return r.Pick("0x", "0o", "0b", "0X") + strconv.Itoa(v)
	case 3:
		if v >= 10 {
			d := strconv.Itoa(v)
			return d[:1] + "_" + d[1:]
		}
	}
	return strconv.Itoa(v)
}

func genRange(r *core.Rand, n int) string {
	unit := "bytes="
	switch r.Intn(14) {
	case 0:
		unit = "Bytes="
	case 1:
		unit = "BYTES="
	case 2:
		unit = r.Pick("", "bytes", "items=", "bytes = ", "=", "bytes==", "tes=")
	}
	k := 1
	if r.Chance(1, 3) {
		k = r.Range(2, 4)
	}
	if r.Chance(1, 25) { // long lists: counts around powers of two up to a few hundred
		ks := []int{15, 16, 17, 31, 32, 33, 63, 64, 65, 100, 127, 128, 129, 257, 300} // any limit on the number of ranges is a deviation
		k = ks[r.Intn(len(ks))]
	}
	var specs []string
	for i := 0; i < k; i++ {
		var s string
		switch r.Intn(10) {
		case 0:
			s = genNum(r, n) + "-"
		case 1:
			s = "-" + genNum(r, n)
		case 2:
			s = genNum(r, n)
		case 3:
			s = genNum(r, n) + "-" + genNum(r, n) + "-" + genNum(r, n)
		case 4, 5, 6:
			if n > 0 { // ordered pair inside (or just past) the content
				a := r.Intn(n)
				b := a + r.Intn(n-a+2)
				s = spell(r, a) + "-" + spell(r, b)
			} else {
				s = "0-0"
			}
		default:
			a, b := genNum(r, n), genNum(r, n)
			s = a + "-" + b
		}
		if r.Chance(1, 6) {
			s = " " + s
		}
		specs = append(specs, s)
	}
	h := unit + strings.Join(specs, r.Pick(",", ",", ", "))
	if r.Chance(1, 12) && len(h) > 0 { // mutate
		b := []byte(h)
		alpha := "0123456789-, =bytesBYTES+\t;"
		switch r.Intn(3) {
		case 0:
			b[r.Intn(len(b))] = alpha[r.Intn(len(alpha))]
		case 1:
			i := r.Intn(len(b))
			b = append(b[:i], b[i+1:]...)
		case 2:
			i := r.Intn(len(b) + 1)
			b = append(b[:i], append([]byte{alpha[r.Intn(len(alpha))]}, b[i:]...)...)
		}
		h = string(b)
	}
	if r.Chance(1, 60) {
		h = h + string([]byte{byte(128 + r.Intn(128))})
	}
	return h
}

func genContent(r *core.Rand, tier string) []byte {
	var n int
	switch r.Intn(10) {
	case 0:
		n = 0
	case 1:
		n = 1
	case 2:
		n = 2
	case 3:
		n = 10
	case 4:
		if tier == "thorough" {
			n = r.Pick2(4096, 65536)
		} else {
			n = 300
		}
	default:
		n = r.Range(3, 60)
	}
	b := make([]byte, n)
	for i := range b {
		b[i] = byte('a' + (i*7+r.Intn(3))%26)
	}
	return b
}

var rawTargets = []string{"/a.txt", "/sub/b.txt", "/sub/../a.txt", "/../secret.txt", "/../../secret.txt", "/sub/../../secret.txt",
	"/%2e%2e/secret.txt", "/..%2fsecret.txt", "/%2e%2e%2f%2e%2e%2fsecret.txt", "//a.txt", "/./a.txt", "/sub//deep/./c.txt", "/sub/deep/../../../rootx/d.txt",
	"/../rootx/d.txt", "/..hidden", "/...", "/sub/..", "/sub/../", "/", "", "*", "/sub/secret.txt", "/a.txt/", "/a.txt/..", "/nonexistent", "/sub/deep/..%2f..%2f..%2f..%2fsecret.txt",
	"http://h/../secret.txt", "http://h", "http://h/sub/../../rootx/d.txt", "/\\..\\secret.txt", "/sub/%2e%2e/%2e%2e/%2e%2e/secret.txt",
	"/..;v=2/secret.txt", "/sub/..;x=1/..;x=1/secret.txt", "/%2e%2e;p/secret.txt", "/a.txt;v=2", "/sub;p/b.txt", "/..%3b/secret.txt"}

func urlPathOf(target string) (string, bool) {
	raw := "GET " + target + " HTTP/1.1\r\nHost: example.com\r\n\r\n"
	if target == "" {
		return "", true
	}
	req, err := http.ReadRequest(bufioReader(raw))
	if err != nil {
		return "", false
	}
	return req.URL.Path, true
}

func genTarget(r *core.Rand) string {
	if r.Chance(1, 2) {
		return rawTargets[r.Intn(len(rawTargets))]
	}
	segs := []string{"..", ".", "", "sub", "deep", "a.txt", "b.txt", "c.txt", "secret.txt", "rootx", "d.txt", "%2e%2e", "%2E%2e", "..%2f", "%2f", "root", "T", "..hidden", "..."}
	n := r.Range(1, 7)
	var b strings.Builder
	for i := 0; i < n; i++ {
		b.WriteString("/")
		seg := segs[r.Intn(len(segs))]
		if r.Chance(1, 8) { // decorations a path segment may legally carry: parameters, odd separators, encoded ones
			seg += r.Pick(";", ";v=2", ";x=1;y", "%3bp", " ", "%20", "\\", "%5c..", "?", "#")
		}
		b.WriteString(seg)
	}
	if r.Chance(1, 5) {
		b.WriteString("/")
	}
	return b.String()
}

func (P) Gen(r *core.Rand, tier string, emit func([]string)) {
	nRange, nPath, nLib := 150, 40, 30
	if tier == "thorough" {
		nRange, nPath, nLib = 4000, 800, 600
	}
	for i := 0; i < nRange; i++ {
		c := genContent(r, tier)
		var ops []string
		k := r.Range(4, 10)
		for j := 0; j < k; j++ {
			h := "none"
			if !r.Chance(1, 12) {
				h = core.HexS(genRange(r, len(c)))
			}
			opn := "range"
			if r.Chance(1, 3) {
				opn = "srange"
			}
			ops = append(ops, opn+" "+core.Hex(c)+" "+h)
		}
		emit(ops)
	}
	// several responses in flight from one modifier instance, bodies read later in any order
	nHold := 40
	if tier == "thorough" {
		nHold = 600
	}
	asciiRange := func(rr *core.Rand, n int) string {
		for {
			h := genRange(rr, n)
			ok := true
			for i := 0; i < len(h); i++ {
				if h[i] >= 0x80 {
					ok = false
				}
			}
			if ok {
				return h
			}
		}
	}
	for i := 0; i < nHold; i++ {
		var ops []string
		contents := [][]byte{genContent(r, tier)}
		if r.Chance(1, 2) {
			contents = append(contents, genContent(r, tier))
		}
		k := r.Range(2, 5)
		opn := "range"
		if r.Chance(1, 3) {
			opn = "srange"
		}
		for j := 0; j < k; j++ {
			c := contents[r.Intn(len(contents))]
			h := "none"
			if !r.Chance(1, 10) {
				if r.Chance(2, 3) && len(c) > 2 { // mostly multi-range: the responses that are assembled in a scratch buffer
					h = core.HexS(fmt.Sprintf("bytes=0-%d,%d-%d", r.Intn(len(c)), r.Intn(len(c)), len(c)+r.Intn(3)))
				} else {
					h = core.HexS(asciiRange(r, len(c)))
				}
			}
			ops = append(ops, "hold "+opn+" "+core.Hex(c)+" "+h)
		}
		perm := make([]int, k)
		for x := range perm {
			perm[x] = x
		}
		for x := k - 1; x > 0; x-- {
			y := r.Intn(x + 1)
			perm[x], perm[y] = perm[y], perm[x]
		}
		var ps []string
		for _, x := range perm {
			ps = append(ps, strconv.Itoa(x))
		}
		ops = append(ops, "drain "+strings.Join(ps, ","))
		emit(ops)
	}
	// one modifier instance, one path, the file rewritten (shorter, longer, same length) between requests
	nFile := 40
	if tier == "thorough" {
		nFile = 600
	}
	{
		cp := *r // own stream: the cases after this block stay what they were
		rf := (&cp).Fork()
		for i := 0; i < nFile; i++ {
			var ops []string
			prev := -1
			k := rf.Range(3, 6)
			for j := 0; j < k; j++ {
				c := genContent(rf, tier)
				if prev >= 0 && rf.Chance(1, 2) { // a length related to the previous one
					n := prev + rf.Pick2(-1, 1)*rf.Range(1, 8)
					if rf.Chance(1, 4) {
						n = prev / 2
					}
					if n < 0 {
						n = 0
					}
					c = make([]byte, n)
					for x := range c {
						c[x] = byte('A' + (x*5+j)%26)
					}
				}
				h := "none"
				if !rf.Chance(1, 8) {
					switch {
					case prev >= 0 && rf.Chance(1, 2): // positions between the two lengths, around both ends
						lo, hi := prev, len(c)
						if lo > hi {
							lo, hi = hi, lo
						}
						a := rf.Range(0, lo+1)
						b := rf.Range(lo, hi+2)
						switch rf.Intn(4) {
						case 0:
							h = core.HexS(fmt.Sprintf("bytes=%d-%d", a, b))
						case 1:
							h = core.HexS(fmt.Sprintf("bytes=%d-", rf.Range(lo, hi+1)))
						case 2:
							h = core.HexS(fmt.Sprintf("bytes=%d-%d", rf.Range(lo, hi+1), hi+rf.Intn(3)))
						default:
							h = core.HexS(fmt.Sprintf("bytes=0-%d,%d-%d", a, rf.Range(lo, hi+1), b))
						}
					default:
						h = core.HexS(asciiRange(rf, len(c)))
					}
				}
				ops = append(ops, "sfile "+core.Hex(c)+" "+h)
				prev = len(c)
			}
			emit(ops)
		}
	}
	for i := 0; i < nPath; i++ {
		var ops []string
		root := r.Pick("/T/root", "/T/root/", "/T/root/sub", "/T/root/sub/..", "/T/./root//", "/T/root/sub/deep")
		for j := 0; j < 12; j++ {
			tg := genTarget(r)
			p, ok := urlPathOf(tg)
			if !ok {
				core.Count("path:rejected-by-ReadRequest")
				continue
			}
			op := "path " + core.HexS(root) + " " + core.HexS(p)
			if tg != "" {
				op += " " + core.HexS(tg) // the raw request target, so that the request is built as net/http builds it
			}
			ops = append(ops, op)
		}
		if len(ops) > 0 {
			emit(ops)
		}
	}
	// explicit path mappings (SetExplicitPathMappings): keys that look like files and like directories
	// (trailing slash), benign values under the root, request paths that hit the key exactly, lie below it,
	// and climb out from below it
	nMap := 25
	if tier == "thorough" {
		nMap = 500
	}
	{
		cp := *r // own stream
		rm := (&cp).Fork()
		rm.U64()
		keys := []string{"/m", "/assets/", "/assets", "/sub/", "/sub", "/", "/a.txt", "/x/y/", "/%61ssets/"}
		vals := []string{"a.txt", "sub/b.txt", "sub", "sub/deep/c.txt", "/a.txt", "nonexistent", "sub/deep"}
		tails := []string{"", "a.txt", "b.txt", "../a.txt", "../../secret.txt", "../../../secret.txt", "x/../../..", "deep/../../../../secret.txt",
			"..%2f..%2fsecret.txt", "%2e%2e/%2e%2e/secret.txt", "../rootx/d.txt", "../../rootx/d.txt", "./b.txt", "//b.txt", "..;v=1/../secret.txt"}
		for i := 0; i < nMap; i++ {
			var ops []string
			root := rm.Pick("/T/root", "/T/root/", "/T/root/sub", "/T/./root//")
			k := keys[rm.Intn(len(keys))]
			v := vals[rm.Intn(len(vals))]
			for j := 0; j < 10; j++ {
				var tg string
				switch rm.Intn(5) {
				case 0:
					tg = strings.TrimSuffix(k, "/")
				case 1:
					tg = genTarget(rm)
				default:
					base := k
					if !strings.HasSuffix(base, "/") {
						base += "/"
					}
					tg = base + tails[rm.Intn(len(tails))]
				}
				p, ok := urlPathOf(tg)
				if !ok {
					continue
				}
				op := "pathm " + core.HexS(root) + " " + core.HexS(k) + " " + core.HexS(v) + " " + core.HexS(p)
				if tg != "" {
					op += " " + core.HexS(tg)
				}
				ops = append(ops, op)
			}
			if len(ops) > 0 {
				emit(ops)
			}
		}
	}
	for i := 0; i < nLib; i++ {
		emit(golib.Gen(r, 25))
	}
}
