package c20

import (
	"bufio"
	"strings"
)

func bufioReader(s string) *bufio.Reader { return bufio.NewReader(strings.NewReader(s)) }
