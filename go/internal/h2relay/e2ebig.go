package h2relay

// e2e-bigframe <n> <form>: through the real h2.Config.Proxy (its own framers, relayFrames, writer
// goroutines). The server endpoint advertises SETTINGS_MAX_FRAME_SIZE = 2^24-1, the largest legal
// value; once the client has seen that SETTINGS frame forwarded it sends a header block in a frame
// of exactly n octets - form 0: one HEADERS frame; form 1: a 16-octet HEADERS frame followed by a
// CONTINUATION frame of n octets. The server must receive the block (whatever the fragmentation the
// relay chose) decoding to the field list that was sent, END_STREAM included. DATA cannot be that
// large (initial windows), header frames can.

import (
	"bytes"
	"crypto/tls"
	"fmt"
	"io"
	"net"
	"net/url"
	"strconv"
	"time"

	"github.com/google/martian/v3/h2"
	"golang.org/x/net/http2"
	"golang.org/x/net/http2/hpack"

	"verif/harness/internal/core"
)

const maxLegalFrame = 1<<24 - 1

func e2eBigFrame(nTok, formTok string) core.Result {
	res := core.Result{Impl: "e2e ok", SkipModel: true}
	n, err1 := strconv.Atoi(nTok)
	form, err2 := strconv.Atoi(formTok)
	if err1 != nil || err2 != nil || n < 64 || n > maxLegalFrame || form < 0 || form > 1 {
		return core.Result{Impl: "bad-op"}
	}
	bad := func(format string, a ...interface{}) core.Result {
		res.Impl = "e2e failed"
		res.Fail = fmt.Sprintf("server advertised MAX_FRAME_SIZE %d, client sent a header block in a %d-octet frame (form %d): ", maxLegalFrame, n, form) + fmt.Sprintf(format, a...)
		res.Sig = "c08:e2e-frame-at-advertised-limit"
		return res
	}
	e2eOnce.Do(e2eSetup)
	if e2eErr != nil {
		return core.Result{Impl: "e2e unavailable", SkipModel: true}
	}
	ln, err := tls.Listen("tcp", "127.0.0.1:0", e2eTLS)
	if err != nil {
		return core.Result{Impl: "e2e unavailable", SkipModel: true}
	}
	defer ln.Close()
	port := ln.Addr().(*net.TCPAddr).Port

	// the block: literal fields, total length exactly n (form 0) / 16 + n (form 1)
	head := LitEncode([]Field{{":method", "GET"}}) // 12 octets
	total := n
	if form == 1 {
		total = 16 + n
	}
	vlen := total - len(head) - 1 - 1 - 5 // 0x00, name "x-big" with its length octet ...
	var block []byte
	for i := 0; i < 8; i++ {
		block = LitEncode([]Field{{":method", "GET"}, {"x-big", string(GenBytes(7, vlen))}})
		if len(block) == total {
			break
		}
		vlen += total - len(block)
	}
	if len(block) != total {
		return core.Result{Impl: "bad-op"}
	}
	want := Digest(LitEncode([]Field{{":method", "GET"}, {"x-big", string(GenBytes(7, vlen))}}))

	type srvResult struct {
		got    string
		es     bool
		frames []string
		err    error
	}
	accepted := make(chan struct{})
	srvDone := make(chan srvResult, 1)
	go func() {
		var r srvResult
		c, err := ln.Accept()
		if err != nil {
			r.err = err
			srvDone <- r
			return
		}
		defer c.Close()
		c.SetDeadline(time.Now().Add(40 * time.Second))
		if err := c.(*tls.Conn).Handshake(); err != nil {
			r.err = err
			close(accepted)
			srvDone <- r
			return
		}
		close(accepted)
		buf := make([]byte, len(preface))
		if _, err := io.ReadFull(c, buf); err != nil {
			r.err = fmt.Errorf("reading preface: %v", err)
			srvDone <- r
			return
		}
		fw := http2.NewFramer(c, c)
		fw.SetMaxReadFrameSize(maxLegalFrame)
		if err := fw.WriteSettings(http2.Setting{ID: http2.SettingMaxFrameSize, Val: maxLegalFrame}); err != nil {
			r.err = err
			srvDone <- r
			return
		}
		var blk []byte
		open := false
		for {
			f, err := fw.ReadFrame()
			if err != nil {
				r.err = fmt.Errorf("after frames %v: %v", r.frames, err)
				break
			}
			r.frames = append(r.frames, fmt.Sprintf("%v/%d", f.Header().Type, f.Header().Length))
			done := false
			switch f := f.(type) {
			case *http2.HeadersFrame:
				blk, open, r.es = append([]byte{}, f.HeaderBlockFragment()...), true, f.StreamEnded()
				done = f.HeadersEnded()
			case *http2.ContinuationFrame:
				if open {
					blk = append(blk, f.HeaderBlockFragment()...)
					done = f.HeadersEnded()
				}
			}
			if done {
				hfs, derr := hpack.NewDecoder(4096, nil).DecodeFull(blk)
				if derr != nil {
					r.err = fmt.Errorf("block of %d octets does not decode: %v", len(blk), derr)
				} else {
					var fs []Field
					for _, hf := range hfs {
						fs = append(fs, Field{hf.Name, hf.Value})
					}
					r.got = Digest(LitEncode(fs))
				}
				break
			}
		}
		srvDone <- r
	}()

	cl, cc := net.Pipe()
	defer cl.Close()
	closing := make(chan bool)
	proxyDone := make(chan error, 1)
	cfg := &h2.Config{RootCAs: e2ePool}
	go func() {
		proxyDone <- cfg.Proxy(closing, cc, &url.URL{Scheme: "https", Host: "localhost:" + strconv.Itoa(port)})
		cc.Close()
	}()
	select {
	case <-accepted:
	case <-proxyDone:
		return core.Result{Impl: "e2e unavailable", SkipModel: true}
	case <-time.After(8 * time.Second):
		close(closing)
		return core.Result{Impl: "e2e unavailable", SkipModel: true}
	}
	cl.SetDeadline(time.Now().Add(40 * time.Second))
	// the client reads what the proxy forwards (net.Pipe is synchronous) and waits for the server's SETTINGS
	sawSettings := make(chan struct{})
	go func() {
		fr := http2.NewFramer(io.Discard, cl)
		seen := false
		for {
			f, err := fr.ReadFrame()
			if err != nil {
				return
			}
			if sf, ok := f.(*http2.SettingsFrame); ok && !sf.IsAck() && !seen {
				if v, ok := sf.Value(http2.SettingMaxFrameSize); ok && v == maxLegalFrame {
					seen = true
					close(sawSettings)
				}
			}
		}
	}()
	var werr error
	if _, werr = cl.Write([]byte(preface)); werr == nil {
		var fb bytes.Buffer
		http2.NewFramer(&fb, nil).WriteSettings()
		_, werr = cl.Write(fb.Bytes())
	}
	select {
	case <-sawSettings:
	case <-time.After(10 * time.Second):
		close(closing)
		return bad("the server's SETTINGS frame was not forwarded to the client within 10s (write error: %v)", werr)
	}
	if werr == nil {
		var fb bytes.Buffer
		fw := http2.NewFramer(&fb, nil)
		if form == 0 {
			fw.WriteHeaders(http2.HeadersFrameParam{StreamID: 1, EndHeaders: true, EndStream: true, BlockFragment: block})
		} else {
			fw.WriteHeaders(http2.HeadersFrameParam{StreamID: 1, EndHeaders: false, EndStream: true, BlockFragment: block[:16]})
			fw.WriteContinuation(1, true, block[16:])
		}
		_, werr = cl.Write(fb.Bytes())
	}
	var sr srvResult
	select {
	case sr = <-srvDone:
	case <-time.After(40 * time.Second):
		sr.err = fmt.Errorf("server did not receive the block within 40s")
	}
	close(closing)
	cl.Close()
	select {
	case <-proxyDone:
	case <-time.After(3 * time.Second):
		core.Count("e2e:proxy-did-not-return-in-3s")
	}
	if sr.err != nil {
		return bad("%v (client write error: %v)", sr.err, werr)
	}
	if sr.got != want || !sr.es {
		return bad("the server received %s END_STREAM=%v in frames %v, sent %s END_STREAM=true", sr.got, sr.es, sr.frames, want)
	}
	core.Count("e2e:bigframe-ok")
	return res
}
