package h2relay

// Op language (one frame per op; e = sending endpoint, "c" client or "s" server):
//
//	data e sid es pad payload        pad "-" = unpadded, n = PADDED with n bytes; payload "-", x<hex>, g<seed>.<n>
//	headers e sid es eh prio frag    prio "-" or dep/excl/weight; frag = header block fragment
//	pp e sid promised eh frag
//	cont e sid eh frag
//	prio e sid dep/excl/weight       rst e sid code
//	settings e id=val,...            settingsack e    ping e ack x<8 bytes>    goaway e last code debug
//	wu e sid inc
//	raw e type flags sid payload     malformed stream (oracle-only: no panic, no hang)
//	mode real                        the case uses a real hpack.Encoder at the endpoints (oracle-only):
//	  enclimit e v                     table size endpoint e's encoder is willing to use (SetMaxDynamicTableSizeLimit)
//	  rhdr e sid es prio cuts fields   header block encoded by endpoint e's encoder WHEN THE OP RUNS, cut at the given
//	                                   per-mille positions; fields = hexname:valuetok,...
//	  rpp e sid promised fields        rcont e  (next CONTINUATION of e's block)
//	hb e sid es prio instrs          one HEADERS frame whose block is given as HPACK representations (hpackinstr.go),
//	                                 emitted by a hand-driven encoder with its own dynamic table (model-compared)
//	hp.*                             x/net hpack.Decoder / Encoder alone against the Lean table model (hp.go)
//
// SETTINGS are lists: an identifier may occur several times (the last value counts, RFC 7540 6.5.3), unknown
// identifiers are allowed. An endpoint applies the SETTINGS it received (its encoder's table size) when it sends
// `settingsack`; until then it keeps encoding under the limits it knew.
//	e2e-preface n1,n2,...            oracle-only (C08): preface dribbled through Config.Proxy in pieces
//	drained                          oracle-only: every window is open, everything must have arrived
//
// The line sent to the model carries, in addition, the two choices the implementation makes that
// the model takes as arguments: enc=<n>, the length of the HPACK block the relay's encoder
// produced for a completed header block, and ord=<sids>, the order in which the Go map of
// output buffers was visited (as far as it is observable: streams in order of first emission).

import (
	"bytes"
	"fmt"
	"sort"
	"strings"

	"golang.org/x/net/http2/hpack"

	"verif/harness/internal/core"
)

type frameSpec struct {
	kind     string // hdr | data | rst | prio | push
	fields   []Field
	es       bool
	prio     string
	promised uint32
	payload  string
	pad      string
	code     uint32
}

type caseGen struct {
	r       *core.Rand
	profile string // C08 | C09
	ops     []string
	real    bool
	enc     [2]*hpack.Encoder
	encBuf  [2]*bytes.Buffer
	pend    [2][]string               // CONTINUATION ops endpoint e still has to send
	scripts [2]map[uint32][]frameSpec // remaining frames of each stream, per sending endpoint
	maxF    [2]int                    // MAX_FRAME_SIZE endpoint e advertised (kept non-decreasing)
	sids    map[uint32]bool
	exhaust []int // forced cut positions for the next header block (exhaustive tier)

	initW    [2]int      // INITIAL_WINDOW_SIZE endpoint e advertised last
	tabSince [2][]uint32 // HEADER_TABLE_SIZE values e advertised since the last block relayed towards it
	ackDue   [2][][]uint32
	instr    bool          // header blocks of this case are (mostly) sent as `hb` representations
	stab     [2]*ShadowTab // dynamic table of endpoint e's hand-driven encoder
	limit    [2]uint32     // HEADER_TABLE_SIZE of the peer that endpoint e has acknowledged
	pregrant map[uint32]bool // streams whose receiver (the client) grants window before the first frame towards it
}

var names = []string{":method", ":path", ":scheme", ":authority", ":status", "content-type", "x-trailer-one", "x-a", "grpc-status", "te"}
var values = []string{"GET", "POST", "/a", "/b", "https", "h", "200", "application/grpc", "0", "trailers", "v1", ""}

func (g *caseGen) fields(n int, big bool) []Field {
	var fs []Field
	for i := 0; i < n; i++ {
		f := Field{names[g.r.Intn(len(names))], values[g.r.Intn(len(values))]}
		if g.r.Chance(1, 12) {
			f.Value = fmt.Sprintf("v%d", g.r.Intn(1000))
		}
		if (g.real || g.instr) && g.r.Chance(1, 3) {
			// entries that fill a dynamic table beyond 4096 octets and are referenced again later
			j := g.r.Intn(40)
			f = Field{fmt.Sprintf("x-k%d", j%8), poolValue(j)}
		}
		fs = append(fs, f)
	}
	if big && g.r.Chance(1, 20) { // a block that does not fit one frame on the way out
		if g.r.Chance(1, 2) {
			n := []int{16380, 16384, 16400, 33000, 40000}[g.r.Intn(5)]
			fs = append(fs, Field{"x-big", string(GenBytes(g.r.Intn(200), n))})
		} else {
			// re-encoded size within a few octets of k * MAX_FRAME_SIZE (the receiver's, default or
			// one of the values settings() advertises): where the 5 priority / 4 promised-id
			// octets decide how the relay has to fragment the block
			m := []int{16384, 16384, 16384, 16385, 20000}[g.r.Intn(5)]
			fs = sizedFields(fs, (1+g.r.Intn(2))*m-7+g.r.Intn(10), g.r.Intn(200))
			core.Count("gen:boundary-header-block")
		}
		core.Count("gen:big-header-block")
	}
	return fs
}

// poolValue: printable, 40..430 octets, distinct per j.
func poolValue(j int) string {
	n := 40 + (j*37)%391
	b := make([]byte, n)
	for i := range b {
		b[i] = byte('a' + (j*7+i*3+i/26)%26)
	}
	return fmt.Sprintf("%02d-", j) + string(b)
}

func valTok(v string) string {
	if len(v) > 600 { // a GenBytes pattern? then g<seed>.<n>
		for seed := 0; seed < 256; seed++ {
			if byte(seed*31) == v[0] {
				if string(GenBytes(seed, len(v))) == v {
					return fmt.Sprintf("g%d.%d", seed, len(v))
				}
			}
		}
	}
	return BytesTok([]byte(v))
}

func isBig(fs []Field) bool {
	for _, f := range fs {
		if len(f.Value) > 8000 {
			return true
		}
	}
	return false
}

// sizedFields appends an x-big field such that a fresh hpack.Encoder (what the relay uses; on a
// running connection its dynamic table may shave a few octets off the other fields) encodes the
// list in exactly target octets.
func sizedFields(pre []Field, target, seed int) []Field {
	n := target
	var fs []Field
	for i := 0; i < 8; i++ {
		if n < 0 {
			n = 0
		}
		fs = append(append([]Field{}, pre...), Field{"x-big", string(GenBytes(seed, n))})
		var buf bytes.Buffer
		enc := hpack.NewEncoder(&buf)
		for _, f := range fs {
			enc.WriteField(hpack.HeaderField{Name: f.Name, Value: f.Value})
		}
		if buf.Len() == target {
			break
		}
		n += target - buf.Len()
	}
	return fs
}

func (g *caseGen) prio() string {
	switch g.r.Intn(10) {
	case 0, 1, 2:
		return fmt.Sprintf("%d/%d/%d", g.r.Intn(8), g.r.Intn(2), g.r.Intn(256))
	case 3:
		if g.r.Chance(1, 12) {
			core.Count("gen:zero-priority")
			return "0/0/0"
		}
	}
	return "-"
}

func (g *caseGen) payload() (string, string) {
	var n int
	if g.profile == "C09" || g.r.Chance(1, 5) {
		n = []int{0, 1, 2, 5, 9, 10, 11, 100, 1000, 16383, 16384, 16385, 20000, 32768, 65535, 65536, 70000}[g.r.Intn(17)]
	} else {
		n = g.r.Intn(40)
	}
	pad := "-"
	if g.r.Chance(1, 3) {
		pad = fmt.Sprint([]int{0, 1, 10, 255}[g.r.Intn(4)])
		core.Count("gen:padded-data")
	}
	if n == 0 {
		return "-", pad
	}
	if n <= 24 {
		return BytesTok(g.r.Bytes(n)), pad
	}
	return fmt.Sprintf("g%d.%d", g.r.Intn(250), n), pad
}

// message builds the frames one endpoint sends on one stream.
func (g *caseGen) message(trailersLikely bool) []frameSpec {
	var fr []frameSpec
	nData := g.r.Intn(4)
	if g.profile == "C09" {
		nData = 1 + g.r.Intn(4)
	}
	trailers := nData > 0 && g.r.Chance(1, 2) && trailersLikely
	rst := g.r.Chance(1, 8)
	fr = append(fr, frameSpec{kind: "hdr", fields: g.fields(1+g.r.Intn(4), true), es: nData == 0 && !rst, prio: g.prio()})
	if isBig(fr[0].fields) && fr[0].prio == "-" && g.r.Chance(1, 2) {
		// the priority fields share the first frame with the block: half of the blocks that must be
		// fragmented carry them
		fr[0].prio = fmt.Sprintf("%d/%d/%d", g.r.Intn(8), g.r.Intn(2), 1+g.r.Intn(255))
	}
	if isBig(fr[0].fields) && fr[0].prio != "-" {
		core.Count("gen:big-header-block-with-priority")
	}
	for i := 0; i < nData; i++ {
		p, pad := g.payload()
		fr = append(fr, frameSpec{kind: "data", payload: p, pad: pad, es: i == nData-1 && !trailers && !rst})
	}
	if trailers && g.instr && g.r.Chance(1, 4) {
		// trailers without any field: the block is a dynamic table size update and nothing else
		fr = append(fr, frameSpec{kind: "hdr", fields: nil, es: !rst, prio: "-"})
		core.Count("gen:trailers")
	} else if trailers {
		fr = append(fr, frameSpec{kind: "hdr", fields: g.fields(1+g.r.Intn(2), true), es: !rst, prio: "-"})
		core.Count("gen:trailers")
	}
	if rst {
		fr = append(fr, frameSpec{kind: "rst", code: uint32([]int{0, 1, 2, 8, 11, 255, 4000000000}[g.r.Intn(7)])})
	}
	if g.r.Chance(1, 5) {
		at := g.r.Intn(len(fr) + 1)
		fr = append(fr[:at], append([]frameSpec{{kind: "prio", prio: fmt.Sprintf("%d/%d/%d", g.r.Intn(8), g.r.Intn(2), g.r.Intn(256))}}, fr[at:]...)...)
	}
	return fr
}

func (g *caseGen) emit(format string, a ...interface{}) {
	g.ops = append(g.ops, fmt.Sprintf(format, a...))
}

func epName(e int) string { return "cs"[e : e+1] }

func (g *caseGen) encode(e int, fs []Field) []byte {
	if !g.real {
		return LitEncode(fs)
	}
	g.encBuf[e].Reset()
	for _, f := range fs {
		g.enc[e].WriteField(hpack.HeaderField{Name: f.Name, Value: f.Value})
	}
	return append([]byte{}, g.encBuf[e].Bytes()...)
}

// cuts splits a block into 1..4 fragments; the first one is non-empty (this x/net Framer rejects
// a HEADERS frame whose fragment is empty), later ones may be empty.
func (g *caseGen) cuts(b []byte) [][]byte {
	var pos []int
	if g.exhaust != nil {
		pos = g.exhaust
		g.exhaust = nil
	} else {
		k := 0
		switch g.r.Intn(6) {
		case 0, 1:
			k = 1
		case 2:
			k = 2
		case 3:
			k = 3
		}
		if g.profile == "C09" && g.r.Chance(2, 3) {
			k = 0
		}
		for i := 0; i < k; i++ {
			pos = append(pos, 1+g.r.Intn(len(b)))
		}
		sort.Ints(pos)
	}
	var out [][]byte
	last := 0
	for _, p := range pos {
		if p > len(b) {
			p = len(b)
		}
		if p < last {
			p = last
		}
		out = append(out, b[last:p])
		last = p
	}
	out = append(out, b[last:])
	if len(out) > 1 {
		core.Count("gen:blocks-cut")
	}
	return out
}

// send emits the next frame of stream sid from endpoint e (first frame op now, continuations queued).
func (g *caseGen) send(e int, sid uint32) {
	q := g.scripts[e][sid]
	f := q[0]
	g.scripts[e][sid] = q[1:]
	if len(q) == 1 {
		delete(g.scripts[e], sid)
	}
	en := epName(e)
	switch f.kind {
	case "data":
		g.emit("data %s %d %s %s %s", en, sid, b01(f.es), f.pad, f.payload)
	case "rst":
		g.emit("rst %s %d %d", en, sid, f.code)
	case "prio":
		g.emit("prio %s %d %s", en, sid, f.prio)
	case "hdr", "push":
		if g.real {
			// encoded by endpoint e's encoder when the op executes
			if f.kind == "push" {
				g.emit("rpp %s %d %d %s", en, sid, f.promised, FieldsTok(f.fields, valTok))
				g.blockDone(e)
				return
			}
			k := []int{0, 0, 0, 1, 1, 2, 3}[g.r.Intn(7)]
			var pm []int
			for i := 0; i < k; i++ {
				pm = append(pm, g.r.Intn(1001))
			}
			sort.Ints(pm)
			cuts := "-"
			if k > 0 {
				var p []string
				for _, x := range pm {
					p = append(p, fmt.Sprint(x))
				}
				cuts = strings.Join(p, ",")
				core.Count("gen:blocks-cut")
			}
			prio := f.prio
			if prio == "0/0/0" {
				prio = "-"
			}
			g.emit("rhdr %s %d %s %s %s %s", en, sid, b01(f.es), prio, cuts, FieldsTok(f.fields, valTok))
			for i := 0; i < k; i++ {
				g.pend[e] = append(g.pend[e], "rcont "+en)
			}
			if k == 0 {
				g.blockDone(e)
			}
			return
		}
		if g.instr && f.kind == "hdr" && !isBig(f.fields) && f.prio != "0/0/0" && g.exhaust == nil && (len(f.fields) == 0 || g.r.Chance(4, 5)) {
			op := "hb"
			if len(f.fields) == 0 && g.r.Chance(1, 2) || g.r.Chance(1, 8) {
				op = "hbc" // HEADERS + empty CONTINUATION
			}
			g.emit("%s %s %d %s %s %s", op, en, sid, b01(f.es), f.prio, InstrsTok(g.represent(e, f.fields)))
			g.blockDone(e)
			return
		}
		fr := [][]byte{g.encode(e, f.fields)}
		if f.kind == "hdr" || g.exhaust != nil {
			// this x/net Framer cannot read a PUSH_PROMISE continued by CONTINUATION frames
			// (checkFrameOrder only tracks HEADERS), so push blocks are cut only in directed cases
			fr = g.cuts(fr[0])
		}
		eh := b01(len(fr) == 1)
		if f.kind == "hdr" {
			g.emit("headers %s %d %s %s %s %s", en, sid, b01(f.es), eh, f.prio, BytesTok(fr[0]))
		} else {
			g.emit("pp %s %d %d %s %s", en, sid, f.promised, eh, BytesTok(fr[0]))
		}
		for i := 1; i < len(fr); i++ {
			g.pend[e] = append(g.pend[e], fmt.Sprintf("cont %s %d %s %s", en, sid, b01(i == len(fr)-1), BytesTok(fr[i])))
		}
		if len(fr) == 1 {
			g.blockDone(e)
		}
	}
}

// blockDone: endpoint e completed a header block; the relay encodes its copy for endpoint 1-e now,
// and with it announces the table size changes 1-e advertised since the previous block.
func (g *caseGen) blockDone(e int) { g.tabSince[1-e] = nil }

// represent chooses HPACK representations for a field list against endpoint e's own dynamic
// table, under the HEADER_TABLE_SIZE of the peer that e has acknowledged so far.
func (g *caseGen) represent(e int, fs []Field) []Instr {
	t, lim := g.stab[e], uint64(g.limit[e])
	var is []Instr
	upd := func(v uint64) {
		is = append(is, Instr{Op: 'u', N: v})
		t.SetMax(v)
	}
	pick := func() uint64 { // a size not above the limit
		c := []uint64{0, 31, 64, 100, 1000, 4096, lim}
		for {
			if v := c[g.r.Intn(len(c))]; v <= lim {
				return v
			}
		}
	}
	switch {
	case t.Max > lim: // the peer lowered the limit: the change must be signalled first
		if g.r.Chance(1, 4) {
			upd(0) // (the smallest size in between, then the final one: only with an empty table, see exec)
			upd(pick())
		} else {
			upd(pick())
		}
		core.Count("gen:hb-required-size-update")
	case g.r.Chance(1, 6):
		if g.r.Chance(1, 4) {
			upd(0)
		}
		upd(pick())
		core.Count("gen:hb-voluntary-size-update")
	}
	if len(fs) == 0 && len(is) == 0 {
		upd(pick()) // a block without fields still has to be a block: a size update and nothing else
	}
	for _, f := range fs {
		exact, name := -1, -1
		for k, en := range t.Ents {
			if en.Name == f.Name {
				if name < 0 {
					name = k
				}
				if en.Value == f.Value && exact < 0 {
					exact = k
				}
			}
		}
		switch {
		case exact >= 0 && g.r.Chance(4, 5):
			is = append(is, Instr{Op: 'i', N: uint64(exact)})
			core.Count("gen:hb-indexed")
		case name >= 0 && g.r.Chance(1, 2):
			is = append(is, Instr{Op: 'r', N: uint64(name), Value: f.Value})
			t.Add(Field{f.Name, f.Value})
		case g.r.Chance(3, 4):
			is = append(is, Instr{Op: 'a', Name: f.Name, Value: f.Value})
			t.Add(f)
		default:
			is = append(is, Instr{Op: 'l', Name: f.Name, Value: f.Value})
		}
	}
	return is
}

var initWins = []int{0, 1, 10, 65535, 1<<31 - 1}
var incs = []int{1, 2, 9, 10, 100, 16384, 65535, 70000, 1 << 20, 1<<31 - 1}

var tabSizes = []uint32{0, 1, 31, 100, 1000, 4096, 4097, 8192, 65536, 1 << 20}

// settings emits one SETTINGS frame of endpoint e: a LIST of (identifier, value) pairs in which an
// identifier may occur more than once (the values are processed in order, so the last one is what e
// applies - RFC 7540 6.5.3), with unknown identifiers in between, in any order.
func (g *caseGen) settings(e int, tight bool) {
	var groups [][]string // per identifier, in the order the values must keep
	dup := func() int {   // how many values for one identifier
		switch g.r.Intn(12) {
		case 0, 1, 2:
			return 2
		case 3:
			return 3
		}
		return 1
	}
	if g.r.Chance(3, 4) {
		// INITIAL_WINDOW_SIZE: several values in one frame - only the last ever comes into force
		var grp []string
		cur := g.initW[e]
		for i, n := 0, dup(); i < n; i++ {
			w := initWins[g.r.Intn(len(initWins))]
			if tight {
				w = initWins[g.r.Intn(3)]
			}
			if g.r.Chance(1, 6) {
				w = []int{2, 9, 1000, 16384, 65536, 100000}[g.r.Intn(6)]
			}
			grp = append(grp, fmt.Sprintf("4=%d", w))
			cur = w
		}
		g.initW[e] = cur
		groups = append(groups, grp)
	}
	if g.r.Chance(1, 3) {
		// MAX_FRAME_SIZE: the value in force stays non-decreasing per endpoint; earlier values of the
		// same frame may be anything legal
		ms := []int{16384, 16385, 20000, 65536, 1<<24 - 1}
		m := ms[g.r.Intn(5)]
		if m >= g.maxF[e] {
			var grp []string
			for i, n := 1, dup(); i < n; i++ {
				grp = append(grp, fmt.Sprintf("5=%d", ms[g.r.Intn(5)]))
			}
			g.maxF[e] = m
			groups = append(groups, append(grp, fmt.Sprintf("5=%d", m)))
		}
	}
	if g.r.Chance(1, 5) || ((g.real || g.instr) && g.r.Chance(1, 2)) {
		// HEADER_TABLE_SIZE. In model-compared cases the relay's encoder must not have to announce
		// "smallest size, then final size" with a table that is not empty in between (x/net decoder
		// limit, see exec.recvBlock): a value is only added when it is the smallest since the last
		// block relayed towards e, or when something below 32 (= empty table) came in between.
		var grp []string
		for i, n := 0, dup(); i < n; i++ {
			v := tabSizes[g.r.Intn(len(tabSizes))]
			min := v
			for _, p := range g.tabSince[e] {
				if p < min {
					min = p
				}
			}
			if !g.real && v != min && min >= 32 {
				continue
			}
			g.tabSince[e] = append(g.tabSince[e], v)
			grp = append(grp, fmt.Sprintf("1=%d", v))
		}
		if len(grp) > 0 {
			groups = append(groups, grp)
		}
	}
	if g.r.Chance(1, 5) {
		var grp []string
		for i, n := 0, dup(); i < n; i++ {
			grp = append(grp, fmt.Sprintf("%d=%d", []int{2, 3, 6, 8, 99, 65535}[g.r.Intn(6)], g.r.Intn(1000)))
		}
		groups = append(groups, grp)
	}
	// random merge of the groups (order between identifiers is free, within one it is kept)
	var kv []string
	var tab []uint32
	for len(groups) > 0 {
		i := g.r.Intn(len(groups))
		kv = append(kv, groups[i][0])
		if strings.HasPrefix(groups[i][0], "1=") {
			var v uint32
			fmt.Sscanf(groups[i][0], "1=%d", &v)
			tab = append(tab, v)
		}
		if groups[i] = groups[i][1:]; len(groups[i]) == 0 {
			groups = append(groups[:i], groups[i+1:]...)
		}
	}
	g.ackDue[1-e] = append(g.ackDue[1-e], tab)
	s := "-"
	if len(kv) > 0 {
		s = strings.Join(kv, ",")
	}
	g.emit("settings %s %s", epName(e), s)
}

// ack: endpoint e acknowledges (and applies) the oldest SETTINGS frame it received.
func (g *caseGen) ack(e int) {
	if len(g.ackDue[e]) > 0 {
		for _, v := range g.ackDue[e][0] {
			g.limit[e] = v
		}
		g.ackDue[e] = g.ackDue[e][1:]
	}
	g.emit("settingsack %s", epName(e))
}

func (g *caseGen) r2shuffle(a []string) {
	for i := len(a) - 1; i > 0; i-- {
		j := g.r.Intn(i + 1)
		a[i], a[j] = a[j], a[i]
	}
}

func (g *caseGen) anySid() uint32 {
	var l []int
	for s := range g.sids {
		l = append(l, int(s))
	}
	sort.Ints(l)
	return uint32(l[g.r.Intn(len(l))])
}

func newCaseGen(r *core.Rand, profile string, real bool) *caseGen {
	g := &caseGen{r: r, profile: profile, real: real, sids: map[uint32]bool{}, pregrant: map[uint32]bool{}}
	for e := 0; e < 2; e++ {
		g.encBuf[e] = &bytes.Buffer{}
		g.enc[e] = hpack.NewEncoder(g.encBuf[e])
		g.scripts[e] = map[uint32][]frameSpec{}
		g.maxF[e] = 16384
		g.initW[e] = 65535
		g.stab[e] = NewShadowTab(4096)
		g.limit[e] = 4096
	}
	return g
}

// bulk turns a message into one whose DATA exceeds the initial stream window (65535), trailers behind.
func (g *caseGen) bulk(m []frameSpec) []frameSpec {
	out := []frameSpec{m[0]}
	out[0].es = false
	total := 0
	for total <= 65535+g.r.Intn(40000) {
		n := []int{16384, 20000, 32768, 65535, 65536, 70000}[g.r.Intn(6)]
		out = append(out, frameSpec{kind: "data", payload: fmt.Sprintf("g%d.%d", g.r.Intn(250), n), pad: "-"})
		total += n
	}
	if g.r.Chance(2, 3) {
		out = append(out, frameSpec{kind: "hdr", fields: []Field{{"grpc-status", "0"}}, es: true, prio: "-"})
	} else {
		out[len(out)-1].es = true
	}
	return out
}

// randomCase builds one interleaved two-way session.
func randomCase(r *core.Rand, profile string, real bool) []string {
	g := newCaseGen(r, profile, real)
	g.instr = !real && r.Chance(1, 3)
	if real {
		g.emit("mode real")
		for e := 0; e < 2; e++ {
			if r.Chance(2, 3) { // an endpoint whose encoder follows the peer's table size beyond 4096
				g.emit("enclimit %s %d", epName(e), []int{8192, 65536, 1 << 20}[r.Intn(3)])
			}
		}
	}
	if g.instr {
		core.Count("gen:instr-cases")
	}
	n := 1 + r.Intn(6)
	core.Count(fmt.Sprintf("gen:streams=%d", n))
	for i := 0; i < n; i++ {
		sid := uint32(2*i + 1)
		g.sids[sid] = true
		g.scripts[0][sid] = g.message(true)
		if r.Chance(3, 4) {
			g.scripts[1][sid] = g.message(true)
		}
		if r.Chance(1, 6) { // server push on this stream
			prom := uint32(2*i + 2)
			g.sids[prom] = true
			// (a push block is unsplit on input — this x/net cannot read a continued PUSH_PROMISE — but
			// one time in five so large that the relay has to fragment it)
			pf := g.fields(1+r.Intn(3), false)
			if r.Chance(1, 5) {
				m := []int{16384, 16384, 16385, 20000}[r.Intn(4)]
				pf = sizedFields(pf, (1+r.Intn(2))*m-7+r.Intn(10), r.Intn(200))
				core.Count("gen:big-push-promise")
			}
			g.scripts[1][sid] = append([]frameSpec{{kind: "push", promised: prom, fields: pf}}, g.scripts[1][sid]...)
			g.scripts[1][prom] = g.message(false)
			core.Count("gen:push-promise")
		}
	}
	// Window granted before the first frame travels towards the grantor on that stream (a client that
	// enlarges its receive window right after its request HEADERS, as curl / nghttp2 do), then a body
	// larger than the initial window, and no further stream-level grant.
	pre := r.Chance(1, 6)
	if profile == "C09" {
		pre = r.Chance(1, 4)
	}
	if pre {
		var l []int
		for s := range g.scripts[1] {
			if s%2 == 1 {
				l = append(l, int(s))
			}
		}
		sort.Ints(l)
		if len(l) > 0 {
			sid := uint32(l[r.Intn(len(l))])
			if q := g.scripts[1][sid]; q[0].kind == "hdr" {
				g.scripts[1][sid] = g.bulk(q)
				g.pregrant[sid] = true
				core.Count("gen:pregrant-bulk-streams")
			}
		}
	}
	tight := [2]bool{r.Chance(1, 2), r.Chance(1, 2)} // endpoint e grants small windows
	if profile == "C09" {
		tight = [2]bool{r.Chance(3, 4), r.Chance(3, 4)}
	}
	if r.Chance(1, 5) {
		// receivers without a dynamic table: whatever the order in which header blocks leave the relay,
		// they must decode (the F08b class cannot explain a wrong field list here)
		for e := 0; e < 2; e++ {
			if r.Chance(3, 4) {
				g.emit("settings %s 1=0", epName(e))
				g.tabSince[e] = append(g.tabSince[e], 0)
				g.ackDue[1-e] = append(g.ackDue[1-e], []uint32{0})
				core.Count("gen:receiver-table-size-zero")
			}
		}
	}
	for e := 0; e < 2; e++ {
		if tight[e] || r.Chance(1, 3) {
			g.settings(e, tight[e])
		}
	}
	for steps := 0; steps < 400; steps++ {
		left := len(g.scripts[0]) + len(g.scripts[1]) + len(g.pend[0]) + len(g.pend[1])
		if left == 0 {
			break
		}
		e := r.Intn(2)
		if len(g.pend[e]) > 0 { // in the middle of a header block endpoint e may only continue it
			if r.Chance(1, 3) && len(g.pend[1-e]) == 0 {
				e = 1 - e // ...but the other endpoint is free
			} else {
				g.ops = append(g.ops, g.pend[e][0])
				if g.pend[e] = g.pend[e][1:]; len(g.pend[e]) == 0 {
					g.blockDone(e)
				}
				continue
			}
		}
		if len(g.pend[e]) > 0 {
			continue
		}
		en := epName(e)
		switch k := r.Intn(20); {
		case k < 11 && len(g.scripts[e]) > 0:
			var l []int
			for s := range g.scripts[e] {
				if e == 1 && g.pregrant[s] {
					continue // the response waits for the request (and the client's early grant)
				}
				l = append(l, int(s))
			}
			if len(l) == 0 {
				continue
			}
			sort.Ints(l)
			sid := uint32(l[r.Intn(len(l))])
			first := len(g.ops)
			g.send(e, sid)
			if e == 0 && g.pregrant[sid] && len(g.pend[0]) == 0 && strings.Contains(g.ops[first], " "+fmt.Sprint(sid)+" ") {
				// the client's first complete frame on the stream is out: it grants the response its window
				delete(g.pregrant, sid)
				g.emit("wu c %d %d", sid, []int{1 << 20, 1 << 24, 1<<30 - 1}[r.Intn(3)])
				g.emit("wu c 0 %d", []int{1 << 20, 1 << 24, 1<<30 - 1}[r.Intn(3)])
			}
		case k < 15 && len(g.ackDue[e]) > 0 && r.Chance(1, 3):
			g.ack(e)
		case k < 15:
			inc := incs[r.Intn(len(incs))]
			if tight[e] && r.Chance(2, 3) {
				inc = incs[r.Intn(5)]
			}
			sid := uint32(0)
			if r.Chance(2, 3) {
				sid = g.anySid()
			}
			g.emit("wu %s %d %d", en, sid, inc)
		case k == 15:
			g.settings(e, tight[e] && r.Chance(1, 2))
		case k == 16:
			g.emit("ping %s %d %s", en, r.Intn(2), BytesTok(r.Bytes(8)))
		case k == 17:
			g.ack(e)
		case k == 18 && r.Chance(1, 4):
			g.emit("goaway %s %d %d %s", en, r.Intn(9), r.Intn(14), BytesTok(r.Bytes(r.Intn(6))))
		case k == 19 && r.Chance(1, 2):
			g.emit("prio %s %d %d/%d/%d", en, g.anySid(), r.Intn(8), r.Intn(2), r.Intn(256))
		}
	}
	for e := 0; e < 2; e++ { // whatever is left of header blocks must be finished
		g.ops = append(g.ops, g.pend[e]...)
		g.pend[e] = nil
	}
	// open every window, then require that everything arrived
	var l []int
	for s := range g.sids {
		l = append(l, int(s))
	}
	sort.Ints(l)
	for e := 0; e < 2; e++ {
		g.emit("wu %s 0 %d", epName(e), 1<<30)
		for _, s := range l {
			g.emit("wu %s %d %d", epName(e), s, 1<<30)
		}
	}
	g.emit("drained")
	return g.ops
}

// cutCases enumerates every way of cutting a small header block into two and three fragments.
func cutCases(emit func([]string)) {
	fs := []Field{{":method", "GET"}, {"x-a", "v1"}}
	b := LitEncode(fs)
	run := func(pos []int, push bool, es bool) {
		g := &caseGen{r: core.NewRand(1), profile: "C08", sids: map[uint32]bool{1: true}}
		for e := 0; e < 2; e++ {
			g.scripts[e] = map[uint32][]frameSpec{}
		}
		g.exhaust = pos
		if push {
			g.scripts[1][1] = []frameSpec{{kind: "push", fields: fs, promised: 2}}
			g.send(1, 1)
			g.ops = append(g.ops, g.pend[1]...)
		} else {
			g.scripts[0][1] = []frameSpec{{kind: "hdr", fields: fs, es: es, prio: "-"}}
			g.send(0, 1)
			g.ops = append(g.ops, g.pend[0]...)
		}
		g.emit("drained")
		emit(g.ops)
	}
	for i := 1; i <= len(b); i++ {
		run([]int{i}, false, false)
		run([]int{i}, false, true)
		for j := i; j <= len(b); j++ {
			run([]int{i, j}, false, j%2 == 0)
		}
	}
	core.Count("gen:exhaustive-cut-cases")
}

// boundaryCases: one header block per case whose re-encoded size is exactly k*M+delta for the
// receiver's MAX_FRAME_SIZE M (the default and one raised by SETTINGS), as HEADERS with and without
// priority (split on input into CONTINUATIONs that respect the smallest legal frame size) and as
// PUSH_PROMISE (unsplit on input, see send). The receiving endpoint enforces M.
func boundaryCases(tier string, emit func([]string)) {
	type dk struct{ k, delta int }
	var pts []dk
	if tier == "thorough" {
		for k := 1; k <= 3; k++ {
			for d := -8; d <= 2; d++ {
				pts = append(pts, dk{k, d})
			}
		}
	} else {
		for _, d := range []int{-6, -5, -4, -3, -1, 0, 1} {
			pts = append(pts, dk{1, d})
		}
		for _, d := range []int{-5, -4, 0} {
			pts = append(pts, dk{2, d})
		}
	}
	for mi, m := range []int{16384, 20000} {
		for _, pt := range pts {
			if tier != "thorough" && mi > 0 && pt.k > 1 {
				continue
			}
			for kind := 0; kind < 3; kind++ { // 0 HEADERS with priority, 1 without, 2 PUSH_PROMISE
				g := &caseGen{r: core.NewRand(1), profile: "C08", sids: map[uint32]bool{1: true}}
				for e := 0; e < 2; e++ {
					g.scripts[e] = map[uint32][]frameSpec{}
				}
				fs := sizedFields([]Field{{":method", "GET"}}, pt.k*m+pt.delta, pt.k+kind)
				snd := 0
				if kind == 2 {
					snd = 1
				}
				if m != 16384 {
					g.emit("settings %s 5=%d", epName(1-snd), m)
				}
				if kind == 2 {
					g.scripts[1][1] = []frameSpec{{kind: "push", fields: fs, promised: 2}}
				} else {
					prio := "-"
					if kind == 0 {
						prio = "0/0/15"
					}
					g.scripts[0][1] = []frameSpec{{kind: "hdr", fields: fs, es: pt.delta%2 == 0, prio: prio}}
					for c := 16000; c < pt.k*m+pt.delta; c += 16000 {
						g.exhaust = append(g.exhaust, c)
					}
				}
				g.send(snd, 1)
				g.ops = append(g.ops, g.pend[snd]...)
				g.emit("drained")
				emit(g.ops)
				core.Count("gen:boundary-cases")
			}
		}
	}
}

// malformedCase: a few valid frames, then one malformed frame (oracle-only: no panic, no hang).
func malformedCase(r *core.Rand) []string {
	ops := []string{"headers c 1 0 1 - " + BytesTok(LitEncode([]Field{{":method", "GET"}}))}
	e := epName(r.Intn(2))
	switch r.Intn(6) {
	case 0: // CONTINUATION without HEADERS
		ops = append(ops, fmt.Sprintf("raw %s 9 4 1 x00", e))
	case 1: // padded DATA whose pad length exceeds the payload
		ops = append(ops, fmt.Sprintf("raw %s 0 8 1 xff0102", e))
	case 2: // header block that is not HPACK
		ops = append(ops, fmt.Sprintf("raw %s 1 4 1 xffffffffff", e))
	case 3: // WINDOW_UPDATE of the wrong size
		ops = append(ops, fmt.Sprintf("raw %s 8 0 1 x0001", e))
	case 4: // unknown frame type
		ops = append(ops, fmt.Sprintf("raw %s 77 0 1 %s", e, BytesTok(r.Bytes(r.Intn(9)))))
	case 5: // random
		ops = append(ops, fmt.Sprintf("raw %s %d %d %d %s", e, r.Intn(10), r.Intn(256), r.Intn(4), BytesTok(r.Bytes(r.Intn(12)))))
	}
	return ops
}

// stallCase: the writer of one relay stands still (its destination accepts no bytes) while 17..45 frames
// arrive for it - more than the 15 slots of the output channel -, then runs again. Oracle-only (the
// schedule is outside the model): everything accepted must be delivered once the relays are at rest.
func stallCase(r *core.Rand) []string {
	e := epName(r.Intn(2))
	var ops []string
	if r.Chance(1, 3) {
		ops = append(ops, fmt.Sprintf("settings %s 4=%d", epName(r.Intn(2)), []int{0, 10, 65535, 1 << 20}[r.Intn(4)]))
	}
	ops = append(ops, "stall "+e)
	n := 17 + r.Intn(29)
	sid := 1
	var open []int
	for i := 0; i < n; i++ {
		switch k := r.Intn(10); {
		case k < 6 || len(open) == 0:
			es := r.Intn(2)
			ops = append(ops, fmt.Sprintf("headers %s %d %d 1 - %s", e, sid, es, BytesTok(LitEncode([]Field{{":path", fmt.Sprintf("/%d", sid)}}))))
			if es == 0 {
				open = append(open, sid)
			}
			sid += 2
		case k < 8:
			ops = append(ops, fmt.Sprintf("data %s %d 0 - %s", e, open[r.Intn(len(open))], BytesTok(r.Bytes(1+r.Intn(20)))))
		case k == 8:
			ops = append(ops, fmt.Sprintf("prio %s %d %d/0/%d", e, open[r.Intn(len(open))], r.Intn(8), r.Intn(256)))
		default:
			j := r.Intn(len(open))
			ops = append(ops, fmt.Sprintf("rst %s %d %d", e, open[j], r.Intn(9)))
			open = append(open[:j], open[j+1:]...)
		}
	}
	core.Count("gen:stalled-writer-cases")
	ops = append(ops, "release") // the relays are at rest here: whatever fits the windows must be out
	o := epName(1 - strings.Index("cs", e))
	ops = append(ops, fmt.Sprintf("wu %s 0 %d", o, 1<<30))
	for s := 1; s < sid; s += 2 {
		ops = append(ops, fmt.Sprintf("wu %s %d %d", o, s, 1<<30))
	}
	return append(ops, "drained")
}

// conformingSenderCase: one endpoint that honours its send windows sends padded DATA in volume - 380..560
// frames, pad lengths 0..255 (mostly large), 2-4 x 65535 flow-controlled bytes in total - on 1..3 streams while
// the receiver keeps granting; it must never be stalled. (Payloads are small: what reaches the receiver stays
// far below its windows.)
func conformingSenderCase(r *core.Rand) []string {
	e := r.Intn(2)
	en, on := epName(e), epName(1-e)
	var ops []string
	ns := 1 + r.Intn(3)
	for i := 0; i < ns; i++ {
		ops = append(ops, fmt.Sprintf("headers %s %d 0 1 - %s", en, 2*i+1, BytesTok(LitEncode([]Field{{":path", "/up"}}))))
	}
	n := 380 + r.Intn(181)
	for i := 0; i < n; i++ {
		sid := 2*r.Intn(ns) + 1
		pad := fmt.Sprint(200 + r.Intn(56))
		switch r.Intn(8) {
		case 0:
			pad = fmt.Sprint(r.Intn(256))
		case 1:
			pad = "-"
		}
		pl := "-"
		if k := r.Intn(30); k > 0 {
			pl = BytesTok(r.Bytes(k))
		}
		ops = append(ops, fmt.Sprintf("cdata %s %d 0 %s %s", en, sid, pad, pl))
		if i%97 == 96 { // the receiver keeps granting
			ops = append(ops, fmt.Sprintf("wu %s 0 %d", on, 1<<16), fmt.Sprintf("wu %s %d %d", on, sid, 1<<16))
		}
	}
	core.Count("gen:conforming-sender-cases")
	return append(ops, "drained")
}

// Gen is the generator shared by C08 and C09.
func Gen(profile string, r *core.Rand, tier string, emit func([]string)) {
	n := 260
	if tier == "thorough" {
		n = 2500
		if profile == "C08" {
			n = 4000
			cutCases(emit)
		}
	}
	boundaryCases(tier, emit)
	for i := 0; i < n; i++ {
		real := profile == "C08" && i%4 == 3
		emit(randomCase(r.Fork(), profile, real))
	}
	for i := 0; i < n/20; i++ {
		emit(malformedCase(r.Fork()))
	}
	for i := 0; i < n/25; i++ {
		emit(stallCase(r.Fork()))
	}
	for i := 0; i < 2+n/500; i++ {
		emit(conformingSenderCase(r.Fork()))
	}
	if profile == "C08" { // the HPACK table model against x/net's decoder and encoder
		for i := 0; i < n/3; i++ {
			emit(hpCase(r.Fork()))
		}
	}
	if profile == "C08" { // end-to-end tier: the preface in small pieces through Config.Proxy
		pieces := []string{"24", "1,23", "3,21", "23,1", "1,1,1,1,1,1,1,1,1,1,1,1,1,1,1,1,1,1,1,1,1,1,1,1", "7,7,7,3", "12,12"}
		k := 3
		if tier == "thorough" {
			k = len(pieces)
		}
		for i := 0; i < k; i++ {
			emit([]string{"e2e-preface " + pieces[(i+r.Intn(len(pieces)))%len(pieces)]})
		}
		// ... and frames at the largest MAX_FRAME_SIZE an endpoint may advertise (2^24-1)
		big := [][2]int{{1<<20 + 1, 0}, {4 << 20, 1}}
		if tier == "thorough" {
			big = [][2]int{{1<<20 + 1, 0}, {1<<20 + 1, 1}, {4 << 20, 0}, {4 << 20, 1}, {1<<24 - 1, 0}, {1<<24 - 1, 1}, {16385, 0}, {1 << 20, 1}}
		}
		for _, b := range big {
			emit([]string{fmt.Sprintf("e2e-bigframe %d %d", b[0], b[1])})
		}
	}
}
