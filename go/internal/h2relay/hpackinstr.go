package h2relay

// HPACK at the level of representations (RFC 7541 section 6), dynamic table only, no Huffman:
// the instruction language of the `hb` (header block sent by a hand-driven endpoint encoder) and
// `hp.*` (x/net hpack.Decoder / Encoder against the Lean table model) ops, its wire
// serialisation, and ShadowTab, the dynamic table of the sending side (RFC 7541 section 4).
//
//	u<n>            dynamic table size update to n
//	i<k>            indexed field, dynamic entry k (0 = newest; wire index 62+k)
//	a<name>:<value> literal with incremental indexing, new name       (hex strings, may be empty)
//	r<k>:<value>    literal with incremental indexing, name of dynamic entry k
//	l<name>:<value> literal without indexing, new name
//
// A block is a comma-separated list, "-" when empty.

import (
	"encoding/hex"
	"fmt"
	"strconv"
	"strings"
)

type Instr struct {
	Op          byte // 'u' 'i' 'a' 'r' 'l'
	N           uint64
	Name, Value string
}

func ParseInstrs(tok string) ([]Instr, bool) {
	if tok == "-" {
		return nil, true
	}
	var out []Instr
	for _, it := range strings.Split(tok, ",") {
		if len(it) < 2 {
			return nil, false
		}
		in := Instr{Op: it[0]}
		rest := it[1:]
		switch in.Op {
		case 'u', 'i':
			n, err := strconv.ParseUint(rest, 10, 32)
			if err != nil {
				return nil, false
			}
			in.N = n
		case 'a', 'l':
			p := strings.SplitN(rest, ":", 2)
			if len(p) != 2 {
				return nil, false
			}
			nb, e1 := hex.DecodeString(p[0])
			vb, e2 := hex.DecodeString(p[1])
			if e1 != nil || e2 != nil {
				return nil, false
			}
			in.Name, in.Value = string(nb), string(vb)
		case 'r':
			p := strings.SplitN(rest, ":", 2)
			if len(p) != 2 {
				return nil, false
			}
			n, e1 := strconv.ParseUint(p[0], 10, 32)
			vb, e2 := hex.DecodeString(p[1])
			if e1 != nil || e2 != nil {
				return nil, false
			}
			in.N, in.Value = n, string(vb)
		default:
			return nil, false
		}
		out = append(out, in)
	}
	return out, true
}

func InstrsTok(is []Instr) string {
	if len(is) == 0 {
		return "-"
	}
	var p []string
	for _, in := range is {
		switch in.Op {
		case 'u', 'i':
			p = append(p, fmt.Sprintf("%c%d", in.Op, in.N))
		case 'a', 'l':
			p = append(p, fmt.Sprintf("%c%s:%s", in.Op, hex.EncodeToString([]byte(in.Name)), hex.EncodeToString([]byte(in.Value))))
		case 'r':
			p = append(p, fmt.Sprintf("r%d:%s", in.N, hex.EncodeToString([]byte(in.Value))))
		}
	}
	return strings.Join(p, ",")
}

// hpackVarInt: RFC 7541 5.1, n-bit prefix, the pattern bits already in `first`.
func hpackVarInt(first byte, n uint, v uint64) []byte {
	k := uint64(1)<<n - 1
	if v < k {
		return []byte{first | byte(v)}
	}
	out := []byte{first | byte(k)}
	v -= k
	for v >= 128 {
		out = append(out, byte(v%128+128))
		v /= 128
	}
	return append(out, byte(v))
}

func hpackStr(s string) []byte { return append(hpackVarInt(0, 7, uint64(len(s))), s...) }

// Serialize writes the representations on the wire (dynamic entry k = index 62+k).
func Serialize(is []Instr) []byte {
	var b []byte
	for _, in := range is {
		switch in.Op {
		case 'u':
			b = append(b, hpackVarInt(0x20, 5, in.N)...)
		case 'i':
			b = append(b, hpackVarInt(0x80, 7, 62+in.N)...)
		case 'a':
			b = append(b, 0x40)
			b = append(b, hpackStr(in.Name)...)
			b = append(b, hpackStr(in.Value)...)
		case 'r':
			b = append(b, hpackVarInt(0x40, 6, 62+in.N)...)
			b = append(b, hpackStr(in.Value)...)
		case 'l':
			b = append(b, 0x00)
			b = append(b, hpackStr(in.Name)...)
			b = append(b, hpackStr(in.Value)...)
		}
	}
	return b
}

// LeadingUpdates returns the dynamic table size updates a serialized block begins with.
func LeadingUpdates(b []byte) []uint64 {
	var out []uint64
	for len(b) > 0 && b[0]&0xe0 == 0x20 {
		v := uint64(b[0] & 0x1f)
		b = b[1:]
		if v == 31 {
			var m uint
			for {
				if len(b) == 0 || m > 35 {
					return out
				}
				c := b[0]
				b = b[1:]
				v += uint64(c&127) << m
				m += 7
				if c&128 == 0 {
					break
				}
			}
		}
		out = append(out, v)
	}
	return out
}

// ShadowTab is an HPACK dynamic table (RFC 7541 4.1-4.4): entries newest first.
type ShadowTab struct {
	Ents []Field
	Max  uint64
}

func NewShadowTab(max uint64) *ShadowTab { return &ShadowTab{Max: max} }

func entSize(f Field) uint64 { return uint64(len(f.Name) + len(f.Value) + 32) }

func (t *ShadowTab) Size() uint64 {
	var s uint64
	for _, f := range t.Ents {
		s += entSize(f)
	}
	return s
}

func (t *ShadowTab) evict() {
	for t.Size() > t.Max && len(t.Ents) > 0 {
		t.Ents = t.Ents[:len(t.Ents)-1]
	}
}

func (t *ShadowTab) SetMax(v uint64) { t.Max = v; t.evict() }
func (t *ShadowTab) Add(f Field)     { t.Ents = append([]Field{f}, t.Ents...); t.evict() }
func (t *ShadowTab) Clone() *ShadowTab {
	return &ShadowTab{Ents: append([]Field{}, t.Ents...), Max: t.Max}
}

// Apply runs a block the owner of the table (an encoder) emits, under the limit it knows, and
// returns the field list the block means. ok=false: not a block a conforming encoder may emit
// (size update not leading, more than two, above the limit, table larger than the limit and not
// reduced first, reference to a missing entry) - or one the pinned x/net decoder mishandles (second
// size update with a table that is not empty after the first).
func (t *ShadowTab) Apply(is []Instr, limit uint64) ([]Field, bool) {
	var fs []Field
	i := 0
	for i < len(is) && is[i].Op == 'u' {
		if is[i].N > limit || i >= 2 || (i == 1 && len(t.Ents) > 0) {
			return nil, false
		}
		t.SetMax(is[i].N)
		i++
	}
	if t.Max > limit {
		return nil, false
	}
	for ; i < len(is); i++ {
		in := is[i]
		switch in.Op {
		case 'u':
			return nil, false
		case 'i':
			if in.N >= uint64(len(t.Ents)) {
				return nil, false
			}
			fs = append(fs, t.Ents[in.N])
		case 'a':
			f := Field{in.Name, in.Value}
			t.Add(f)
			fs = append(fs, f)
		case 'r':
			if in.N >= uint64(len(t.Ents)) {
				return nil, false
			}
			f := Field{t.Ents[in.N].Name, in.Value}
			t.Add(f)
			fs = append(fs, f)
		case 'l':
			fs = append(fs, Field{in.Name, in.Value})
		}
	}
	return fs, true
}

// IsLiteralBlock reports whether b consists only of "literal without indexing - new name" fields
// (what LitEncode produces): the blocks of model-compared cases.
func IsLiteralBlock(b []byte) bool {
	rd := func() bool { // one string, no Huffman
		if len(b) == 0 || b[0]&0x80 != 0 {
			return false
		}
		n := int(b[0])
		b = b[1:]
		if n == 127 {
			m := uint(0)
			for {
				if len(b) == 0 || m > 28 {
					return false
				}
				c := b[0]
				b = b[1:]
				n += int(c&127) << m
				m += 7
				if c&128 == 0 {
					break
				}
			}
		}
		if n > len(b) {
			return false
		}
		b = b[n:]
		return true
	}
	for len(b) > 0 {
		if b[0] != 0 {
			return false
		}
		b = b[1:]
		if !rd() || !rd() {
			return false
		}
	}
	return true
}

// FieldsTok / ParseFieldsTok: a field list as "hexname:valuetok,..." (valuetok as in ParseBytes).
func FieldsTok(fs []Field, valTok func(string) string) string {
	if len(fs) == 0 {
		return "-"
	}
	var p []string
	for _, f := range fs {
		p = append(p, hex.EncodeToString([]byte(f.Name))+":"+valTok(f.Value))
	}
	return strings.Join(p, ",")
}

func ParseFieldsTok(tok string) ([]Field, bool) {
	if tok == "-" {
		return nil, true
	}
	var fs []Field
	for _, it := range strings.Split(tok, ",") {
		p := strings.SplitN(it, ":", 2)
		if len(p) != 2 {
			return nil, false
		}
		nb, err := hex.DecodeString(p[0])
		if err != nil {
			return nil, false
		}
		vb, ok := ParseBytes(p[1])
		if !ok {
			return nil, false
		}
		fs = append(fs, Field{string(nb), string(vb)})
	}
	return fs, true
}

// LitDecode reads back a LitEncode block (literal without indexing, new name, no Huffman).
func LitDecode(b []byte) ([]Field, bool) {
	var fs []Field
	str := func() (string, bool) {
		if len(b) == 0 || b[0]&0x80 != 0 {
			return "", false
		}
		n := int(b[0])
		b = b[1:]
		if n == 127 {
			m := uint(0)
			for {
				if len(b) == 0 || m > 28 {
					return "", false
				}
				c := b[0]
				b = b[1:]
				n += int(c&127) << m
				m += 7
				if c&128 == 0 {
					break
				}
			}
		}
		if n > len(b) {
			return "", false
		}
		s := string(b[:n])
		b = b[n:]
		return s, true
	}
	for len(b) > 0 {
		if b[0] != 0 {
			return nil, false
		}
		b = b[1:]
		n, ok1 := str()
		v, ok2 := str()
		if !ok1 || !ok2 {
			return nil, false
		}
		fs = append(fs, Field{n, v})
	}
	return fs, true
}
