package h2relay

// Small end-to-end tier through h2.Config.Proxy: an in-memory client connection (net.Pipe, whose
// Write hands the reader exactly the piece written, so a dribbled connection preface cannot be
// coalesced) and a local TLS h2 endpoint the proxy dials. Checks what the relay model does not
// contain: the preface is forwarded intact however small the pieces are, and the first frames
// arrive. Every wait has a deadline.

import (
	"bytes"
	"crypto/tls"
	"crypto/x509"
	"fmt"
	"io"
	"net"
	"net/url"
	"strconv"
	"strings"
	"sync"
	"time"

	"github.com/google/martian/v3/h2"
	"github.com/google/martian/v3/mitm"
	"golang.org/x/net/http2"

	"verif/harness/internal/core"
)

const preface = "PRI * HTTP/2.0\r\n\r\nSM\r\n\r\n"

var e2eOnce sync.Once
var e2eTLS *tls.Config
var e2ePool *x509.CertPool
var e2eErr error

func e2eSetup() {
	ca, priv, err := mitm.NewAuthority("verif-c08", "verif", time.Hour)
	if err != nil {
		e2eErr = err
		return
	}
	mc, err := mitm.NewConfig(ca, priv)
	if err != nil {
		e2eErr = err
		return
	}
	e2eTLS = mc.TLSForHost("localhost")
	e2eTLS.NextProtos = []string{"h2"}
	e2ePool = x509.NewCertPool()
	e2ePool.AddCert(ca)
}

// e2ePreface: op "e2e-preface <n1,n2,...>" — the client writes the 24-byte preface in pieces of
// the given sizes (the rest in one piece), then SETTINGS and a HEADERS frame.
func e2ePreface(arg string) core.Result {
	res := core.Result{Impl: "e2e ok", SkipModel: true}
	bad := func(format string, a ...interface{}) core.Result {
		res.Impl = "e2e failed"
		res.Fail = fmt.Sprintf(format, a...)
		res.Sig = "c08:e2e-preface"
		return res
	}
	e2eOnce.Do(e2eSetup)
	if e2eErr != nil {
		return core.Result{Impl: "e2e unavailable", SkipModel: true}
	}
	var sizes []int
	for _, t := range strings.Split(arg, ",") {
		n, err := strconv.Atoi(t)
		if err != nil || n <= 0 {
			return core.Result{Impl: "bad-op"}
		}
		sizes = append(sizes, n)
	}
	ln, err := tls.Listen("tcp", "127.0.0.1:0", e2eTLS)
	if err != nil {
		return core.Result{Impl: "e2e unavailable", SkipModel: true}
	}
	defer ln.Close()
	port := ln.Addr().(*net.TCPAddr).Port

	type srvResult struct {
		preface []byte
		frames  []string
		err     error
	}
	accepted := make(chan struct{})
	srvDone := make(chan srvResult, 1)
	go func() {
		var r srvResult
		c, err := ln.Accept()
		if err != nil {
			r.err = err
			srvDone <- r
			return
		}
		defer c.Close()
		c.SetDeadline(time.Now().Add(8 * time.Second))
		if err := c.(*tls.Conn).Handshake(); err != nil {
			r.err = err
			close(accepted)
			srvDone <- r
			return
		}
		close(accepted)
		buf := make([]byte, len(preface))
		if _, err := io.ReadFull(c, buf); err != nil {
			r.err = fmt.Errorf("reading preface: %v", err)
			srvDone <- r
			return
		}
		r.preface = buf
		fr := http2.NewFramer(io.Discard, c)
		for i := 0; i < 2; i++ {
			f, err := fr.ReadFrame()
			if err != nil {
				r.err = fmt.Errorf("reading frame %d: %v", i, err)
				break
			}
			r.frames = append(r.frames, fmt.Sprintf("%v/%d/%d", f.Header().Type, f.Header().StreamID, f.Header().Length))
		}
		srvDone <- r
	}()

	cl, cc := net.Pipe()
	defer cl.Close()
	closing := make(chan bool)
	proxyDone := make(chan error, 1)
	cfg := &h2.Config{RootCAs: e2ePool}
	go func() {
		proxyDone <- cfg.Proxy(closing, cc, &url.URL{Scheme: "https", Host: "localhost:" + strconv.Itoa(port)})
		cc.Close()
	}()
	select {
	case <-accepted:
	case err := <-proxyDone:
		return core.Result{Impl: "e2e unavailable", SkipModel: true, Fail: "", Sig: fmt.Sprint(err)}
	case <-time.After(8 * time.Second):
		close(closing)
		return core.Result{Impl: "e2e unavailable", SkipModel: true}
	}
	// dribble the preface only now (the proxy reads it after dialling upstream)
	cl.SetDeadline(time.Now().Add(5 * time.Second))
	rest := []byte(preface)
	var werr error
	for _, n := range sizes {
		if n > len(rest) {
			n = len(rest)
		}
		if n == 0 {
			break
		}
		if _, werr = cl.Write(rest[:n]); werr != nil {
			break
		}
		rest = rest[n:]
	}
	if werr == nil && len(rest) > 0 {
		_, werr = cl.Write(rest)
	}
	var fb bytes.Buffer
	fw := http2.NewFramer(&fb, nil)
	fw.WriteSettings()
	fw.WriteHeaders(http2.HeadersFrameParam{StreamID: 1, EndHeaders: true, EndStream: true, BlockFragment: LitEncode([]Field{{":method", "GET"}})})
	if werr == nil {
		_, werr = cl.Write(fb.Bytes())
	}
	var sr srvResult
	select {
	case sr = <-srvDone:
	case <-time.After(10 * time.Second):
		sr.err = fmt.Errorf("server saw nothing within 10s")
	}
	close(closing)
	cl.Close()
	select {
	case <-proxyDone:
	case <-time.After(3 * time.Second):
		core.Count("e2e:proxy-did-not-return-in-3s")
	}
	if werr != nil {
		return bad("client could not send its preface in pieces %v and first frames: %v (server: %v)", sizes, werr, sr.err)
	}
	if sr.err != nil {
		return bad("preface sent in pieces %v: %v", sizes, sr.err)
	}
	if string(sr.preface) != preface {
		return bad("preface sent in pieces %v arrived as %q", sizes, sr.preface)
	}
	if len(sr.frames) != 2 || !strings.HasPrefix(sr.frames[0], "SETTINGS/0/") || !strings.HasPrefix(sr.frames[1], "HEADERS/1/") {
		return bad("after the preface the server received %v", sr.frames)
	}
	core.Count("e2e:preface-ok")
	return res
}
