package h2relay

// hp.* ops: the pinned x/net hpack.Decoder and the size signalling of hpack.Encoder, alone, against
// the Lean model of the dynamic table (Model/H2Hpack.lean: Dec, EncSig). Model-compared.
//
//	hp.new max allowed   fresh decoder NewDecoder(max) with SetAllowedMaxDynamicTableSize(allowed), fresh encoder
//	hp.allow v           decoder.SetAllowedMaxDynamicTableSize(v)
//	hp.setmax v          decoder.SetMaxDynamicTableSize(v)      (what relay.updateTableSize did before the F08e repair)
//	hp.block instrs      decoder.DecodeFull(block)              -> "ok f=<fields> tab=<entries, newest first>" | "err" (then both sides start afresh)
//	hp.encmax v          encoder.SetMaxDynamicTableSize(v)
//	hp.enclimit v        encoder.SetMaxDynamicTableSizeLimit(v)
//	hp.enc               encoder.WriteField(x: y)               -> "ok upd=<size updates written first>"
//
// The decoder's table is read back after every op by decoding one-representation blocks "indexed k"
// (which change nothing) for k = 0, 1, ... until the index is invalid.

import (
	"bytes"
	"fmt"
	"strconv"
	"strings"

	"golang.org/x/net/http2/hpack"

	"verif/harness/internal/core"
)

type hpState struct {
	dec *hpack.Decoder
	enc *hpack.Encoder
	buf *bytes.Buffer
}

func newHP(max, allowed uint32) *hpState {
	h := &hpState{buf: &bytes.Buffer{}}
	h.dec = hpack.NewDecoder(max, nil)
	h.dec.SetAllowedMaxDynamicTableSize(allowed)
	h.enc = hpack.NewEncoder(h.buf)
	return h
}

func (h *hpState) table() string {
	var fs []Field
	for k := 0; k < 100000; k++ {
		hf, err := h.dec.DecodeFull(Serialize([]Instr{{Op: 'i', N: uint64(k)}}))
		if err != nil {
			h.dec.Close() // DecodeFull leaves firstField cleared on an error
			break
		}
		fs = append(fs, Field{hf[0].Name, hf[0].Value})
	}
	return fmt.Sprintf("%d:%s", len(fs), Digest(LitEncode(fs)))
}

func (x *Exec) hpOp(t []string) core.Result {
	if x.prop != "C08" {
		return core.Result{Impl: "hp skipped", SkipModel: true}
	}
	if x.hp == nil {
		x.hp = newHP(4096, 4096)
	}
	h := x.hp
	u32 := func(i int) (uint32, bool) {
		if i >= len(t) {
			return 0, false
		}
		v, err := strconv.ParseUint(t[i], 10, 32)
		return uint32(v), err == nil
	}
	core.Count("op:" + t[0])
	switch t[0] {
	case "hp.new":
		m, ok1 := u32(1)
		a, ok2 := u32(2)
		if !ok1 || !ok2 || len(t) != 3 {
			return core.Result{Impl: "bad-op"}
		}
		x.hp = newHP(m, a)
		return core.Result{Impl: "ok tab=" + x.hp.table()}
	case "hp.allow", "hp.setmax", "hp.encmax", "hp.enclimit":
		v, ok := u32(1)
		if !ok || len(t) != 2 {
			return core.Result{Impl: "bad-op"}
		}
		switch t[0] {
		case "hp.allow":
			h.dec.SetAllowedMaxDynamicTableSize(v)
		case "hp.setmax":
			h.dec.SetMaxDynamicTableSize(v)
		case "hp.encmax":
			h.enc.SetMaxDynamicTableSize(v)
		case "hp.enclimit":
			h.enc.SetMaxDynamicTableSizeLimit(v)
		}
		return core.Result{Impl: "ok tab=" + h.table()}
	case "hp.block":
		if len(t) != 2 {
			return core.Result{Impl: "bad-op"}
		}
		is, ok := ParseInstrs(t[1])
		if !ok {
			return core.Result{Impl: "bad-op"}
		}
		hfs, err := h.dec.DecodeFull(Serialize(is))
		if err != nil {
			core.Count("hp:block-rejected")
			x.hp = newHP(4096, 4096)
			return core.Result{Impl: "err"}
		}
		var fs []Field
		for _, hf := range hfs {
			fs = append(fs, Field{hf.Name, hf.Value})
		}
		core.Count("hp:block-decoded")
		return core.Result{Impl: "ok f=" + Digest(LitEncode(fs)) + " tab=" + h.table()}
	case "hp.enc":
		h.buf.Reset()
		h.enc.WriteField(hpack.HeaderField{Name: "x", Value: "y"})
		var p []string
		for _, u := range LeadingUpdates(h.buf.Bytes()) {
			p = append(p, strconv.FormatUint(u, 10))
		}
		s := "-"
		if len(p) > 0 {
			s = strings.Join(p, ".")
		}
		return core.Result{Impl: "ok upd=" + s}
	}
	return core.Result{Impl: "bad-op"}
}

// hpCase: a random history of decoder / encoder operations; blocks are mostly what an encoder
// owning the table would emit, some are not (references past the table, size updates above the
// allowed size, in the middle of a block, twice with a table that is not empty).
func hpCase(r *core.Rand) []string {
	var ops []string
	emit := func(f string, a ...interface{}) { ops = append(ops, fmt.Sprintf(f, a...)) }
	sizes := []uint64{0, 31, 32, 40, 64, 100, 200, 1000, 4096, 4097, 65536, 1<<32 - 1}
	size := func() uint64 { return sizes[r.Intn(len(sizes))] }
	tab := NewShadowTab(4096)
	allowed := uint64(4096)
	if r.Chance(1, 2) {
		m, a := size(), size()
		emit("hp.new %d %d", m, a)
		tab, allowed = NewShadowTab(m), a
	}
	nm := func() string { return []string{"a", "bb", "x-k", ":path", ""}[r.Intn(5)] }
	vl := func() string {
		return []string{"", "v", "v1", "0123456789", strings.Repeat("z", 40), strings.Repeat("q", 200)}[r.Intn(6)]
	}
	for n := 3 + r.Intn(25); n > 0; n-- {
		switch k := r.Intn(20); {
		case k < 11:
			var is []Instr
			if r.Chance(1, 4) { // leading size update(s)
				for j := 1 + r.Intn(2); j > 0; j-- {
					is = append(is, Instr{Op: 'u', N: size()})
				}
			}
			for j := r.Intn(5); j > 0; j-- {
				ne := uint64(len(tab.Ents)) + 2
				switch r.Intn(9) {
				case 0, 1, 2:
					is = append(is, Instr{Op: 'a', Name: nm(), Value: vl()})
				case 3, 4:
					is = append(is, Instr{Op: 'i', N: uint64(r.Intn(int(ne)))})
				case 5:
					is = append(is, Instr{Op: 'r', N: uint64(r.Intn(int(ne))), Value: vl()})
				case 6, 7:
					is = append(is, Instr{Op: 'l', Name: nm(), Value: vl()})
				case 8:
					if r.Chance(1, 3) {
						is = append(is, Instr{Op: 'u', N: size()}) // not at the start
					}
				}
				// keep the tracker roughly right (only used to aim the indices)
				if len(is) > 0 && is[len(is)-1].Op == 'a' {
					last := is[len(is)-1]
					tab.Add(Field{last.Name, last.Value})
				}
			}
			emit("hp.block %s", InstrsTok(is))
		case k < 13:
			v := size()
			emit("hp.setmax %d", v)
			tab.SetMax(v)
		case k < 15:
			allowed = size()
			emit("hp.allow %d", allowed)
		case k < 17:
			emit("hp.encmax %d", size())
		case k == 17:
			emit("hp.enclimit %d", size())
		default:
			emit("hp.enc")
		}
	}
	_ = allowed
	return ops
}
