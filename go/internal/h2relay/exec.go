// Package h2relay is the shared correspondence harness of C08 (frame fidelity) and C09 (flow
// control): it drives the two real h2 relays through the verif hook h2.VerifRelayPair, one input
// frame per op, plays both endpoints with real http2.Framers and hpack.Decoders, renders what
// each endpoint received plus a snapshot of the relays' windows and queues as one canonical
// line (compared with the Lean model), and evaluates the property oracles, which are stated over
// the endpoints' observations only (expected per-stream event lists, the receiver's own byte
// ledger, the sender's WINDOW_UPDATE totals) and never consult the model.
package h2relay

import (
	"bytes"
	"encoding/binary"
	"fmt"
	"io"
	"sort"
	"strconv"
	"strings"

	"github.com/google/martian/v3/h2"
	"golang.org/x/net/http2"
	"golang.org/x/net/http2/hpack"

	"verif/harness/internal/core"
)

// ---- canonical renderings shared with the Lean driver -------------------------------------

func fnv1a(b []byte) uint32 {
	h := uint32(2166136261)
	for _, x := range b {
		h ^= uint32(x)
		h *= 16777619
	}
	return h
}

// Digest renders a byte string: short ones literally, long ones as length and FNV-1a.
func Digest(b []byte) string {
	if len(b) == 0 {
		return "-"
	}
	if len(b) <= 48 {
		return "x" + core.Hex(b)
	}
	return fmt.Sprintf("n%d.%d", len(b), fnv1a(b))
}

// GenBytes is the pattern behind payload tokens "g<seed>.<n>".
func GenBytes(seed, n int) []byte {
	b := make([]byte, n)
	for i := range b {
		b[i] = byte((seed*31 + i*7 + (i >> 8)) & 0xff)
	}
	return b
}

// ParseBytes decodes a payload token: "-", "x<hex>" or "g<seed>.<n>".
func ParseBytes(t string) ([]byte, bool) {
	switch {
	case t == "-":
		return nil, true
	case strings.HasPrefix(t, "x"):
		return core.Unhex(t[1:])
	case strings.HasPrefix(t, "g"):
		p := strings.SplitN(t[1:], ".", 2)
		if len(p) != 2 {
			return nil, false
		}
		s, e1 := strconv.Atoi(p[0])
		n, e2 := strconv.Atoi(p[1])
		if e1 != nil || e2 != nil || n < 0 || n > 1<<24 {
			return nil, false
		}
		return GenBytes(s, n), true
	}
	return nil, false
}

func BytesTok(b []byte) string {
	if len(b) == 0 {
		return "-"
	}
	return "x" + core.Hex(b)
}

// Field is one header field; LitEncode is the canonical serialisation of a field list: HPACK
// "literal header field without indexing - new name", no Huffman. It is at once what the
// harness endpoints send (in model-compared cases) and how decoded lists are printed.
type Field struct{ Name, Value string }

func hpackInt7(n int) []byte {
	if n < 127 {
		return []byte{byte(n)}
	}
	out := []byte{127}
	n -= 127
	for n >= 128 {
		out = append(out, byte(n%128+128))
		n /= 128
	}
	return append(out, byte(n))
}

func LitEncode(fs []Field) []byte {
	var b []byte
	for _, f := range fs {
		b = append(b, 0)
		b = append(b, hpackInt7(len(f.Name))...)
		b = append(b, f.Name...)
		b = append(b, hpackInt7(len(f.Value))...)
		b = append(b, f.Value...)
	}
	return b
}

func prioTok(p http2.PriorityParam, present bool) string {
	if !present {
		return "-"
	}
	e := 0
	if p.Exclusive {
		e = 1
	}
	return fmt.Sprintf("%d/%d/%d", p.StreamDep, e, p.Weight)
}

func parsePrio(t string) (http2.PriorityParam, bool, bool) {
	if t == "-" {
		return http2.PriorityParam{}, false, true
	}
	p := strings.Split(t, "/")
	if len(p) != 3 {
		return http2.PriorityParam{}, false, false
	}
	d, e1 := strconv.ParseUint(p[0], 10, 31)
	x, e2 := strconv.Atoi(p[1])
	w, e3 := strconv.ParseUint(p[2], 10, 8)
	if e1 != nil || e2 != nil || e3 != nil || x < 0 || x > 1 {
		return http2.PriorityParam{}, false, false
	}
	return http2.PriorityParam{StreamDep: uint32(d), Exclusive: x == 1, Weight: uint8(w)}, true, true
}

func b01(b bool) string {
	if b {
		return "1"
	}
	return "0"
}

// ---- expected events (oracle state) --------------------------------------------------------

type ev struct {
	kind     byte // 'D' data, 'H' headers, 'U' push promise, 'P' priority, 'R' rst
	es       bool
	prio     string
	fields   []byte // canonical literal encoding of the field list the sender encoded
	promised uint32
	code     uint32
	data     []byte
	off      int
	encoded  []byte // the block the relay's encoder produces for this event (mirror encoder), nil = unknown
}

type pendingBlock struct {
	active   bool
	sid      uint32
	push     bool
	es       bool
	prio     string
	promised uint32
	frags    []byte
	fields   []byte // canonical field list the sender means, when the op states it (rhdr, rpp, hb)
	known    bool
	updates  int // leading dynamic table size updates of the block
}

// Exec implements core.Exec for both properties; prop selects which oracle clauses are reported.
type Exec struct {
	prop string
	pair *h2.VerifRelayPair

	fromEP, toEP [2]*bytes.Buffer
	wr, rd       [2]*http2.Framer
	// strict[e] reads a copy of everything endpoint e receives the way an endpoint that enforces
	// the SETTINGS_MAX_FRAME_SIZE it advertised does (Framer.SetMaxReadFrameSize): a larger frame
	// is a FRAME_SIZE_ERROR (http2.ErrFrameTooLarge) and nothing after it is delivered.
	strict       [2]*http2.Framer
	strictBuf    [2]*bytes.Buffer
	strictOff    [2]bool
	dec          [2]*hpack.Decoder // decoder of endpoint e (decodes what e receives)
	mirror       [2]*hpack.Decoder // mirrors endpoint e's own encoder (real-HPACK cases only)
	realHpack    bool
	dead         bool
	lastBlockSid uint32

	pend [2]pendingBlock // header block endpoint e is in the middle of sending

	// expected per-stream events for direction d (sent by endpoint d, received by endpoint 1-d)
	exp [2]map[uint32][]*ev
	// receiver ledger for direction d: what endpoint 1-d granted, what it received
	rInit, rMax [2]int64
	rConn       [2]int64
	rWU, rRecv  [2]map[uint32]int64
	// sender-side credit accounting for endpoint e
	sentFlow, credited         [2]map[uint32]int64
	sentFlowConn, creditedConn [2]int64
	hazard                     [2]bool // F08b class reached on relay of direction d

	// ---- SETTINGS_HEADER_TABLE_SIZE signalling (RFC 7540 6.5.3, RFC 7541 4.2) ----
	// Endpoint e applies the SETTINGS it received when it acknowledges them (op settingsack): until
	// then its HPACK encoder keeps working under the limits it knew. ackDue[e]: one entry per SETTINGS
	// frame endpoint e has received and not yet acknowledged = the HEADER_TABLE_SIZE values in it.
	ackDue [2][][]uint32
	// advFrames[e]: the same for the SETTINGS frames endpoint e sent whose acknowledgement it has
	// not yet received; advAcked[e]: the value in force by acknowledgement. Endpoint e's decoder
	// accepts a dynamic table size update up to the largest of these.
	advFrames [2][][]uint32
	advAcked  [2]uint32
	// real-HPACK cases: endpoint e's own encoder (blocks are encoded when the op executes, so a
	// shrunk op list is still a valid session), its policy limit, and the CONTINUATION fragments
	// it still has to send (op rcont)
	enc      [2]*hpack.Encoder
	encBuf   [2]*bytes.Buffer
	realPend [2][][]byte
	// sender-side instruction blocks (op hb): the dynamic table of endpoint e's hand-driven encoder
	// and the limit it knows (last acknowledged HEADER_TABLE_SIZE of the peer)
	sTab   [2]*ShadowTab
	sLimit [2]uint32
	// an x/net hpack.Decoder rejects the second of two leading dynamic table size updates when its
	// table is not empty after the first (trusted base, see section file): remembered per
	// direction so that this decoder quirk is not blamed on the relay
	// F08b, second form: relay d wrote a dynamic table size update in front of a block that then
	// stayed in an output queue; if the receiver lowers its table size (and sees the acknowledgement,
	// which is forwarded at once) before the block leaves, the update in it is above what the
	// receiver allows by then. updPending[d]: endpoint 1-d advertised a table size since relay d last
	// encoded a block.
	updPending [2]bool
	stale      [2]bool
	// menc[d] mirrors the HPACK encoder of relay d: the same field lists in the same order, the same
	// table sizes at the same moments, hence the same bytes. A block that reaches the receiver with
	// other bytes than the relay's encoder produced for it was damaged inside the relay; only a block
	// that arrives intact and still decodes differently is explained by the receiver's table state
	// (F08b). mencOK[d] is cleared when the mirror cannot follow (an opaque block it cannot read, a
	// length that disagrees with the relay's).
	menc    [2]*hpack.Encoder
	mencBuf [2]*bytes.Buffer
	mencOK  [2]bool
	lastEnc *ev
	// stalled[d]: the writer of relay d stands still (its destination accepts no bytes): op `stall`,
	// until op `release`. Needs the hook StepStalled / Release (repo-patches/C08-hook-relay-stall.patch).
	stalled [2]bool
	lastEmpty bool // the block just completed means an empty field list
	// failures of the open findings are reported by the closing op `drained`, so that within a case
	// they cannot hide a different failure that comes later
	deferred *failure
	twoUpdatesIn [2]bool // endpoint d's latest block began with two size updates
	skipRest     bool    // the rest of the case is not sent to the model (case abandoned)
	quirkNow     bool    // ... in this step, because of the decoder quirk: the step's verdicts are void
	validIn      bool    // the header block completed in this step is inside the validated input domain
	hp           *hpState
}

func NewExec(prop string) *Exec {
	x := &Exec{prop: prop}
	for e := 0; e < 2; e++ {
		x.fromEP[e], x.toEP[e] = &bytes.Buffer{}, &bytes.Buffer{}
		x.wr[e] = http2.NewFramer(x.fromEP[e], bytes.NewReader(nil))
		x.rd[e] = http2.NewFramer(io.Discard, x.toEP[e])
		x.strictBuf[e] = &bytes.Buffer{}
		x.strict[e] = http2.NewFramer(io.Discard, x.strictBuf[e])
		x.dec[e] = hpack.NewDecoder(4096, nil)
		x.mirror[e] = hpack.NewDecoder(4096, nil)
		x.exp[e] = map[uint32][]*ev{}
		x.rInit[e], x.rMax[e], x.rConn[e] = 65535, 16384, 65535
		x.rWU[e], x.rRecv[e] = map[uint32]int64{}, map[uint32]int64{}
		x.sentFlow[e], x.credited[e] = map[uint32]int64{}, map[uint32]int64{}
		x.advAcked[e] = 4096
		x.mirror[e].SetAllowedMaxDynamicTableSize(1<<32 - 1)
		x.encBuf[e] = &bytes.Buffer{}
		x.enc[e] = hpack.NewEncoder(x.encBuf[e])
		x.mencBuf[e] = &bytes.Buffer{}
		x.menc[e] = hpack.NewEncoder(x.mencBuf[e])
		x.menc[e].SetMaxDynamicTableSizeLimit(1<<32 - 1)
		x.mencOK[e] = true
		x.sTab[e] = NewShadowTab(4096)
		x.sLimit[e] = 4096
	}
	cf := http2.NewFramer(x.toEP[0], x.fromEP[0])
	sf := http2.NewFramer(x.toEP[1], x.fromEP[1])
	x.pair = h2.VerifNewRelayPair(cf, sf, nil, nil)
	return x
}

func (x *Exec) Close() {}

type failure struct{ sig, msg string }

func (x *Exec) result(line string, fails []failure, modelOp string) core.Result {
	r := core.Result{Impl: line, ModelOp: modelOp, SkipModel: x.realHpack || x.skipRest}
	if x.quirkNow {
		return r
	}
	for _, f := range fails {
		mine := strings.HasPrefix(f.sig, strings.ToLower(x.prop)+":") || f.sig == "panic" || f.sig == "hang"
		if mine && openFinding[f.sig] {
			if x.deferred == nil {
				g := f
				g.msg = "(reported at the end of the case) " + g.msg
				x.deferred = &g
			}
			continue
		}
		if mine {
			r.Fail, r.Sig = f.msg, f.sig
			break
		}
	}
	return r
}

// openFinding: signatures of the open findings of C08 (known_findings.json). They are kept until the
// closing op so that, within one case, a known finding never hides another failure.
var openFinding = map[string]bool{
	"c08:hpack-block-out-of-encode-order": true,
	"c08:hpack-size-update-stale":         true,
	"c08:zero-priority-dropped":           true,
}

func epOf(t string) (int, bool) {
	switch t {
	case "c":
		return 0, true
	case "s":
		return 1, true
	}
	return 0, false
}

func atoiU32(t string) (uint32, bool) {
	v, err := strconv.ParseUint(t, 10, 32)
	return uint32(v), err == nil
}

// Do executes one op. See the package comment of gen.go for the op language.
func (x *Exec) Do(op string) core.Result {
	t := strings.Fields(op)
	if len(t) == 0 {
		return core.Result{Impl: "bad-op"}
	}
	if t[0] == "mode" && len(t) == 2 {
		x.realHpack = t[1] == "real"
		return core.Result{Impl: "ok", SkipModel: true}
	}
	if t[0] == "drained" {
		return x.drained()
	}
	if t[0] == "release" && !x.dead {
		// every writer runs again; afterwards the relays are at rest and the usual checks apply: a
		// `ping` (a direct write, no queue involved) is used as the carrier step
		if st, okh := interface{}(x.pair).(stallHook); okh {
			st.Release()
		}
		x.stalled = [2]bool{}
		core.Count("op:release")
		r := x.Do("ping c 0 x0000000000000000")
		r.SkipModel = true
		return r
	}
	if t[0] == "e2e-preface" && len(t) == 2 {
		if x.prop != "C08" {
			return core.Result{Impl: "e2e skipped", SkipModel: true}
		}
		return e2ePreface(t[1])
	}
	if strings.HasPrefix(t[0], "hp.") {
		return x.hpOp(t)
	}
	if t[0] == "e2e-bigframe" && len(t) == 3 {
		if x.prop != "C08" {
			return core.Result{Impl: "e2e skipped", SkipModel: true}
		}
		return e2eBigFrame(t[1], t[2])
	}
	if x.dead {
		return core.Result{Impl: "dead", SkipModel: x.realHpack || x.skipRest}
	}
	if len(t) < 2 {
		return core.Result{Impl: "bad-op"}
	}
	e, ok := epOf(t[1])
	if !ok {
		return core.Result{Impl: "bad-op"}
	}
	var fails []failure
	fail := func(sig, format string, a ...interface{}) {
		fails = append(fails, failure{sig, fmt.Sprintf(format, a...)})
	}
	d := e // direction of frames sent by endpoint e
	w := x.wr[e]
	if t[0] == "cdata" && len(t) == 6 {
		// DATA from a CONFORMING sender: endpoint e keeps its own send windows (the initial window the
		// other endpoint advertised - the relay forwards SETTINGS verbatim and sends none of its own -,
		// plus the WINDOW_UPDATEs it received, minus the flow-controlled bytes it sent) and only sends a
		// frame that fits. The relay is at rest and holds none of this sender's credit back legitimately
		// (it acknowledges DATA on receipt), so a frame that does not fit means the sender is stalled for
		// good: the rest of its - RFC-valid - frame script can never be sent, let alone delivered.
		sid, ok1 := atoiU32(t[2])
		payload, ok2 := ParseBytes(t[5])
		pad, perr := strconv.Atoi(t[4])
		if !ok1 || !ok2 || (t[4] != "-" && (perr != nil || pad < 0 || pad > 255)) {
			return core.Result{Impl: "bad-op"}
		}
		flow := int64(len(payload))
		if t[4] != "-" {
			flow += int64(pad) + 1
		}
		sw := x.rInit[d] + x.credited[e][sid] - x.sentFlow[e][sid]
		cw := 65535 + x.creditedConn[e] - x.sentFlowConn[e]
		core.Count("op:cdata")
		if flow > sw || flow > cw {
			core.Count("oracle:conforming-sender-stalled")
			x.dead, x.skipRest = true, true
			r := core.Result{Impl: "stalled", SkipModel: true}
			if x.prop == "C08" {
				r.Sig = "c08:sender-stalled"
				r.Fail = fmt.Sprintf("endpoint %d honours its send window and cannot send its next DATA frame on stream %d (%d flow-controlled bytes: payload %d, padding %s): stream window %d, connection window %d, although the relay is at rest and has consumed everything sent so far (flow-controlled bytes sent: stream %d / connection %d, credit returned: %d / %d) - the rest of the frame script is never delivered", e, sid, flow, len(payload), t[4], sw, cw, x.sentFlow[e][sid], x.sentFlowConn[e], x.credited[e][sid], x.creditedConn[e])
			}
			return r
		}
		t[0] = "data"
	}
	x.validIn, x.quirkNow = false, false
	needEnc := false    // append enc=<n> for the model
	needOrd := false    // append ord=<sids> for the model
	wantCtl := ""       // control frame endpoint 1-e must receive identically in this step
	var wantWU []string // WINDOW_UPDATEs endpoint e must receive in this step
	var werr error
	switch t[0] {
	case "data": // data e sid es pad payload
		if len(t) != 6 {
			return core.Result{Impl: "bad-op"}
		}
		sid, ok1 := atoiU32(t[2])
		payload, ok2 := ParseBytes(t[5])
		if !ok1 || !ok2 || x.pend[e].active {
			return core.Result{Impl: "bad-op"}
		}
		es := t[3] == "1"
		flow := int64(len(payload))
		if t[4] == "-" {
			werr = w.WriteData(sid, es, payload)
		} else {
			n, err := strconv.Atoi(t[4])
			if err != nil || n < 0 || n > 255 {
				return core.Result{Impl: "bad-op"}
			}
			werr = w.WriteDataPadded(sid, es, payload, make([]byte, n))
			flow += int64(n) + 1
		}
		x.expectData(d, sid, payload, es)
		x.sentFlow[e][sid] += flow
		x.sentFlowConn[e] += flow
		if flow > 0 {
			wantWU = []string{fmt.Sprintf("W0:%d", flow), fmt.Sprintf("W%d:%d", sid, flow)}
		}
	case "headers": // headers e sid es eh prio frag
		if len(t) != 7 {
			return core.Result{Impl: "bad-op"}
		}
		sid, ok1 := atoiU32(t[2])
		prio, present, ok2 := parsePrio(t[5])
		frag, ok3 := ParseBytes(t[6])
		if !ok1 || !ok2 || !ok3 || x.pend[e].active {
			return core.Result{Impl: "bad-op"}
		}
		es, eh := t[3] == "1", t[4] == "1"
		if present && prio.IsZero() {
			// http2.Framer.WriteHeaders cannot set the PRIORITY flag with an all-zero parameter
			var fl http2.Flags = http2.FlagHeadersPriority
			if es {
				fl |= http2.FlagHeadersEndStream
			}
			if eh {
				fl |= http2.FlagHeadersEndHeaders
			}
			werr = w.WriteRawFrame(http2.FrameHeaders, fl, sid, append([]byte{0, 0, 0, 0, 0}, frag...))
		} else {
			werr = w.WriteHeaders(http2.HeadersFrameParam{StreamID: sid, BlockFragment: frag, EndStream: es, EndHeaders: eh, Priority: prio})
		}
		x.pend[e] = pendingBlock{active: true, sid: sid, es: es, prio: prioTok(prio, present), frags: append([]byte{}, frag...)}
		if eh {
			x.completeBlock(e)
			needEnc = true
		}
	case "pp": // pp e sid promised eh frag
		if len(t) != 6 {
			return core.Result{Impl: "bad-op"}
		}
		sid, ok1 := atoiU32(t[2])
		prom, ok2 := atoiU32(t[3])
		frag, ok3 := ParseBytes(t[5])
		if !ok1 || !ok2 || !ok3 || x.pend[e].active {
			return core.Result{Impl: "bad-op"}
		}
		eh := t[4] == "1"
		werr = w.WritePushPromise(http2.PushPromiseParam{StreamID: sid, PromiseID: prom, BlockFragment: frag, EndHeaders: eh})
		x.pend[e] = pendingBlock{active: true, sid: sid, push: true, promised: prom, frags: append([]byte{}, frag...)}
		if eh {
			x.completeBlock(e)
			needEnc = true
		}
	case "cont": // cont e sid eh frag
		if len(t) != 5 {
			return core.Result{Impl: "bad-op"}
		}
		sid, ok1 := atoiU32(t[2])
		frag, ok3 := ParseBytes(t[4])
		if !ok1 || !ok3 || !x.pend[e].active || x.pend[e].sid != sid {
			return core.Result{Impl: "bad-op"}
		}
		eh := t[3] == "1"
		werr = w.WriteContinuation(sid, eh, frag)
		x.pend[e].frags = append(x.pend[e].frags, frag...)
		if eh {
			x.completeBlock(e)
			needEnc = true
		}
	case "rhdr", "rpp": // rhdr e sid es prio cuts fields | rpp e sid promised fields   (real hpack.Encoder at the endpoint)
		var sid, prom uint32
		var ok1, ok2, ok3, present bool
		var prio http2.PriorityParam
		var fs []Field
		cuts := "-"
		if t[0] == "rhdr" {
			if len(t) != 7 {
				return core.Result{Impl: "bad-op"}
			}
			sid, ok1 = atoiU32(t[2])
			prio, present, ok2 = parsePrio(t[4])
			fs, ok3 = ParseFieldsTok(t[6])
			cuts = t[5]
		} else {
			if len(t) != 5 {
				return core.Result{Impl: "bad-op"}
			}
			sid, ok1 = atoiU32(t[2])
			prom, ok2 = atoiU32(t[3])
			fs, ok3 = ParseFieldsTok(t[4])
		}
		if !ok1 || !ok2 || !ok3 || x.pend[e].active || !x.realHpack || len(fs) == 0 {
			return core.Result{Impl: "bad-op"}
		}
		x.encBuf[e].Reset()
		for _, f := range fs {
			x.enc[e].WriteField(hpack.HeaderField{Name: f.Name, Value: f.Value})
		}
		block := append([]byte{}, x.encBuf[e].Bytes()...)
		frs, okc := cutBlock(block, cuts)
		if !okc {
			return core.Result{Impl: "bad-op"}
		}
		eh := len(frs) == 1
		if t[0] == "rhdr" {
			es := t[3] == "1"
			if present && prio.IsZero() {
				present = false
			}
			werr = w.WriteHeaders(http2.HeadersFrameParam{StreamID: sid, BlockFragment: frs[0], EndStream: es, EndHeaders: eh, Priority: prio})
			x.pend[e] = pendingBlock{active: true, sid: sid, es: es, prio: prioTok(prio, present)}
		} else {
			werr = w.WritePushPromise(http2.PushPromiseParam{StreamID: sid, PromiseID: prom, BlockFragment: frs[0], EndHeaders: eh})
			x.pend[e] = pendingBlock{active: true, sid: sid, push: true, promised: prom}
		}
		x.pend[e].fields, x.pend[e].known = LitEncode(fs), true
		x.pend[e].updates = len(LeadingUpdates(block))
		x.realPend[e] = frs[1:]
		if x.pend[e].updates > 0 {
			core.Count("gen:sender-block-with-size-update")
		}
		if eh {
			x.completeBlock(e)
			needEnc = true
		}
	case "rcont": // rcont e : the next CONTINUATION of the block endpoint e is sending
		if len(t) != 2 || !x.pend[e].active || len(x.realPend[e]) == 0 {
			return core.Result{Impl: "bad-op"}
		}
		frag := x.realPend[e][0]
		x.realPend[e] = x.realPend[e][1:]
		eh := len(x.realPend[e]) == 0
		werr = w.WriteContinuation(x.pend[e].sid, eh, frag)
		if eh {
			x.completeBlock(e)
			needEnc = true
		}
	case "enclimit": // enclimit e v : the table size endpoint e's own encoder is willing to use
		if len(t) != 3 {
			return core.Result{Impl: "bad-op"}
		}
		v, ok1 := atoiU32(t[2])
		if !ok1 {
			return core.Result{Impl: "bad-op"}
		}
		x.enc[e].SetMaxDynamicTableSizeLimit(v)
		return core.Result{Impl: "ok", SkipModel: true}
	case "hb", "hbc": // hb e sid es prio instrs : one HEADERS frame whose block is the given representations
		// (hbc: the same block as HEADERS without END_HEADERS + an empty CONTINUATION, in one op). A block
		// may consist of size updates only: it decodes to an EMPTY field list and still has to be
		// forwarded (one HEADERS frame with an empty fragment), END_STREAM included.
		if len(t) != 6 {
			return core.Result{Impl: "bad-op"}
		}
		sid, ok1 := atoiU32(t[2])
		prio, present, ok2 := parsePrio(t[4])
		is, ok3 := ParseInstrs(t[5])
		if !ok1 || !ok2 || !ok3 || x.pend[e].active || x.realHpack || (present && prio.IsZero()) {
			return core.Result{Impl: "bad-op"}
		}
		trial := x.sTab[e].Clone()
		fs, legal := trial.Apply(is, uint64(x.sLimit[e]))
		if !legal || len(is) == 0 {
			// not a block a conforming encoder emits here (a shrunk case): not an input, and the model,
			// which does not follow the sender's encoder, is not asked
			return core.Result{Impl: "bad-op", SkipModel: true}
		}
		x.sTab[e] = trial
		es := t[3] == "1"
		werr = w.WriteHeaders(http2.HeadersFrameParam{StreamID: sid, BlockFragment: Serialize(is), EndStream: es, EndHeaders: t[0] == "hb", Priority: prio})
		if t[0] == "hbc" && werr == nil {
			werr = w.WriteContinuation(sid, true, nil)
		}
		if len(fs) == 0 {
			core.Count("gen:empty-field-list-blocks")
		}
		x.pend[e] = pendingBlock{active: true, sid: sid, es: es, prio: prioTok(prio, present), fields: LitEncode(fs), known: true}
		for _, in := range is {
			if in.Op == 'u' {
				x.pend[e].updates++
			}
		}
		core.Count("op:hb-representations:" + hbKinds(is))
		x.completeBlock(e)
		needEnc = true
	case "stall": // stall e : from now on nothing relay e (frames sent by endpoint e) puts on its output channel is written out
		st, okh := interface{}(x.pair).(stallHook)
		if len(t) != 2 || !okh || st == nil {
			core.Count("stall:hook-unavailable")
			x.dead, x.skipRest = true, true
			return core.Result{Impl: "stall unavailable", SkipModel: true}
		}
		x.stalled[e], x.skipRest = true, true // the schedule is outside the model: the rest is oracle-only
		core.Count("op:stall")
		return core.Result{Impl: "ok", SkipModel: true}
	case "prio": // prio e sid p
		if len(t) != 4 {
			return core.Result{Impl: "bad-op"}
		}
		sid, ok1 := atoiU32(t[2])
		prio, present, ok2 := parsePrio(t[3])
		if !ok1 || !ok2 || !present || x.pend[e].active {
			return core.Result{Impl: "bad-op"}
		}
		werr = w.WritePriority(sid, prio)
		x.exp[d][sid] = append(x.exp[d][sid], &ev{kind: 'P', prio: prioTok(prio, true)})
	case "rst": // rst e sid code
		if len(t) != 4 {
			return core.Result{Impl: "bad-op"}
		}
		sid, ok1 := atoiU32(t[2])
		code, ok2 := atoiU32(t[3])
		if !ok1 || !ok2 || x.pend[e].active {
			return core.Result{Impl: "bad-op"}
		}
		werr = w.WriteRSTStream(sid, http2.ErrCode(code))
		x.exp[d][sid] = append(x.exp[d][sid], &ev{kind: 'R', code: code})
	case "settings": // settings e id=val,id=val | -
		if len(t) != 3 || x.pend[e].active {
			return core.Result{Impl: "bad-op"}
		}
		var ss []http2.Setting
		if t[2] != "-" {
			for _, kv := range strings.Split(t[2], ",") {
				p := strings.SplitN(kv, "=", 2)
				if len(p) != 2 {
					return core.Result{Impl: "bad-op"}
				}
				id, e1 := strconv.ParseUint(p[0], 10, 16)
				v, e2 := strconv.ParseUint(p[1], 10, 32)
				if e1 != nil || e2 != nil {
					return core.Result{Impl: "bad-op"}
				}
				ss = append(ss, http2.Setting{ID: http2.SettingID(id), Val: uint32(v)})
			}
		}
		// RFC 7540 6.5.3: the values of one SETTINGS frame are processed in the order they appear, so
		// of several values for one identifier the last is the one the sender of the frame applies
		nInit := 0
		tabVals := []uint32{}
		seenID := map[http2.SettingID]bool{}
		for _, s := range ss {
			if seenID[s.ID] {
				core.Count("gen:settings-duplicate-id")
			}
			seenID[s.ID] = true
			switch s.ID {
			case http2.SettingInitialWindowSize:
				nInit++
				x.rInit[1-e] = int64(s.Val) // endpoint e is the receiver of direction 1-e
			case http2.SettingMaxFrameSize:
				x.rMax[1-e] = int64(s.Val)
			case http2.SettingHeaderTableSize:
				tabVals = append(tabVals, s.Val)
				core.Count("gen:settings-header-table-size")
			}
		}
		if len(tabVals) > 0 {
			x.updPending[1-e] = true // relay 1-e (the one sending to e) announces it with its next block
		}
		for _, v := range tabVals {
			x.menc[1-e].SetMaxDynamicTableSize(v) // relay.updateTableSize, value by value
		}
		x.advFrames[e] = append(x.advFrames[e], tabVals)
		x.ackDue[1-e] = append(x.ackDue[1-e], tabVals) // the relay forwards the frame in this step
		x.setAllowed(e)
		needOrd = nInit > 0
		werr = w.WriteSettings(ss...)
		wantCtl = "S:" + t[2]
	case "settingsack":
		if len(t) != 2 || x.pend[e].active {
			return core.Result{Impl: "bad-op"}
		}
		werr = w.WriteSettingsAck()
		wantCtl = "SA"
		// endpoint e acknowledges, and thereby applies, the oldest SETTINGS frame it has received
		if len(x.ackDue[e]) > 0 {
			for _, v := range x.ackDue[e][0] {
				x.enc[e].SetMaxDynamicTableSize(v)
				x.sLimit[e] = v
				core.Count("gen:table-size-applied-at-ack")
			}
			x.ackDue[e] = x.ackDue[e][1:]
		}
	case "ping": // ping e ack data8
		if len(t) != 4 || x.pend[e].active {
			return core.Result{Impl: "bad-op"}
		}
		b, ok1 := ParseBytes(t[3])
		if !ok1 || len(b) != 8 {
			return core.Result{Impl: "bad-op"}
		}
		var a [8]byte
		copy(a[:], b)
		werr = w.WritePing(t[2] == "1", a)
		wantCtl = "PING:" + b01(t[2] == "1") + ":" + Digest(b)
	case "goaway": // goaway e last code debug
		if len(t) != 5 || x.pend[e].active {
			return core.Result{Impl: "bad-op"}
		}
		last, ok1 := atoiU32(t[2])
		code, ok2 := atoiU32(t[3])
		dbg, ok3 := ParseBytes(t[4])
		if !ok1 || !ok2 || !ok3 {
			return core.Result{Impl: "bad-op"}
		}
		werr = w.WriteGoAway(last, http2.ErrCode(code), dbg)
		wantCtl = fmt.Sprintf("GA:%d:%d:%s", last, code, Digest(dbg))
	case "wu": // wu e sid inc
		if len(t) != 4 || x.pend[e].active {
			return core.Result{Impl: "bad-op"}
		}
		sid, ok1 := atoiU32(t[2])
		inc, ok2 := atoiU32(t[3])
		if !ok1 || !ok2 || inc == 0 || inc > 1<<31-1 {
			return core.Result{Impl: "bad-op"}
		}
		werr = w.WriteWindowUpdate(sid, inc)
		if sid == 0 {
			x.rConn[1-e] += int64(inc)
			needOrd = true
		} else {
			x.rWU[1-e][sid] += int64(inc)
		}
	case "raw": // raw e type flags sid payload   (malformed stream, oracle-only)
		if len(t) != 6 {
			return core.Result{Impl: "bad-op"}
		}
		ty, e1 := strconv.ParseUint(t[2], 10, 8)
		fl, e2 := strconv.ParseUint(t[3], 10, 8)
		sid, ok1 := atoiU32(t[4])
		pl, ok2 := ParseBytes(t[5])
		if e1 != nil || e2 != nil || !ok1 || !ok2 {
			return core.Result{Impl: "bad-op"}
		}
		w.WriteRawFrame(http2.FrameType(ty), http2.Flags(fl), sid, pl)
		err := x.pair.Step(h2.Direction(d))
		x.toEP[0].Reset()
		x.toEP[1].Reset()
		x.dead, x.skipRest = true, true // afterwards the endpoints' expectations are void
		out := "raw-ok"
		if err != nil {
			out = "raw-err"
		}
		core.Count("raw:" + out)
		return core.Result{Impl: out, SkipModel: true}
	default:
		return core.Result{Impl: "bad-op"}
	}
	if werr != nil {
		// the harness endpoint itself could not build the frame: not an input of the relay
		x.fromEP[e].Reset()
		x.dead, x.skipRest = true, true
		return core.Result{Impl: "unwritable", SkipModel: true}
	}
	core.Count("op:" + t[0])

	step := func() error {
		if x.stalled[0] || x.stalled[1] {
			return interface{}(x.pair).(stallHook).StepStalled(h2.Direction(d), x.stalled)
		}
		return x.pair.Step(h2.Direction(d))
	}
	err := step()
	for err == nil && x.fromEP[e].Len() > 0 { // an op that wrote two frames (hbc)
		err = step()
	}
	status := "ok"
	if err != nil {
		status = "err"
		x.dead = true
		msg := err.Error()
		if len(msg) > 260 {
			msg = msg[len(msg)-100:]
		}
		core.Count("step-error:" + msg)
		switch {
		case strings.Contains(msg, xnetSizeUpdateQuirk) && x.twoUpdatesIn[d]:
			// the relay's x/net hpack.Decoder rejected the second of two leading size updates (legal,
			// RFC 7541 4.2): a limit of the trusted decoder, not of the relay; the case ends here
			core.Count("xnet-quirk:second-size-update-rejected-by-relay-decoder")
			x.skipRest = true
			return core.Result{Impl: "abandoned", SkipModel: true}
		case x.validIn || !blockOp(t[0]):
			fail("c08:relay-stopped", "the relay stopped relaying direction %d on a valid frame (everything endpoint %d sends from now on is lost): %s", d, e, msg)
		}
	}

	if needEnc && err == nil && x.lastEnc != nil {
		if got := x.pair.Snapshot(h2.Direction(d)).LastEncodedLen; got != len(x.lastEnc.encoded) {
			// the mirror encoder disagrees with the relay's about this block: it cannot vouch for bytes
			core.Count("mirror-encoder-length-disagrees")
			x.lastEnc.encoded = nil
			x.mencOK[d] = false
		}
	}
	if needEnc && err == nil {
		// F08b class: a header block was just encoded on relay d for stream x.lastBlockSid while
		// a block encoded earlier is still queued on another stream.
		// (the encoder writes pending size updates in front of the first FIELD: none for an empty list)
		emptyList := x.lastEmpty
		hadUpd := x.updPending[d] && !emptyList
		if !emptyList {
			x.updPending[d] = false
		}
		for _, st := range x.pair.Snapshot(h2.Direction(d)).Streams {
			if st.ID == x.lastBlockSid {
				// ... second form: the block just encoded carries a size update and stays queued
				if n := len(st.Queue); hadUpd && n > 0 && (st.Queue[n-1].Kind == "headers" || st.Queue[n-1].Kind == "push_promise") {
					if !x.stale[d] {
						core.Count("hpack-stale-size-update-cases")
					}
					x.stale[d] = true
				}
				continue
			}
			for _, qf := range st.Queue {
				if qf.Kind == "headers" || qf.Kind == "push_promise" {
					if !x.hazard[d] {
						core.Count("hpack-hazard-cases")
					}
					x.hazard[d] = true
				}
			}
		}
	}

	// ---- what each endpoint received in this step ----
	var rendered [2][]string
	var firstSeen []uint32
	seen := map[uint32]bool{}
	for r := 0; r < 2; r++ { // receiving endpoint r; the frames travelled in direction 1-r
		dir := 1 - r
		var blk *pendingBlockRx
		// the enforcing reader first (on a copy; the permissive reader below renders every frame)
		rejected := ""
		if !x.strictOff[r] && x.toEP[r].Len() > 0 {
			x.strictBuf[r].Write(x.toEP[r].Bytes())
			x.strict[r].SetMaxReadFrameSize(uint32(x.rMax[dir]))
			for x.strictBuf[r].Len() > 0 {
				if _, serr := x.strict[r].ReadFrame(); serr != nil {
					if _, isStream := serr.(http2.StreamError); isStream {
						continue // (x/net refuses e.g. an empty HEADERS fragment; the frame is consumed)
					}
					x.strictOff[r] = true
					x.strictBuf[r].Reset()
					if serr == http2.ErrFrameTooLarge {
						rejected = serr.Error()
					}
					break
				}
			}
		}
		checkSize := func(ty http2.FrameType, sid uint32, hl int64) {
			switch ty { // the frame types the relay builds itself (control frames are copied as sent)
			case http2.FrameData, http2.FrameHeaders, http2.FrameContinuation, http2.FramePushPromise:
			default:
				return
			}
			if hl > x.rMax[dir] {
				// C08: an endpoint enforcing the limit it advertised answers FRAME_SIZE_ERROR, so this
				// frame (DATA, or a header block) and everything after it is not delivered; C09: clause
				// `frame_within_max`.
				core.Count("oracle:frame-exceeds-max")
				for _, p := range []string{"c08", "c09"} {
					fail(p+":frame-exceeds-max", "endpoint %d received a %v frame on stream %d with a payload of %d bytes, its MAX_FRAME_SIZE is %d (a Framer with SetMaxReadFrameSize(%d): %q)", r, ty, sid, hl, x.rMax[dir], x.rMax[dir], rejected)
				}
			}
		}
		for x.toEP[r].Len() > 0 {
			// A PUSH_PROMISE continued by CONTINUATION frames (what the relay emits for a block that
			// does not fit one frame) cannot be read by this x/net Framer (checkFrameOrder tracks
			// HEADERS only): those frames are parsed by hand.
			if raw := x.toEP[r].Bytes(); len(raw) >= 9 {
				ln := int(raw[0])<<16 | int(raw[1])<<8 | int(raw[2])
				ty, fl := http2.FrameType(raw[3]), http2.Flags(raw[4])
				sid := binary.BigEndian.Uint32(raw[5:9]) & (1<<31 - 1)
				openPP := ty == http2.FramePushPromise && fl&http2.FlagPushPromiseEndHeaders == 0 && fl&http2.FlagPushPromisePadded == 0 && ln >= 4 && blk == nil
				contPP := ty == http2.FrameContinuation && blk != nil && blk.push && blk.sid == sid
				// A HEADERS frame with an EMPTY fragment (what the relay has to send for a header block without
				// fields) is refused by this x/net Framer on read: parsed by hand as well.
				hp := 0
				if fl&http2.FlagHeadersPriority != 0 {
					hp = 5
				}
				if ty == http2.FrameHeaders && fl&http2.FlagHeadersPadded == 0 && fl&http2.FlagHeadersEndHeaders != 0 && ln == hp && blk == nil && len(raw) >= 9+ln {
					pl := append([]byte{}, x.toEP[r].Next(9 + ln)[9:]...)
					core.Count("rx:empty-headers-frames")
					if !seen[sid] && r == e {
						seen[sid] = true
						firstSeen = append(firstSeen, sid)
					}
					b := &pendingBlockRx{sid: sid, es: fl&http2.FlagHeadersEndStream != 0, prio: "-", lens: []int{0}}
					if hp == 5 {
						dep := binary.BigEndian.Uint32(pl[:4])
						b.prio = prioTok(http2.PriorityParam{StreamDep: dep & (1<<31 - 1), Exclusive: dep>>31 == 1, Weight: pl[4]}, true)
					}
					rendered[r] = append(rendered[r], x.recvBlock(dir, r, b, fail))
					continue
				}
				if (openPP || contPP) && len(raw) >= 9+ln {
					pl := append([]byte{}, x.toEP[r].Next(9 + ln)[9:]...)
					checkSize(ty, sid, int64(ln))
					core.Count("rx:continued-push-promise-frames")
					if openPP {
						if !seen[sid] && r == e {
							seen[sid] = true
							firstSeen = append(firstSeen, sid)
						}
						blk = &pendingBlockRx{sid: sid, push: true, promised: binary.BigEndian.Uint32(pl[:4]) & (1<<31 - 1), frag: pl[4:], lens: []int{len(pl) - 4}}
						continue
					}
					blk.frag = append(blk.frag, pl...)
					blk.lens = append(blk.lens, len(pl))
					if fl&http2.FlagContinuationEndHeaders != 0 {
						rendered[r] = append(rendered[r], x.recvBlock(dir, r, blk, fail))
						blk = nil
					}
					continue
				}
			}
			f, rerr := x.rd[r].ReadFrame()
			if rerr != nil {
				fail("c08:invalid-output", "endpoint %d cannot parse what the relay sent: %v", r, rerr)
				rendered[r] = append(rendered[r], "!unparsable")
				x.toEP[r].Reset()
				break
			}
			hl := int64(f.Header().Length)
			checkSize(f.Header().Type, f.Header().StreamID, hl)
			note := func(sid uint32) {
				if !seen[sid] && r == e {
					seen[sid] = true
					firstSeen = append(firstSeen, sid)
				}
			}
			switch f := f.(type) {
			case *http2.DataFrame:
				note(f.StreamID)
				rendered[r] = append(rendered[r], fmt.Sprintf("D%d:%s:%s", f.StreamID, b01(f.StreamEnded()), Digest(f.Data())))
				x.recvData(dir, f, hl, fail)
			case *http2.HeadersFrame:
				note(f.StreamID)
				blk = &pendingBlockRx{sid: f.StreamID, es: f.StreamEnded(), prio: prioTok(f.Priority, f.HasPriority()), frag: append([]byte{}, f.HeaderBlockFragment()...), lens: []int{len(f.HeaderBlockFragment())}}
				if f.HeadersEnded() {
					rendered[r] = append(rendered[r], x.recvBlock(dir, r, blk, fail))
					blk = nil
				}
			case *http2.PushPromiseFrame:
				note(f.StreamID)
				blk = &pendingBlockRx{sid: f.StreamID, push: true, promised: f.PromiseID, frag: append([]byte{}, f.HeaderBlockFragment()...), lens: []int{len(f.HeaderBlockFragment())}}
				if f.HeadersEnded() {
					rendered[r] = append(rendered[r], x.recvBlock(dir, r, blk, fail))
					blk = nil
				}
			case *http2.ContinuationFrame:
				if blk == nil || blk.sid != f.StreamID {
					fail("c08:invalid-output", "endpoint %d received a stray CONTINUATION on stream %d", r, f.StreamID)
					continue
				}
				blk.frag = append(blk.frag, f.HeaderBlockFragment()...)
				blk.lens = append(blk.lens, len(f.HeaderBlockFragment()))
				if f.HeadersEnded() {
					rendered[r] = append(rendered[r], x.recvBlock(dir, r, blk, fail))
					blk = nil
				}
			case *http2.PriorityFrame:
				note(f.StreamID)
				p := prioTok(f.PriorityParam, true)
				rendered[r] = append(rendered[r], fmt.Sprintf("P%d:%s", f.StreamID, p))
				if h := x.head(dir, f.StreamID); h == nil || h.kind != 'P' {
					fail("c08:unexpected-frame", "endpoint %d received PRIORITY on stream %d where the sender's next event is %s", r, f.StreamID, evName(h))
				} else {
					if h.prio != p {
						fail("c08:priority-differs", "stream %d PRIORITY %s was sent as %s", f.StreamID, p, h.prio)
					}
					x.pop(dir, f.StreamID)
				}
			case *http2.RSTStreamFrame:
				note(f.StreamID)
				rendered[r] = append(rendered[r], fmt.Sprintf("R%d:%d", f.StreamID, uint32(f.ErrCode)))
				if h := x.head(dir, f.StreamID); h == nil || h.kind != 'R' {
					fail("c08:unexpected-frame", "endpoint %d received RST_STREAM on stream %d where the sender's next event is %s", r, f.StreamID, evName(h))
				} else {
					if h.code != uint32(f.ErrCode) {
						fail("c08:rst-differs", "stream %d RST_STREAM code %d was sent as %d", f.StreamID, uint32(f.ErrCode), h.code)
					}
					x.pop(dir, f.StreamID)
				}
			case *http2.SettingsFrame:
				s := "SA"
				if !f.IsAck() {
					var kv []string
					f.ForeachSetting(func(st http2.Setting) error {
						kv = append(kv, fmt.Sprintf("%d=%d", uint16(st.ID), st.Val))
						return nil
					})
					s = "S:" + strings.Join(kv, ",")
					if len(kv) == 0 {
						s = "S:-"
					}
				}
				rendered[r] = append(rendered[r], s)
				x.recvCtl(r, e, s, &wantCtl, fail)
				if f.IsAck() && len(x.advFrames[r]) > 0 {
					// the oldest SETTINGS frame endpoint r sent is acknowledged: its values are in force
					if vs := x.advFrames[r][0]; len(vs) > 0 {
						x.advAcked[r] = vs[len(vs)-1]
					}
					x.advFrames[r] = x.advFrames[r][1:]
					x.setAllowed(r)
				}
			case *http2.PingFrame:
				s := "PING:" + b01(f.IsAck()) + ":" + Digest(f.Data[:])
				rendered[r] = append(rendered[r], s)
				x.recvCtl(r, e, s, &wantCtl, fail)
			case *http2.GoAwayFrame:
				s := fmt.Sprintf("GA:%d:%d:%s", f.LastStreamID, uint32(f.ErrCode), Digest(f.DebugData()))
				rendered[r] = append(rendered[r], s)
				x.recvCtl(r, e, s, &wantCtl, fail)
			case *http2.WindowUpdateFrame:
				s := fmt.Sprintf("W%d:%d", f.StreamID, f.Increment)
				rendered[r] = append(rendered[r], s)
				found := -1
				for i, ww := range wantWU {
					if r == e && ww == s {
						found = i
						break
					}
				}
				if found >= 0 {
					wantWU = append(wantWU[:found:found], wantWU[found+1:]...)
				} else {
					fail("c09:credit-mismatch", "endpoint %d received %s, which is not the credit for a DATA frame it just sent", r, s)
				}
				if f.StreamID == 0 {
					x.creditedConn[r] += int64(f.Increment)
				} else {
					x.credited[r][f.StreamID] += int64(f.Increment)
				}
			default:
				rendered[r] = append(rendered[r], fmt.Sprintf("?%v", f.Header().Type))
				fail("c08:unexpected-frame", "endpoint %d received an unknown frame %v", r, f.Header())
			}
		}
		if blk != nil {
			fail("c08:invalid-output", "endpoint %d: header block on stream %d not finished within the step", r, blk.sid)
		}
	}
	if status == "ok" {
		if wantCtl != "" {
			fail("c08:control-differs", "endpoint %d sent %s; the other endpoint did not receive it", e, wantCtl)
		}
		if len(wantWU) > 0 {
			fail("c09:credit-mismatch", "endpoint %d sent DATA and did not receive %v", e, wantWU)
		}
		// credit totals, exact after every operation
		if x.creditedConn[e] != x.sentFlowConn[e] {
			fail("c09:credit-mismatch", "endpoint %d: connection credit returned %d, flow-controlled bytes sent %d", e, x.creditedConn[e], x.sentFlowConn[e])
		}
		for sid, n := range x.sentFlow[e] {
			if x.credited[e][sid] != n {
				fail("c09:credit-mismatch", "endpoint %d stream %d: credit returned %d, flow-controlled bytes sent %d", e, sid, x.credited[e][sid], n)
			}
		}
	}

	// ---- snapshot: rendered for the model, and the stranded-frame / hazard oracles ----
	var snaps [2]string
	for dir := 0; dir < 2; dir++ {
		s := x.pair.Snapshot(h2.Direction(dir))
		var parts []string
		for _, st := range s.Streams {
			var q []string
			for _, qf := range st.Queue {
				q = append(q, kindLetter(qf.Kind)+strconv.Itoa(qf.FlowSize))
			}
			qs := "-"
			if len(q) > 0 {
				qs = strings.Join(q, "+")
			}
			parts = append(parts, fmt.Sprintf("%d:%d:%s", st.ID, st.Window, qs))
			if status == "ok" && len(st.Queue) > 0 && !x.stalled[dir] {
				core.Count("queued-at-rest")
				h := int64(st.Queue[0].FlowSize)
				sw := x.rInit[dir] + x.rWU[dir][st.ID] - x.rRecv[dir][st.ID]
				if h <= sw && h <= x.rConn[dir] {
					fail("c09:stranded", "direction %d stream %d: a queued %s frame of flow size %d fits the receiver's windows (stream %d, connection %d) and was not delivered", dir, st.ID, st.Queue[0].Kind, h, sw, x.rConn[dir])
					// C08: with nothing in flight and credit granted for it, a frame the relay keeps is lost
					// (the receiver, whose accounting shows room, has no reason to send anything more)
					fail("c08:held-back", "direction %d stream %d: %d frame(s) accepted by the relay (first: %s, flow size %d%s) are not delivered although the receiver has granted the credit (stream window %d, connection window %d) and nothing else is in flight", dir, st.ID, len(st.Queue), st.Queue[0].Kind, h, tailDesc(st.Queue), sw, x.rConn[dir])
				}
			}
		}
		ps := "-"
		if len(parts) > 0 {
			ps = strings.Join(parts, ",")
		}
		snaps[dir] = fmt.Sprintf("%d/%d/%d;%s", s.ConnectionWindow, s.InitialWindowSize, s.MaxFrameSize, ps)
		// The same question asked of the endpoints' ledgers alone (a frame the relay has dropped, or
		// whose output buffer it has discarded, is in no queue): DATA the sender has handed over, not yet
		// received, all of which fits the credit the receiver has granted - with nothing in flight it
		// would have been delivered.
		if status == "ok" && !x.stalled[dir] {
			queuedOn := map[uint32]bool{}
			for _, st := range s.Streams {
				if len(st.Queue) > 0 {
					queuedOn[st.ID] = true
				}
			}
			var sids []int
			for sid := range x.exp[dir] {
				sids = append(sids, int(sid))
			}
			sort.Ints(sids)
			for _, si := range sids {
				sid := uint32(si)
				h := x.head(dir, sid)
				if h == nil || h.kind != 'D' || queuedOn[sid] {
					continue
				}
				rest := int64(len(h.data) - h.off)
				sw := x.rInit[dir] + x.rWU[dir][sid] - x.rRecv[dir][sid]
				if sw >= 0 && x.rConn[dir] >= 0 && rest <= sw && rest <= x.rConn[dir] {
					core.Count("oracle:accepted-data-vanished")
					fail("c09:stranded", "direction %d stream %d: %d bytes of DATA (END_STREAM=%v) the relay accepted are neither delivered nor in an output queue, although the receiver has granted the credit (stream window %d, connection window %d)", dir, sid, rest, h.es, sw, x.rConn[dir])
					fail("c08:held-back", "direction %d stream %d: %d bytes of DATA (END_STREAM=%v) the relay accepted are neither delivered nor in an output queue, although the receiver has granted the credit (stream window %d, connection window %d)", dir, sid, rest, h.es, sw, x.rConn[dir])
				}
			}
		}
	}
	join := func(l []string) string {
		if len(l) == 0 {
			return "-"
		}
		return strings.Join(l, ",")
	}
	line := fmt.Sprintf("%s S[%s] C[%s] c{%s} s{%s}", status, join(rendered[1]), join(rendered[0]), snaps[0], snaps[1])
	modelOp := ""
	if needEnc {
		modelOp = op + " enc=" + strconv.Itoa(x.pair.Snapshot(h2.Direction(d)).LastEncodedLen)
	}
	if needOrd {
		var o []string
		for _, s := range firstSeen {
			o = append(o, strconv.Itoa(int(s)))
		}
		if len(o) > 1 {
			core.Count("order-dependent-pass")
		}
		os := "-"
		if len(o) > 0 {
			os = strings.Join(o, ",")
		}
		modelOp = op + " ord=" + os
	}
	return x.result(line, fails, modelOp)
}

func kindLetter(k string) string {
	switch k {
	case "data":
		return "d"
	case "headers":
		return "h"
	case "push_promise":
		return "u"
	case "priority":
		return "p"
	case "rst_stream":
		return "r"
	}
	return "?"
}

func evName(e *ev) string {
	if e == nil {
		return "nothing"
	}
	return map[byte]string{'D': "DATA", 'H': "HEADERS", 'U': "PUSH_PROMISE", 'P': "PRIORITY", 'R': "RST_STREAM"}[e.kind]
}

func (x *Exec) head(dir int, sid uint32) *ev {
	q := x.exp[dir][sid]
	if len(q) == 0 {
		return nil
	}
	return q[0]
}
func (x *Exec) pop(dir int, sid uint32) { x.exp[dir][sid] = x.exp[dir][sid][1:] }

// expectData appends DATA to the expected byte stream of (dir, sid); consecutive DATA events
// merge (the property speaks of the same bytes and the same END_STREAM position, not of the
// same frame boundaries).
func (x *Exec) expectData(dir int, sid uint32, p []byte, es bool) {
	if len(p) == 0 && !es {
		return
	}
	q := x.exp[dir][sid]
	if n := len(q); n > 0 && q[n-1].kind == 'D' && !q[n-1].es {
		q[n-1].data = append(q[n-1].data, p...)
		q[n-1].es = es
		return
	}
	x.exp[dir][sid] = append(q, &ev{kind: 'D', data: append([]byte{}, p...), es: es})
}

func (x *Exec) recvData(dir int, f *http2.DataFrame, flow int64, fail func(string, string, ...interface{})) {
	sid := f.StreamID
	// receiver's own ledger
	sw := x.rInit[dir] + x.rWU[dir][sid] - x.rRecv[dir][sid]
	if flow > 0 && flow > sw {
		fail("c09:window-exceeded-stream", "direction %d stream %d: DATA of %d flow-controlled bytes, the receiver's stream window is %d", dir, sid, flow, sw)
	}
	if flow > 0 && flow > x.rConn[dir] {
		fail("c09:window-exceeded-conn", "direction %d stream %d: DATA of %d flow-controlled bytes, the receiver's connection window is %d", dir, sid, flow, x.rConn[dir])
	}
	x.rRecv[dir][sid] += flow
	x.rConn[dir] -= flow
	p := f.Data()
	if len(p) == 0 && !f.StreamEnded() {
		return // carries nothing
	}
	h := x.head(dir, sid)
	if h == nil || h.kind != 'D' {
		fail("c08:unexpected-frame", "direction %d stream %d: DATA (%d bytes, END_STREAM=%v) received where the sender's next event is %s", dir, sid, len(p), f.StreamEnded(), evName(h))
		return
	}
	rest := h.data[h.off:]
	if len(p) > len(rest) || !bytes.Equal(rest[:len(p)], p) {
		fail("c08:data-differs", "direction %d stream %d: received DATA bytes differ from the bytes sent at offset %d (got %d bytes, %d were outstanding)", dir, sid, h.off, len(p), len(rest))
		return
	}
	h.off += len(p)
	done := h.off == len(h.data)
	if f.StreamEnded() {
		if !done || !h.es {
			fail("c08:end-stream-differs", "direction %d stream %d: END_STREAM received at byte %d, the sender set it at byte %d (es=%v)", dir, sid, h.off, len(h.data), h.es)
		}
		x.pop(dir, sid)
		return
	}
	if done && !h.es {
		x.pop(dir, sid)
	}
}

type pendingBlockRx struct {
	sid      uint32
	push     bool
	es       bool
	prio     string
	promised uint32
	frag     []byte
	lens     []int
}

func (x *Exec) recvBlock(dir, r int, b *pendingBlockRx, fail func(string, string, ...interface{})) string {
	hfs, derr := x.dec[r].DecodeFull(b.frag)
	if derr != nil && strings.Contains(derr.Error(), xnetSizeUpdateQuirk) && len(LeadingUpdates(b.frag)) >= 2 {
		// the endpoint's x/net hpack.Decoder rejects the second of two leading size updates the
		// relay's encoder legally emitted (RFC 7541 4.2: the smallest size, then the final one): a
		// limit of the trusted decoder; the endpoint's HPACK state is void from here on
		core.Count("xnet-quirk:second-size-update-rejected-by-endpoint-decoder")
		x.dead, x.skipRest, x.quirkNow = true, true, true
		if h := x.head(dir, b.sid); h != nil {
			x.pop(dir, b.sid)
		}
		return "!xnet-quirk"
	}
	var got []byte
	fieldsTok := "!undecodable"
	if derr == nil {
		var fs []Field
		for _, hf := range hfs {
			fs = append(fs, Field{hf.Name, hf.Value})
		}
		got = LitEncode(fs)
		fieldsTok = Digest(got)
	}
	if x.hazard[dir] || x.stale[dir] {
		fieldsTok = "~" // F08b class reached: what the receiver decodes is no longer predicted by the model
	}
	var lens []string
	for _, n := range b.lens {
		lens = append(lens, strconv.Itoa(n))
	}
	if us := LeadingUpdates(b.frag); len(us) > 0 {
		// the dynamic table size updates the relay's encoder wrote in front of this block
		var p []string
		for _, u := range us {
			p = append(p, strconv.FormatUint(u, 10))
		}
		lens[len(lens)-1] += "^u" + strings.Join(p, ".")
		core.Count("rx:block-with-size-update")
	}
	var line string
	want := byte('H')
	if b.push {
		want = 'U'
		line = fmt.Sprintf("U%d:%d:%s:%s", b.sid, b.promised, fieldsTok, strings.Join(lens, "+"))
	} else {
		line = fmt.Sprintf("H%d:%s:%s:%s:%s", b.sid, b01(b.es), b.prio, fieldsTok, strings.Join(lens, "+"))
	}
	if len(b.lens) > 1 {
		core.Count("output-continuations")
	}
	h := x.head(dir, b.sid)
	if h == nil || h.kind != want {
		fail("c08:unexpected-frame", "direction %d stream %d: header block received where the sender's next event is %s", dir, b.sid, evName(h))
		return line
	}
	x.pop(dir, b.sid)
	intact := true
	if h.encoded != nil && !bytes.Equal(b.frag, h.encoded) {
		// independent of the receiver's HPACK state: these are not the bytes the relay's encoder made
		intact = false
		core.Count("oracle:header-block-bytes-differ")
		fail("c08:header-block-damaged", "direction %d stream %d: the header block that arrived (%d bytes, %s) is not the block the relay's HPACK encoder produced for it (%d bytes, %s): it was altered between encoding and sending; the receiver decodes %s, the sender encoded %s", dir, b.sid, len(b.frag), Digest(b.frag), len(h.encoded), Digest(h.encoded), showFields(got), showFields(h.fields))
	}
	if intact && (derr != nil || !bytes.Equal(got, h.fields)) {
		sig := "c08:header-fields-differ"
		why := ""
		if x.hazard[dir] {
			sig = "c08:hpack-block-out-of-encode-order"
			why = " (a block HPACK-encoded earlier was still queued on another stream when a later one was encoded)"
		}
		if x.stale[dir] && derr != nil && strings.Contains(derr.Error(), "dynamic table size update too large") {
			sig = "c08:hpack-size-update-stale"
			why = " (the relay wrote this size update when it encoded the block; the block then waited in an output queue while the receiver lowered its table size)"
		}
		if derr != nil {
			fail(sig, "direction %d stream %d: the receiver cannot decode the header block: %v%s", dir, b.sid, derr, why)
		} else {
			fail(sig, "direction %d stream %d: the receiver decodes %s, the sender encoded %s%s", dir, b.sid, showFields(got), showFields(h.fields), why)
		}
	}
	if b.push {
		if b.promised != h.promised {
			fail("c08:push-differs", "stream %d: promised stream %d was sent as %d", b.sid, b.promised, h.promised)
		}
		return line
	}
	if b.es != h.es {
		fail("c08:end-stream-differs", "direction %d stream %d: HEADERS received with END_STREAM=%v, sent with END_STREAM=%v", dir, b.sid, b.es, h.es)
	}
	if b.prio != h.prio {
		sig := "c08:priority-differs"
		if h.prio == "0/0/0" && b.prio == "-" {
			sig = "c08:zero-priority-dropped"
		}
		fail(sig, "direction %d stream %d: HEADERS priority received %s, sent %s", dir, b.sid, b.prio, h.prio)
	}
	return line
}

func showFields(lit []byte) string {
	s := fmt.Sprintf("%q", string(lit))
	if len(s) > 160 {
		s = s[:160] + "…"
	}
	return s
}

func (x *Exec) recvCtl(r, e int, s string, want *string, fail func(string, string, ...interface{})) {
	if r == 1-e && *want == s {
		*want = ""
		return
	}
	fail("c08:control-differs", "endpoint %d received %s; the other endpoint sent %q in this step", r, s, *want)
}

// completeBlock records the header block endpoint e just finished sending as an expected event.
func (x *Exec) completeBlock(e int) {
	p := x.pend[e]
	x.pend[e] = pendingBlock{}
	x.lastBlockSid = p.sid
	// what the sender encoded, as a canonical field list (decoded with a decoder that mirrors
	// the sender's own encoder state; for literal blocks this is the block itself)
	fields := p.frags
	x.twoUpdatesIn[e] = p.updates >= 2
	x.validIn = p.known
	if p.known {
		fields = p.fields
	} else if !x.realHpack {
		x.validIn = IsLiteralBlock(p.frags)
	} else if x.realHpack {
		hfs, err := x.mirror[e].DecodeFull(p.frags)
		if err != nil {
			panic("harness: sender block does not decode: " + err.Error())
		}
		var fs []Field
		for _, hf := range hfs {
			fs = append(fs, Field{hf.Name, hf.Value})
		}
		fields = LitEncode(fs)
	}
	k := byte('H')
	if p.push {
		k = 'U'
	}
	n := &ev{kind: k, es: p.es, prio: p.prio, fields: append([]byte{}, fields...), promised: p.promised}
	x.lastEnc = nil
	x.lastEmpty = x.validIn && len(fields) == 0
	if fs, ok := LitDecode(fields); ok && x.validIn && x.mencOK[e] {
		x.mencBuf[e].Reset()
		for _, f := range fs {
			x.menc[e].WriteField(hpack.HeaderField{Name: f.Name, Value: f.Value})
		}
		n.encoded = append([]byte{}, x.mencBuf[e].Bytes()...)
		x.lastEnc = n
	} else {
		x.mencOK[e] = false // the mirror has lost the relay's encoder state for good
	}
	x.exp[e][p.sid] = append(x.exp[e][p.sid], n)
}

// drained: oracle-only closing op; after the generator opened every window, everything either
// endpoint sent must have been delivered.
func (x *Exec) drained() (r core.Result) {
	r = core.Result{Impl: "ok", SkipModel: true}
	if x.deferred != nil && x.prop == "C08" {
		defer func() {
			if r.Fail == "" {
				r.Fail, r.Sig = x.deferred.msg, x.deferred.sig
			}
		}()
	}
	if x.dead {
		return r
	}
	for dir := 0; dir < 2; dir++ {
		var sids []int
		for sid, q := range x.exp[dir] {
			if len(q) > 0 {
				sids = append(sids, int(sid))
			}
		}
		sort.Ints(sids)
		if len(sids) > 0 && x.prop == "C08" {
			h := x.exp[dir][uint32(sids[0])][0]
			r.Fail = fmt.Sprintf("direction %d stream %d: %s (and %d more streams) sent but never delivered although every window is open", dir, sids[0], evName(h), len(sids)-1)
			r.Sig = "c08:not-delivered"
			return r
		}
	}
	return r
}

// xnetSizeUpdateQuirk: error text of x/net hpack.Decoder.parseDynamicTableSizeUpdate when a size
// update is not the first representation of a block and the table is not empty - which it also
// says of the second of two leading updates.
const xnetSizeUpdateQuirk = "dynamic table size update MUST occur at the beginning"

func blockOp(k string) bool {
	switch k {
	case "headers", "cont", "pp", "rhdr", "rpp", "rcont", "hb":
		return true
	}
	return false
}

// setAllowed: endpoint e's decoder accepts dynamic table size updates up to the largest
// SETTINGS_HEADER_TABLE_SIZE it has advertised that is in force or not yet acknowledged.
func (x *Exec) setAllowed(e int) {
	m := x.advAcked[e]
	for _, fr := range x.advFrames[e] {
		for _, v := range fr {
			if v > m {
				m = v
			}
		}
	}
	x.dec[e].SetAllowedMaxDynamicTableSize(m)
}

func tailDesc(q []h2.VerifQueued) string {
	var trailers, es bool
	for i, f := range q {
		if i > 0 && f.Kind == "headers" {
			trailers = true
		}
		if f.EndStream {
			es = true
		}
	}
	s := ""
	if trailers {
		s += "; a header block waits behind it"
	}
	if es {
		s += "; END_STREAM waits behind it"
	}
	return s
}

func hbKinds(is []Instr) string {
	seen := map[byte]bool{}
	for _, in := range is {
		seen[in.Op] = true
	}
	s := ""
	for _, c := range []byte("uiarl") {
		if seen[c] {
			s += string(c)
		}
	}
	return s
}

// cutBlock cuts an encoded block at the given per-mille positions ("-" = not at all); the first
// fragment is never empty (this x/net Framer rejects a HEADERS frame with an empty fragment).
func cutBlock(b []byte, spec string) ([][]byte, bool) {
	if spec == "-" {
		return [][]byte{b}, true
	}
	var out [][]byte
	last := 0
	for _, p := range strings.Split(spec, ",") {
		pm, err := strconv.Atoi(p)
		if err != nil || pm < 0 || pm > 1000 {
			return nil, false
		}
		at := len(b) * pm / 1000
		if at < 1 {
			at = 1
		}
		if at > len(b) {
			at = len(b)
		}
		if at < last {
			at = last
		}
		out = append(out, b[last:at])
		last = at
	}
	return append(out, b[last:]), true
}

// stallHook: the part of h2.VerifRelayPair added by repo-patches/C08-hook-relay-stall.patch
// (asserted dynamically so that the harness also builds against a tree without it).
type stallHook interface {
	StepStalled(dir h2.Direction, stalled [2]bool) error
	Release()
}
