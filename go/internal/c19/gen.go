package c19

import (
	"encoding/binary"
	"fmt"
	"strconv"
	"strings"

	"verif/harness/internal/core"
)

// ---- generators ------------------------------------------------------------------------------

const pathChars = "abcXYZ019/._~-!$&'()*+,;=:@"

func genPath(r *core.Rand) string {
	var b strings.Builder
	if r.Chance(4, 5) {
		b.WriteByte('/')
	}
	for n := r.Intn(12); n > 0; n-- {
		switch r.Intn(8) {
		case 0:
			b.WriteString(r.Pick("%41", "%2F", "%20", "%e2%82%ac", "%00"))
		default:
			b.WriteByte(pathChars[r.Intn(len(pathChars))])
		}
	}
	return b.String()
}

func genText(r *core.Rand, max int) string {
	switch r.Intn(10) {
	case 0:
		return ""
	case 1:
		return string(r.Bytes(r.Intn(max + 1))) // arbitrary bytes
	default:
		n := r.Intn(max + 1)
		b := make([]byte, n)
		for i := range b {
			b[i] = "abcdefghijklmnopqrstuvwxyzABC-_ /:;=,.0123456789"[r.Intn(48)]
		}
		return string(b)
	}
}

func dataToken(r *core.Rand, n int) string {
	if n > 96 || (n > 0 && r.Chance(1, 8)) {
		return fmt.Sprintf("p%d.%d", n, r.Intn(251))
	}
	return core.Hex(r.Bytes(n))
}

// genReads scripts what the wrapped body returns to each Read of the consumer.
func genReads(r *core.Rand, tier string) string {
	if r.Chance(1, 10) {
		return fmt.Sprintf("N%d", r.Intn(3))
	}
	var total int
	switch c := r.Intn(22); {
	case c < 3:
		total = 0
	case c < 10:
		total = r.Range(1, 100)
	case c < 15:
		total = r.Range(100, 5000)
	case c < 19:
		total = r.Range(5000, 70000)
	case c < 21:
		total = r.Range(65537, 300000) // room for single reads above 64 KiB
	default:
		if tier == "thorough" {
			total = r.Range(1<<20-3, 2<<20)
		} else {
			total = r.Range(200000, 1<<20+5)
		}
	}
	if total == 0 && r.Chance(1, 4) {
		core.Count("body:never-read")
		return "_"
	}
	// what one Read returns: 1 byte … 1 MiB (io.Copy's 32 KiB is one consumer among many: io.ReadAll,
	// bufio with a large buffer, a caller's own buffer)
	chunk := []int{1, 2, 7, 512, 4096, 32768, 65536, r.Range(1, 9000), 65537, 65536 + r.Range(1, 5000), 131072, 1 << 20,
		r.Range(65537, 1<<20)}[r.Intn(13)]
	if total/chunk > 400 {
		chunk = total/400 + 1
	}
	var steps []string
	left := total
	endMode := r.Intn(10) // 0-3 EOF after data, 4-5 EOF with last data, 6-7 early stop, 8 error, 9 EOF then more reads
	if total >= 1<<20 {
		core.Count("body:>=1MiB")
	}
	for left > 0 {
		n := chunk
		if r.Chance(1, 4) {
			n = r.Range(1, chunk)
		}
		if n > left {
			n = left
		}
		if n > 65536 {
			core.Count("body:read>64KiB")
		}
		extra := 0
		if r.Chance(1, 3) {
			extra = r.Intn(64)
		}
		if r.Chance(1, 25) {
			steps = append(steps, fmt.Sprintf("-:n:%d", r.Intn(8))) // (0, nil) read
		}
		left -= n
		e := "n"
		if left == 0 && (endMode == 4 || endMode == 5) {
			e = "e"
		}
		if endMode == 8 && r.Chance(1, 6) {
			steps = append(steps, fmt.Sprintf("%s:x:%d", dataToken(r, n), extra))
			core.Count("body:error-with-data")
			return strings.Join(steps, ";")
		}
		if (endMode == 6 || endMode == 7) && left > 0 && r.Chance(1, 5) {
			steps = append(steps, fmt.Sprintf("%s:n:%d", dataToken(r, n), extra))
			core.Count("body:early-stop")
			return strings.Join(steps, ";")
		}
		steps = append(steps, fmt.Sprintf("%s:%s:%d", dataToken(r, n), e, extra))
	}
	switch {
	case endMode <= 3:
		steps = append(steps, fmt.Sprintf("-:e:%d", r.Pick2(0, r.Intn(4096))))
		core.Count("body:eof-separate")
	case endMode <= 5:
		if total == 0 {
			steps = append(steps, "-:e:0")
		}
		core.Count("body:eof-with-data")
	case endMode <= 7:
		core.Count("body:no-eof")
		if len(steps) == 0 {
			steps = append(steps, "-:n:5")
		}
	case endMode == 8:
		steps = append(steps, "-:x:16")
		core.Count("body:error")
	default:
		steps = append(steps, "-:e:1", "-:e:0")
		if r.Bool() {
			steps = append(steps, "-:e:9")
		}
		core.Count("body:reads-after-eof")
	}
	return strings.Join(steps, ";")
}

func genHdrs(r *core.Rand) string {
	n := []int{0, 1, 1, 2, 3, 5, 12}[r.Intn(7)]
	if n == 0 {
		return "_"
	}
	seen := map[string]bool{}
	var out []string
	for len(out) < n {
		var k string
		switch r.Intn(12) {
		case 0:
			k = r.Pick("Host", "Content-Length", "Transfer-Encoding", "host", "")
		case 1:
			k = string(r.Bytes(r.Range(1, 6)))
		default:
			k = r.Pick("Accept", "X-A", "Cookie", "Set-Cookie", "Via", "X-Forwarded-For", "User-Agent", "x-lower", "Content-Type") +
				r.Pick("", "", "-1", "-2", "-3")
		}
		if seen[k] {
			continue
		}
		seen[k] = true
		nv := []int{1, 1, 1, 2, 3, 0}[r.Intn(6)]
		var vs []string
		for j := 0; j < nv; j++ {
			if r.Chance(1, 40) {
				vs = append(vs, core.HexS(strings.Repeat("v", r.Range(60000, 70000))))
				core.Count("hdr:long-value")
			} else {
				vs = append(vs, core.HexS(genText(r, 40)))
			}
		}
		v := "_"
		if len(vs) > 0 {
			v = strings.Join(vs, ",")
		}
		out = append(out, core.HexS(k)+":"+v)
	}
	return strings.Join(out, ";")
}

// setHdrTok replaces / adds the entry of key k in a header-map token.
func setHdrTok(hdrs, k string, vs ...string) string {
	var out []string
	if hdrs != "_" {
		for _, e := range strings.Split(hdrs, ";") {
			if !strings.HasPrefix(e, core.HexS(k)+":") {
				out = append(out, e)
			}
		}
	}
	v := "_"
	if len(vs) > 0 {
		hv := make([]string, len(vs))
		for i := range vs {
			hv[i] = core.HexS(vs[i])
		}
		v = strings.Join(hv, ",")
	}
	return strings.Join(append(out, core.HexS(k)+":"+v), ";")
}

// genFieldClass puts the message on a boundary between net/http's struct fields (Host, ContentLength,
// TransferEncoding) and the same names in the header map: what a message parsed from the wire looks
// like (explicit "Content-Length: 0", Content-Length line kept beside the field), a name only in the
// map or only in the field, and the disagreements a modifier leaves behind (the classes of
// msggen.Disagree: stale length, stale host, stale / absent transfer encoding).
func genFieldClass(r *core.Rand, kind byte, hdrs, host, cl, te string) (string, string, string, string) {
	c := r.Intn(12)
	core.Count(fmt.Sprintf("gen:field-class-%d", c))
	switch c {
	case 0, 1: // explicit zero length, as read from the wire: bodyless POST, 302, empty 200
		return setHdrTok(hdrs, "Content-Length", "0"), host, "0", r.Pick("n", "n", "e")
	case 2: // zero / unknown length and no Content-Length anywhere
		return hdrs, host, r.Pick("0", "-1"), te
	case 3: // length line kept beside an agreeing field (parsed from the wire)
		n := r.Pick("1", "5", "1048576")
		return setHdrTok(hdrs, "Content-Length", n), host, n, "n"
	case 4: // Host only in the map
		h := "-"
		return setHdrTok(hdrs, "Host", r.Pick("map-only.example", "z", "")), h, cl, te
	case 5: // Host only in the field (responses: nowhere)
		if kind == 'q' {
			host = core.HexS(r.Pick("field-only.example", "f:81"))
		}
		return hdrs, host, cl, te
	case 6: // Transfer-Encoding in the map, field nil (te-absent-stale)
		return setHdrTok(hdrs, "Transfer-Encoding", strings.Split(r.Pick("chunked", "gzip,chunked", "identity"), ",")...), host, cl, "n"
	case 7: // stale length: field > 0, map says something else (cl-stale / body.Modifier's leftovers)
		return setHdrTok(hdrs, "Content-Length", r.Pick("0", "1", "26", "999999")), host, r.Pick("5", "27", "1048576"), te
	case 8: // stale host
		if kind == 'q' {
			host = core.HexS("new.example")
		}
		return setHdrTok(hdrs, "Host", r.Pick("stale.example", "other.test:1")), host, cl, te
	case 9: // stale transfer encoding: field chunked, map something else
		return setHdrTok(hdrs, "Transfer-Encoding", r.Pick("identity", "gzip", "chunked, chunked")), host, r.Pick("-1", "0"), core.HexS("chunked")
	case 10: // no length in the field, a stale one in the map (cl-absent-stale): a contradiction, not judged
		return setHdrTok(hdrs, "Content-Length", r.Pick("26", "1", "4096", "00")), host, r.Pick("-1", "0"), r.Pick("n", core.HexS("chunked"))
	default: // all three in the map of a message whose fields say nothing
		hdrs = setHdrTok(hdrs, "Host", "h.example")
		hdrs = setHdrTok(hdrs, "Content-Length", "0")
		return setHdrTok(hdrs, "Transfer-Encoding", "chunked"), "-", "0", "n"
	}
}

// withCloses turns a script of reads into a script of consumer CALLS: Close placed anywhere among the
// reads (before the first, mid-body with reads going on afterwards, after EOF), twice, with a failing
// Close of the wrapped body, or no Close at all; a body never read may still be closed. (Without a C
// entry the consumer closes once after the last read.)
func withCloses(r *core.Rand, reads string) string {
	if strings.HasPrefix(reads, "N") {
		return reads
	}
	var steps []string
	if reads != "_" {
		steps = strings.Split(reads, ";")
	}
	cl := func() string {
		if r.Chance(1, 6) {
			return "Cx"
		}
		return "C"
	}
	ins := func(at int, c ...string) {
		steps = append(steps[:at], append(append([]string{}, c...), steps[at:]...)...)
	}
	mode := r.Intn(8)
	core.Count(fmt.Sprintf("calls:close-mode-%d", mode))
	switch mode {
	case 0: // Close first (without any Read so far), reads go on
		ins(0, cl())
	case 1, 2: // Close somewhere in the middle, reads go on
		ins(r.Intn(len(steps)+1), cl())
	case 3: // Close twice in a row somewhere
		ins(r.Intn(len(steps)+1), cl(), cl())
	case 4: // several closes scattered
		for k := r.Range(2, 4); k > 0; k-- {
			ins(r.Intn(len(steps)+1), cl())
		}
	case 5: // Close in the middle and again at the end
		ins(r.Intn(len(steps)+1), cl())
		steps = append(steps, cl())
	case 6: // Close at the end, then reads after Close (and after EOF)
		steps = append(steps, cl(), fmt.Sprintf("-:e:%d", r.Intn(9)), "-:e:0")
	default: // zero-length reads around a Close
		at := r.Intn(len(steps) + 1)
		z := "-:n:0"
		for _, st := range steps[:at] {
			if strings.Contains(st, ":e:") { // a body that was at end-of-file stays there
				z = "-:e:0"
			}
		}
		ins(at, z, cl(), z)
	}
	return strings.Join(steps, ";")
}

func genMsg(r *core.Rand, tier string, kind byte, id string) string {
	api := "0"
	if r.Chance(1, 5) {
		api = "1"
	}
	var pseudo, host string
	if kind == 'q' {
		pseudo = strings.Join([]string{
			core.HexS(r.Pick("GET", "POST", "PUT", "CONNECT", "", "DELETE")),
			core.HexS(r.Pick("http", "https", "")),
			core.HexS(r.Pick("example.com", "example.com:8080", "[::1]:443", "", genText(r, 12))),
			core.HexS(genPath(r)),
			core.HexS(r.Pick("", "a=b", "a=b&c=d%20e", "?", genText(r, 20))),
			core.HexS(r.Pick("HTTP/1.1", "HTTP/1.0", "HTTP/2.0", "")),
			core.HexS(r.Pick("10.0.0.1:1234", "[::1]:9", "", "@")),
		}, ",")
		host = core.HexS(r.Pick("example.com", "", "other.example:81", genText(r, 10)))
	} else {
		pseudo = strings.Join([]string{
			core.HexS(r.Pick("HTTP/1.1", "HTTP/1.0", "")),
			strconv.Itoa([]int{200, 204, 301, 404, 500, 0, 99, 1000}[r.Intn(8)]),
			core.HexS(r.Pick("200 OK", "404 Not Found", "", "teapot", genText(r, 12))),
		}, ",")
		host = "-"
	}
	cl := []string{"-1", "0", "0", "1", "5", "1048576", "9223372036854775807"}[r.Intn(7)]
	te := r.Pick("n", "n", "n", "e", core.HexS("chunked"), core.HexS("gzip")+","+core.HexS("chunked"))
	hdrs := genHdrs(r)
	if r.Chance(1, 3) {
		hdrs, host, cl, te = genFieldClass(r, kind, hdrs, host, cl, te)
	}
	reads := ""
	if gatedReads {
		reads = genReadsGated(r)
	} else {
		reads = genReads(r, tier)
	}
	if r.Chance(1, 4) {
		reads = withCloses(r, reads)
	}
	return strings.Join([]string{string(kind), core.HexS(id), api, pseudo, host, cl, te, hdrs, reads}, "/")
}

// genReadsGated: few reads (every frame of a controlled schedule costs a scheduling round), sizes on
// both sides of every power of two a buffer strategy might switch at.
func genReadsGated(r *core.Rand) string {
	if r.Chance(1, 12) {
		return fmt.Sprintf("N%d", r.Intn(3))
	}
	n := r.Intn(7)
	var steps []string
	for k := 0; k < n; k++ {
		sz := []int{0, 1, 9, 100, 4096, r.Range(1, 5000), r.Range(1, 300), r.Range(1, 40000)}[r.Intn(8)]
		if r.Chance(1, 4) { // around and above 64 KiB
			sz = []int{32768, 65535, 65536, 65537, 65537, 65536 + r.Range(1, 900), 65536 + r.Range(1, 9000), 131072}[r.Intn(8)]
		}
		if r.Chance(1, 80) {
			sz = []int{1 << 20, r.Range(131072, 1<<20), 1<<20 + 1}[r.Intn(3)]
		}
		if sz > 65536 {
			core.Count("body:read>64KiB")
		}
		e := "n"
		if k == n-1 && r.Chance(1, 3) {
			e = r.Pick("e", "e", "x")
		}
		steps = append(steps, fmt.Sprintf("%s:%s:%d", dataToken(r, sz), e, r.Pick2(0, r.Intn(64))))
	}
	if r.Chance(2, 3) {
		steps = append(steps, "-:e:"+strconv.Itoa(r.Intn(3)))
	}
	if len(steps) == 0 {
		return "_"
	}
	return strings.Join(steps, ";")
}

// genGatedCase: 2..6 messages under a controlled schedule (`rung`).
func genGatedCase(r *core.Rand) []string {
	gatedReads = true
	defer func() { gatedReads = false }()
	ops := genLogCase(r, "gated")
	ops[len(ops)-1] = fmt.Sprintf("rung %d", r.U64()>>1)
	return ops
}

var gatedReads bool

// genStallCase: 2..4 messages with bodies of many small reads, logged free-running while the stream's
// writer is blocked for 400..1500 ms of wall clock inside one early Write (a slow disk, a stuck
// subscriber): the logging goroutines must wait for it, whatever it takes, and every frame must arrive.
func genStallCase(r *core.Rand, tier string) []string {
	n := r.Range(2, 4)
	var ops []string
	for i := 0; i < n; i++ {
		kind := byte('q')
		if r.Bool() {
			kind = 's'
		}
		var steps []string
		for k := r.Range(25, 60); k > 0; k-- {
			steps = append(steps, fmt.Sprintf("%s:n:%d", dataToken(r, r.Range(1, 40)), r.Intn(3)))
		}
		steps = append(steps, r.Pick("-:e:0", "6162:e:0"))
		m := genMsg(r, "gated", kind, fmt.Sprintf("%08x", uint32(r.U64())))
		f := strings.Split(m, "/")
		f[8] = strings.Join(steps, ";")
		ops = append(ops, "m "+strings.Join(f, "/"))
	}
	ms := r.Range(400, 1200)
	if tier == "thorough" {
		ms = r.Range(400, 1500)
	}
	return append(ops, fmt.Sprintf("runstall %d.%d", ms, r.Range(4, 12*n)))
}

func genLogCase(r *core.Rand, tier string) []string {
	n := []int{1, 2, 2, 3, 4, 5, 6, 8}[r.Intn(8)]
	if tier == "gated" {
		n = r.Range(2, 6)
	}
	if tier == "thorough" && r.Chance(1, 10) {
		n = r.Range(9, 16)
	}
	type key struct {
		id   string
		kind byte
	}
	used := map[key]bool{}
	var ms []string
	for len(ms) < n {
		var base string
		switch r.Intn(6) {
		case 0:
			base = string(r.Bytes(8)) // any bytes
		case 1:
			base = "\x00\x00\x00\x00\x00\x00\x00" + string(byte(r.Intn(3)))
		default:
			base = fmt.Sprintf("%08x", uint32(r.U64())) // like the first half of a Context.ID()
		}
		id := base
		if r.Chance(2, 3) {
			id = base + fmt.Sprintf("%08x", uint32(r.U64())) // 16 characters like Context.ID(); only id[:8] goes on the wire
		}
		kinds := []byte{'q'}
		switch r.Intn(4) {
		case 0:
			kinds = []byte{'s'}
		case 1, 2:
			kinds = []byte{'q', 's'} // the two messages of one exchange share the id
		}
		for _, k := range kinds {
			if used[key{base, k}] || len(ms) >= n {
				continue
			}
			used[key{base, k}] = true
			ms = append(ms, genMsg(r, tier, k, id))
		}
	}
	// shuffle so that the pair is not always adjacent
	for i := len(ms) - 1; i > 0; i-- {
		j := r.Intn(i + 1)
		ms[i], ms[j] = ms[j], ms[i]
	}
	var ops []string
	for _, m := range ms {
		ops = append(ops, "m "+m)
	}
	switch r.Intn(5) {
	case 0:
		return append(ops, "runmod")
	case 1, 2:
		return append(ops, "runws") // the stream writes into the real marbl.Handler (retains the slices) with a websocket subscriber
	}
	return append(ops, "run")
}

// ---- byte strings for the reader -------------------------------------------------------------

func encHeader(mt byte, id string, name, value []byte) []byte {
	b := []byte{1, mt}
	b = append(b, id...)
	b = binary.BigEndian.AppendUint32(b, uint32(len(name)))
	b = binary.BigEndian.AppendUint32(b, uint32(len(value)))
	b = append(b, name...)
	return append(b, value...)
}

func encData(mt byte, id string, idx uint32, term byte, d []byte) []byte {
	b := []byte{2, mt}
	b = append(b, id...)
	b = binary.BigEndian.AppendUint32(b, idx)
	b = append(b, term)
	b = binary.BigEndian.AppendUint32(b, uint32(len(d)))
	return append(b, d...)
}

// bigEvery: one generated reader input in bigEvery carries a frame whose lengths are around / above
// 64 KiB (a reader that decodes from a fixed-size buffer is wrong exactly there). Set per tier in Gen.
var bigEvery = 30

func genBigFrame(r *core.Rand) []byte {
	id := string(r.Bytes(8))
	mt := byte(r.Range(1, 2))
	big := []int{65535, 65536, 65537, 65536 + r.Range(2, 5000), 100000, r.Range(65537, 200000)}[r.Intn(6)]
	fill := func(n int) []byte {
		b := make([]byte, n)
		st := r.Intn(251)
		for i := range b {
			b[i] = byte((st + i) % 251)
		}
		return b
	}
	core.Count("gen:big-frame")
	switch r.Intn(4) {
	case 0: // long value
		return encHeader(mt, id, r.Bytes(r.Intn(20)), fill(big))
	case 1: // long name
		return encHeader(mt, id, fill(big), r.Bytes(r.Intn(20)))
	case 2: // each below, the sum above
		return encHeader(mt, id, fill(big/2), fill(big-big/2))
	default:
		return encData(mt, id, uint32(r.Intn(3)), byte(r.Intn(2)), fill(big))
	}
}

func genFrame(r *core.Rand) []byte {
	id := string(r.Bytes(8))
	mt := byte([]int{1, 2, 0, 3, 255}[r.Intn(5)])
	if r.Bool() {
		return encHeader(mt, id, r.Bytes([]int{0, 1, 5, 20}[r.Intn(4)]), r.Bytes([]int{0, 1, 7, 40}[r.Intn(4)]))
	}
	return encData(mt, id, uint32([]uint64{0, 1, 2, 0xffffffff, r.U64()}[r.Intn(5)]), byte([]int{0, 1, 1, 2, 255}[r.Intn(5)]),
		r.Bytes([]int{0, 1, 9, 64}[r.Intn(4)]))
}

// maxAlloc bounds what a single ReadFrame may allocate from a length field in generated input
// (the reader allocates the announced size before reading). Larger announcements — up to the
// 2^33 of a wrapped pair — are exercised only by the directed corpus.
const maxAllocSmall = 1 << 16
const maxAllocBig = 1 << 24

// tame walks the bytes like a reader and lowers every length field above the bound.
func tame(b []byte, bound uint32) {
	pos := 0
	clamp := func(off int) uint64 {
		v := binary.BigEndian.Uint32(b[off:])
		if v > bound && int64(v) > int64(len(b)-off) { // announced and really there: the allocation is no larger than the input
			v = v & (bound - 1)
			binary.BigEndian.PutUint32(b[off:], v)
		}
		return uint64(v)
	}
	for pos+10 <= len(b) {
		ft := b[pos]
		pos += 10
		switch ft {
		case 1:
			if pos+8 > len(b) {
				return
			}
			n := clamp(pos) + clamp(pos+4)
			pos += 8
			if uint64(len(b)-pos) < n {
				return
			}
			pos += int(n)
		case 2:
			if pos+9 > len(b) {
				return
			}
			n := clamp(pos + 5)
			pos += 9
			if uint64(len(b)-pos) < n {
				return
			}
			pos += int(n)
		default:
			return
		}
	}
}

func genReadInput(r *core.Rand) []byte {
	var b []byte
	class := r.Intn(12)
	if class == 0 { // raw random bytes, usually starting like a frame
		b = r.Bytes(r.Intn(64))
		if len(b) > 0 && r.Chance(3, 4) {
			b[0] = byte(r.Range(1, 2))
		}
		core.Count("gen:random")
	} else {
		nf := r.Range(1, 5)
		bigAt := -1
		if r.Chance(1, bigEvery) {
			bigAt = r.Intn(nf)
		}
		var starts []int
		for i := 0; i < nf; i++ {
			starts = append(starts, len(b))
			if i == bigAt {
				b = append(b, genBigFrame(r)...)
			} else {
				b = append(b, genFrame(r)...)
			}
		}
		fs := starts[r.Intn(len(starts))] // a frame to aim at
		switch class {
		case 1, 2:
			core.Count("gen:valid")
		case 3, 4: // truncate anywhere
			b = b[:r.Intn(len(b)+1)]
			core.Count("gen:truncated")
		case 5: // truncate at a field boundary of the aimed frame
			cut := fs + []int{0, 1, 2, 9, 10, 11, 14, 18, 19, 20}[r.Intn(10)]
			if cut < len(b) {
				b = b[:cut]
			}
			core.Count("gen:truncated-boundary")
		case 6: // frame type
			b[fs] = byte([]int{0, 3, 4, 255, 2, 1}[r.Intn(6)])
			core.Count("gen:retyped")
		case 7, 8: // a length field: off by one, zero, large
			off := fs + 10 + []int{0, 4, 5}[r.Intn(3)]
			if off+4 <= len(b) {
				v := binary.BigEndian.Uint32(b[off:])
				nv := []uint32{v + 1, v - 1, 0, v + uint32(r.Intn(300)), uint32(r.U64()), 0xffffffff, 0x80000000, uint32(len(b))}[r.Intn(8)]
				binary.BigEndian.PutUint32(b[off:], nv)
			}
			core.Count("gen:length-field")
		case 9: // flip random bytes
			for k := r.Range(1, 3); k > 0 && len(b) > 0; k-- {
				b[r.Intn(len(b))] ^= byte(1 << uint(r.Intn(8)))
			}
			core.Count("gen:bitflip")
		case 10: // splice random bytes in
			at := r.Intn(len(b) + 1)
			b = append(append(append([]byte{}, b[:at]...), r.Bytes(r.Range(1, 12))...), b[at:]...)
			core.Count("gen:splice")
		default: // drop a span
			at := r.Intn(len(b))
			n := r.Range(1, 12)
			if at+n > len(b) {
				n = len(b) - at
			}
			b = append(append([]byte{}, b[:at]...), b[at+n:]...)
			core.Count("gen:drop")
		}
	}
	bound := uint32(maxAllocSmall)
	if r.Chance(1, 40) {
		bound = maxAllocBig
	}
	tame(b, bound)
	return b
}

func (P) Gen(r *core.Rand, tier string, emit func([]string)) {
	logs, reads, gated := 400, 300, 60
	bigEvery = 30
	if tier == "thorough" {
		logs, reads, gated = 4000, 15000, 500
		bigEvery = 300
	}
	// controlled schedules first: their scheduler reads goroutine dumps, which is cheapest while the
	// process has not yet accumulated the writer goroutines of marbl.Modifier streams (no Close there)
	for i := 0; i < gated; i++ {
		emit(genGatedCase(r))
	}
	stalls := 1
	if tier == "thorough" {
		stalls = 6
	}
	for i := 0; i < stalls; i++ {
		emit(genStallCase(r, tier))
	}
	pxs := 12
	if tier == "thorough" {
		pxs = 150
	}
	for i := 0; i < pxs; i++ {
		emit(genPxCase(r))
	}
	for i := 0; i < logs; i++ {
		emit(genLogCase(r, tier))
	}
	for i := 0; i < reads; i++ {
		var ops []string
		for k := 0; k < 10; k++ {
			ops = append(ops, "read "+core.Hex(genReadInput(r)))
		}
		emit(ops)
	}
}
