package c19

// `runpx <spec>`: messages logged the way cmd/proxy logs them — a real martian.Proxy with the real
// marbl.Modifier as request and response modifier, so that every message is logged under the ID of the
// context the PROXY created for it (newSession per connection, withSession per exchange): several
// keep-alive exchanges per connection, several connections at once. The origin is a stub RoundTripper
// (it reads the request body to EOF and answers with a scripted body); the clients are raw TCP
// connections speaking HTTP/1.1 to the proxy.
//
//	spec = conn;conn;…   conn = exchange,exchange,…   exchange = <request body length>.<response body length>
//
// Exchange x of connection c is POST http://origin.test/c<c>/x<x>; its response carries X-Ex: /c<c>/x<x>.
// The decoded stream is then judged per message ID and type, as the property states it: a group (id, type)
// must hold the frames of exactly ONE logged message (one :path / one X-Ex), data indices 0..n-1 once,
// the last one terminal, concatenation = that message's body. The IDs are the real allocator's: whether
// they are distinct in the 8 bytes a frame keeps is what the run finds out (and tells the model: ids=).

import (
	"bufio"
	"bytes"
	"fmt"
	"io"
	"net"
	"net/http"
	"net/url"
	"strconv"
	"strings"
	"sync"
	"time"

	"github.com/google/martian/v3"
	"github.com/google/martian/v3/marbl"

	"verif/harness/internal/core"
)

type pxExch struct{ reqLen, resLen int }

func pxBody(n, start int) []byte {
	b := make([]byte, n)
	for i := range b {
		b[i] = byte((start + i) % 251)
	}
	return b
}

func pxReqStart(c, x int) int { return (7*c + 3*x) % 251 }
func pxResStart(c, x int) int { return (11*c + 5*x + 1) % 251 }

func parsePx(spec string) ([][]pxExch, bool) {
	var conns [][]pxExch
	for _, cs := range strings.Split(spec, ";") {
		var ex []pxExch
		for _, es := range strings.Split(cs, ",") {
			p := strings.Split(es, ".")
			if len(p) != 2 {
				return nil, false
			}
			a, e1 := strconv.Atoi(p[0])
			b, e2 := strconv.Atoi(p[1])
			if e1 != nil || e2 != nil || a < 0 || b < 0 || a > 1<<20 || b > 1<<20 {
				return nil, false
			}
			ex = append(ex, pxExch{a, b})
		}
		if len(ex) == 0 || len(ex) > 8 {
			return nil, false
		}
		conns = append(conns, ex)
	}
	if len(conns) == 0 || len(conns) > 8 {
		return nil, false
	}
	return conns, true
}

type pxRT struct{ conns [][]pxExch }

func (rt pxRT) RoundTrip(req *http.Request) (*http.Response, error) {
	if req.Body != nil {
		io.Copy(io.Discard, req.Body)
		req.Body.Close()
	}
	var c, x int
	if _, err := fmt.Sscanf(req.URL.Path, "/c%d/x%d", &c, &x); err != nil || c < 0 || c >= len(rt.conns) || x < 0 || x >= len(rt.conns[c]) {
		return nil, fmt.Errorf("c19: unknown exchange %q", req.URL.Path)
	}
	body := pxBody(rt.conns[c][x].resLen, pxResStart(c, x))
	return &http.Response{
		StatusCode: 200, Status: "200 OK", Proto: "HTTP/1.1", ProtoMajor: 1, ProtoMinor: 1,
		Header:        http.Header{"X-Ex": {req.URL.Path}, "Content-Type": {"application/octet-stream"}},
		Body:          io.NopCloser(bytes.NewReader(body)),
		ContentLength: int64(len(body)),
		Request:       req,
	}, nil
}

func doPx(spec, opText string) core.Result {
	conns, ok := parsePx(spec)
	if !ok {
		return core.Result{Impl: "bad-op"}
	}
	rec := &recWriter{}
	mod := marbl.NewModifier(rec)
	p := martian.NewProxy()
	p.SetRequestModifier(mod)
	p.SetResponseModifier(mod)
	p.SetRoundTripper(pxRT{conns})
	p.SetTimeout(10 * time.Second)
	ln, err := net.Listen("tcp", "127.0.0.1:0")
	if err != nil {
		core.Count("px:listen-failed")
		return core.Result{Impl: "out-of-harness", SkipModel: true}
	}
	go p.Serve(ln)
	closed := false
	closeProxy := func(d time.Duration) bool { // Close returns once every connection handler has returned
		if closed {
			return true
		}
		ln.Close()
		done := make(chan struct{})
		go func() { p.Close(); close(done) }()
		select {
		case <-done:
			closed = true
			return true
		case <-time.After(d):
			return false
		}
	}
	defer closeProxy(3 * time.Second)

	// ---- the clients: one goroutine per connection, its exchanges one after the other (keep-alive)
	var wg sync.WaitGroup
	var mu sync.Mutex
	clientErr := ""
	for c := range conns {
		wg.Add(1)
		go func(c int) {
			defer wg.Done()
			fail := func(format string, a ...interface{}) {
				mu.Lock()
				if clientErr == "" {
					clientErr = fmt.Sprintf(format, a...)
				}
				mu.Unlock()
			}
			conn, err := net.DialTimeout("tcp", ln.Addr().String(), 5*time.Second)
			if err != nil {
				fail("connection %d: %v", c, err)
				return
			}
			defer conn.Close()
			conn.SetDeadline(time.Now().Add(15 * time.Second))
			br := bufio.NewReader(conn)
			for x, e := range conns[c] {
				body := pxBody(e.reqLen, pxReqStart(c, x))
				head := fmt.Sprintf("POST http://origin.test/c%d/x%d HTTP/1.1\r\nHost: origin.test\r\nContent-Length: %d\r\n\r\n", c, x, len(body))
				if _, err := conn.Write(append([]byte(head), body...)); err != nil {
					fail("connection %d exchange %d: write: %v", c, x, err)
					return
				}
				res, err := http.ReadResponse(br, nil)
				if err != nil {
					fail("connection %d exchange %d: reading the response: %v", c, x, err)
					return
				}
				got, err := io.ReadAll(res.Body)
				res.Body.Close()
				if err != nil || res.StatusCode != 200 || !bytes.Equal(got, pxBody(e.resLen, pxResStart(c, x))) {
					fail("connection %d exchange %d: status %d, %d body bytes, err %v", c, x, res.StatusCode, len(got), err)
					return
				}
			}
		}(c)
	}
	done := make(chan struct{})
	go func() { wg.Wait(); close(done) }()
	select {
	case <-done:
	case <-time.After(20 * time.Second):
		return core.Result{Impl: "hang", Fail: "proxy run: the clients did not finish within 20s", Sig: "log-hang"}
	}
	if clientErr != "" { // the proxy did not serve the exchanges: nothing to say about the log (C01..C05 own that)
		core.Count("px:client-error")
		core.Notes["px:client-error"] = clientErr
		return core.Result{Impl: "out-of-harness", SkipModel: true}
	}
	// The clients have closed their connections. The proxy may still be inside an exchange (net/http reads a
	// response body once more, for its EOF, AFTER the last bytes went to the client): wait for its handlers.
	if !closeProxy(10 * time.Second) {
		core.Count("px:proxy-close-timeout")
		return core.Result{Impl: "out-of-harness", SkipModel: true}
	}
	// flush: a sentinel message through the same modifier returns only after everything before it was written
	sentinel := ""
	flushed := make(chan struct{})
	go func() {
		defer close(flushed)
		sreq := &http.Request{Method: "FLUSH", URL: &url.URL{}, Header: http.Header{}, Body: http.NoBody}
		sctx, rm, err := martian.TestContext(sreq, nil, nil)
		if err != nil {
			return
		}
		defer rm()
		sentinel = sctx.ID()[:8]
		mod.ModifyRequest(sreq)
	}()
	select {
	case <-flushed:
	case <-time.After(10 * time.Second):
		return core.Result{Impl: "hang", Fail: "marbl.Modifier did not take a further message within 10s", Sig: "close-hang"}
	}
	rec.mu.Lock()
	chunks := rec.chunks
	rec.mu.Unlock()
	var streamBytes []byte
	for _, c := range chunks {
		streamBytes = append(streamBytes, c...)
	}
	fs, _, end, res := parseBoth(streamBytes)
	fail1 := func(sig, format string, a ...interface{}) {
		if res.Fail == "" {
			res = fail(sig, format, a...)
		}
	}
	if end != "eof" {
		fail1("stream-torn", "the stream of %d bytes does not parse to its end: %d frames then %s", len(streamBytes), len(fs), end)
	}
	core.Count("log:via-proxy")

	// ---- groups per (id, type), in stream order
	type key struct {
		id string
		mt byte
	}
	type group struct {
		markers []string
		data    []frame
	}
	groups := map[key]*group{}
	var order []key
	for _, f := range fs {
		if f.id == sentinel {
			continue
		}
		k := key{f.id, f.mt}
		g := groups[k]
		if g == nil {
			g = &group{}
			groups[k] = g
			order = append(order, k)
		}
		switch {
		case f.hdr && ((f.mt == 1 && f.name == ":path") || (f.mt == 2 && f.name == "X-Ex")):
			g.markers = append(g.markers, f.value)
		case !f.hdr:
			g.data = append(g.data, f)
		}
	}
	for _, k := range order {
		if g := groups[k]; len(g.markers) > 1 {
			fail1("id-shared", "the frames of %d logged messages (%s) carry the same message ID %q and type %d: decoded per ID and type they are one message "+
				"(repeated headers, %d data frames); the proxy gave their contexts IDs that agree in the 8 bytes a frame keeps", len(g.markers), strings.Join(g.markers, ", "), k.id, k.mt, len(g.data))
		}
	}
	find := func(mt byte, marker string) (key, *group) {
		for _, k := range order {
			if k.mt != mt {
				continue
			}
			for _, m := range groups[k].markers {
				if m == marker {
					return k, groups[k]
				}
			}
		}
		return key{}, nil
	}
	summary := func(g *group) string {
		if g == nil {
			return "-"
		}
		idx0, term := 0, 0
		var cat []byte
		for _, f := range g.data {
			if f.index == 0 {
				idx0++
			}
			if f.terminal {
				term++
			}
			cat = append(cat, f.data...)
		}
		return fmt.Sprintf("%d.%d.%d.%d.%s", len(g.markers), idx0, term, len(cat), fnv(cat))
	}
	judge := func(what string, g *group, body []byte) {
		if g == nil {
			fail1("headers", "%s: no frames of this message in the stream", what)
			return
		}
		var cat []byte
		for k, f := range g.data {
			if f.index != uint32(k) {
				fail1("index", "%s: data frame %d of its (id, type) in stream order has index %d", what, k, f.index)
				return
			}
			cat = append(cat, f.data...)
		}
		if !bytes.Equal(cat, body) {
			fail1("body", "%s: the data frames of its (id, type) concatenate to %d bytes (%s), the body has %d bytes (%s)", what, len(cat), fnv(cat), len(body), fnv(body))
		}
		if len(g.data) == 0 || !g.data[len(g.data)-1].terminal {
			fail1("terminal", "%s: the body was read to end-of-file but the last data frame of its (id, type) is not terminal", what)
		}
	}
	classOf := map[string]int{}
	var out, ids []string
	for c := range conns {
		for x, e := range conns[c] {
			marker := fmt.Sprintf("/c%d/x%d", c, x)
			kq, gq := find(1, marker)
			_, gs := find(2, marker)
			judge("request "+marker, gq, pxBody(e.reqLen, pxReqStart(c, x)))
			judge("response "+marker, gs, pxBody(e.resLen, pxResStart(c, x)))
			out = append(out, fmt.Sprintf("%d.%d=%s|%s", c, x, summary(gq), summary(gs)))
			cl := "x"
			if gq != nil {
				if _, ok := classOf[kq.id]; !ok {
					classOf[kq.id] = len(classOf)
				}
				cl = strconv.Itoa(classOf[kq.id])
			}
			ids = append(ids, cl)
		}
	}
	if len(classOf) == len(ids) {
		core.Count("px:ids-distinct-in-8-bytes")
	}
	out = append(out, "end="+end)
	res.Impl = strings.Join(out, " ")
	res.ModelOp = opText + " ids=" + strings.Join(ids, ",")
	return res
}

// genPxCase: 1..4 connections with 1..4 keep-alive exchanges each, bodies 0..70000 bytes.
func genPxCase(r *core.Rand) []string {
	nc := []int{1, 2, 2, 3, 4}[r.Intn(5)]
	var cs []string
	for c := 0; c < nc; c++ {
		nx := []int{1, 2, 2, 3, 4}[r.Intn(5)]
		var es []string
		for x := 0; x < nx; x++ {
			sz := func() int {
				return []int{0, 0, 1, r.Range(1, 200), r.Range(200, 5000), r.Range(5000, 70000)}[r.Intn(6)]
			}
			es = append(es, fmt.Sprintf("%d.%d", sz(), sz()))
		}
		cs = append(cs, strings.Join(es, ","))
	}
	return []string{"runpx " + strings.Join(cs, ";")}
}
