// Package c19: marbl streams — real marbl.Stream / marbl.Reader against the Lean model
// (Martian/Model/Marbl.lean) and the property oracle.
//
// Ops (kept in step with lean/Martian/Drv/C19.lean):
//
//	read <hex>            bytes fed to marbl.Reader until it fails
//	log <msg> <msg> ...   messages logged concurrently to one marbl.Stream
//	m <msg> ... run       the same, one message per op (the shrinker drops messages)
//	m <msg> ... runmod    the same through marbl.Modifier (ids = Context.ID() of real contexts)
//	m <msg> ... runws     the same, the stream's writer being the real marbl.Handler with one real
//	                      websocket subscriber (ws.go); the subscriber must receive the written frames
//	m <msg> ... rung <n>  the same under a controlled schedule (sched.go): the writer goroutine parks inside
//	                      every Write, messages start and body reads return one gate at a time, chosen by
//	                      a splitmix stream seeded with n
//	runpx <spec>          exchanges through a real martian.Proxy whose request/response modifier is the real
//	                      marbl.Modifier (px.go): messages are logged under the IDs of the contexts the proxy creates
//	m <msg> ... runstall <ms>.<k>  free-running, but the stream's io.Writer blocks for ms milliseconds of wall
//	                      clock inside its k-th Write while the messages go on being logged and read (a slow
//	                      disk / subscriber): every sender has to wait, no frame may be lost
//
// What the model receives for a run op is the op plus two things the run decided (core.Result.ModelOp):
// ord=<i,i,…> the message each Write of the stream's writer belonged to, in order (the schedule of the
// writer goroutine: the model's explicit writer replays it and must produce the same byte stream), and
// ts=<ms,…> the :timestamp value of each message, ho=<names>/… the iteration order of each message's header map.
//	  msg = kind/id/api/pseudo,.../host/cl/te/hdrs/reads
//	    kind   q (request) | s (response)
//	    id     hex, >= 8 bytes (the frames carry id[:8])
//	    api    0|1 (Context.APIRequest)
//	    pseudo q: method,scheme,url-host,escaped-path,raw-query,proto,remote-addr (hex)
//	           s: proto(hex),status-code(decimal),reason(hex)
//	    host   req.Host (hex; "-" for responses)
//	    cl     ContentLength (decimal, may be -1)
//	    te     n (nil) | e (empty, non-nil) | hex,hex
//	    hdrs   _ | key:val,val;key:_;...   (hex; distinct keys = the Go map)
//	    reads  _ | data:err:extra;...  one entry per Read the consumer performs: the bytes and the
//	           error (n nil, e io.EOF, x other) the wrapped body returns, and how many bytes the
//	           consumer's buffer is longer than the data. data = hex or p<len>.<start> (pattern)
//	           C / Cx: the consumer calls Close at this point (the wrapped body's Close returns nil / an
//	           error; the scripted body stays readable after Close, like an ioutil.NopCloser). A token
//	           without any C entry gets one Close after the last read.
//	           N<k>: the body is http.NoBody and the consumer reads it k times
package c19

import (
	"bytes"
	"encoding/binary"
	"errors"
	"fmt"
	"io"
	"net/http"
	"net/url"
	"runtime"
	"sort"
	"strconv"
	"strings"
	"sync"
	"time"

	"github.com/google/martian/v3"
	"github.com/google/martian/v3/marbl"

	"verif/harness/internal/core"
)

type P struct{}

func init() { core.Register(P{}) }

func (P) ID() string { return "C19" }
func (P) Rule() string {
	return "case = either one logging run (`m` op per message, then `run`): 1..8 messages (requests/responses, request+response pairs sharing an id, random pseudo-header " +
		"fields, header maps with repeated/empty/binary/long (> 64 KiB) values, Host/Content-Length/Transfer-Encoding on the boundaries between struct field and header map (explicit zero length, map only, field only, stale map entries), bodies 0..MiB delivered by a scripted body in random chunkings (one Read returns 1 byte .. 1 MiB) with " +
		"EOF-with-data / separate EOF / early stop / mid-body error / reads after EOF, consumer buffers of random slack, consumer call sequences with Close anywhere among the reads / twice / failing / absent) logged concurrently " +
		"to one real marbl.Stream (writer: a recorder that also retains the slices it is handed; via marbl.Modifier in 1/5, into the real marbl.Handler " +
		"with a real websocket subscriber in 2/5 of the cases; or, `rung`, 2..6 messages under a controlled schedule: the writer goroutine is held inside every Write, " +
		"message starts and body reads are released one gate at a time by a seeded scheduler that waits for all goroutines to block) and parsed back with marbl.Reader and an independent parser, " +
		"the model replaying the observed order of writes; 12 (thorough 150) cases send 1..4 keep-alive exchanges on each of 1..4 connections through a real martian.Proxy with marbl.Modifier installed and judge the stream per message ID and type (IDs = the proxy's contexts'); one case (thorough: 6) stalls the stream's writer for 400..1500 ms of wall clock inside one Write while bodies are being read; or a batch of `read` ops: streams of valid " +
		"frames (1/30 with a header or data frame around/above 64 KiB) that are truncated, bit-flipped, re-typed, given boundary/huge length fields, spliced with random bytes, or purely random; " +
		"distinct by hash of the op list; non-trivial when a log case has >= 2 messages and >= 2 data frames, or a read batch reaches " +
		">= 2 different terminating outcomes or parses >= 1 frame before an error"
}

func (P) Nontrivial(ops []string, impl []string) bool {
	if len(ops) == 0 {
		return false
	}
	if strings.HasPrefix(ops[0], "runpx ") {
		return strings.ContainsAny(ops[0], ",;") // at least two exchanges
	}
	if strings.HasPrefix(ops[0], "log ") || strings.HasPrefix(ops[0], "m ") {
		var toks []string
		for _, op := range ops {
			t := strings.Fields(op)
			if len(t) >= 2 && (t[0] == "log" || t[0] == "m") {
				toks = append(toks, t[1:]...)
			}
		}
		if len(toks) < 2 {
			return false
		}
		nd := 0
		for _, m := range toks {
			f := strings.Split(m, "/")
			if len(f) == 9 && f[8] != "_" {
				nd += strings.Count(f[8], ";") + 1
			}
		}
		return nd >= 2
	}
	ends := map[string]bool{}
	framesBeforeErr := false
	for _, l := range impl {
		f := strings.Fields(l)
		if len(f) == 0 {
			continue
		}
		e := f[len(f)-1]
		ends[e] = true
		if len(f) > 1 && e != "end=eof" {
			framesBeforeErr = true
		}
	}
	return len(ends) >= 2 || framesBeforeErr
}

func fail(sig, format string, a ...interface{}) core.Result {
	return core.Result{Fail: fmt.Sprintf(format, a...), Sig: sig}
}

// ---------------------------------------------------------------------------------------------
// frames, independent parser

type frame struct {
	hdr         bool
	mt          byte
	id          string
	name, value string // header
	index       uint32 // data
	terminal    bool
	data        []byte
	raw         []byte // the frame's bytes on the wire (independent parser only)
}

func (f frame) same(g frame) bool {
	return f.hdr == g.hdr && f.mt == g.mt && f.id == g.id && f.name == g.name && f.value == g.value &&
		f.index == g.index && f.terminal == g.terminal && bytes.Equal(f.data, g.data)
}

func fnv(b []byte) string {
	h := uint64(14695981039346656037)
	for _, c := range b {
		h = (h ^ uint64(c)) * 1099511628211
	}
	return fmt.Sprintf("%016x", h)
}

func bit(b bool) string {
	if b {
		return "1"
	}
	return "0"
}

func (f frame) show() string {
	if f.hdr {
		return fmt.Sprintf("h.%d.%s.%s.%s", f.mt, core.HexS(f.id), core.HexS(f.name), core.HexS(f.value))
	}
	return fmt.Sprintf("d.%d.%s.%d.%s.%d.%s", f.mt, core.HexS(f.id), f.index, bit(f.terminal), len(f.data), fnv(f.data))
}

// indepParse reads the layout documented at the top of marbl.go by offsets; it shares no code
// with marbl.Reader. end ∈ eof | ueof | unknown. It never allocates from a length field.
func indepParse(b []byte) (fs []frame, end string) {
	pos := 0
	need := func(n uint64, fresh bool) (bool, string) {
		rem := uint64(len(b) - pos)
		if n <= rem {
			return true, ""
		}
		if rem == 0 { // io.ReadFull returns io.EOF when no byte at all could be read
			return false, "eof"
		}
		return false, "ueof"
	}
	for {
		start := pos
		if ok, e := need(10, true); !ok {
			return fs, e
		}
		ft, mt, id := b[pos], b[pos+1], string(b[pos+2:pos+10])
		pos += 10
		switch ft {
		case 1:
			if ok, e := need(8, false); !ok {
				return fs, e
			}
			nl := uint64(b[pos])<<24 | uint64(b[pos+1])<<16 | uint64(b[pos+2])<<8 | uint64(b[pos+3])
			vl := uint64(b[pos+4])<<24 | uint64(b[pos+5])<<16 | uint64(b[pos+6])<<8 | uint64(b[pos+7])
			pos += 8
			if ok, e := need(nl+vl, false); !ok {
				return fs, e
			}
			f := frame{hdr: true, mt: mt, id: id, name: string(b[pos : pos+int(nl)]), value: string(b[pos+int(nl) : pos+int(nl+vl)])}
			pos += int(nl + vl)
			f.raw = b[start:pos]
			fs = append(fs, f)
		case 2:
			if ok, e := need(9, false); !ok {
				return fs, e
			}
			idx := binary.BigEndian.Uint32(b[pos:])
			term := b[pos+4] == 1
			dl := uint64(binary.BigEndian.Uint32(b[pos+5:]))
			pos += 9
			if ok, e := need(dl, false); !ok {
				return fs, e
			}
			f := frame{mt: mt, id: id, index: idx, terminal: term, data: b[pos : pos+int(dl)]}
			pos += int(dl)
			f.raw = b[start:pos]
			fs = append(fs, f)
		default:
			return fs, "unknown"
		}
	}
}

// realParse drives marbl.Reader until it fails; a panic is an observation.
func realParse(b []byte) (fs []frame, end string, panicked string) {
	defer func() {
		if x := recover(); x != nil {
			end = "panic"
			panicked = fmt.Sprint(x)
		}
	}()
	r := marbl.NewReader(bytes.NewReader(b))
	for {
		f, err := r.ReadFrame()
		if err != nil {
			switch {
			case err == io.EOF:
				return fs, "eof", ""
			case err == io.ErrUnexpectedEOF:
				return fs, "ueof", ""
			case strings.Contains(err.Error(), "unknown type of frame"):
				return fs, "unknown", ""
			default:
				return fs, "err:" + err.Error(), ""
			}
		}
		switch v := f.(type) {
		case marbl.Header:
			fs = append(fs, frame{hdr: true, mt: byte(v.MessageType), id: v.ID, name: v.Name, value: v.Value})
		case marbl.Data:
			fs = append(fs, frame{mt: byte(v.MessageType), id: v.ID, index: v.Index, terminal: v.Terminal, data: v.Data})
		default:
			return fs, fmt.Sprintf("err:frame-type-%T", f), ""
		}
	}
}

// parseBoth runs both parsers and states the reader clauses of the property.
func parseBoth(b []byte) (fs []frame, ind []frame, end string, res core.Result) {
	fs, end, pan := realParse(b)
	ind, iend := indepParse(b)
	if pan != "" {
		core.Count("reader:panic")
		return fs, ind, end, fail("reader-panic", "marbl.Reader panicked (%s) after %d frames on %d bytes; an independent parser says %d frames then %s",
			pan, len(fs), len(b), len(ind), iend)
	}
	if end != iend || len(fs) != len(ind) {
		return fs, ind, end, fail("reader-mismatch", "marbl.Reader: %d frames then %s; independent parser: %d frames then %s", len(fs), end, len(ind), iend)
	}
	for i := range fs {
		if !fs[i].same(ind[i]) {
			return fs, ind, end, fail("reader-mismatch", "frame %d: marbl.Reader %s, independent parser %s", i, fs[i].show(), ind[i].show())
		}
	}
	return fs, ind, end, core.Result{}
}

// announcedAlloc is the largest buffer a frame header in b announces beyond the bytes that are
// really there (marbl.Reader allocates the announced size before it reads).
func announcedAlloc(b []byte) uint64 {
	var worst uint64
	for pos := 0; pos+10 <= len(b); {
		ft := b[pos]
		pos += 10
		var n uint64
		switch ft {
		case 1:
			if pos+8 > len(b) {
				return worst
			}
			n = uint64(binary.BigEndian.Uint32(b[pos:])) + uint64(binary.BigEndian.Uint32(b[pos+4:]))
			pos += 8
		case 2:
			if pos+9 > len(b) {
				return worst
			}
			n = uint64(binary.BigEndian.Uint32(b[pos+5:]))
			pos += 9
		default:
			return worst
		}
		if n > uint64(len(b)-pos) {
			if n > worst {
				worst = n
			}
			return worst
		}
		pos += int(n)
	}
	return worst
}

func doRead(h string) core.Result {
	b, ok := core.Unhex(h)
	if !ok {
		return core.Result{Impl: "bad-op"}
	}
	if announcedAlloc(b) > 64<<20 {
		// The repaired reader allocates (and the kernel zeroes) what the frame announces: gigabytes
		// for the F19 witnesses. How long that takes is a property of the machine, not of the code, so
		// this op gets its own budget and a slow machine is counted, not reported as a hang. A panic
		// (the unrepaired reader) still surfaces at once.
		type out struct {
			r core.Result
			p any
		}
		ch := make(chan out, 1)
		go func() {
			defer func() {
				if x := recover(); x != nil {
					ch <- out{p: x}
				}
			}()
			ch <- out{r: doReadNow(b)}
		}()
		select {
		case o := <-ch:
			if o.p != nil {
				panic(o.p)
			}
			return o.r
		case <-time.After(20 * time.Second):
			core.Count("read:big-alloc-slow-machine")
			return core.Result{Impl: "skipped big allocation", SkipModel: true}
		}
	}
	return doReadNow(b)
}

func doReadNow(b []byte) core.Result {
	fs, _, end, res := parseBoth(b)
	var out []string
	for _, f := range fs {
		out = append(out, f.show())
	}
	out = append(out, "end="+end)
	res.Impl = strings.Join(out, " ")
	core.Count("read:end=" + end)
	if len(fs) > 0 {
		core.Count("read:with-frames")
	}
	return res
}

// ---------------------------------------------------------------------------------------------
// messages

type readStep struct {
	data  []byte
	err   byte // n e x
	extra int
	close bool // a Close call (err: n | x), not a Read
}

type hkv struct {
	k  string
	vs []string
}

type msg struct {
	kind   byte
	id     string
	api    bool
	pseudo []string
	status int
	host   string
	cl     int64
	te     []string // nil = nil
	hdr    []hkv
	reads  []readStep // the Read calls among calls
	calls  []readStep // every call the consumer makes on the (wrapped) body, in order
	noBody bool       // Body = http.NoBody; reads = what the consumer's reads of it return
}

var errScripted = errors.New("c19: scripted body failure")

func errOf(c byte) error {
	switch c {
	case 'e':
		return io.EOF
	case 'x':
		return errScripted
	}
	return nil
}

func errLetter(err error) string {
	switch err {
	case nil:
		return "n"
	case io.EOF:
		return "e"
	case errScripted:
		return "x"
	}
	return "?"
}

func dataTok(s string) ([]byte, bool) {
	if strings.HasPrefix(s, "p") {
		p := strings.Split(s[1:], ".")
		if len(p) != 2 {
			return nil, false
		}
		l, e1 := strconv.Atoi(p[0])
		st, e2 := strconv.Atoi(p[1])
		if e1 != nil || e2 != nil || l < 0 || st < 0 {
			return nil, false
		}
		b := make([]byte, l)
		for i := range b {
			b[i] = byte((st + i) % 251)
		}
		return b, true
	}
	return core.Unhex(s)
}

func hexList(s string) ([]string, bool) {
	if s == "_" {
		return []string{}, true
	}
	var out []string
	for _, h := range strings.Split(s, ",") {
		b, ok := core.Unhex(h)
		if !ok {
			return nil, false
		}
		out = append(out, string(b))
	}
	return out, true
}

func parseMsg(tok string) (*msg, bool) {
	f := strings.Split(tok, "/")
	if len(f) != 9 || (f[0] != "q" && f[0] != "s") {
		return nil, false
	}
	m := &msg{kind: f[0][0]}
	id, ok := core.Unhex(f[1])
	if !ok {
		return nil, false
	}
	m.id = string(id)
	switch f[2] {
	case "0":
	case "1":
		m.api = true
	default:
		return nil, false
	}
	ps := strings.Split(f[3], ",")
	if m.kind == 'q' {
		if len(ps) != 7 {
			return nil, false
		}
		for _, p := range ps {
			b, ok := core.Unhex(p)
			if !ok {
				return nil, false
			}
			m.pseudo = append(m.pseudo, string(b))
		}
	} else {
		if len(ps) != 3 {
			return nil, false
		}
		pr, ok1 := core.Unhex(ps[0])
		st, err := strconv.Atoi(ps[1])
		re, ok2 := core.Unhex(ps[2])
		if !ok1 || !ok2 || err != nil || st < 0 {
			return nil, false
		}
		m.pseudo = []string{string(pr), ps[1], string(re)}
		m.status = st
	}
	h, ok := core.Unhex(f[4])
	if !ok {
		return nil, false
	}
	m.host = string(h)
	cl, err := strconv.ParseInt(f[5], 10, 64)
	if err != nil {
		return nil, false
	}
	m.cl = cl
	switch f[6] {
	case "n":
	case "e":
		m.te = []string{}
	default:
		if m.te, ok = hexList(f[6]); !ok {
			return nil, false
		}
	}
	if f[7] != "_" {
		for _, kv := range strings.Split(f[7], ";") {
			p := strings.Split(kv, ":")
			if len(p) != 2 {
				return nil, false
			}
			k, ok := core.Unhex(p[0])
			if !ok {
				return nil, false
			}
			vs, ok := hexList(p[1])
			if !ok {
				return nil, false
			}
			m.hdr = append(m.hdr, hkv{string(k), vs})
		}
	}
	if strings.HasPrefix(f[8], "N") {
		k, err := strconv.Atoi(f[8][1:])
		if err != nil || k < 0 || k > 100 {
			return nil, false
		}
		m.noBody = true
		for ; k > 0; k-- {
			m.reads = append(m.reads, readStep{data: nil, err: 'e'})
		}
		m.calls = m.reads
	} else if f[8] != "_" {
		for _, r := range strings.Split(f[8], ";") {
			if r == "C" || r == "Cx" {
				c := readStep{close: true, err: 'n'}
				if r == "Cx" {
					c.err = 'x'
				}
				m.calls = append(m.calls, c)
				continue
			}
			p := strings.Split(r, ":")
			if len(p) != 3 || len(p[1]) != 1 || !strings.Contains("nex", p[1]) {
				return nil, false
			}
			d, ok := dataTok(p[0])
			ex, err := strconv.Atoi(p[2])
			if !ok || err != nil || ex < 0 {
				return nil, false
			}
			m.reads = append(m.reads, readStep{data: d, err: p[1][0], extra: ex})
			m.calls = append(m.calls, readStep{data: d, err: p[1][0], extra: ex})
		}
	}
	return m, true
}

// scriptBody is the wrapped body: read k returns the k-th scripted result.
type scriptBody struct {
	steps  []readStep // results of the Read calls, in order
	closes []byte     // results of the Close calls, in order (n | x); nil beyond
	i, ci  int
	closed bool
	gate   func() // controlled schedules: called at the start of every Read
}

func (s *scriptBody) Read(b []byte) (int, error) {
	if s.gate != nil {
		s.gate()
	}
	if s.i >= len(s.steps) {
		return 0, io.EOF
	}
	st := s.steps[s.i]
	s.i++
	n := copy(b, st.data)
	return n, errOf(st.err)
}
// Close: the k-th call returns the k-th scripted result; the body stays readable (ioutil.NopCloser over
// an in-memory reader, which is what a modifier typically installs).
func (s *scriptBody) Close() error {
	s.closed = true
	if s.ci < len(s.closes) {
		s.ci++
		return errOf(s.closes[s.ci-1])
	}
	return nil
}

type got struct {
	n    int
	err  error
	data []byte
	close bool
}

type pair struct{ k, v string }

func sortedPairs(p []pair) []pair {
	q := append([]pair(nil), p...)
	sort.Slice(q, func(i, j int) bool {
		if q[i].k != q[j].k {
			return q[i].k < q[j].k
		}
		return q[i].v < q[j].v
	})
	return q
}

var special = map[string]bool{"Host": true, "Content-Length": true, "Transfer-Encoding": true}

// fieldHeaders: the message's Host / Content-Length / Transfer-Encoding headers, stated from the
// message itself and not from proxyutil. net/http keeps these three in struct fields (Request.Host,
// ContentLength, TransferEncoding) and writes the FIELDS on the wire; the header map may hold the
// same names as well (a message parsed from the wire keeps its Content-Length line, "Content-Length:
// 0" included; a modifier or a hand-built message may carry any of them). Per name:
//
//	field set (Host != "", ContentLength > 0, TransferEncoding non-empty)  -> the field, whatever the map says
//	field unset (Host "", responses have none; TransferEncoding nil), map has the name -> the map's values: they
//	      are headers of the message and nothing contradicts them
//	ContentLength == 0 and the map says exactly "0"   -> Content-Length: 0 (an explicit zero length: bodyless
//	      POST, 302, empty 200 read from the wire; field and map agree)
//	anything else with the name in the map (ContentLength <= 0 against another map value, an empty
//	      non-nil TransferEncoding against a map entry) -> a contradiction inside the message: not judged
//	name nowhere -> no such header
func fieldHeaders(m *msg) (ps []pair, abstain map[string]bool) {
	abstain = map[string]bool{}
	inMap := map[string][]string{}
	has := map[string]bool{}
	for _, kv := range m.hdr {
		if special[kv.k] {
			inMap[kv.k], has[kv.k] = kv.vs, true
		}
	}
	add := func(k string, vs []string) {
		for _, v := range vs {
			ps = append(ps, pair{k, v})
		}
	}
	// Host
	switch {
	case m.kind == 'q' && m.host != "":
		add("Host", []string{m.host})
		if has["Host"] {
			core.Count("fields:host-field-vs-map")
		}
	case has["Host"]:
		add("Host", inMap["Host"])
		core.Count("fields:host-map-only")
	}
	// Content-Length
	switch {
	case m.cl > 0:
		add("Content-Length", []string{strconv.FormatInt(m.cl, 10)})
		if has["Content-Length"] {
			core.Count("fields:cl-field-vs-map")
		}
	case has["Content-Length"] && m.cl == 0 && len(inMap["Content-Length"]) == 1 && inMap["Content-Length"][0] == "0":
		add("Content-Length", []string{"0"})
		core.Count("fields:cl-explicit-zero")
	case has["Content-Length"]:
		abstain["Content-Length"] = true
		core.Count("fields:cl-contradiction-not-judged")
	}
	// Transfer-Encoding
	switch {
	case len(m.te) > 0:
		add("Transfer-Encoding", m.te)
		if has["Transfer-Encoding"] {
			core.Count("fields:te-field-vs-map")
		}
	case m.te == nil && has["Transfer-Encoding"]:
		add("Transfer-Encoding", inMap["Transfer-Encoding"])
		core.Count("fields:te-map-only")
	case has["Transfer-Encoding"]:
		abstain["Transfer-Encoding"] = true
		core.Count("fields:te-contradiction-not-judged")
	}
	return ps, abstain
}

func joinOr(sep string, l []string) string {
	if len(l) == 0 {
		return "-"
	}
	return strings.Join(l, sep)
}

// doLog logs the messages concurrently, directly through Stream.LogRequest/LogResponse with the
// op's ids, or (viaMod) through marbl.Modifier with the ids of real martian contexts.
func doLog(toks []string, mode string, seed uint64, opText string) core.Result {
	viaMod := mode == "runmod"
	tapOK := func() {}
	var ms []*msg
	for _, t := range toks {
		m, ok := parseMsg(t)
		if !ok || len(m.id) < 8 {
			return core.Result{Impl: "bad-op"}
		}
		ms = append(ms, m)
	}
	if len(ms) == 0 {
		return core.Result{Impl: "bad-op"}
	}
	rec := &recWriter{}
	var g *gated
	if mode == "rung" {
		g = newGated(seed, len(ms))
		rec.gate = g.waitWrite
		core.Count("log:controlled-schedule")
	}
	if mode == "runstall" { // seed = ms<<16 | k: the writer is blocked for ms milliseconds of wall clock inside its k-th Write
		stallMs, stallAt := int(seed>>16), int(seed&0xffff)
		nw := 0
		rec.gate = func() { // called by the single writer goroutine only
			if nw == stallAt {
				core.Count("log:writer-stalled")
				time.Sleep(time.Duration(stallMs) * time.Millisecond)
			}
			nw++
		}
	}
	var tap *wsTap
	if mode == "runws" {
		nf := 0
		for _, m := range ms {
			nf += len(m.reads) + len(m.hdr) + 16
			for _, kv := range m.hdr {
				nf += len(kv.vs)
			}
		}
		if nf > maxTapFrames {
			core.Count("ws:skipped-too-many-frames")
		} else if tap = acquireTap(); tap != nil {
			broken := true // until the end probe came through
			defer func() { releaseTap(broken) }()
			tapOK = func() { broken = false }
			rec.next = tap.h
		}
	}
	var s *marbl.Stream
	var mod *marbl.Modifier
	if viaMod {
		mod = marbl.NewModifier(rec) // its stream cannot be closed: flushed with a sentinel message below
	} else {
		s = marbl.NewStream(rec)
	}
	wireID := make([]string, len(ms))
	gots := make([][]got, len(ms))
	expect := make([][]pair, len(ms)) // what the message's (pseudo-)headers are, stated from the message
	abstain := make([]map[string]bool, len(ms))
	var removes []func()
	start := make(chan struct{})
	var wg sync.WaitGroup
	var panMu sync.Mutex
	panicked := ""

	t0 := time.Now().UnixNano() / 1e6
	for i, m := range ms {
		i, m := i, m
		// build the message
		u := &url.URL{Scheme: "", Host: ""}
		req := &http.Request{Method: "GET", URL: u, Proto: "HTTP/1.1", Header: http.Header{}}
		var res *http.Response
		sb := &scriptBody{steps: m.reads}
		for _, c := range m.calls {
			if c.close {
				sb.closes = append(sb.closes, c.err)
			}
		}
		if g != nil {
			sb.gate = func() { g.waitRead(i) }
		}
		var body io.ReadCloser = sb
		if m.noBody {
			body = http.NoBody
			core.Count("body:http.NoBody")
		}
		hdr := http.Header{}
		for _, kv := range m.hdr {
			hdr[kv.k] = kv.vs
		}
		if m.kind == 'q' {
			req.Method = m.pseudo[0]
			u.Scheme = m.pseudo[1]
			u.Host = m.pseudo[2]
			p, err := url.PathUnescape(m.pseudo[3])
			if err != nil {
				return core.Result{Impl: "bad-op"}
			}
			u.Path, u.RawPath = p, m.pseudo[3]
			u.RawQuery = m.pseudo[4]
			req.Proto = m.pseudo[5]
			req.RemoteAddr = m.pseudo[6]
			req.Host = m.host
			req.ContentLength = m.cl
			req.TransferEncoding = m.te
			req.Header = hdr
			req.Body = body
			expect[i] = []pair{{":method", req.Method}, {":scheme", u.Scheme}, {":authority", u.Host}, {":path", u.EscapedPath()},
				{":query", u.RawQuery}, {":proto", req.Proto}, {":remote", req.RemoteAddr}}
		} else {
			res = &http.Response{Proto: m.pseudo[0], StatusCode: m.status, Status: m.pseudo[2], Header: hdr,
				ContentLength: m.cl, TransferEncoding: m.te, Body: body, Request: req}
			expect[i] = []pair{{":proto", res.Proto}, {":status", strconv.Itoa(res.StatusCode)}, {":reason", res.Status}}
		}
		if m.api {
			expect[i] = append(expect[i], pair{":api", "true"})
		}
		for _, kv := range m.hdr {
			if special[kv.k] {
				continue
			}
			for _, v := range kv.vs {
				expect[i] = append(expect[i], pair{kv.k, v})
			}
		}
		fp, ab := fieldHeaders(m)
		expect[i] = append(expect[i], fp...)
		abstain[i] = ab
		ctx, remove, err := martian.TestContext(req, nil, nil)
		if err != nil {
			return core.Result{Impl: "bad-op"}
		}
		removes = append(removes, remove)
		if m.api {
			ctx.APIRequest()
		}
		wireID[i] = m.id[:8]
		if viaMod {
			wireID[i] = ctx.ID()[:8]
		}
		wg.Add(1)
		go logWorker(&workerEnv{i: i, m: m, req: req, res: res, s: s, mod: mod, g: g, start: start, wg: &wg,
			gots: &gots[i], onPanic: func(x interface{}) {
				panMu.Lock()
				if panicked == "" {
					panicked = fmt.Sprintf("message %d: %v", i, x)
				}
				panMu.Unlock()
			}})
	}
	close(start)
	done := make(chan struct{})
	go func() { wg.Wait(); close(done) }()
	if g != nil {
		ok := g.drive(20 * time.Second)
		g.release() // from here on no gate holds anybody (a writer that still has frames to write must not park for ever)
		if !ok {
			return core.Result{Impl: "hang", Fail: "controlled schedule: logging goroutines and the stream's writer did not come to rest within 20s", Sig: "log-hang"}
		}
	}
	select {
	case <-done:
	case <-time.After(20 * time.Second):
		return core.Result{Impl: "hang", Fail: "logging goroutines did not finish within 20s", Sig: "log-hang"}
	}
	panMu.Lock()
	pm := panicked
	panMu.Unlock()
	closed := make(chan struct{})
	sentinel := ""
	go func() {
		defer close(closed)
		if !viaMod {
			s.Close() // received by the writer goroutine only after its last Write returned
			return
		}
		// every send of the sentinel returns only after the writer goroutine took the frame, i.e.
		// after it finished writing everything sent before
		sreq := &http.Request{Method: "FLUSH", URL: &url.URL{}, Header: http.Header{}, Body: http.NoBody}
		sctx, rm, err := martian.TestContext(sreq, nil, nil)
		if err != nil {
			return
		}
		defer rm()
		sentinel = sctx.ID()[:8]
		mod.ModifyRequest(sreq)
	}()
	select {
	case <-closed:
	case <-time.After(10 * time.Second):
		return core.Result{Impl: "hang", Fail: "Stream.Close did not return within 10s", Sig: "close-hang"}
	}
	t1 := time.Now().UnixNano()/1e6 + 1
	for _, r := range removes {
		r()
	}
	var wsMsgs [][]byte
	wsDone := false
	if tap != nil { // everything written is queued for the subscriber: an end probe follows it
		if wsMsgs, wsDone = tap.collect(15 * time.Second); wsDone {
			tapOK()
		}
	}
	rec.mu.Lock()
	chunks, kept := rec.chunks, rec.kept
	rec.mu.Unlock()
	var streamBytes []byte
	for _, c := range chunks {
		streamBytes = append(streamBytes, c...)
	}

	if pm != "" {
		return core.Result{Impl: "panic", Fail: "logging a message panicked: " + pm, Sig: "log-panic"}
	}

	// ---- observations
	fs, ind, end, res := parseBoth(streamBytes)
	if viaMod && sentinel != "" {
		var fs2, ind2 []frame
		for j := range fs {
			if fs[j].id != sentinel {
				fs2 = append(fs2, fs[j])
				if j < len(ind) {
					ind2 = append(ind2, ind[j])
				}
			}
		}
		fs, ind = fs2, ind2
		core.Count("log:via-modifier")
	}
	// interleaving statistics
	switches := 0
	for i := 1; i < len(fs); i++ {
		if fs[i].id != fs[i-1].id || fs[i].mt != fs[i-1].mt {
			switches++
		}
	}
	if switches >= 2*len(ms) {
		core.Count("log:interleaved-cases")
	}
	core.Count(fmt.Sprintf("log:messages=%d", len(ms)))
	wholeFrames := len(chunks) == len(ind)
	if wholeFrames {
		for i := range chunks {
			if !bytes.Equal(chunks[i], ind[i].raw) {
				wholeFrames = false
			}
		}
	}
	if wholeFrames {
		core.Count("log:one-write-per-frame")
	}

	type key struct {
		id string
		mt byte
	}
	owner := map[key]int{}
	for i, m := range ms {
		mt := byte(1)
		if m.kind == 's' {
			mt = 2
		}
		owner[key{wireID[i], mt}] = i
	}
	perMsg := make([][]int, len(ms)) // frame indices in stream order
	stray := -1
	for j, f := range fs {
		if i, ok := owner[key{f.id, f.mt}]; ok {
			perMsg[i] = append(perMsg[i], j)
		} else if stray < 0 {
			stray = j
		}
	}
	rawOf := func(j int) []byte { // raw frame bytes, with the op's id in place of a context id
		if j >= len(ind) {
			return nil
		}
		if !viaMod || len(ind[j].raw) < 10 {
			return ind[j].raw
		}
		raw := append([]byte(nil), ind[j].raw...)
		if i, ok := owner[key{ind[j].id, ind[j].mt}]; ok {
			copy(raw[2:10], ms[i].id[:8])
		}
		return raw
	}

	var out []string
	fail1 := func(sig, format string, a ...interface{}) {
		if res.Fail == "" {
			res = fail(sig, format, a...)
		}
	}
	if res.Fail == "" && end != "eof" {
		fail1("stream-torn", "the stream of %d bytes written by marbl.Stream does not parse to its end: %d frames then %s", len(streamBytes), len(fs), end)
	}
	if stray >= 0 {
		fail1("stray-frame", "frame %d (%s) belongs to no logged message", stray, fs[stray].show())
	}
	// the writer may retain what it is handed (marbl.Handler does): frames are never touched again
	if sig, msg := checkRetained(chunks, kept); sig != "" {
		fail1(sig, "%s", msg)
	}
	if tap != nil {
		core.Count("log:via-handler-websocket")
		if !wsDone {
			fail1("subscriber-hang", "websocket subscriber of marbl.Handler: the end marker written after %d frames did not arrive within 15s (%d messages received)", len(chunks), len(wsMsgs))
		} else if sig, msg := checkSubscriber(chunks, wsMsgs); sig != "" {
			fail1(sig, "%s", msg)
		}
	}
	for i, m := range ms {
		var hs, ds, rets []string
		var hp []pair
		var dfs []frame
		for _, j := range perMsg[i] {
			f := fs[j]
			if f.hdr {
				if f.name == ":timestamp" {
					hs = append(hs, core.HexS(f.name)+":ts")
					ts, err := strconv.ParseInt(f.value, 10, 64)
					if err != nil || ts < t0-1 || ts > t1 {
						fail1("headers", "message %d: :timestamp %q is not a millisecond time inside the run [%d,%d]", i, f.value, t0, t1)
					}
				} else {
					hs = append(hs, core.HexS(f.name)+":"+core.HexS(f.value)+":"+fnv(rawOf(j)))
					hp = append(hp, pair{f.name, f.value})
				}
			} else {
				ds = append(ds, fmt.Sprintf("%d:%s:%d:%s:%s", f.index, bit(f.terminal), len(f.data), fnv(f.data), fnv(rawOf(j))))
				dfs = append(dfs, f)
			}
		}
		sort.Strings(hs)
		for _, g := range gots[i] {
			if g.close {
				rets = append(rets, "C"+errLetter(g.err))
			} else {
				rets = append(rets, strconv.Itoa(g.n)+errLetter(g.err))
			}
		}
		out = append(out, fmt.Sprintf("m%d=%s|%s|%s", i, joinOr(",", hs), joinOr(",", ds), joinOr(",", rets)))

		// -- oracle, message i --------------------------------------------------------------
		// (a) exactly the message's pseudo-headers and headers (a multiset), stated from the message
		// itself (fieldHeaders); names on which struct field and header map contradict each other
		// are not judged (the model comparison still covers them).
		lenient := abstain[i]
		var hp2, ex2 []pair
		for _, p := range hp {
			if !lenient[p.k] {
				hp2 = append(hp2, p)
			}
		}
		for _, p := range expect[i] {
			if !lenient[p.k] {
				ex2 = append(ex2, p)
			}
		}
		a, b := sortedPairs(hp2), sortedPairs(ex2)
		if len(a) != len(b) {
			fail1("headers", "message %d: %d header frames, the message has %d (pseudo-)headers (besides :timestamp): got %q want %q", i, len(a), len(b), a, b)
		} else {
			for k := range a {
				if a[k] != b[k] {
					fail1("headers", "message %d: header frames differ from the message: got %q want %q", i, a[k], b[k])
					break
				}
			}
		}
		// (b) wrapper transparency, for the whole sequence of Read / Close calls the consumer made
		var consumed []byte
		sawEOF := m.noBody && m.kind == 'q' // http.NoBody of a request is not wrapped: an empty body is at end-of-file
		nReads := 0
		for k, g := range gots[i] {
			st := m.calls[k]
			if g.close {
				if g.err != errOf(st.err) {
					fail1("wrapper", "message %d call %d: Close through the wrapper returned %v, the body's Close returns %v", i, k, g.err, errOf(st.err))
				}
				continue
			}
			nReads++
			if g.n != len(st.data) || g.err != errOf(st.err) || !bytes.Equal(g.data, st.data) {
				fail1("wrapper", "message %d call %d (Read): wrapper returned (%d,%v), the body returns (%d,%v) for that call (or different bytes)", i, k, g.n, g.err, len(st.data), errOf(st.err))
			}
			consumed = append(consumed, g.data...)
			if g.err == io.EOF {
				sawEOF = true
			}
		}
		// (c) data frames: contiguous from zero, concatenation = bytes read, terminal ⇔ EOF
		var cat []byte
		for k, f := range dfs {
			if f.index != uint32(k) {
				fail1("index", "message %d: data frame %d in stream order has index %d", i, k, f.index)
				break
			}
			cat = append(cat, f.data...)
		}
		if !bytes.Equal(cat, consumed) {
			fail1("body", "message %d: data frames concatenate to %d bytes (%s), the consumer read %d bytes (%s)", i, len(cat), fnv(cat), len(consumed), fnv(consumed))
		}
		if len(dfs) > 0 {
			last := dfs[len(dfs)-1]
			if last.terminal != sawEOF {
				fail1("terminal", "message %d: last data frame terminal=%v but body reached EOF=%v", i, last.terminal, sawEOF)
			}
		} else if nReads > 0 {
			fail1("body", "message %d: %d reads but no data frame", i, nReads)
		}
		if !sawEOF {
			for k, f := range dfs {
				if f.terminal {
					fail1("terminal", "message %d: data frame %d is terminal but the body never returned EOF", i, k)
					break
				}
			}
		}
	}
	out = append(out, "end="+end, fmt.Sprintf("frames=%d", len(fs)))

	// ---- the writer goroutine's schedule, as observed: which message each Write belonged to. The
	// model's explicit writer (Marbl.Sys) replays it and must arrive at the same byte stream, write for write.
	var ord []string
	var canon []byte
	writes := 0
	for _, c := range chunks {
		if viaMod && sentinel != "" && len(c) >= 10 && string(c[2:10]) == sentinel {
			continue
		}
		writes++
		o := "x" // not the start of a frame of a logged message
		at := len(canon)
		canon = append(canon, c...)
		if len(c) >= 10 && (c[0] == 1 || c[0] == 2) {
			if i, ok := owner[key{string(c[2:10]), c[1]}]; ok {
				o = strconv.Itoa(i)
				copy(canon[at+2:at+10], ms[i].id[:8]) // runmod: the op's id in place of the context's
			}
		}
		ord = append(ord, o)
	}
	tss := make([]string, len(ms))
	for i := range ms {
		tss[i] = "-"
		for _, j := range perMsg[i] {
			if fs[j].hdr && fs[j].name == ":timestamp" {
				tss[i] = core.HexS(fs[j].value)
				break
			}
		}
	}
	// the iteration order of each message's header map (a Go map: any order), read off its frames:
	// the names in order of their last occurrence (the map part follows the pseudo-headers)
	hos := make([]string, len(ms))
	for i := range ms {
		last := map[string]int{}
		for _, j := range perMsg[i] {
			if fs[j].hdr {
				last[fs[j].name] = j
			}
		}
		names := make([]string, 0, len(last))
		for n := range last {
			names = append(names, n)
		}
		sort.Slice(names, func(a, b int) bool { return last[names[a]] < last[names[b]] })
		for k := range names {
			names[k] = core.HexS(names[k])
		}
		hos[i] = "_"
		if len(names) > 0 {
			hos[i] = strings.Join(names, ",")
		}
	}
	out = append(out, fmt.Sprintf("writes=%d", writes), fmt.Sprintf("stream=%d:%s", len(canon), fnv(canon)))
	res.ModelOp = strings.TrimSpace(opText + " ord=" + joinOr(",", ord) + " ts=" + strings.Join(tss, ",") + " ho=" + strings.Join(hos, "/"))
	res.Impl = strings.Join(out, " ")
	return res
}

// workerEnv is what one logging goroutine needs.
type workerEnv struct {
	i       int
	m       *msg
	req     *http.Request
	res     *http.Response
	s       *marbl.Stream
	mod     *marbl.Modifier
	g       *gated
	start   chan struct{}
	wg      *sync.WaitGroup
	gots    *[]got
	onPanic func(interface{})
}

// logWorker logs one message and then reads its body as scripted. (Named: the controlled scheduler
// finds these goroutines in the goroutine dump by this function's name.)
func logWorker(e *workerEnv) {
	defer e.wg.Done()
	if e.g != nil {
		defer e.g.finished(e.i)
	}
	defer func() {
		if x := recover(); x != nil {
			e.onPanic(x)
		}
	}()
	<-e.start
	if e.g != nil {
		e.g.waitStart(e.i)
	}
	m := e.m
	var wrapped io.ReadCloser
	if m.kind == 'q' {
		if e.mod != nil {
			e.mod.ModifyRequest(e.req)
		} else {
			e.s.LogRequest(m.id, e.req)
		}
		wrapped = e.req.Body
	} else {
		if e.mod != nil {
			e.mod.ModifyResponse(e.res)
		} else {
			e.s.LogResponse(m.id, e.res)
		}
		wrapped = e.res.Body
	}
	explicitClose := false
	for k, st := range m.calls {
		if st.close {
			explicitClose = true
			*e.gots = append(*e.gots, got{close: true, err: wrapped.Close()})
			continue
		}
		buf := make([]byte, len(st.data)+st.extra)
		n, err := wrapped.Read(buf)
		g := got{n: n, err: err}
		if n >= 0 && n <= len(buf) {
			g.data = append([]byte(nil), buf[:n]...)
		}
		*e.gots = append(*e.gots, g)
		if k%3 == 1 && e.g == nil {
			runtime.Gosched()
		}
	}
	if !explicitClose {
		wrapped.Close()
	}
}

type ex struct{ queue []string }

func (P) NewExec() core.Exec { return &ex{} }
func (*ex) Close()           {}

func (e *ex) Do(op string) core.Result {
	t := strings.Fields(op)
	switch {
	case len(t) == 2 && t[0] == "read":
		return doRead(t[1])
	case len(t) >= 2 && t[0] == "log":
		return doLog(t[1:], "run", 0, op)
	case len(t) == 2 && t[0] == "m": // one message of the next `run`
		e.queue = append(e.queue, t[1])
		return core.Result{Impl: "queued"}
	case len(t) == 1 && (t[0] == "run" || t[0] == "runmod" || t[0] == "runws"): // runmod: through marbl.Modifier; runws: into marbl.Handler
		q := e.queue
		e.queue = nil
		if len(q) == 0 {
			return core.Result{Impl: "bad-op"}
		}
		return doLog(q, t[0], 0, op)
	case len(t) == 2 && t[0] == "rung": // controlled schedule (sched.go)
		seed, err := strconv.ParseUint(t[1], 10, 64)
		q := e.queue
		e.queue = nil
		if err != nil || len(q) == 0 {
			return core.Result{Impl: "bad-op"}
		}
		return doLog(q, "rung", seed, op)
	case len(t) == 2 && t[0] == "runpx": // through a real proxy + marbl.Modifier: the proxy's own context IDs (px.go)
		return doPx(t[1], op)
	case len(t) == 2 && t[0] == "runstall": // wall-clock stall of the stream's writer: <ms>.<k>
		p := strings.Split(t[1], ".")
		q := e.queue
		e.queue = nil
		if len(p) != 2 || len(q) == 0 {
			return core.Result{Impl: "bad-op"}
		}
		ms, err1 := strconv.Atoi(p[0])
		k, err2 := strconv.Atoi(p[1])
		if err1 != nil || err2 != nil || ms < 0 || ms > 5000 || k < 0 || k > 60000 {
			return core.Result{Impl: "bad-op"}
		}
		return doLog(q, "runstall", uint64(ms)<<16|uint64(k), op)
	}
	return core.Result{Impl: "bad-op"}
}
