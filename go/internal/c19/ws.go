package c19

// The writers a marbl.Stream is really given may KEEP the slice they are handed: marbl.Handler.Write
// (how cmd/proxy wires marbl) queues `b` itself in every subscriber's channel and a goroutine sends
// it over the websocket later. The frames therefore must never be touched again after Write.
// This file holds the two observers of that:
//   - recWriter (every logging run): besides the copy taken at Write time it retains the slice and
//     compares the two when the run is over;
//   - wsTap (`runws`): the real marbl.Handler served over HTTP with one real websocket subscriber
//     (golang.org/x/net/websocket client); what the subscriber receives must be the written frames,
//     one websocket message per frame, in order.

import (
	"bytes"
	"encoding/binary"
	"fmt"
	"io"
	"net"
	"net/http"
	"sync"
	"time"

	"github.com/google/martian/v3/marbl"
	"golang.org/x/net/websocket"

	"verif/harness/internal/core"
)

// recWriter is the stream's io.Writer: every Write is kept as its own chunk (copied at once) and
// the slice itself is retained, exactly like marbl.Handler does; next (optional) receives the same slice.
type recWriter struct {
	mu     sync.Mutex
	chunks [][]byte // copies taken inside Write
	kept   [][]byte // the slices handed to Write
	next   io.Writer
	gate   func() // controlled schedules: the writer goroutine parks here, inside Write
}

func (w *recWriter) Write(b []byte) (int, error) {
	if w.gate != nil {
		w.gate()
	}
	w.mu.Lock()
	w.chunks = append(w.chunks, append([]byte(nil), b...))
	w.kept = append(w.kept, b)
	w.mu.Unlock()
	if w.next != nil {
		w.next.Write(b)
	}
	return len(b), nil
}

func short(b []byte) string {
	if len(b) > 24 {
		return fmt.Sprintf("%x… (%d bytes, fnv %s)", b[:24], len(b), fnv(b))
	}
	return fmt.Sprintf("%x (%d bytes)", b, len(b))
}

// checkRetained: a slice handed to Write still holds, when everything is over, what it held then.
func checkRetained(chunks, kept [][]byte) (sig, msg string) {
	for i := range chunks {
		if i < len(kept) && !bytes.Equal(chunks[i], kept[i]) {
			return "frame-buffer-reused", fmt.Sprintf("write %d of %d: the slice handed to the stream's writer held %s during Write and holds %s after the run: "+
				"a writer that retains it (marbl.Handler queues it for its websocket subscribers) sees a different frame", i, len(chunks), short(chunks[i]), short(kept[i]))
		}
	}
	return "", ""
}

// checkSubscriber: what the websocket subscriber received is, as a byte stream, what the stream wrote
// (the verdict is on the concatenation; the message-per-frame alignment only serves the diagnosis).
func checkSubscriber(chunks, got [][]byte) (sig, msg string) {
	cat := func(l [][]byte) []byte {
		var out []byte
		for _, c := range l {
			out = append(out, c...)
		}
		return out
	}
	w, g := cat(chunks), cat(got)
	if bytes.Equal(w, g) {
		if len(chunks) == len(got) {
			core.Count("ws:one-message-per-frame")
		}
		return "", ""
	}
	for i := range chunks {
		if i >= len(got) {
			break
		}
		if !bytes.Equal(chunks[i], got[i]) {
			return "subscriber-frames", fmt.Sprintf("websocket subscriber of marbl.Handler: message %d of %d is %s, frame %d of %d written by the stream was %s",
				i, len(got), short(got[i]), i, len(chunks), short(chunks[i]))
		}
	}
	return "subscriber-frames", fmt.Sprintf("websocket subscriber of marbl.Handler received %d messages (%d bytes), the stream wrote %d frames (%d bytes; the subscriber's buffer of 16384 frames was never full)",
		len(got), len(g), len(chunks), len(w))
}

// ---------------------------------------------------------------------------------------------

var probeMagic = []byte("\xffC19-probe\xff")

func probe(n uint64) []byte {
	b := make([]byte, len(probeMagic)+8)
	copy(b, probeMagic)
	binary.BigEndian.PutUint64(b[len(probeMagic):], n)
	return b
}

func isProbe(b []byte) (uint64, bool) {
	if len(b) != len(probeMagic)+8 || !bytes.HasPrefix(b, probeMagic) {
		return 0, false
	}
	return binary.BigEndian.Uint64(b[len(probeMagic):]), true
}

// wsTap: one marbl.Handler + one subscriber, shared by the cases of a process (cases run one after
// the other; a run is delimited by a probe written straight to the handler).
type wsTap struct {
	h    *marbl.Handler
	ln   net.Listener
	conn *websocket.Conn
	msgs chan []byte
	seq  uint64
}

var (
	tapMu  sync.Mutex // held for a whole `runws` op
	theTap *wsTap
)

const maxTapFrames = 8000 // the subscriber's buffer holds 16384; Handler drops beyond that by design

func newTap() (*wsTap, error) {
	ln, err := net.Listen("tcp", "127.0.0.1:0")
	if err != nil {
		return nil, err
	}
	t := &wsTap{h: marbl.NewHandler(), ln: ln, msgs: make(chan []byte, 4*maxTapFrames)}
	go http.Serve(ln, t.h)
	cfg, err := websocket.NewConfig("ws://"+ln.Addr().String()+"/", "http://localhost/")
	if err != nil {
		ln.Close()
		return nil, err
	}
	cfg.Dialer = &net.Dialer{Timeout: 5 * time.Second}
	conn, err := websocket.DialConfig(cfg)
	if err != nil {
		ln.Close()
		return nil, err
	}
	t.conn = conn
	go func() {
		defer close(t.msgs)
		for {
			var b []byte
			if err := websocket.Message.Receive(conn, &b); err != nil {
				return
			}
			t.msgs <- b
		}
	}()
	// the subscription exists once a probe comes through (Handler.Write with no subscriber is a no-op)
	deadline := time.After(10 * time.Second)
	for {
		t.seq++
		t.h.Write(probe(t.seq))
		select {
		case b, ok := <-t.msgs:
			if !ok {
				t.discard()
				return nil, fmt.Errorf("websocket closed during subscription")
			}
			if _, p := isProbe(b); p {
				return t, nil
			}
		case <-time.After(20 * time.Millisecond):
		case <-deadline:
			t.discard()
			return nil, fmt.Errorf("no subscription within 10s")
		}
	}
}

func (t *wsTap) discard() {
	if t.conn != nil {
		t.conn.Close()
	}
	t.ln.Close()
}

// collect writes an end probe to the handler and returns every non-probe message received before it.
func (t *wsTap) collect(d time.Duration) ([][]byte, bool) {
	t.seq++
	end := t.seq
	t.h.Write(probe(end))
	var out [][]byte
	deadline := time.After(d)
	for {
		select {
		case b, ok := <-t.msgs:
			if !ok {
				return out, false
			}
			if n, p := isProbe(b); p {
				if n == end {
					return out, true
				}
				continue
			}
			out = append(out, b)
		case <-deadline:
			return out, false
		}
	}
}

// acquireTap returns the shared tap with tapMu held (release with releaseTap), or nil.
func acquireTap() *wsTap {
	tapMu.Lock()
	if theTap == nil {
		t, err := newTap()
		if err != nil {
			core.Count("ws:unavailable")
			tapMu.Unlock()
			return nil
		}
		theTap = t
	}
	return theTap
}

func releaseTap(broken bool) {
	if broken && theTap != nil {
		theTap.discard()
		theTap = nil
	}
	tapMu.Unlock()
}
