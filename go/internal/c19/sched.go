package c19

// Controlled schedules (`rung <seed>`): the property quantifies over schedules, and the interesting
// ones have the stream's writer goroutine BUSY inside w.Write while several logging goroutines are
// queued on the stream (a slow disk, a slow websocket subscriber). The free-running ops (`run`, …)
// reach those states only by luck. Here every point at which a goroutine of the run can be held is
// a gate owned by the harness:
//
//	start gate   message i has not called LogRequest/LogResponse yet
//	read gate    message i's consumer is inside a Read of the wrapped body (the scripted body holds it,
//	             i.e. bodyLogger.Read has not sent its data frame yet)
//	write gate   the writer goroutine is inside w.Write (the frame was taken from the stream; every
//	             other sender is queued behind it)
//
// The scheduler repeats: wait until nothing moves any more (every unfinished logging goroutine is
// blocked — in a gate, or inside marbl on the stream), then open ONE gate chosen by a splitmix stream
// seeded from the op. So the order in which frames are offered to the writer goroutine is a function
// of the op (as long as the code under test blocks at the same places), a data frame of any size can
// be in flight while another message's header or data frames are offered, and a message can start
// while others are in the middle of their bodies. The oracle and the model line do not depend on the
// schedule (per-message projection); the schedule only decides which interleaving is looked at.
//
// "Nothing moves" is read off the goroutine dump (state of the goroutines that run logWorker); when the
// process holds too many goroutines for that to be cheap, or the dump is inconclusive for 300 ms, a
// short sleep is used instead: that can only make the explored schedule less controlled, never
// produce a failure.

import (
	"bytes"
	"runtime"
	"sync/atomic"
	"time"

	"verif/harness/internal/core"
)

const (
	wUnstarted int32 = iota
	wRunning
	wInReadGate
	wFinished
)

type gated struct {
	rnd    *core.Rand
	eager  int // 1 in `eager` quiescent points with a parked writer and other choices releases the writer
	state  []int32
	startc []chan struct{}
	readc  []chan struct{}
	wc     chan struct{}
	parked int32
	abort  chan struct{} // closed when the run is given up: every gate opens
	useDump bool
}

func newGated(seed uint64, n int) *gated {
	g := &gated{rnd: core.NewRand(seed), state: make([]int32, n), wc: make(chan struct{}), abort: make(chan struct{})}
	g.eager = []int{2, 3, 5, 9}[g.rnd.Intn(4)]
	for i := 0; i < n; i++ {
		g.startc = append(g.startc, make(chan struct{}))
		g.readc = append(g.readc, make(chan struct{}))
	}
	g.useDump = runtime.NumGoroutine() < 400
	return g
}

// called by the goroutines of the run ---------------------------------------------------------

func (g *gated) waitStart(i int) {
	select {
	case <-g.startc[i]:
	case <-g.abort:
	}
}

func (g *gated) waitRead(i int) {
	atomic.StoreInt32(&g.state[i], wInReadGate)
	select {
	case <-g.readc[i]:
	case <-g.abort:
	}
}

func (g *gated) finished(i int) { atomic.StoreInt32(&g.state[i], wFinished) }

func (g *gated) waitWrite() {
	atomic.StoreInt32(&g.parked, 1)
	select {
	case <-g.wc:
	case <-g.abort:
	}
}

// release opens every gate for good.
func (g *gated) release() {
	select {
	case <-g.abort:
	default:
		close(g.abort)
	}
}

// the scheduler ----------------------------------------------------------------------------------

var blockedStates = [][]byte{[]byte("chan send"), []byte("chan receive"), []byte("select"), []byte("sync.Mutex.Lock"),
	[]byte("sync.RWMutex.Lock"), []byte("sync.RWMutex.RLock"), []byte("semacquire"), []byte("sync.Cond.Wait"), []byte("sync.WaitGroup.Wait")}

var dumpBuf = make([]byte, 1<<20)

// blockedWorkers counts the goroutines running logWorker whose state is a blocking one.
func blockedWorkers() int {
	n := runtime.Stack(dumpBuf, true)
	d := dumpBuf[:n]
	cnt := 0
	for len(d) > 0 {
		end := bytes.Index(d, []byte("\n\n"))
		var blk []byte
		if end < 0 {
			blk, d = d, nil
		} else {
			blk, d = d[:end], d[end+2:]
		}
		if !bytes.HasPrefix(blk, []byte("goroutine ")) || !bytes.Contains(blk, []byte("c19.logWorker")) {
			continue
		}
		nl := bytes.IndexByte(blk, '\n')
		if nl < 0 {
			continue
		}
		head := blk[:nl]
		lb := bytes.IndexByte(head, '[')
		if lb < 0 {
			continue
		}
		st := head[lb+1:]
		for _, b := range blockedStates {
			if bytes.HasPrefix(st, b) {
				cnt++
				break
			}
		}
	}
	return cnt
}

func (g *gated) counts() (running, unfinished int) {
	for i := range g.state {
		switch atomic.LoadInt32(&g.state[i]) {
		case wRunning:
			running++
			unfinished++
		case wUnstarted, wInReadGate:
			unfinished++
		}
	}
	return
}

// settle waits until nothing moves: with the writer parked every unfinished logging goroutine is
// blocked; with the writer free no logging goroutine is between gates.
func (g *gated) settle() {
	if !g.useDump {
		time.Sleep(300 * time.Microsecond)
		return
	}
	deadline := time.Now().Add(300 * time.Millisecond)
	for spin := 0; ; spin++ {
		running, unfinished := g.counts()
		if atomic.LoadInt32(&g.parked) == 1 {
			if running == 0 || blockedWorkers() >= unfinished {
				return
			}
		} else if running == 0 {
			return
		}
		if time.Now().After(deadline) {
			core.Count("sched:settle-timeout")
			return
		}
		if spin < 20 {
			runtime.Gosched()
		} else {
			time.Sleep(50 * time.Microsecond)
		}
	}
}

// drive opens one gate at a time until every logging goroutine has finished and the writer is free.
// It returns false when that did not happen within the deadline (all gates are then opened).
func (g *gated) drive(d time.Duration) bool {
	deadline := time.Now().Add(d)
	for {
		g.settle()
		type act struct {
			kind byte
			i    int
		}
		var acts []act
		allDone := true
		for i := range g.state {
			switch atomic.LoadInt32(&g.state[i]) {
			case wUnstarted:
				acts = append(acts, act{'s', i})
				allDone = false
			case wInReadGate:
				acts = append(acts, act{'r', i})
				allDone = false
			case wRunning:
				allDone = false
			}
		}
		parked := atomic.LoadInt32(&g.parked) == 1
		if allDone && !parked {
			return true
		}
		if time.Now().After(deadline) {
			return false
		}
		var a act
		switch {
		case parked && (len(acts) == 0 || g.rnd.Intn(g.eager) == 0):
			a = act{'w', 0}
		case len(acts) > 0:
			a = acts[g.rnd.Intn(len(acts))]
		default: // goroutines are on their way to a gate
			time.Sleep(50 * time.Microsecond)
			continue
		}
		core.Count("sched:actions")
		switch a.kind {
		case 'w':
			atomic.StoreInt32(&g.parked, 0)
			select {
			case g.wc <- struct{}{}:
			case <-time.After(5 * time.Second):
			}
		case 's':
			atomic.StoreInt32(&g.state[a.i], wRunning)
			close(g.startc[a.i])
		case 'r':
			atomic.StoreInt32(&g.state[a.i], wRunning)
			select {
			case g.readc[a.i] <- struct{}{}:
			case <-time.After(5 * time.Second):
			}
		}
	}
}
