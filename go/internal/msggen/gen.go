package msggen

import (
	"fmt"
	"strconv"
	"strings"

	"verif/harness/internal/core"
)

// Spec is the generator-level description of a message; Abs() lowers it to the struct-level view.
type Spec struct {
	Req     bool
	Method  string
	URL     string
	Host    string
	Proto10 bool
	Code    int
	Framing string // cl | chunked | none (no body at all) | eof (response, close-delimited) | cl0 (explicit Content-Length: 0)
	Enc     string // "" | gzip | deflate | br | gzip-bad (announced gzip, body is not gzip)
	CT      string
	Payload []byte // decoded payload (what Decode must give back)
	Extra   []KV
	Trailer []KV
	Decl    []string
	HasTr   bool
	Chunks  []int
	BodyTok string // descriptor for big generated payloads (see ExpandBody)
	// for C16 oracles
	FormWant  []KV
	PartsWant []Part
	IsForm    bool
	IsMulti   bool
}

var reasons = map[int]string{200: "OK", 201: "Created", 204: "No Content", 206: "Partial Content", 301: "Moved Permanently",
	302: "Found", 304: "Not Modified", 404: "Not Found", 500: "Internal Server Error", 299: "Custom Reason",
	300: "Multiple Choices", 303: "See Other", 305: "Use Proxy", 306: "Switch Proxy", 307: "Temporary Redirect",
	308: "Permanent Redirect", 399: "Custom Redirect", 400: "Bad Request"}

// Encoded is the body as it travels (content-encoded payload). Besides the plain one-shot gzip /
// deflate streams, the decoders' input space: gzip bodies made of several MEMBERS (RFC 1952 2.2:
// pre-compressed fragments joined, a writer that was closed and restarted), gzip members with the
// optional header fields (FEXTRA, FNAME, FCOMMENT), sync-flushed streams (several deflate blocks
// with empty stored blocks in between), stored-only deflate. All produced by the real compress/*.
func (s *Spec) Encoded() []byte {
	switch s.Enc {
	case "gzip":
		return Gzip(s.Payload)
	case "deflate":
		return Deflate(s.Payload)
	case "gzip-multi":
		return GzipVariant(s.Payload, "multi")
	case "gzip-hdr":
		return GzipVariant(s.Payload, "hdr")
	case "gzip-flush":
		return GzipVariant(s.Payload, "flush")
	case "deflate-flush":
		return DeflateVariant(s.Payload, "flush")
	case "deflate-stored":
		return DeflateVariant(s.Payload, "stored")
	case "deflate-zlibish":
		return DeflateVariant(s.Payload, "zlibish")
	}
	return s.Payload
}

// EncVariants are the content codings beyond the one-shot streams (header value gzip / deflate).
var EncVariants = []string{"gzip-multi", "gzip-multi", "gzip-hdr", "gzip-flush", "deflate-flush", "deflate-stored", "deflate-zlibish", "deflate-zlibish"}

func (s *Spec) CEHeader() string {
	switch s.Enc {
	case "gzip", "gzip-bad", "gzip-multi", "gzip-hdr", "gzip-flush":
		return "gzip"
	case "deflate-flush", "deflate-stored", "deflate-zlibish":
		return "deflate"
	case "":
		return ""
	}
	return s.Enc
}

func (s *Spec) Abs() *Abs {
	a := &Abs{Req: s.Req, Major: 1, Minor: 1, NilTrailer: true, Chunks: s.Chunks, BodyTok: s.BodyTok}
	if s.Proto10 {
		a.Minor = 0
	}
	if s.Req {
		a.Method, a.URL, a.Host = s.Method, s.URL, s.Host
	} else {
		a.Code = s.Code
		a.Status = strconv.Itoa(s.Code) + " " + reasons[s.Code]
	}
	body := s.Encoded()
	if s.CT != "" {
		a.Hdr = append(a.Hdr, KV{"Content-Type", s.CT})
	}
	if ce := s.CEHeader(); ce != "" {
		a.Hdr = append(a.Hdr, KV{"Content-Encoding", ce})
	}
	a.Hdr = append(a.Hdr, s.Extra...)
	switch s.Framing {
	case "cl":
		a.CL = int64(len(body))
		a.Hdr = append(a.Hdr, KV{"Content-Length", strconv.Itoa(len(body))})
		a.Body = body
	case "cl0":
		a.CL = 0
		a.Hdr = append(a.Hdr, KV{"Content-Length", "0"})
	case "chunked":
		a.CL = -1
		a.TE = []string{"chunked"}
		a.Body = body
		if s.HasTr {
			a.NilTrailer = false
			a.Trailer = s.Trailer
			a.Decl = s.Decl
		}
	case "eof":
		a.CL = -1
		a.Body = body
	default: // none
		a.CL = 0
	}
	return a
}

var ctPool = []string{"text/plain", "text/plain; charset=utf-8", "TEXT/HTML", "application/json", "application/octet-stream",
	"image/png", "Application/JSON; q=1", "text/css", "", "garbage;;;=", "application/x-protobuf",
	// Content-Type PARAMETERS: charset in many spellings (a logger must not transcode or re-label the
	// bytes because of them), unknown parameters, several parameters
	"text/plain; charset=iso-8859-1", "text/plain; charset=ISO-8859-1", "text/html; charset=\"latin1\"", "text/plain;charset=latin1",
	"text/plain; Charset=Windows-1252", "application/json; charset=utf-16", "text/xml; charset=UTF-16LE", "text/plain; charset=us-ascii",
	"text/plain; charset=utf-8; format=flowed", "text/plain; foo=bar", "application/x-thing; version=2; charset=iso-8859-15"}

var extraPool = []KV{{"X-A", "1"}, {"X-Multi", "one"}, {"X-Multi", "two"}, {"Accept", "*/*"}, {"User-Agent", "verif/1.0"},
	{"X-Empty", ""}, {"Cache-Control", "no-cache, no-store"}, {"Zz-Last", "z"}, {"A-First", "a b  c"}, {"X-Utf", "café"},
	{"Connection", "keep-alive"}, {"Accept-Encoding", "gzip"}, {"Etag", "\"abc\""}}

// repeated fields: the same name on several lines (legal for list-valued fields, and in practice for
// Cookie crumbs, several Authorization / Set-Cookie / Via / Warning lines): the per-name ORDER of the
// values is part of the message.
var repeatedReq = [][]string{
	{"Cookie", "a=1", "sid=abc; theme=dark", "a=2", "x=\"q\""},
	{"Authorization", "Basic dXNlcjpwYXNz", "Bearer tok-2", "Digest username=\"u\""},
	{"Proxy-Authorization", "Basic cHJveHk6cHc=", "Bearer p2"},
	{"Via", "1.1 a.example", "1.0 b.example (squid)", "1.1 a.example"},
	{"Warning", "199 - \"misc\"", "214 - \"transformed\""},
	{"X-Forwarded-For", "10.0.0.1", "192.168.1.7, 10.0.0.2", "10.0.0.1"},
	{"Accept", "text/html", "*/*;q=0.1", "application/json"},
	{"X-Rep", "one", "two", "one", "", "three"},
}
var repeatedRes = [][]string{
	{"Set-Cookie", "a=1; Path=/", "sid=abc; HttpOnly", "a=2; Path=/x", "t=1; Secure"},
	{"Via", "1.1 a.example", "1.0 b.example"},
	{"Warning", "110 - \"stale\"", "199 - \"misc\""},
	{"Www-Authenticate", "Basic realm=\"r\"", "Bearer realm=\"r2\"", "Negotiate"},
	{"Vary", "Accept-Encoding", "Cookie", "Accept-Encoding"},
	{"Link", "</a>; rel=preload", "</b>; rel=prefetch"},
	{"X-Rep", "one", "two", "one", "", "three"},
}

// Repeated adds 2-4 lines of one repeated field (interleaved with what is there already).
func Repeated(r *core.Rand, s *Spec) {
	pool := repeatedRes
	if s.Req {
		pool = repeatedReq
	}
	f := pool[r.Intn(len(pool))]
	for _, kv := range s.Extra {
		if kv.K == f[0] {
			return // keep the C16 cookie expectations simple: one source of lines per name
		}
	}
	n := r.Range(2, 4)
	for i := 0; i < n; i++ {
		kv := KV{f[0], f[1+r.Intn(len(f)-1)]}
		at := r.Intn(len(s.Extra) + 1)
		s.Extra = append(s.Extra[:at], append([]KV{kv}, s.Extra[at:]...)...)
	}
}

// RawQuery draws a raw query the way agents really send them (not url.Values.Encode, which escapes
// everything): keys and values that contain the separator characters themselves - a bare '=' inside a
// value (base64 padding, a=b expressions), '+', ';', escaped '=' and '&' - empty keys, pairs without
// '=', empty pairs, repeated keys, invalid escapes.
func RawQuery(r *core.Rand) string {
	keys := []string{"a", "b", "sig", "token", "expr", "q", "", "k%3D", "x+y", "a", "sig", "%zz", "k;j"}
	vals := []string{"1", "", "c2ln=", "YWJjZA==", "a=b", "a=b=c", "=", "==x", "v%3Dw", "p%26q", "x+y", "1;2", "%41%3d", "two", "%", "%4", "a%20b"}
	n := r.Range(1, 5)
	var ps []string
	for i := 0; i < n; i++ {
		switch r.Intn(8) {
		case 0:
			ps = append(ps, keys[r.Intn(len(keys))]) // no '=' at all
		case 1:
			ps = append(ps, "") // empty pair: "&&"
		default:
			ps = append(ps, keys[r.Intn(len(keys))]+"="+vals[r.Intn(len(vals))])
		}
	}
	return strings.Join(ps, "&")
}

var sizeClasses = []int{0, 1, 2, 9, 15, 16, 17, 255, 256, 257, 1000, 4095, 4096, 4097}

// Size draws a body size: small boundary values mostly; up to max otherwise.
func Size(r *core.Rand, max int) int {
	if max > 1<<20 && r.Bool() {
		return []int{1<<20 - 1, 1 << 20, 1<<20 + 1, max}[r.Intn(4)]
	}
	switch r.Intn(10) {
	case 0, 1, 2, 3:
		n := sizeClasses[r.Intn(len(sizeClasses))]
		if n > max {
			n = max
		}
		return n
	case 4, 5, 6:
		return r.Intn(64)
	case 7:
		for _, b := range []int{65535, 65536, 65537, 1048575, 1048576, 1048577} {
			if b <= max && r.Chance(1, 3) {
				return b
			}
		}
		return r.Intn(max + 1)
	default:
		return r.Intn(max + 1)
	}
}

// Gen draws a message spec. maxBody bounds the decoded payload size.
func Gen(r *core.Rand, req bool, maxBody int) *Spec {
	s := &Spec{Req: req}
	host := r.Pick("h.example", "origin.test:8080", "a.b.c.example")
	if req {
		s.Method = r.Pick("POST", "PUT", "POST", "GET", "PATCH", "DELETE")
		path := r.Pick("/", "/p", "/a/b/c", "/x.bin", "/q%20r")
		q := r.Pick("", "", "?x=1", "?a=1&b=two&a=3", "?e=", "?k=v%20w&z=%C3%A9")
		if r.Chance(1, 3) {
			q = "?" + RawQuery(r)
		}
		if r.Chance(3, 4) {
			s.URL = "http://" + host + path + q
			if r.Chance(1, 4) {
				// userinfo in the request URL: user only, user:password, empty password, escapes
				s.URL = "http://" + r.Pick("alice", "alice:s3cret", "alice:", "a%40b:p%3Aw%2F", ":pw", "u%20ser:p%25", "x:y:z"[:3]) + "@" + host + path + q
			}
			s.Host = host
		} else {
			s.URL = path + q
			s.Host = host
		}
		if r.Chance(1, 4) {
			s.Extra = append(s.Extra, KV{"Cookie", r.Pick("a=1", "sid=abc; theme=dark", "x=\"q\"")})
		}
	} else {
		s.Code = []int{200, 200, 200, 201, 206, 301, 302, 404, 500, 299}[r.Intn(10)]
		if r.Chance(1, 5) {
			// every 3xx status and its neighbours: a redirect is any status in [300, 400)
			s.Code = []int{299, 300, 301, 302, 303, 305, 306, 307, 308, 399, 400}[r.Intn(11)]
		}
		if (s.Code >= 300 && s.Code < 400 && r.Chance(4, 5)) || r.Chance(1, 10) {
			s.Extra = append(s.Extra, KV{"Location", r.Pick("http://h.example/next", "/rel?x=1")})
		}
		if r.Chance(1, 4) {
			s.Extra = append(s.Extra, KV{"Set-Cookie", r.Pick("a=1; Path=/", "sid=abc; Domain=h.example; HttpOnly; Secure", "t=1; Expires=Wed, 21 Oct 2065 07:28:00 GMT")})
			if r.Bool() {
				s.Extra = append(s.Extra, KV{"Set-Cookie", "second=2"})
			}
		}
	}
	for i, n := 0, r.Intn(4); i < n; i++ {
		s.Extra = append(s.Extra, extraPool[r.Intn(len(extraPool))])
	}
	for i, n := 0, r.Pick2(0, r.Pick2(1, 2)); i < n; i++ {
		Repeated(r, s)
	}
	s.Proto10 = r.Chance(1, 12)
	// framing
	switch x := r.Intn(12); {
	case x < 4:
		s.Framing = "cl"
	case x < 9:
		s.Framing = "chunked"
	case x < 10:
		if req {
			s.Framing = "none"
		} else {
			s.Framing = "eof"
		}
	case x < 11:
		s.Framing = "cl0"
	default:
		s.Framing = "none"
	}
	if s.Proto10 && s.Framing == "chunked" {
		s.Framing = "cl"
	}
	if !req && s.Framing == "none" {
		s.Code = 204
	}
	if req && (s.Method == "GET" || s.Method == "DELETE") && r.Chance(2, 3) {
		s.Framing = "none"
	}
	hasBody := s.Framing == "cl" || s.Framing == "chunked" || s.Framing == "eof"
	s.CT = ctPool[r.Intn(len(ctPool))]
	if hasBody {
		n := Size(r, maxBody)
		kind := r.Pick("text", "text", "utf8", "bin", "badutf", "zero", "latebad")
		switch {
		case req && r.Chance(1, 5):
			body, want := Form(r, r.Chance(1, 4))
			s.Payload, s.FormWant, s.IsForm = body, want, true
			s.CT = r.Pick("application/x-www-form-urlencoded", "application/x-www-form-urlencoded; charset=UTF-8", "Application/X-WWW-Form-Urlencoded")
		case req && r.Chance(1, 5):
			body, bd, want := Multipart(r, r.Chance(1, 3))
			s.Payload, s.PartsWant, s.IsMulti = body, want, true
			s.CT = "multipart/form-data; boundary=" + bd
		default:
			if n > 8192 {
				seed := r.U64() % 1000000
				s.Payload = Payload(core.NewRand(seed), kind, n)
				s.BodyTok = fmt.Sprintf("gen:%%s:%s:%d:%d", kind, seed, n)
			} else {
				s.Payload = Payload(r, kind, n)
			}
		}
		switch x := r.Intn(10); {
		case x < 5:
		case x < 7:
			s.Enc = "gzip"
		case x < 8:
			s.Enc = "deflate"
		case x < 9:
			s.Enc = "br"
		default:
			s.Enc = "gzip-bad"
		}
		if s.Enc != "" && s.BodyTok == "" && r.Chance(1, 4) {
			// (bodies small enough to go into the op literally: there is no descriptor form for these)
			s.Enc = EncVariants[r.Intn(len(EncVariants))]
		}
		if s.IsForm || s.IsMulti {
			if r.Chance(3, 4) {
				s.Enc = ""
			}
		}
	}
	if s.BodyTok != "" {
		enc := "id"
		if s.Enc == "gzip" || s.Enc == "deflate" {
			enc = s.Enc
		}
		s.BodyTok = fmt.Sprintf(s.BodyTok, enc)
	}
	if s.Framing == "chunked" {
		if r.Chance(2, 5) {
			s.HasTr = true
			for i, n := 0, r.Intn(3); i < n; i++ {
				s.Trailer = append(s.Trailer, KV{r.Pick("X-Checksum", "X-T", "Expires", "A-Tr"), r.Pick("v", "abc def", "0", "")})
			}
			if len(s.Trailer) == 0 || r.Chance(1, 2) {
				// trailers that are announced (`Trailer:` line) and then not sent: all / some / none of
				// the announced names arrive
				s.Decl = []string{"X-Unsent"}
				if r.Bool() {
					s.Decl = append(s.Decl, r.Pick("X-Later", "Server-Timing", "X-Digest"))
				}
			}
		}
		for i, n := 0, r.Intn(4); i < n; i++ {
			s.Chunks = append(s.Chunks, 1+r.Intn(1+len(s.Payload)/2+3))
		}
	}
	return s
}

func (s *Spec) String() string {
	return fmt.Sprintf("req=%v %s code=%d framing=%s enc=%s ct=%q n=%d tr=%v", s.Req, s.Method, s.Code, s.Framing, s.Enc, s.CT, len(s.Payload), s.HasTr)
}

// Class is a coarse label for distribution counters.
func (s *Spec) Class() string {
	k := "res"
	if s.Req {
		k = "req"
	}
	tr := ""
	if s.HasTr {
		tr = "+tr"
	}
	return strings.Join([]string{k, s.Framing + tr, "enc=" + s.Enc}, ",")
}
