// Package msggen is the message generator shared by C15 and C16: an abstract HTTP/1 message
// (exactly what the Lean model sees), an independent wire serialiser (the grammar), construction
// of the real *http.Request / *http.Response either by parsing that wire (as the proxy does) or
// directly, and token (de)serialisation for the op lines.
package msggen

import (
	"bufio"
	"bytes"
	"compress/flate"
	"compress/gzip"
	"fmt"
	"io"
	"mime/multipart"
	"net/http"
	"net/url"
	"sort"
	"strconv"
	"strings"
	"unicode/utf8"

	mbody "github.com/google/martian/v3/body"

	"verif/harness/internal/core"
)

type KV struct{ K, V string }

// Abs is the abstract message: the fields of the parsed struct that messageview / har read.
type Abs struct {
	Req          bool
	Method, URL  string // request line (URL as req.URL.String())
	Major, Minor int
	Code         int    // response
	Status       string // response: res.Status, e.g. "200 OK"
	Host         string
	TE           []string
	CL           int64
	Hdr          []KV // wire order; keys canonical; never Host/Transfer-Encoding/Trailer
	Body         []byte
	NilBody      bool
	Trailer      []KV
	NilTrailer   bool
	Chunks       []int    // how the INPUT wire is chunked (not seen by the model)
	Decl         []string // trailer keys announced but not sent (not seen by the model)
	BodyTok      string   // when set: descriptor token used instead of the literal hex body
}

func (a *Abs) Chunked() bool { return len(a.TE) > 0 && a.TE[len(a.TE)-1] == "chunked" }

func (a *Abs) Get(k string) string {
	for _, h := range a.Hdr {
		if h.K == k {
			return h.V
		}
	}
	return ""
}

// ---- tokens ----

func kvTok(l []KV, isNil bool) string {
	if isNil {
		return "none"
	}
	if len(l) == 0 {
		return "-"
	}
	var s []string
	for _, h := range l {
		s = append(s, core.HexS(h.K)+":"+core.HexS(h.V))
	}
	return strings.Join(s, ",")
}

func parseKV(t string) ([]KV, bool, bool) {
	if t == "none" {
		return nil, true, true
	}
	if t == "-" {
		return nil, false, true
	}
	var out []KV
	for _, p := range strings.Split(t, ",") {
		kv := strings.SplitN(p, ":", 2)
		if len(kv) != 2 {
			return nil, false, false
		}
		k, ok1 := core.Unhex(kv[0])
		v, ok2 := core.Unhex(kv[1])
		if !ok1 || !ok2 {
			return nil, false, false
		}
		out = append(out, KV{string(k), string(v)})
	}
	return out, false, true
}

const NTok = 15

// Tokens: kind method url major minor code status host te cl hdrs body trailers
func (a *Abs) Tokens() []string {
	kind := "res"
	if a.Req {
		kind = "req"
	}
	te := "-"
	if len(a.TE) > 0 {
		var s []string
		for _, t := range a.TE {
			s = append(s, core.HexS(t))
		}
		te = strings.Join(s, ",")
	}
	body := core.Hex(a.Body)
	if a.NilBody {
		body = "nil"
	} else if a.BodyTok != "" {
		body = a.BodyTok
	}
	return []string{kind, core.HexS(a.Method), core.HexS(a.URL), strconv.Itoa(a.Major), strconv.Itoa(a.Minor),
		strconv.Itoa(a.Code), core.HexS(a.Status), core.HexS(a.Host), te, strconv.FormatInt(a.CL, 10),
		kvTok(a.Hdr, false), body, kvTok(a.Trailer, a.NilTrailer), chunksTok(a.Chunks), declTok(a.Decl)}
}

func chunksTok(c []int) string {
	if len(c) == 0 {
		return "-"
	}
	var s []string
	for _, n := range c {
		s = append(s, strconv.Itoa(n))
	}
	return strings.Join(s, ",")
}

func declTok(d []string) string {
	if len(d) == 0 {
		return "-"
	}
	var s []string
	for _, k := range d {
		s = append(s, core.HexS(k))
	}
	return strings.Join(s, ",")
}

func FromTokens(t []string) (*Abs, bool) {
	if len(t) < NTok {
		return nil, false
	}
	a := &Abs{Req: t[0] == "req"}
	un := func(s string) string { b, _ := core.Unhex(s); return string(b) }
	a.Method, a.URL = un(t[1]), un(t[2])
	a.Major, _ = strconv.Atoi(t[3])
	a.Minor, _ = strconv.Atoi(t[4])
	a.Code, _ = strconv.Atoi(t[5])
	a.Status, a.Host = un(t[6]), un(t[7])
	if t[8] != "-" {
		for _, x := range strings.Split(t[8], ",") {
			a.TE = append(a.TE, un(x))
		}
	}
	a.CL, _ = strconv.ParseInt(t[9], 10, 64)
	var ok bool
	if a.Hdr, _, ok = parseKV(t[10]); !ok {
		return nil, false
	}
	if t[11] == "nil" {
		a.NilBody = true
	} else if a.Body, ok = ExpandBody(t[11]); !ok {
		return nil, false
	}
	if a.Trailer, a.NilTrailer, ok = parseKV(t[12]); !ok {
		return nil, false
	}
	if t[13] != "-" {
		for _, x := range strings.Split(t[13], ",") {
			n, _ := strconv.Atoi(x)
			a.Chunks = append(a.Chunks, n)
		}
	}
	if t[14] != "-" {
		for _, x := range strings.Split(t[14], ",") {
			a.Decl = append(a.Decl, un(x))
		}
	}
	return a, true
}

// ---- the grammar serialisation (independent of messageview) ----

// Wire writes the message as an HTTP/1 peer would send it: start line, Host, Transfer-Encoding,
// Trailer announcement, fields in the given order (a Content-Length field is part of a.Hdr, as
// in the parsed struct), blank line, body (chunked per a.Chunks), trailers and the terminating
// blank line.
func (a *Abs) Wire() []byte {
	var b bytes.Buffer
	if a.Req {
		fmt.Fprintf(&b, "%s %s HTTP/%d.%d\r\n", a.Method, a.URL, a.Major, a.Minor)
		if a.Host != "" {
			fmt.Fprintf(&b, "Host: %s\r\n", a.Host)
		}
	} else {
		fmt.Fprintf(&b, "HTTP/%d.%d %s\r\n", a.Major, a.Minor, a.Status)
	}
	if len(a.TE) > 0 {
		fmt.Fprintf(&b, "Transfer-Encoding: %s\r\n", strings.Join(a.TE, ", "))
	}
	if !a.NilTrailer {
		var ks []string
		seen := map[string]bool{}
		for _, t := range a.Trailer {
			if !seen[t.K] {
				seen[t.K] = true
				ks = append(ks, t.K)
			}
		}
		ks = append(ks, a.Decl...)
		if len(ks) > 0 {
			fmt.Fprintf(&b, "Trailer: %s\r\n", strings.Join(ks, ", "))
		}
	}
	for _, h := range a.Hdr {
		fmt.Fprintf(&b, "%s: %s\r\n", h.K, h.V)
	}
	b.WriteString("\r\n")
	if a.Chunked() {
		rest := a.Body
		for _, n := range a.Chunks {
			if n <= 0 || len(rest) == 0 {
				continue
			}
			if n > len(rest) {
				n = len(rest)
			}
			fmt.Fprintf(&b, "%x\r\n", n)
			b.Write(rest[:n])
			b.WriteString("\r\n")
			rest = rest[n:]
		}
		if len(rest) > 0 {
			fmt.Fprintf(&b, "%x\r\n", len(rest))
			b.Write(rest)
			b.WriteString("\r\n")
		}
		b.WriteString("0\r\n")
		for _, t := range a.Trailer {
			fmt.Fprintf(&b, "%s: %s\r\n", t.K, t.V)
		}
		b.WriteString("\r\n")
	} else {
		b.Write(a.Body)
	}
	return b.Bytes()
}

var DummyReq = func() *http.Request {
	r, _ := http.NewRequest("GET", "http://origin.example/res", nil)
	return r
}

// WireLower is Wire with the 2nd, 3rd, ... line of every repeated field name spelled in lower case
// (field names are case-insensitive: the parser files all spellings under the canonical key, in
// line order). Build mode "l".
func (a *Abs) WireLower() []byte {
	b := *a
	b.Hdr = append([]KV(nil), a.Hdr...)
	seen := map[string]bool{}
	for i, h := range b.Hdr {
		if seen[h.K] {
			b.Hdr[i].K = strings.ToLower(h.K)
		}
		seen[h.K] = true
	}
	return b.Wire()
}

// ParseRequest builds the request the way the proxy gets it: http.ReadRequest on the wire.
func (a *Abs) ParseRequest() (*http.Request, error) {
	return http.ReadRequest(bufio.NewReader(bytes.NewReader(a.Wire())))
}

func (a *Abs) ParseResponse(req *http.Request) (*http.Response, error) {
	return http.ReadResponse(bufio.NewReader(bytes.NewReader(a.Wire())), req)
}

func hdrMap(l []KV) http.Header {
	h := http.Header{}
	for _, kv := range l {
		h[kv.K] = append(h[kv.K], kv.V)
	}
	return h
}

// DirectRequest constructs the struct field by field (for shapes a parser never yields).
func (a *Abs) DirectRequest() *http.Request {
	u, err := url.Parse(a.URL)
	if err != nil {
		u = &url.URL{Path: a.URL}
	}
	r := &http.Request{Method: a.Method, URL: u, Proto: fmt.Sprintf("HTTP/%d.%d", a.Major, a.Minor),
		ProtoMajor: a.Major, ProtoMinor: a.Minor, Header: hdrMap(a.Hdr), Host: a.Host,
		ContentLength: a.CL, TransferEncoding: append([]string(nil), a.TE...)}
	if !a.NilBody {
		r.Body = io.NopCloser(bytes.NewReader(a.Body))
	}
	if !a.NilTrailer {
		r.Trailer = hdrMap(a.Trailer)
	}
	return r
}

func (a *Abs) DirectResponse(req *http.Request) *http.Response {
	r := &http.Response{Status: a.Status, StatusCode: a.Code, Proto: fmt.Sprintf("HTTP/%d.%d", a.Major, a.Minor),
		ProtoMajor: a.Major, ProtoMinor: a.Minor, Header: hdrMap(a.Hdr),
		ContentLength: a.CL, TransferEncoding: append([]string(nil), a.TE...), Request: req}
	if !a.NilBody {
		r.Body = io.NopCloser(bytes.NewReader(a.Body))
	}
	if !a.NilTrailer {
		r.Trailer = hdrMap(a.Trailer)
	}
	return r
}

// SortedKV flattens an http.Header into a sorted list (canonical form for comparison).
func SortedKV(h http.Header) []KV {
	var out []KV
	for k, vs := range h {
		for _, v := range vs {
			out = append(out, KV{k, v})
		}
	}
	sort.SliceStable(out, func(i, j int) bool {
		if out[i].K != out[j].K {
			return out[i].K < out[j].K
		}
		return false
	})
	return out
}

func SortKV(l []KV) []KV {
	out := append([]KV(nil), l...)
	sort.SliceStable(out, func(i, j int) bool { return out[i].K < out[j].K })
	return out
}

func KVString(l []KV) string {
	var s []string
	for _, kv := range l {
		s = append(s, fmt.Sprintf("%q=%q", kv.K, kv.V))
	}
	return strings.Join(s, ";")
}

// ---- payloads, encodings ----

func Gzip(b []byte) []byte {
	var buf bytes.Buffer
	w := gzip.NewWriter(&buf)
	w.Write(b)
	w.Close()
	return buf.Bytes()
}

func Deflate(b []byte) []byte {
	var buf bytes.Buffer
	w, _ := flate.NewWriter(&buf, flate.DefaultCompression)
	w.Write(b)
	w.Close()
	return buf.Bytes()
}

// cuts splits b into 2-3 pieces at fixed fractions (deterministic: Encoded is called repeatedly).
func cuts(b []byte) [][]byte {
	switch {
	case len(b) < 2:
		return [][]byte{b, nil}
	case len(b) < 9:
		return [][]byte{b[:len(b)/2], b[len(b)/2:]}
	}
	i, j := len(b)/3, len(b)-len(b)/4
	return [][]byte{b[:i], b[i:j], b[j:]}
}

// GzipVariant: "multi" = one gzip member per piece, concatenated; "hdr" = one member with extra,
// name and comment header fields; "flush" = one member, Flush between the pieces.
func GzipVariant(b []byte, kind string) []byte {
	var buf bytes.Buffer
	switch kind {
	case "multi":
		for _, p := range cuts(b) {
			w := gzip.NewWriter(&buf)
			w.Write(p)
			w.Close()
		}
	case "hdr":
		w := gzip.NewWriter(&buf)
		w.Extra = []byte{'v', 'f', 2, 0, 1, 2}
		w.Name = "body.bin"
		w.Comment = "verif"
		w.Write(b)
		w.Close()
	default:
		w := gzip.NewWriter(&buf)
		for _, p := range cuts(b) {
			w.Write(p)
			w.Flush()
		}
		w.Close()
	}
	return buf.Bytes()
}

// DeflateVariant: "flush" = Flush between the pieces (sync markers); "stored" = no compression
// (stored blocks only).
func DeflateVariant(b []byte, kind string) []byte {
	var buf bytes.Buffer
	if kind == "zlibish" {
		// A legal RAW deflate stream whose first two bytes look like a zlib header: a non-final stored
		// block (BFINAL 0, BTYPE 00; the five padding bits of its first byte are free: 0x08 .. 0x78) whose
		// LEN low byte makes (b0<<8 | b1) a multiple of 31, followed by ordinary deflate blocks for the rest.
		// A decoder that sniffs "zlib or raw deflate" from those two bytes takes the wrong one.
		b0 := byte(0x08 + 0x10*(len(b)%8))
		n := -1
		for c := 0; c < 256 && c <= len(b); c++ {
			if (int(b0)<<8|c)%31 == 0 && c > 0 {
				n = c
			}
		}
		if n > 0 {
			buf.Write([]byte{b0, byte(n), 0, ^byte(n), 0xff})
			buf.Write(b[:n])
			b = b[n:]
		}
		w, _ := flate.NewWriter(&buf, flate.DefaultCompression)
		w.Write(b)
		w.Close()
		return buf.Bytes()
	}
	level := flate.DefaultCompression
	if kind == "stored" {
		level = flate.NoCompression
	}
	w, _ := flate.NewWriter(&buf, level)
	for _, p := range cuts(b) {
		w.Write(p)
		if kind == "flush" {
			w.Flush()
		}
	}
	w.Close()
	return buf.Bytes()
}

// Inflate is the reference decoder for what messageview.Decode promises: what a client of the
// origin sees (gzip.Reader reads every member of a multi-member body, Go's default).
func Inflate(enc string, b []byte) ([]byte, error) {
	switch enc {
	case "gzip":
		r, err := gzip.NewReader(bytes.NewReader(b))
		if err != nil {
			return nil, err
		}
		return io.ReadAll(r)
	case "deflate":
		return io.ReadAll(flate.NewReader(bytes.NewReader(b)))
	}
	return b, nil
}

// Payload kinds: text (ASCII), utf8 (multi-byte), bin (random), badutf (mostly text with invalid
// sequences), zero, latebad (a valid text preamble; invalid UTF-8 only in the last few bytes: a
// classifier that looks at a prefix of the body takes it for text).
func Payload(r *core.Rand, kind string, n int) []byte {
	b := make([]byte, 0, n+4)
	switch kind {
	case "latebad":
		k := 1 + r.Intn(6)
		if k > n {
			k = n
		}
		pre := "text"
		if r.Chance(1, 3) {
			pre = "utf8"
		}
		b = append(b, Payload(r, pre, n-k)...)
		tails := []string{"\xff", "\x80", "\xc3", "\xe2\x82", "\xf0\x9f\x98", "\xed\xa0\x80", "\xc0\xaf", "\xfe\xff\x00\x01"}
		for len(b) < n {
			b = append(b, tails[r.Intn(len(tails))]...)
		}
		if n > 0 && utf8.Valid(b[:n]) {
			b[n-1] = 0xff
		}
	case "text":
		const al = "abcdefghijklmnopqrstuvwxyz ABCDEFGHIJKLMNOPQRSTUVWXYZ0123456789\r\n\t\"\\<>&{}:,/=%+"
		for len(b) < n {
			b = append(b, al[r.Intn(len(al))])
		}
	case "utf8":
		runes := []string{"a", "é", "ß", "€", "漢", "😀", "\u2028", "\x00", "\x7f", "z"}
		for len(b) < n {
			s := runes[r.Intn(len(runes))]
			if len(b)+len(s) > n {
				s = "x"
			}
			b = append(b, s...)
		}
	case "badutf":
		bad := []string{"\xff", "\xc0\xaf", "\xed\xa0\x80", "\xf4\x90\x80\x80", "\xe2\x82", "\x80", "ok", "é"}
		for len(b) < n {
			s := bad[r.Intn(len(bad))]
			if len(b)+len(s) > n {
				s = "\xfe"
			}
			b = append(b, s...)
		}
	case "rep":
		// a 61-byte pattern repeated: n bytes that compress to a few KiB per tens of MiB
		pat := make([]byte, 61)
		for i := range pat {
			pat[i] = byte('!' + r.Intn(90))
		}
		b = make([]byte, n)
		for i := 0; i < n; i += copy(b[i:], pat) {
		}
	case "zero":
		b = make([]byte, n)
	default: // bin
		// fast fill
		for len(b) < n {
			x := r.U64()
			for i := 0; i < 8 && len(b) < n; i++ {
				b = append(b, byte(x>>(8*i)))
			}
		}
	}
	return b[:n]
}

// Form builds an application/x-www-form-urlencoded body and its expected (name,value) pairs.
func Form(r *core.Rand, nonUTF8 bool) ([]byte, []KV) {
	n := r.Range(0, 5)
	var parts []string
	var want []KV
	names := []string{"a", "b", "name", "q", "x y", "k", "é"}
	vals := []string{"", "1", "hello world", "a&b=c", "100%", "é€", "+plus+", "v"}
	if nonUTF8 {
		vals = append(vals, "\xff\xfe", "\x80abc")
	}
	for i := 0; i < n; i++ {
		k, v := names[r.Intn(len(names))], vals[r.Intn(len(vals))]
		parts = append(parts, url.QueryEscape(k)+"="+url.QueryEscape(v))
		want = append(want, KV{k, v})
	}
	return []byte(strings.Join(parts, "&")), want
}

type Part struct{ Name, Filename, CT, Value string }

// Multipart builds a multipart/form-data body; returns body, boundary, expected parts.
func Multipart(r *core.Rand, binary bool) ([]byte, string, []Part) {
	var buf bytes.Buffer
	w := multipart.NewWriter(&buf)
	bd := fmt.Sprintf("bnd%dx", r.Intn(100000))
	w.SetBoundary(bd)
	n := r.Range(1, 4)
	var want []Part
	for i := 0; i < n; i++ {
		name := r.Pick("field", "f2", "upload", "x")
		if r.Chance(1, 2) {
			val := string(Payload(r, r.Pick("text", "utf8"), r.Range(0, 40)))
			val = strings.ReplaceAll(val, "\r", "")
			fw, _ := w.CreateFormField(name)
			fw.Write([]byte(val))
			want = append(want, Part{Name: name, Value: val})
		} else {
			fn := r.Pick("a.txt", "b.bin", "c d.png")
			kind := "text"
			if binary {
				kind = r.Pick("bin", "badutf")
			}
			val := string(Payload(r, kind, r.Range(0, 60)))
			fw, _ := w.CreateFormFile(name, fn)
			fw.Write([]byte(val))
			want = append(want, Part{Name: name, Filename: fn, CT: "application/octet-stream", Value: val})
		}
	}
	w.Close()
	return buf.Bytes(), bd, want
}

// ---- building the real message from an Abs ----

func eqKV(a, b []KV) bool {
	if len(a) != len(b) {
		return false
	}
	for i := range a {
		if a[i] != b[i] {
			return false
		}
	}
	return true
}

// BuildRequest returns the request (mode "p": parsed from the wire, "d": constructed) and a
// non-empty complaint when the parsed struct is not the one the tokens describe (generator bug).
func (a *Abs) BuildRequest(mode string) (*http.Request, string) {
	if mode == "d" {
		return a.DirectRequest(), ""
	}
	var req *http.Request
	var err error
	if mode == "b" {
		pre, ok := a.preModifier()
		if !ok {
			return nil, "mode b: no usable stale Content-Length"
		}
		if req, err = pre.ParseRequest(); err != nil {
			return nil, "pre-modifier wire does not parse: " + err.Error()
		}
		if err = mbody.NewModifier(a.Body, a.Get("Content-Type")).ModifyRequest(req); err != nil {
			return nil, "body.Modifier: " + err.Error()
		}
	} else if mode == "l" {
		if req, err = http.ReadRequest(bufio.NewReader(bytes.NewReader(a.WireLower()))); err != nil {
			return nil, "wire does not parse: " + err.Error()
		}
	} else if req, err = a.ParseRequest(); err != nil {
		return nil, "wire does not parse: " + err.Error()
	}
	switch {
	case req.Method != a.Method || req.URL.String() != a.URL || req.ProtoMajor != a.Major || req.ProtoMinor != a.Minor:
		return req, fmt.Sprintf("request line %s %s %d.%d", req.Method, req.URL, req.ProtoMajor, req.ProtoMinor)
	case req.Host != a.Host:
		return req, "host " + req.Host
	case req.ContentLength != a.CL:
		return req, fmt.Sprintf("cl %d", req.ContentLength)
	case strings.Join(req.TransferEncoding, ",") != strings.Join(a.TE, ","):
		return req, fmt.Sprintf("te %v", req.TransferEncoding)
	case !eqKV(SortedKV(req.Header), SortKV(a.Hdr)):
		return req, "header " + KVString(SortedKV(req.Header))
	case (req.Trailer == nil) != a.NilTrailer:
		return req, fmt.Sprintf("trailer nil=%v", req.Trailer == nil)
	}
	return req, ""
}

func (a *Abs) BuildResponse(mode string, req *http.Request) (*http.Response, string) {
	if mode == "d" {
		return a.DirectResponse(req), ""
	}
	var res *http.Response
	var err error
	if mode == "b" {
		pre, ok := a.preModifier()
		if !ok {
			return nil, "mode b: no usable stale Content-Length"
		}
		if res, err = pre.ParseResponse(req); err != nil {
			return nil, "pre-modifier wire does not parse: " + err.Error()
		}
		if err = mbody.NewModifier(a.Body, a.Get("Content-Type")).ModifyResponse(res); err != nil {
			return nil, "body.Modifier: " + err.Error()
		}
	} else if mode == "l" {
		if res, err = http.ReadResponse(bufio.NewReader(bytes.NewReader(a.WireLower())), req); err != nil {
			return nil, "wire does not parse: " + err.Error()
		}
	} else if res, err = a.ParseResponse(req); err != nil {
		return nil, "wire does not parse: " + err.Error()
	}
	switch {
	case res.Status != a.Status || res.StatusCode != a.Code || res.ProtoMajor != a.Major || res.ProtoMinor != a.Minor:
		return res, fmt.Sprintf("status line %q %d.%d", res.Status, res.ProtoMajor, res.ProtoMinor)
	case res.ContentLength != a.CL:
		return res, fmt.Sprintf("cl %d", res.ContentLength)
	case strings.Join(res.TransferEncoding, ",") != strings.Join(a.TE, ","):
		return res, fmt.Sprintf("te %v", res.TransferEncoding)
	case !eqKV(SortedKV(res.Header), SortKV(a.Hdr)):
		return res, "header " + KVString(SortedKV(res.Header))
	case (res.Trailer == nil) != a.NilTrailer:
		return res, fmt.Sprintf("trailer nil=%v", res.Trailer == nil)
	}
	return res, ""
}

// BodyTok renders a body either literally or as a deterministic descriptor
// gen:<enc>:<kind>:<seed>:<n> (expanded by ExpandBody; never sent to the Lean model).
func ExpandBody(tok string) ([]byte, bool) {
	if !strings.HasPrefix(tok, "gen:") {
		return core.Unhex(tok)
	}
	p := strings.Split(tok, ":")
	if len(p) != 5 {
		return nil, false
	}
	seed, e1 := strconv.ParseUint(p[3], 10, 64)
	n, e2 := strconv.Atoi(p[4])
	if e1 != nil || e2 != nil || n < 0 || n > 96<<20 {
		return nil, false
	}
	b := Payload(core.NewRand(seed), p[2], n)
	switch p[1] {
	case "gzip":
		b = Gzip(b)
	case "deflate":
		b = Deflate(b)
	}
	return b, true
}

// ---- struct fields that disagree with same-named keys of the header map ----
//
// net/http keeps Host, Content-Length and Transfer-Encoding in struct fields and writes THOSE on the
// wire; the header map of a message parsed from the wire still holds the Content-Length line it
// arrived with, and a modifier may put any of the three keys into the map. Once a modifier has
// changed a field (body.Modifier replacing the body, a re-framing modifier, a Host rewrite) map and
// field disagree. Disagree mutates a into that class; the message must then be built with mode "d"
// (constructed field by field) or, when it returns "mod:body", with mode "b" (parsed from the wire
// with the stale length, then changed by the real body.Modifier).

func (a *Abs) setHdr(k, v string) {
	for i := range a.Hdr {
		if a.Hdr[i].K == k {
			a.Hdr[i].V = v
			return
		}
	}
	a.Hdr = append(a.Hdr, KV{k, v})
}

func (a *Abs) delHdr(k string) {
	var out []KV
	for _, h := range a.Hdr {
		if h.K != k {
			out = append(out, h)
		}
	}
	a.Hdr = out
}

// Disagree returns the label of the disagreement it introduced ("" = none possible for this
// message) and the build mode to use.
func Disagree(r *core.Rand, a *Abs) (label, mode string) {
	staleLen := func() string {
		return r.Pick(strconv.FormatInt(a.CL+int64(1+r.Intn(40)), 10), "0", "1", "26", "999999")
	}
	var opts []string
	if a.CL > 0 && !a.Chunked() && !a.NilBody {
		opts = append(opts, "cl-stale", "cl-stale", "cl-stale", "mod:body", "mod:body")
	}
	if a.Req && a.Host != "" {
		opts = append(opts, "host-stale")
	}
	if a.Chunked() {
		opts = append(opts, "te-stale", "cl-absent-stale")
	}
	if len(a.TE) == 0 {
		opts = append(opts, "te-absent-stale")
		if a.CL <= 0 {
			opts = append(opts, "cl-absent-stale")
		}
	}
	if len(opts) == 0 {
		return "", "d"
	}
	label = opts[r.Intn(len(opts))]
	switch label {
	case "cl-stale":
		v := staleLen()
		if v == strconv.FormatInt(a.CL, 10) {
			v += "0"
		}
		a.setHdr("Content-Length", v)
	case "mod:body":
		// what body.Modifier leaves behind: Content-Type set, Content-Encoding gone, the map's
		// Content-Length still the one of the replaced body, the field the new length
		old := a.CL + int64(1+r.Intn(60))
		if r.Chance(1, 3) && a.CL > 1 {
			old = int64(r.Intn(int(a.CL)))
		}
		a.setHdr("Content-Length", strconv.FormatInt(old, 10))
		a.setHdr("Content-Type", a.Get("Content-Type"))
		a.delHdr("Content-Encoding")
		return label, "b"
	case "host-stale":
		a.Hdr = append(a.Hdr, KV{"Host", r.Pick("stale.example", "other.test:1", a.Host+".old")})
	case "te-stale":
		a.Hdr = append(a.Hdr, KV{"Transfer-Encoding", r.Pick("identity", "gzip", "chunked, chunked")})
	case "cl-absent-stale":
		a.setHdr("Content-Length", r.Pick("26", "1", "4096"))
	case "te-absent-stale":
		a.Hdr = append(a.Hdr, KV{"Transfer-Encoding", "chunked"})
	}
	return label, "d"
}

// preModifier is the message as it was before body.Modifier replaced its body: same start line
// and fields, a body of as many bytes as the (stale) Content-Length in the header map announces.
func (a *Abs) preModifier() (*Abs, bool) {
	n, err := strconv.ParseInt(a.Get("Content-Length"), 10, 64)
	if err != nil || n < 0 || n > 1<<22 || a.Chunked() || len(a.TE) > 0 {
		return nil, false
	}
	p := *a
	p.Hdr = append([]KV(nil), a.Hdr...)
	p.CL = n
	p.Body = bytes.Repeat([]byte{'o'}, int(n))
	p.BodyTok = ""
	return &p, true
}
