package c15

import (
	"fmt"

	"verif/harness/internal/core"
	"verif/harness/internal/msggen"
)

// A logger that returns an error changes the forwarded message: martian's proxy turns the error of a
// request / response modifier into a `Warning` header on the message it forwards (proxy.go:
// proxyutil.Warning(req.Header, err)), which the unlogged twin does not carry. The twin experiment is
// at modifier level, so "the logger returns an error where the unlogged path has none" IS the
// difference. errCause classifies the error by what the harness itself knows about the message (the
// trusted parsers' verdicts, TrustedTok), independently of the model:
//
//	har:postdata-unparsable      request whose body does not parse as the form / multipart type it declares
//	har:content-undecodable      response whose body does not decode as its Content-Encoding
//	text:decode-does-not-open    decode on, gzip label, and gzip.NewReader refuses (bad header; empty body section)
//	body-read-failed             the body itself failed while the logger read it (twinf)
//
// These four exist on the unchanged tree (open findings); any other logger error is a violation.
var knownCauses = map[string]bool{"har:postdata-unparsable": true, "har:content-undecodable": true,
	"text:decode-does-not-open": true, "body-read-failed": true}

func errCause(logger, o1, o2 string, a *msggen.Abs) string {
	tr := TrustedTok(a)
	ce := a.Get("Content-Encoding")
	if !a.Req && (a.Code == 204 || a.Code == 206) {
		ce = ""
	}
	switch logger {
	case "har":
		if a.Req && tr[0] == '0' {
			return "har:postdata-unparsable"
		}
		if !a.Req && (tr[1] == '0' || tr[2] == '0') {
			return "har:content-undecodable"
		}
	case "text":
		if o2 == "1" && ce == "gzip" && (tr[1] == '0' || o1 == "1" || a.NilBody) {
			return "text:decode-does-not-open"
		}
	}
	return logger + ":unexpected"
}

// loggerErrorVerdict: cause = "" lets errCause decide.
func loggerErrorVerdict(logger, o1, o2 string, a *msggen.Abs, modErr error, cause, impl string) (core.Result, bool) {
	if modErr == nil || logger == "snapshot" {
		return core.Result{}, false
	}
	if cause == "" {
		cause = errCause(logger, o1, o2, a)
	}
	core.Count("logger-error:" + cause)
	if knownCauses[cause] && !reportKnown.Load() {
		return core.Result{}, false
	}
	return core.Result{Impl: impl, Sig: "c15:logger-error:" + cause,
		Fail: fmt.Sprintf("the %s logger returned an error (%v): the proxy puts it into a Warning header of the forwarded message, which the unlogged twin does not carry", logger, modErr)}, true
}
