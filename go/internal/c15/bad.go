package c15

import (
	"bytes"
	"compress/gzip"
	"io"
	"mime"
	"mime/multipart"
	"net/url"
	"strconv"
	"strings"

	"verif/harness/internal/core"
	"verif/harness/internal/msggen"
)

// Bodies that do NOT parse as what the message declares them to be: the loggers then return an
// error after they have touched the body, and the proxy forwards the message regardless.

// BadKindsReq / BadKindsAny name the malformations (distribution counters, directed cases).
var BadKindsReq = []string{"form-badpct", "form-semicolon", "form-gzipped", "mp-truncated", "mp-noboundary", "mp-wrongboundary",
	"mp-badheader", "mp-empty", "mp-nofinal"}
var BadKindsAny = []string{"gzip-trunc-head", "gzip-trunc-mid", "gzip-notrailer", "gzip-badcrc", "gzip-tail", "gzip-empty", "gzip-garbage",
	"deflate-garbage", "deflate-trunc", "deflate-empty"}

func setHdr(a *msggen.Abs, k, v string) {
	var out []msggen.KV
	done := false
	for _, h := range a.Hdr {
		if h.K == k {
			if !done && v != "" {
				out = append(out, msggen.KV{K: k, V: v})
			}
			done = true
			continue
		}
		out = append(out, h)
	}
	if !done && v != "" {
		out = append([]msggen.KV{{K: k, V: v}}, out...)
	}
	a.Hdr = out
}

// setBody replaces the body, keeping the framing kind (Content-Length is recomputed).
func setBody(a *msggen.Abs, body []byte) {
	a.Body, a.BodyTok, a.NilBody = body, "", false
	if !a.Chunked() && a.CL >= 0 {
		a.CL = int64(len(body))
		setHdr(a, "Content-Length", strconv.Itoa(len(body)))
	}
}

// CarriesBody: the framing has room for a body (Content-Length field, chunked, or close-delimited response).
func CarriesBody(a *msggen.Abs) bool {
	if a.NilBody {
		return false
	}
	if !a.Req && (a.Code == 204 || a.Code == 304 || a.Code/100 == 1) {
		return false
	}
	return a.Chunked() || a.CL > 0 || (a.CL == 0 && a.Get("Content-Length") != "") || (a.CL == -1 && !a.Req && len(a.TE) == 0)
}

// Malform rewrites the body (and Content-Type / Content-Encoding) of a body-carrying message so
// that it does not parse as declared.
func Malform(r *core.Rand, a *msggen.Abs, kind string) {
	text := func(n int) []byte { return msggen.Payload(r, r.Pick("text", "utf8", "bin"), n) }
	switch kind {
	case "form-badpct":
		setHdr(a, "Content-Encoding", "")
		setHdr(a, "Content-Type", r.Pick("application/x-www-form-urlencoded", "application/x-www-form-urlencoded; charset=UTF-8"))
		good, _ := msggen.Form(r, false)
		bad := r.Pick("b=%zz", "x=%", "%G1=v", "a=%2", "k=100%", "%%=1")
		switch r.Intn(3) {
		case 0:
			setBody(a, []byte(bad))
		case 1:
			setBody(a, append(append(good, '&'), bad...))
		default:
			setBody(a, append(append([]byte(bad), '&'), good...))
		}
	case "form-semicolon":
		setHdr(a, "Content-Encoding", "")
		setHdr(a, "Content-Type", "application/x-www-form-urlencoded")
		setBody(a, []byte(r.Pick("a=1;b=2", "a=1&b=2;c=3", ";", "x=y;")))
	case "form-gzipped":
		// a compressed upload: har parses the bytes as they travel
		good, _ := msggen.Form(r, false)
		setHdr(a, "Content-Type", "application/x-www-form-urlencoded")
		setHdr(a, "Content-Encoding", "gzip")
		setBody(a, msggen.Gzip(append(good, "&pad=%41%42"...)))
	case "mp-truncated", "mp-nofinal", "mp-wrongboundary", "mp-noboundary", "mp-badheader", "mp-empty":
		setHdr(a, "Content-Encoding", "")
		body, bd, _ := msggen.Multipart(r, r.Bool())
		ct := "multipart/form-data; boundary=" + bd
		switch kind {
		case "mp-truncated":
			body = body[:r.Intn(len(body))]
		case "mp-nofinal":
			body = bytes.TrimSuffix(body, []byte("--"+bd+"--\r\n"))
		case "mp-wrongboundary":
			ct = "multipart/form-data; boundary=other" + bd
		case "mp-noboundary":
			ct = r.Pick("multipart/form-data", "multipart/form-data; charset=x")
		case "mp-badheader":
			body = []byte("--" + bd + "\r\nthis is not a header line\r\n\r\nvalue\r\n--" + bd + "--\r\n")
		case "mp-empty":
			body = nil
			if a.CL >= 0 && !a.Chunked() {
				body = []byte("\r\n") // keep Content-Length > 0: har skips the post data of an empty body
			}
		}
		setHdr(a, "Content-Type", ct)
		setBody(a, body)
	default:
		// content codings
		enc := "gzip"
		if strings.HasPrefix(kind, "deflate") {
			enc = "deflate"
		}
		setHdr(a, "Content-Encoding", enc)
		if ct := a.Get("Content-Type"); strings.HasPrefix(strings.ToLower(ct), "multipart/") || strings.Contains(strings.ToLower(ct), "urlencoded") {
			setHdr(a, "Content-Type", "application/octet-stream")
		}
		n := r.Pick("0", "1", "40", "700", "5000")
		nn, _ := strconv.Atoi(n)
		pl := text(nn)
		gz, df := msggen.Gzip(pl), msggen.Deflate(pl)
		var body []byte
		switch kind {
		case "gzip-trunc-head":
			body = gz[:r.Intn(10)]
		case "gzip-trunc-mid":
			body = gz[:10+r.Intn(len(gz)-17)]
		case "gzip-notrailer":
			body = gz[:len(gz)-r.Range(1, 8)]
		case "gzip-badcrc":
			body = append([]byte{}, gz...)
			body[len(body)-8+r.Intn(4)] ^= 0x55
		case "gzip-tail":
			body = append(append([]byte{}, gz...), text(r.Range(1, 30))...)
		case "gzip-garbage":
			body = text(r.Range(1, 300))
		case "deflate-garbage":
			body = append([]byte{0x07}, text(r.Range(1, 300))...) // BTYPE=11: reserved
		case "deflate-trunc":
			body = df[:r.Intn(len(df))]
		default: // *-empty
		}
		setBody(a, body)
	}
}

// postParses is the verdict of the trusted parsers (mime, mime/multipart, net/url) on the body as
// har.postData consults them: does the body parse as the form type its Content-Type declares?
func postParses(ct string, body []byte) bool {
	mt, ps, err := mime.ParseMediaType(ct)
	if err != nil {
		mt = ct
	}
	switch mt {
	case "multipart/form-data":
		mr := multipart.NewReader(bytes.NewReader(body), ps["boundary"])
		for {
			p, err := mr.NextPart()
			if err == io.EOF {
				return true
			}
			if err != nil {
				return false
			}
			if _, err := io.ReadAll(p); err != nil {
				return false
			}
		}
	case "application/x-www-form-urlencoded":
		_, err := url.ParseQuery(string(body))
		return err == nil
	}
	return true
}

// TrustedTok: the verdicts of the trusted parsers / decompressors on this message's body, the
// parameter of the model's error paths: <post parses><decoder opens><decodes to the end>.
func TrustedTok(a *msggen.Abs) string {
	bit := func(b bool) string {
		if b {
			return "1"
		}
		return "0"
	}
	pp := !a.Req || postParses(a.Get("Content-Type"), a.Body)
	ce := a.Get("Content-Encoding")
	if !a.Req && (a.Code == 204 || a.Code == 206) {
		ce = ""
	}
	opens, decodes := true, true
	switch ce {
	case "gzip":
		_, err := gzip.NewReader(bytes.NewReader(a.Body))
		opens = err == nil
		fallthrough
	case "deflate":
		_, err := msggen.Inflate(ce, a.Body)
		decodes = err == nil
	}
	return bit(pp) + bit(opens) + bit(decodes)
}
