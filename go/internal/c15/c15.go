// Package c15: logging and snapshotting never change the forwarded message; the snapshot is a
// parseable message equal to the original; skip-logging exchanges are recorded by no logger.
package c15

import (
	"sync/atomic"

	"bufio"
	"bytes"
	"fmt"
	"io"
	"net/http"
	"reflect"
	"sort"
	"strings"
	"sync"

	"github.com/google/martian/v3"
	"github.com/google/martian/v3/har"
	mlog "github.com/google/martian/v3/log"
	"github.com/google/martian/v3/marbl"
	"github.com/google/martian/v3/martianlog"
	"github.com/google/martian/v3/messageview"

	"verif/harness/internal/core"
	"verif/harness/internal/golib"
	"verif/harness/internal/msggen"
)

type P struct{}

// reportKnown: the op in progress is one of the designated single-op cases (twinxw / twinfw) in which
// the logger-error classes that are open findings are reported; everywhere else they are only counted,
// so that they cannot mask another failure of the same case.
var reportKnown atomic.Bool

func init() {
	core.Register(P{})
	mlog.SetLevel(mlog.Silent)
}

func (P) ID() string { return "C15" }
func (P) Rule() string {
	return "case = one generated message (request or response; Content-Length / chunked with 0-3 input chunks / close-delimited / " +
		"no body; trailers sent, announced-only or absent; identity, gzip, deflate, br or mis-announced gzip; 11 content types; " +
		"form and multipart uploads) that is (a) snapshotted with messageview under a body-capture option (all / none / content-type list) " +
		"with the snapshot bytes, offsets, the three reader sections and the Decode reader compared with the Lean model, and re-parsed " +
		"with http.ReadRequest/ReadResponse against an untouched twin, and (b) run as a twin experiment through har.Logger (4 post-data " +
		"x 4 body options), marbl.Modifier, martianlog.Logger (headersOnly x decode) and a bare snapshot, with and without " +
		"skip-logging, comparing Write() output and struct fields of the logged message with its unlogged twin whether or not the logger " +
		"returned an error (one twin message in four, and 68 directed cases, carry a body that does not parse as its declared urlencoded / " +
		"multipart Content-Type or does not decode as its gzip / deflate Content-Encoding; error return and record presence are compared " +
		"with the model given the trusted parsers' verdicts); bodies 0..64 KiB quick, " +
		"0..2 MiB thorough; distinct by hash of the op list; non-trivial when the case has a body-carrying message and at least one " +
		"twin op that produced a record"
}

func (P) Nontrivial(ops []string, impl []string) bool {
	body, rec := false, false
	for i, l := range impl {
		if strings.HasPrefix(ops[i], "snap ") {
			f := strings.Fields(l)
			if len(f) == 4 && f[0] == "ok" && f[1] != f[2] {
				body = true
			}
		}
		if strings.HasPrefix(l, "same rec=1") {
			rec = true
		}
	}
	return body && rec
}

func fail(sig, format string, a ...interface{}) core.Result {
	return core.Result{Fail: fmt.Sprintf(format, a...), Sig: sig}
}

type ex struct {
	mv  *messageview.MessageView
	abs *msggen.Abs
}

func (P) NewExec() core.Exec { return &ex{} }
func (e *ex) Close()         {}

func ctsOf(tok string) []string {
	if tok == "-" {
		return nil
	}
	var out []string
	for _, x := range strings.Split(tok, "+") {
		b, _ := core.Unhex(x)
		out = append(out, string(b))
	}
	return out
}

func ctsTok(cts []string) string {
	if len(cts) == 0 {
		return "-"
	}
	var s []string
	for _, c := range cts {
		s = append(s, core.HexS(c))
	}
	return strings.Join(s, "+")
}

// head is what "equal to the original" compares besides body and trailers.
type head struct {
	line    string
	host    string
	cl      int64
	te      string
	hdr     []msggen.KV
	body    []byte
	bodyErr string
	trailer []msggen.KV
}

func stripFraming(h http.Header) http.Header {
	o := http.Header{}
	for k, v := range h {
		if k == "Content-Length" || k == "Transfer-Encoding" || k == "Trailer" {
			continue
		}
		o[k] = v
	}
	return o
}

func headOfReq(r *http.Request, readBody bool) head {
	hdr := stripFraming(r.Header)
	// a Host key in a request's header map is never sent (net/http writes the Host field)
	delete(hdr, "Host")
	h := head{line: fmt.Sprintf("%s %s HTTP/%d.%d", r.Method, r.URL, r.ProtoMajor, r.ProtoMinor), host: r.Host,
		cl: r.ContentLength, te: strings.Join(r.TransferEncoding, ","), hdr: msggen.SortedKV(hdr)}
	if readBody {
		if r.Body != nil {
			b, err := io.ReadAll(r.Body)
			h.body = b
			if err != nil {
				h.bodyErr = err.Error()
			}
		}
		h.trailer = msggen.SortedKV(r.Trailer)
	}
	return h
}

func headOfRes(r *http.Response, readBody bool) head {
	h := head{line: fmt.Sprintf("HTTP/%d.%d %s", r.ProtoMajor, r.ProtoMinor, r.Status),
		cl: r.ContentLength, te: strings.Join(r.TransferEncoding, ","), hdr: msggen.SortedKV(stripFraming(r.Header))}
	if readBody {
		if r.Body != nil {
			b, err := io.ReadAll(r.Body)
			h.body = b
			if err != nil {
				h.bodyErr = err.Error()
			}
		}
		h.trailer = msggen.SortedKV(r.Trailer)
	}
	return h
}

func (a head) diff(b head) string {
	switch {
	case a.line != b.line:
		return fmt.Sprintf("start line %q vs %q", a.line, b.line)
	case a.host != b.host:
		return fmt.Sprintf("host %q vs %q", a.host, b.host)
	case a.cl != b.cl:
		return fmt.Sprintf("content length %d vs %d", a.cl, b.cl)
	case a.te != b.te:
		return fmt.Sprintf("transfer encoding %q vs %q", a.te, b.te)
	case msggen.KVString(a.hdr) != msggen.KVString(b.hdr):
		return fmt.Sprintf("headers %s vs %s", msggen.KVString(a.hdr), msggen.KVString(b.hdr))
	case a.bodyErr != b.bodyErr:
		return fmt.Sprintf("body read error %q vs %q", a.bodyErr, b.bodyErr)
	case !bytes.Equal(a.body, b.body):
		return fmt.Sprintf("body %d bytes vs %d bytes", len(a.body), len(b.body))
	case msggen.KVString(a.trailer) != msggen.KVString(b.trailer):
		return fmt.Sprintf("trailers %s vs %s", msggen.KVString(a.trailer), msggen.KVString(b.trailer))
	}
	return ""
}

// reparse parses snapshot bytes and compares them with the original (an untouched twin).
func reparse(a *msggen.Abs, snap []byte, orig head, full bool) string {
	var got head
	if a.Req {
		r, err := http.ReadRequest(bufio.NewReader(bytes.NewReader(snap)))
		if err != nil {
			return "snapshot does not parse: " + err.Error()
		}
		got = headOfReq(r, full)
	} else {
		r, err := http.ReadResponse(bufio.NewReader(bytes.NewReader(snap)), msggen.DummyReq())
		if err != nil {
			return "snapshot does not parse: " + err.Error()
		}
		got = headOfRes(r, full)
	}
	if !full {
		// headers-only snapshot: framing fields still describe the (absent) body; compare the head
		orig.body, orig.bodyErr, orig.trailer = nil, "", nil
	}
	return got.diff(orig)
}

func (e *ex) Do(op string) core.Result {
	t := strings.Fields(op)
	if r, ok := golib.DoH1(op); ok && t[0] != "h1.resnap" { // the HTTP/1 codec ops (reader inside the model)
		return r
	}
	switch t[0] {
	case "h1.resnap":
		return e.resnap()
	case "snap":
		return e.snap(t)
	case "sections":
		return e.sections()
	case "decode":
		return e.decode(t)
	case "twin":
		return twin(t, false)
	case "twinx":
		return twin(t, true)
	case "twinxw":
		// twinx in a case of its own that also reports the logger-error classes that are open findings
		reportKnown.Store(true)
		defer reportKnown.Store(false)
		return twin(t, true)
	case "twinfw":
		reportKnown.Store(true)
		defer reportKnown.Store(false)
		return twinFault(t)
	case "twinm":
		return twinMarks(t)
	case "multi":
		return multi(t)
	case "twinf":
		return twinFault(t)
	}
	return core.Result{Impl: "bad-op"}
}

// snap <mode> <skip:0|1|ct> <cts> M...
func (e *ex) snap(t []string) core.Result {
	if len(t) != 4+msggen.NTok {
		return core.Result{Impl: "bad-op"}
	}
	a, ok := msggen.FromTokens(t[4:])
	if !ok {
		return core.Result{Impl: "bad-op"}
	}
	mode, skip, cts := t[1], t[2], ctsOf(t[3])
	mv := messageview.New()
	switch skip {
	case "1":
		mv.SkipBody(true)
	case "ct":
		mv.SkipBodyUnlessContentType(cts...)
	}
	captured := skip == "0"
	if skip == "ct" {
		for _, c := range cts {
			if strings.HasPrefix(a.Get("Content-Type"), c) {
				captured = true
			}
		}
	}
	if a.NilBody {
		captured = false
	}
	var err error
	var orig head
	var after head
	if a.Req {
		req, bad := a.BuildRequest(mode)
		if bad != "" {
			return core.Result{Impl: "gen-mismatch " + bad}
		}
		twinReq, _ := a.BuildRequest(mode)
		orig = headOfReq(twinReq, true)
		err = mv.SnapshotRequest(req)
		after = headOfReq(req, true)
	} else {
		res, bad := a.BuildResponse(mode, msggen.DummyReq())
		if bad != "" {
			return core.Result{Impl: "gen-mismatch " + bad}
		}
		twinRes, _ := a.BuildResponse(mode, msggen.DummyReq())
		orig = headOfRes(twinRes, true)
		err = mv.SnapshotResponse(res)
		after = headOfRes(res, true)
	}
	e.mv, e.abs = mv, a
	if err != nil {
		return core.Result{Impl: "err"}
	}
	rd, err := mv.Reader()
	if err != nil {
		return core.Result{Impl: "err"}
	}
	snap, _ := io.ReadAll(rd)
	hb, _ := io.ReadAll(mv.HeaderReader())
	br, _ := mv.BodyReader()
	bb, _ := io.ReadAll(br)
	impl := fmt.Sprintf("ok %d %d %s", len(hb), len(hb)+len(bb), core.Hex(snap))
	core.Count("snap:" + map[bool]string{true: "captured", false: "headers-only"}[captured])

	// oracle 1: taking the snapshot left the message as it was
	if d := after.diff(orig); d != "" {
		r := fail("c15:snapshot-changed-message", "message after snapshot differs from untouched twin: %s", d)
		r.Impl = impl
		return r
	}
	// oracle 2: the snapshot is a parseable message equal to the original
	if d := reparse(a, snap, orig, captured); d != "" {
		sig := "c15:snapshot-not-equal-to-original"
		if captured && a.Chunked() && !a.NilTrailer {
			if reparse(a, append(append([]byte{}, snap...), '\r', '\n'), orig, true) == "" {
				sig = "c15:snapshot-chunked-trailers-lacks-final-crlf"
			}
		}
		r := fail(sig, "snapshot %s (snapshot ends %q)", d, tail(snap, 24))
		r.Impl = impl
		return r
	}
	return core.Result{Impl: impl}
}

func tail(b []byte, n int) string {
	if len(b) > n {
		b = b[len(b)-n:]
	}
	return string(b)
}

func (e *ex) sections() core.Result {
	if e.mv == nil {
		return core.Result{Impl: "no-snapshot"}
	}
	hb, _ := io.ReadAll(e.mv.HeaderReader())
	br, _ := e.mv.BodyReader()
	bb, _ := io.ReadAll(br)
	tb, _ := io.ReadAll(e.mv.TrailerReader())
	rd, _ := e.mv.Reader()
	all, _ := io.ReadAll(rd)
	impl := fmt.Sprintf("%s %s %s", core.Hex(hb), core.Hex(bb), core.Hex(tb))
	if !bytes.Equal(all, append(append(append([]byte{}, hb...), bb...), tb...)) {
		r := fail("c15:sections-do-not-partition", "header+body+trailer sections (%d+%d+%d bytes) are not the snapshot (%d bytes)", len(hb), len(bb), len(tb), len(all))
		r.Impl = impl
		return r
	}
	if !bytes.HasSuffix(hb, []byte("\r\n\r\n")) || bytes.Count(hb, []byte("\r\n\r\n")) != 1 {
		r := fail("c15:header-section", "header section does not end at the first blank line: %q", tail(hb, 16))
		r.Impl = impl
		return r
	}
	return core.Result{Impl: impl}
}

// decode <inflated: na | err | hex>
func (e *ex) decode(t []string) core.Result {
	if e.mv == nil || len(t) != 2 {
		return core.Result{Impl: "no-snapshot"}
	}
	br, err := e.mv.BodyReader(messageview.Decode())
	if err != nil {
		core.Count("decode:err")
		return core.Result{Impl: "err"}
	}
	b, err := io.ReadAll(br)
	if err != nil {
		core.Count("decode:err")
		return core.Result{Impl: "err"}
	}
	core.Count("decode:ok")
	return core.Result{Impl: "ok " + core.Hex(b)}
}

// ---- twin experiment ----

type logCapture struct {
	mu    sync.Mutex
	buf   bytes.Buffer
	lines int
}

func (c *logCapture) Write(p []byte) (int, error) {
	c.mu.Lock()
	defer c.mu.Unlock()
	return c.buf.Write(p)
}

func harOpt(post bool, spec string) har.Option {
	kind, arg := spec, ""
	if i := strings.IndexByte(spec, ':'); i >= 0 {
		kind, arg = spec[:i], spec[i+1:]
	}
	cts := ctsOf(arg)
	if arg == "" {
		cts = nil
	}
	switch kind {
	case "none":
		if post {
			return har.PostDataLogging(false)
		}
		return har.BodyLogging(false)
	case "in":
		if post {
			return har.PostDataLoggingForContentTypes(cts...)
		}
		return har.BodyLoggingForContentTypes(cts...)
	case "out":
		if post {
			return har.SkipPostDataLoggingForContentTypes(cts...)
		}
		return har.SkipBodyLoggingForContentTypes(cts...)
	}
	if post {
		return har.PostDataLogging(true)
	}
	return har.BodyLogging(true)
}

// HarOpt is shared with c16.
func HarOpt(post bool, spec string) har.Option { return harOpt(post, spec) }

// twin <logger> <o1> <o2> <skiplog> <mode> M...
// twinx <logger> <o1> <o2> <skiplog> <mode> <trusted> M...: the same experiment; the op carries the
// verdicts of the trusted parsers / decompressors on the body (TrustedTok), with which the model
// also predicts whether the logger returns an error and whether it recorded anything then.
func twin(t []string, x bool) core.Result { return twinOpt(t, x, nil) }

// twinm <logger> <o1> <o2> <marks> <mode> <trusted> M...: twinx with the context flag operations of
// the exchange spelled out (see marks.go) instead of the 0/1 skip-logging token.
func twinMarks(t []string) core.Result {
	if len(t) != 7+msggen.NTok {
		return core.Result{Impl: "bad-op"}
	}
	mk, ok := parseMarks(t[4])
	if !ok {
		return core.Result{Impl: "bad-op"}
	}
	return twinOpt(t, true, mk)
}

func twinOpt(t []string, x bool, mk *marks) core.Result {
	n0 := 6
	if x {
		n0 = 7
	}
	if len(t) != n0+msggen.NTok {
		return core.Result{Impl: "bad-op"}
	}
	logger, o1, o2, skiplog, mode := t[1], t[2], t[3], t[4] == "1", t[5]
	a, ok := msggen.FromTokens(t[n0:])
	if !ok {
		return core.Result{Impl: "bad-op"}
	}
	if x && t[6] != TrustedTok(a) {
		// the parameter of the model must be the trusted parsers' verdict on THIS body; a wrong
		// premise shows as a divergence from the model's line
		return core.Result{Impl: "trusted-mismatch " + TrustedTok(a)}
	}
	ctxReq := msggen.DummyReq()
	var reqA, reqB *http.Request
	var resA, resB *http.Response
	if a.Req {
		var bad string
		reqA, bad = a.BuildRequest(mode)
		if bad != "" {
			return core.Result{Impl: "gen-mismatch " + bad}
		}
		reqB, _ = a.BuildRequest(mode)
		ctxReq = reqA
	} else {
		var bad string
		resA, bad = a.BuildResponse(mode, ctxReq)
		if bad != "" {
			return core.Result{Impl: "gen-mismatch " + bad}
		}
		resB, _ = a.BuildResponse(mode, msggen.DummyReq())
	}
	ctx, remove, err := martian.TestContext(ctxReq, nil, nil)
	if err != nil {
		return core.Result{Impl: "ctx-error"}
	}
	defer remove()
	if skiplog {
		ctx.SkipLogging()
	}
	if mk != nil {
		skiplog = mk.skips(a.Req)
		// the request side of the exchange: marks made before any logger sees the request
		for _, c := range mk.pre {
			applyMark(c, ctxReq)
			if reqB != nil {
				// the unlogged twin goes through the same modifiers (api.Forwarder rewrites the URL)
				_, rm, err := martian.TestContext(reqB, nil, nil)
				if err == nil {
					defer rm()
				}
				applyMark(c, reqB)
			}
		}
	}

	rec := 0
	var harLog *har.Logger
	var modErr error
	var finish func() // called after forwarding; sets rec
	var mods struct {
		req func(*http.Request) error
		res func(*http.Response) error
	}
	switch logger {
	case "har":
		l := har.NewLogger()
		harLog = l
		l.SetOption(harOpt(true, o1), harOpt(false, o2))
		mods.req, mods.res = l.ModifyRequest, l.ModifyResponse
		finish = func() {
			es := l.Export().Log.Entries
			if len(es) > 0 && (a.Req || es[0].Response != nil) {
				rec = 1
			}
		}
	case "marbl":
		c := &logCapture{}
		m := marbl.NewModifier(c)
		mods.req, mods.res = m.ModifyRequest, m.ModifyResponse
		finish = func() {
			// frames go through an unbuffered channel to one writer goroutine: when frame k+1 has
			// been accepted, frame k is written; every logged message has >= 5 header frames
			c.mu.Lock()
			defer c.mu.Unlock()
			if c.buf.Len() > 0 {
				rec = 1
			}
		}
	case "text":
		l := martianlog.NewLogger()
		l.SetHeadersOnly(o1 == "1")
		l.SetDecode(o2 == "1")
		n := 0
		l.SetLogFunc(func(string) { n++ })
		mods.req, mods.res = l.ModifyRequest, l.ModifyResponse
		finish = func() {
			if n > 0 {
				rec = 1
			}
		}
	case "snapshot":
		mk := func() *messageview.MessageView {
			mv := messageview.New()
			switch {
			case o1 == "1":
				mv.SkipBody(true)
			case strings.HasPrefix(o1, "ct:"):
				mv.SkipBodyUnlessContentType(ctsOf(o1[3:])...)
			}
			return mv
		}
		mods.req = func(r *http.Request) error { return mk().SnapshotRequest(r) }
		mods.res = func(r *http.Response) error { return mk().SnapshotResponse(r) }
		finish = func() { rec = 1 }
	default:
		return core.Result{Impl: "bad-op"}
	}

	var outA, outB bytes.Buffer
	var hA, hB head
	var werrA, werrB error
	if a.Req {
		modErr = mods.req(reqA)
		werrA = reqA.Write(&outA)
		werrB = reqB.Write(&outB)
		hA, hB = headOfReq(reqA, false), headOfReq(reqB, false)
		hA.trailer, hB.trailer = trailerKV(reqA.Trailer), trailerKV(reqB.Trailer)
		if reqA.Close != reqB.Close || !reflect.DeepEqual(reqA.Header, reqB.Header) {
			hA.line += " [close/header differ]"
		}
	} else {
		if logger == "har" {
			// the entry the response would attach to exists whatever the skip flag says now
			// (the flag may be set by a modifier that runs after the logger saw the request)
			harLog.RecordRequest(ctx.ID(), ctxReq)
		}
		if mk != nil {
			// the response side: marks made between the two logger calls
			for _, c := range mk.post {
				applyMark(c, ctxReq)
			}
		}
		modErr = mods.res(resA)
		werrA = resA.Write(&outA)
		werrB = resB.Write(&outB)
		hA, hB = headOfRes(resA, false), headOfRes(resB, false)
		hA.trailer, hB.trailer = trailerKV(resA.Trailer), trailerKV(resB.Trailer)
		if resA.Close != resB.Close || !reflect.DeepEqual(resA.Header, resB.Header) {
			hA.line += " [close/header differ]"
		}
	}
	finish()
	core.Count("twin:" + logger)
	impl := fmt.Sprintf("same rec=%d", rec)
	if x {
		impl += fmt.Sprintf(" err=%d", map[bool]int{false: 0, true: 1}[modErr != nil])
	}
	if modErr != nil {
		core.Count("twin:logger-error:" + logger)
	}
	if mk != nil {
		impl += " flags=" + flagsTok(ctx)
		core.Count("marks:" + mk.class())
	}
	{
		var hdA, hdB http.Header
		if a.Req {
			hdA, hdB = reqA.Header, reqB.Header
		} else {
			hdA, hdB = resA.Header, resB.Header
		}
		if d := headerValuesDiff(hdA, hdB); d != "" {
			r := fail("c15:header-values-differ:"+logger, "%s", d)
			r.Impl = "differs"
			return r
		}
	}
	if d := forwardedDiff(a.Req, outA.Bytes(), outB.Bytes(), werrA, werrB); d != "" {
		r := fail("c15:forwarded-differs:"+logger, "forwarded message differs from unlogged twin: %s", d)
		r.Impl = "differs"
		return r
	}
	if d := hA.diff(hB); d != "" {
		r := fail("c15:fields-differ:"+logger, "message fields after logging differ from unlogged twin: %s", d)
		r.Impl = "differs"
		return r
	}
	if mk != nil && mk.skipsAnywhere() && !ctx.SkippingLogging() {
		r := fail("c15:skip-mark-lost", "the exchange was marked skip-logging %d time(s) (marks %s) but its context reads SkippingLogging() = false", mk.count(), mk.tok)
		r.Impl = impl
		return r
	}
	if skiplog && rec != 0 && logger != "snapshot" {
		r := fail("c15:skip-logging-recorded:"+logger, "exchange marked skip-logging was recorded by the %s logger", logger)
		r.Impl = impl
		return r
	}
	if r, bad := loggerErrorVerdict(logger, o1, o2, a, modErr, "", impl); bad {
		return r
	}
	if modErr != nil && !x {
		// the logger gave up with an error (undecodable body, malformed form/multipart): whether
		// a record exists then depends on the trusted decoders; oracle-only
		core.Count("twin:logger-error")
		return core.Result{Impl: impl, SkipModel: true}
	}
	return core.Result{Impl: impl}
}

// trailerKV is the Trailer map for comparison: the fields that were sent, and - marked - the names that
// were only ANNOUNCED (a key without values: net/http writes the `Trailer:` announcement from the keys).
func trailerKV(h http.Header) []msggen.KV {
	out := msggen.SortedKV(h)
	var ks []string
	for k, vs := range h {
		if len(vs) == 0 {
			ks = append(ks, k)
		}
	}
	sort.Strings(ks)
	for _, k := range ks {
		out = append(out, msggen.KV{K: k, V: "<announced, not sent>"})
	}
	return out
}

// headerValuesDiff compares two header maps as per-name ORDERED value lists (the order of the lines
// of one field name is part of the message; a name present with no values differs from an absent one
// only in the map, not on the wire, and is not reported).
func headerValuesDiff(a, b http.Header) string {
	names := map[string]bool{}
	for k := range a {
		names[k] = true
	}
	for k := range b {
		names[k] = true
	}
	var ks []string
	for k := range names {
		ks = append(ks, k)
	}
	sort.Strings(ks)
	for _, k := range ks {
		if !reflect.DeepEqual(append([]string{}, a[k]...), append([]string{}, b[k]...)) {
			return fmt.Sprintf("header %q: %d value(s) %q after logging, %d value(s) %q in the unlogged twin", k, len(a[k]), a[k], len(b[k]), b[k])
		}
	}
	return ""
}

// forwardedDiff compares what Write put on the wire for the logged message and for its twin:
// byte for byte unless the message is chunked (chunk boundaries are not part of the message),
// in which case both are parsed again and compared as messages (framing kind, length, headers,
// body bytes, trailers).
func forwardedDiff(isReq bool, outA, outB []byte, werrA, werrB error) string {
	if fmt.Sprint(werrA) != fmt.Sprint(werrB) {
		return fmt.Sprintf("write errors %v vs %v", werrA, werrB)
	}
	if bytes.Equal(outA, outB) {
		return ""
	}
	announced := func(t http.Header) []string {
		var ks []string
		for k := range t {
			ks = append(ks, k)
		}
		sort.Strings(ks)
		return ks
	}
	parse := func(b []byte) (head, http.Header, string) {
		if isReq {
			r, err := http.ReadRequest(bufio.NewReader(bytes.NewReader(b)))
			if err != nil {
				return head{}, nil, err.Error()
			}
			// the `Trailer:` announcement of the forwarded head (the parser moves it out of the header map)
			ann := announced(r.Trailer)
			h := headOfReq(r, true)
			hdr := r.Header.Clone()
			hdr["<Trailer announcement>"] = ann
			return h, hdr, ""
		}
		r, err := http.ReadResponse(bufio.NewReader(bytes.NewReader(b)), msggen.DummyReq())
		if err != nil {
			return head{}, nil, err.Error()
		}
		ann := announced(r.Trailer)
		h := headOfRes(r, true)
		hdr := r.Header.Clone()
		hdr["<Trailer announcement>"] = ann
		return h, hdr, ""
	}
	hA, rawA, eA := parse(outA)
	hB, rawB, eB := parse(outB)
	if eA != "" || eB != "" {
		return fmt.Sprintf("forwarded bytes do not parse: %q vs %q", eA, eB)
	}
	if hB.te != "chunked" || hA.te != "chunked" {
		i := 0
		for i < len(outA) && i < len(outB) && outA[i] == outB[i] {
			i++
		}
		lo := i - 24
		if lo < 0 {
			lo = 0
		}
		return fmt.Sprintf("%d vs %d bytes, first difference at %d: %q vs %q", len(outA), len(outB), i, clip(outA, lo, i+24), clip(outB, lo, i+24))
	}
	if d := hA.diff(hB); d != "" {
		return d
	}
	if !reflect.DeepEqual(rawA, rawB) {
		return fmt.Sprintf("header fields %v vs %v", rawA, rawB)
	}
	return ""
}

func clip(b []byte, lo, hi int) []byte {
	if hi > len(b) {
		hi = len(b)
	}
	if lo > hi {
		lo = hi
	}
	return b[lo:hi]
}
