package c15

import (
	"bytes"
	"fmt"
	"net/http"
	"reflect"
	"strconv"
	"strings"
	"sync"
	"time"

	"github.com/google/martian/v3"
	"github.com/google/martian/v3/har"
	"github.com/google/martian/v3/marbl"
	"github.com/google/martian/v3/martianlog"
	"github.com/google/martian/v3/messageview"

	"verif/harness/internal/core"
	"verif/harness/internal/msggen"
)

// Several messages in flight through ONE logger instance.
//
//	multi <logger> <o1> <o2> <sched> <k> { <mode> <link> <trusted> M... } x k
//
// <sched> is a comma-separated list of events L<i> (hand message i to the logger) and W<i> (write
// message i out, next to its unlogged twin); every message is logged before it is written, but other
// messages may be logged (and written) in between: request and response of one exchange (<link> = the
// slot of the request this response answers, "-" otherwise), messages of concurrent exchanges. The
// whole schedule runs in one goroutine, so that per-P caches and pools of the code under test see
// the same processor throughout. Oracle: every message is written out exactly like its twin.
type heldMsg struct {
	a          *msggen.Abs
	mode       string
	link       int
	reqA, reqB *http.Request
	resA, resB *http.Response
	ctxReq     *http.Request
	logged     bool
	err        error
}

func multi(t []string) core.Result {
	if len(t) < 6 {
		return core.Result{Impl: "bad-op"}
	}
	logger, o1, o2, sched := t[1], t[2], t[3], t[4]
	k, err := strconv.Atoi(t[5])
	const per = 3 + msggen.NTok
	if err != nil || k < 1 || k > 8 || len(t) != 6+k*per {
		return core.Result{Impl: "bad-op"}
	}
	var ms []*heldMsg
	for i := 0; i < k; i++ {
		g := t[6+i*per : 6+(i+1)*per]
		a, ok := msggen.FromTokens(g[3:])
		if !ok {
			return core.Result{Impl: "bad-op"}
		}
		if g[2] != TrustedTok(a) {
			return core.Result{Impl: "trusted-mismatch " + TrustedTok(a)}
		}
		h := &heldMsg{a: a, mode: g[0], link: -1}
		if g[1] != "-" {
			if h.link, err = strconv.Atoi(g[1]); err != nil || h.link < 0 || h.link >= i || !ms[h.link].a.Req || a.Req {
				return core.Result{Impl: "bad-op"}
			}
		}
		ms = append(ms, h)
	}

	// one logger instance for all messages of the case
	var modReq func(*http.Request) error
	var modRes func(*http.Response) error
	var harLog *har.Logger
	switch logger {
	case "har":
		harLog = har.NewLogger()
		harLog.SetOption(harOpt(true, o1), harOpt(false, o2))
		modReq, modRes = harLog.ModifyRequest, harLog.ModifyResponse
	case "marbl":
		m := marbl.NewModifier(&logCapture{})
		modReq, modRes = m.ModifyRequest, m.ModifyResponse
	case "text":
		l := martianlog.NewLogger()
		l.SetHeadersOnly(o1 == "1")
		l.SetDecode(o2 == "1")
		l.SetLogFunc(func(string) {})
		modReq, modRes = l.ModifyRequest, l.ModifyResponse
	case "snapshot":
		mk := func() *messageview.MessageView {
			mv := messageview.New()
			switch {
			case o1 == "1":
				mv.SkipBody(true)
			case strings.HasPrefix(o1, "ct:"):
				mv.SkipBodyUnlessContentType(ctsOf(o1[3:])...)
			}
			return mv
		}
		modReq = func(r *http.Request) error { return mk().SnapshotRequest(r) }
		modRes = func(r *http.Response) error { return mk().SnapshotResponse(r) }
	default:
		return core.Result{Impl: "bad-op"}
	}

	var removes []func()
	defer func() {
		for _, f := range removes {
			f()
		}
	}()
	build := func(h *heldMsg) string {
		if h.a.Req {
			var bad string
			if h.reqA, bad = h.a.BuildRequest(h.mode); bad != "" {
				return bad
			}
			h.reqB, _ = h.a.BuildRequest(h.mode)
			h.ctxReq = h.reqA
		} else {
			h.ctxReq = msggen.DummyReq()
			if h.link >= 0 && ms[h.link].reqA != nil {
				h.ctxReq = ms[h.link].reqA // the response of that exchange
			}
			var bad string
			if h.resA, bad = h.a.BuildResponse(h.mode, h.ctxReq); bad != "" {
				return bad
			}
			// net/http's Response.Write looks at the method of the request it answers
			twinReq := msggen.DummyReq()
			twinReq.Method = h.ctxReq.Method
			h.resB, _ = h.a.BuildResponse(h.mode, twinReq)
		}
		ctx, remove, err := martian.TestContext(h.ctxReq, nil, nil)
		if err != nil {
			return "ctx-error"
		}
		removes = append(removes, remove)
		if !h.a.Req && harLog != nil && h.link < 0 {
			harLog.RecordRequest(ctx.ID(), h.ctxReq)
		}
		return ""
	}

	var outcome []string
	var failure string
	var failSig string
	logOne := func(h *heldMsg) {
		if h.a.Req {
			h.err = modReq(h.reqA)
		} else {
			h.err = modRes(h.resA)
		}
		h.logged = true
	}
	writeOne := func(h *heldMsg) string {
		var outA, outB bytes.Buffer
		var hA, hB head
		var werrA, werrB error
		if h.a.Req {
			werrA, werrB = h.reqA.Write(&outA), h.reqB.Write(&outB)
			hA, hB = headOfReq(h.reqA, false), headOfReq(h.reqB, false)
			hA.trailer, hB.trailer = trailerKV(h.reqA.Trailer), trailerKV(h.reqB.Trailer)
			if h.reqA.Close != h.reqB.Close || !reflect.DeepEqual(h.reqA.Header, h.reqB.Header) {
				hA.line += " [close/header differ]"
			}
		} else {
			werrA, werrB = h.resA.Write(&outA), h.resB.Write(&outB)
			hA, hB = headOfRes(h.resA, false), headOfRes(h.resB, false)
			hA.trailer, hB.trailer = trailerKV(h.resA.Trailer), trailerKV(h.resB.Trailer)
			if h.resA.Close != h.resB.Close || !reflect.DeepEqual(h.resA.Header, h.resB.Header) {
				hA.line += " [close/header differ]"
			}
		}
		var d string
		if h.a.Req {
			d = headerValuesDiff(h.reqA.Header, h.reqB.Header)
		} else {
			d = headerValuesDiff(h.resA.Header, h.resB.Header)
		}
		if d == "" {
			d = forwardedDiff(h.a.Req, outA.Bytes(), outB.Bytes(), werrA, werrB)
		}
		if d == "" {
			d = hA.diff(hB)
		}
		return d
	}
	if sched == "conc" {
		// concurrent exchanges: every message is handed to the logger by its own goroutine, all at
		// once; when all loggers have returned, every message is written out by its own goroutine
		for _, h := range ms {
			if bad := build(h); bad != "" {
				return core.Result{Impl: "gen-mismatch " + bad}
			}
		}
		phase := func(f func(i int, h *heldMsg)) bool {
			start := make(chan struct{})
			var wg sync.WaitGroup
			for i, h := range ms {
				wg.Add(1)
				go func(i int, h *heldMsg) {
					defer wg.Done()
					defer func() { recover() }()
					<-start
					f(i, h)
				}(i, h)
			}
			close(start)
			done := make(chan struct{})
			go func() { wg.Wait(); close(done) }()
			select {
			case <-done:
				return true
			case <-time.After(20 * time.Second):
				return false
			}
		}
		if !phase(func(_ int, h *heldMsg) { logOne(h) }) {
			return core.Result{Impl: "hang", Fail: "concurrent logger calls did not return within 20 s", Sig: "c15:concurrent-log-hang:" + logger}
		}
		diffs := make([]string, k)
		if !phase(func(i int, h *heldMsg) { diffs[i] = writeOne(h) }) {
			return core.Result{Impl: "hang", Fail: "concurrent writes did not return within 20 s", Sig: "c15:concurrent-write-hang:" + logger}
		}
		for i, d := range diffs {
			if d != "" {
				outcome = append(outcome, "differs")
				if failure == "" {
					failSig = "c15:held-message-differs:" + logger
					failure = fmt.Sprintf("message %d of %d logged concurrently through one %s logger was written out differing from its unlogged twin: %s", i, k, logger, d)
				}
			} else {
				outcome = append(outcome, "same")
			}
		}
		core.Count("multi:conc")
		sched = ""
	}
	for _, ev := range strings.Split(sched, ",") {
		if sched == "" {
			break
		}
		if len(ev) < 2 {
			return core.Result{Impl: "bad-op"}
		}
		i, err := strconv.Atoi(ev[1:])
		if err != nil || i < 0 || i >= k {
			return core.Result{Impl: "bad-op"}
		}
		h := ms[i]
		if h.reqA == nil && h.resA == nil {
			if bad := build(h); bad != "" {
				return core.Result{Impl: "gen-mismatch " + bad}
			}
		}
		switch ev[0] {
		case 'L':
			logOne(h)
			core.Count("multi:log:" + logger)
		case 'W':
			if d := writeOne(h); d != "" {
				outcome = append(outcome, "differs")
				if failure == "" {
					failSig = "c15:held-message-differs:" + logger
					failure = fmt.Sprintf("message %d, logged and then held while %s, was written out differing from its unlogged twin: %s",
						i, between(sched, i), d)
				}
			} else {
				outcome = append(outcome, "same")
			}
			core.Count("multi:write")
		default:
			return core.Result{Impl: "bad-op"}
		}
	}
	errs := ""
	for _, h := range ms {
		if h.logged && h.err != nil {
			errs += "1"
		} else {
			errs += "0"
		}
	}
	core.Count(fmt.Sprintf("multi:k=%d", k))
	impl := "w=" + strings.Join(outcome, ",") + " err=" + errs
	if failure == "" {
		for _, h := range ms {
			if h.logged {
				if r, bad := loggerErrorVerdict(logger, o1, o2, h.a, h.err, "", impl); bad {
					return r
				}
			}
		}
	}
	if failure != "" {
		return core.Result{Impl: impl, Fail: failure, Sig: failSig}
	}
	return core.Result{Impl: impl}
}

// between lists the events of the schedule that lie between L<i> and W<i>.
func between(sched string, i int) string {
	evs := strings.Split(sched, ",")
	lo, hi := -1, -1
	for j, e := range evs {
		if e == "L"+strconv.Itoa(i) && lo < 0 {
			lo = j
		}
		if e == "W"+strconv.Itoa(i) {
			hi = j
		}
	}
	if lo < 0 || hi < 0 || hi <= lo+1 {
		return "nothing else happened"
	}
	return strings.Join(evs[lo+1:hi], ",") + " happened"
}

// Schedule draws a valid interleaving for k messages: every message logged once (now and then twice
// or not at all) before it is written; messages are written in any order.
func Schedule(r *core.Rand, k int, twice bool) string {
	type st struct{ logged, written bool }
	s := make([]st, k)
	var evs []string
	for {
		var cand []string
		for i := range s {
			if !s[i].logged {
				cand = append(cand, "L"+strconv.Itoa(i))
			} else if !s[i].written {
				cand = append(cand, "W"+strconv.Itoa(i))
				if twice && r.Chance(1, 12) {
					cand = append(cand, "L"+strconv.Itoa(i)) // a second logger call on the same message
				}
			}
		}
		if len(cand) == 0 {
			break
		}
		// prefer logging first: messages are then held across other snapshots
		var ls []string
		for _, c := range cand {
			if c[0] == 'L' {
				ls = append(ls, c)
			}
		}
		if len(ls) > 0 && r.Chance(2, 3) {
			cand = ls
		}
		c := cand[r.Intn(len(cand))]
		i, _ := strconv.Atoi(c[1:])
		if c[0] == 'L' {
			s[i].logged = true
		} else {
			s[i].written = true
		}
		evs = append(evs, c)
	}
	return strings.Join(evs, ",")
}

// allSchedules: every interleaving of L_i before W_i for k messages.
func allSchedules(k int) []string {
	var out []string
	var rec func(evs []string, logged, written []bool)
	rec = func(evs []string, logged, written []bool) {
		done := true
		for i := 0; i < k; i++ {
			if !logged[i] {
				done = false
				logged[i] = true
				rec(append(evs, "L"+strconv.Itoa(i)), logged, written)
				logged[i] = false
			} else if !written[i] {
				done = false
				written[i] = true
				rec(append(evs, "W"+strconv.Itoa(i)), logged, written)
				written[i] = false
			}
		}
		if done {
			out = append(out, strings.Join(evs, ","))
		}
	}
	rec(nil, make([]bool, k), make([]bool, k))
	return out
}

func multiOp(logger, o1, o2, sched string, ms []*msggen.Abs, modes []string, links []int) string {
	t := []string{"multi", logger, o1, o2, sched, strconv.Itoa(len(ms))}
	for i, a := range ms {
		link := "-"
		if links[i] >= 0 {
			link = strconv.Itoa(links[i])
		}
		t = append(t, modes[i], link, TrustedTok(a))
		t = append(t, a.Tokens()...)
	}
	return strings.Join(t, " ")
}

type multiLogger struct{ name, o1, o2 string }

var multiLoggers = []multiLogger{{"har", "all", "all"}, {"text", "0", "0"}, {"text", "0", "1"}, {"snapshot", "0", "-"}, {"marbl", "-", "-"},
	{"text", "1", "0"}, {"har", "none", "all"}}

// multiCases: (a) every interleaving of two (thorough: three) messages, one clearly larger than the
// other(s), both directions, under every capturing logger; (b) random groups of 2-4 generated messages
// under a random logger and a random interleaving.
func multiCases(r *core.Rand, tier string, emit func([]string)) {
	sizes := [][]int{{48 << 10, 8 << 10}, {300, 40}, {5000, 5000}, {70, 9000}}
	k := 2
	if tier == "thorough" {
		k = 3
		sizes = [][]int{{48 << 10, 8 << 10, 100}, {300, 40, 4000}, {5000, 5000, 5000}, {1 << 20, 1000, 64 << 10}}
	}
	for _, sched := range allSchedules(k) {
		for _, l := range multiLoggers[:5] {
			var ops []string
			for _, sz := range sizes {
				for _, fr := range []string{"cl", "chunked"} {
					var ms []*msggen.Abs
					var modes []string
					var links []int
					for i := 0; i < k; i++ {
						req := r.Bool()
						seed := r.U64() % 1000000
						kind := r.Pick("bin", "text")
						n := sz[i] + r.Intn(7)
						s := &msggen.Spec{Req: req, Method: "POST", URL: "http://h.example/m" + strconv.Itoa(i), Host: "h.example", Code: 200,
							Framing: fr, CT: "application/octet-stream", Payload: msggen.Payload(core.NewRand(seed), kind, n)}
						if n > 8192 {
							s.BodyTok = "gen:id:" + kind + ":" + itoa(int(seed)) + ":" + itoa(n)
						}
						if fr == "chunked" {
							s.Chunks = []int{1 + r.Intn(n+1)}
						}
						ms = append(ms, s.Abs())
						modes = append(modes, "p")
						links = append(links, -1)
					}
					ops = append(ops, multiOp(l.name, l.o1, l.o2, sched, ms, modes, links))
					core.Count("multi:directed")
				}
			}
			emit(ops)
		}
	}
	n := 160
	if tier == "thorough" {
		n = 2500
	}
	for c := 0; c < n; c++ {
		k := r.Range(2, 4)
		l := multiLoggers[r.Intn(len(multiLoggers))]
		o1, o2 := l.o1, l.o2
		if l.name == "har" && r.Chance(1, 3) {
			o1, o2 = HarSpec(r), HarSpec(r)
		}
		max := 20000
		if r.Chance(1, 8) {
			max = 200000
		}
		var ms []*msggen.Abs
		var modes []string
		var links []int
		for i := 0; i < k; i++ {
			s := msggen.Gen(r, r.Bool(), max)
			a := s.Abs()
			mode, link := r.Pick("p", "p", "p", "l"), -1
			if !a.Req && r.Bool() {
				for j := i - 1; j >= 0; j-- {
					if ms[j].Req {
						link = j // request and response of one exchange
						break
					}
				}
			}
			maybeMalform(r, a)
			ms = append(ms, a)
			modes = append(modes, mode)
			links = append(links, link)
			core.Count("multimsg:" + s.Class())
		}
		sched := Schedule(r, k, l.name != "har")
		if r.Chance(1, 5) {
			sched = "conc"
		}
		emit([]string{multiOp(l.name, o1, o2, sched, ms, modes, links)})
	}
}
