package c15

import (
	"bufio"
	"bytes"
	"io"

	"verif/harness/internal/core"
	"verif/harness/internal/golib"
)

// resnap ("h1.resnap"): the bytes of the last snapshot through the real http.ReadRequest /
// http.ReadResponse + io.ReadAll(Body), printed as the canonical line the Lean reader prints for
// the model's snapshot bytes (clause "the snapshot is a parseable HTTP message", with the parser
// inside the model).
func (e *ex) resnap() core.Result {
	if e.mv == nil || e.abs == nil {
		return core.Result{Impl: "no-snapshot"}
	}
	rd, err := e.mv.Reader()
	if err != nil {
		return core.Result{Impl: "err"}
	}
	snap, _ := io.ReadAll(rd)
	src := bytes.NewReader(snap)
	br := bufio.NewReader(src)
	var m *golib.H1Msg
	if e.abs.Req {
		m = golib.ReadReq(br)
	} else {
		m = golib.ReadRes(br, "GET")
	}
	core.Count("h1.resnap:" + m.Class)
	return core.Result{Impl: m.Line(br.Buffered() + src.Len())}
}
