package c15

import (
	"bufio"
	"bytes"
	"fmt"
	"io"
	"net/http"
	"strconv"
	"strings"

	"github.com/google/martian/v3"
	"github.com/google/martian/v3/har"
	"github.com/google/martian/v3/marbl"
	"github.com/google/martian/v3/martianlog"
	"github.com/google/martian/v3/messageview"

	"verif/harness/internal/core"
	"verif/harness/internal/msggen"
)

// Faults while the logger reads the body.
//
//	twinf <logger> <o1> <o2> <skiplog> <cut> <trusted> M...
//
// The message arrives broken off: its wire form is cut <cut> bytes after the blank line (the peer
// went away inside the body: an origin dropping the connection inside a chunked or Content-Length
// response, a client half-closing inside a chunked upload), so the body that net/http hands the
// proxy yields some prefix and then fails (for a close-delimited response the cut is just a shorter
// body: the control). The logged message and its unlogged twin are then both written out: the
// proxy forwards a message whatever its modifiers return. Compared: does Write fail, is what was
// written a complete (terminated) message, which body bytes went out before the error.
// The model is told what the twin's body yields (k bytes, error or not) and predicts record,
// logger error, and what the logged message still yields.

type faultObs struct {
	werr     bool   // Write returned an error
	complete bool   // what was written parses as a message whose body reads to a clean end
	body     []byte // decoded body bytes a receiver gets before the end / the error
	parseErr string
}

func observe(isReq bool, out []byte, werr error) faultObs {
	o := faultObs{werr: werr != nil}
	var body io.Reader
	if isReq {
		r, err := http.ReadRequest(bufio.NewReader(bytes.NewReader(out)))
		if err != nil {
			o.parseErr = err.Error()
			return o
		}
		body = r.Body
	} else {
		r, err := http.ReadResponse(bufio.NewReader(bytes.NewReader(out)), msggen.DummyReq())
		if err != nil {
			o.parseErr = err.Error()
			return o
		}
		body = r.Body
	}
	b, err := io.ReadAll(body)
	o.body = b
	o.complete = err == nil
	return o
}

type lut struct {
	modReq func(*http.Request) error
	modRes func(*http.Response) error
	har    *har.Logger
	rec    func(id string, isReq bool, modErr error) int
}

func newLut(logger, o1, o2 string) *lut {
	l := &lut{}
	switch logger {
	case "har":
		h := har.NewLogger()
		h.SetOption(harOpt(true, o1), harOpt(false, o2))
		l.har = h
		l.modReq, l.modRes = h.ModifyRequest, h.ModifyResponse
		l.rec = func(id string, isReq bool, _ error) int {
			for _, e := range h.Export().Log.Entries {
				if e.ID == id && (isReq || e.Response != nil) {
					return 1
				}
			}
			return 0
		}
	case "marbl":
		c := &logCapture{}
		m := marbl.NewModifier(c)
		l.modReq, l.modRes = m.ModifyRequest, m.ModifyResponse
		l.rec = func(string, bool, error) int {
			c.mu.Lock()
			defer c.mu.Unlock()
			if c.buf.Len() > 0 {
				return 1
			}
			return 0
		}
	case "text":
		t := martianlog.NewLogger()
		t.SetHeadersOnly(o1 == "1")
		t.SetDecode(o2 == "1")
		n := 0
		t.SetLogFunc(func(string) { n++ })
		l.modReq, l.modRes = t.ModifyRequest, t.ModifyResponse
		l.rec = func(string, bool, error) int {
			if n > 0 {
				return 1
			}
			return 0
		}
	case "snapshot":
		mk := func() *messageview.MessageView {
			mv := messageview.New()
			switch {
			case o1 == "1":
				mv.SkipBody(true)
			case strings.HasPrefix(o1, "ct:"):
				mv.SkipBodyUnlessContentType(ctsOf(o1[3:])...)
			}
			return mv
		}
		l.modReq = func(r *http.Request) error { return mk().SnapshotRequest(r) }
		l.modRes = func(r *http.Response) error { return mk().SnapshotResponse(r) }
		l.rec = func(_ string, _ bool, modErr error) int {
			if modErr == nil {
				return 1
			}
			return 0
		}
	default:
		return nil
	}
	return l
}

// CutWire returns the wire form of a cut <cut> bytes after the blank line, and the number of bytes
// of the body section (ok = false when the cut would not remove anything).
func CutWire(a *msggen.Abs, cut int) ([]byte, bool) {
	w := a.Wire()
	i := bytes.Index(w, []byte("\r\n\r\n"))
	if i < 0 {
		return nil, false
	}
	start := i + 4
	if cut < 0 || start+cut >= len(w) {
		return nil, false
	}
	return w[:start+cut], true
}

// BodySectionLen is the number of wire bytes after the blank line.
func BodySectionLen(a *msggen.Abs) int {
	w := a.Wire()
	i := bytes.Index(w, []byte("\r\n\r\n"))
	if i < 0 {
		return 0
	}
	return len(w) - i - 4
}

func twinFault(t []string) core.Result {
	if len(t) != 7+msggen.NTok {
		return core.Result{Impl: "bad-op"}
	}
	logger, o1, o2, skiplog := t[1], t[2], t[3], t[4] == "1"
	cut, err := strconv.Atoi(t[5])
	a, ok := msggen.FromTokens(t[7:])
	if err != nil || !ok {
		return core.Result{Impl: "bad-op"}
	}
	if t[6] != TrustedTok(a) {
		return core.Result{Impl: "trusted-mismatch " + TrustedTok(a)}
	}
	w, ok := CutWire(a, cut)
	if !ok {
		return core.Result{Impl: "bad-op"}
	}
	parseReq := func() *http.Request {
		r, err := http.ReadRequest(bufio.NewReader(bytes.NewReader(w)))
		if err != nil {
			return nil
		}
		return r
	}
	ctxReq := msggen.DummyReq()
	parseRes := func(req *http.Request) *http.Response {
		r, err := http.ReadResponse(bufio.NewReader(bytes.NewReader(w)), req)
		if err != nil {
			return nil
		}
		return r
	}
	var reqA, reqB *http.Request
	var resA, resB *http.Response
	// a third copy tells what the body yields before it fails
	var k int
	var bodyErr error
	if a.Req {
		reqA, reqB = parseReq(), parseReq()
		probe := parseReq()
		if reqA == nil || reqB == nil || probe == nil {
			return core.Result{Impl: "gen-mismatch head does not parse"}
		}
		b, err := io.ReadAll(probe.Body)
		k, bodyErr = len(b), err
		ctxReq = reqA
	} else {
		resA, resB = parseRes(ctxReq), parseRes(msggen.DummyReq())
		probe := parseRes(msggen.DummyReq())
		if resA == nil || resB == nil || probe == nil {
			return core.Result{Impl: "gen-mismatch head does not parse"}
		}
		b, err := io.ReadAll(probe.Body)
		k, bodyErr = len(b), err
	}
	e := 0
	if bodyErr != nil {
		e = 1
	}
	mt := append([]string(nil), t...)
	if e == 0 && k <= len(a.Body) {
		// a close-delimited response that is cut is just a shorter body: the verdicts of the trusted
		// parsers the model is given are those on the bytes that are really there
		short := *a
		short.Body = a.Body[:k]
		mt[6] = TrustedTok(&short)
	}
	modelOp := strings.Join(mt, " ") + fmt.Sprintf(" k=%d e=%d", k, e)

	lg := newLut(logger, o1, o2)
	if lg == nil {
		return core.Result{Impl: "bad-op"}
	}
	ctx, remove, err := martian.TestContext(ctxReq, nil, nil)
	if err != nil {
		return core.Result{Impl: "ctx-error"}
	}
	defer remove()
	if skiplog {
		ctx.SkipLogging()
	}
	var modErr, werrA, werrB error
	var outA, outB bytes.Buffer
	if a.Req {
		modErr = lg.modReq(reqA)
		werrA, werrB = reqA.Write(&outA), reqB.Write(&outB)
	} else {
		if lg.har != nil {
			lg.har.RecordRequest(ctx.ID(), ctxReq)
		}
		modErr = lg.modRes(resA)
		werrA, werrB = resA.Write(&outA), resB.Write(&outB)
	}
	rec := lg.rec(ctx.ID(), a.Req, modErr)
	oa, ob := observe(a.Req, outA.Bytes(), werrA), observe(a.Req, outB.Bytes(), werrB)
	bit := func(b bool) int {
		if b {
			return 1
		}
		return 0
	}
	core.Count(fmt.Sprintf("fault:%s:e=%d", logger, e))
	if e == 1 && k > 0 {
		core.Count("fault:prefix>0")
	}
	impl := fmt.Sprintf("fault rec=%d err=%d werr=%d complete=%d fwd=%d", rec, bit(modErr != nil), bit(oa.werr), bit(oa.complete), len(oa.body))
	ret := func(sig, f string, x ...interface{}) core.Result {
		return core.Result{Impl: impl, ModelOp: modelOp, Fail: fmt.Sprintf(f, x...), Sig: sig}
	}
	what := fmt.Sprintf("the body yields %d bytes and then %v", k, bodyErr)
	switch {
	case oa.parseErr != "" || ob.parseErr != "":
		if oa.parseErr != ob.parseErr {
			return ret("c15:body-fault-head-differs:"+logger, "%s: forwarded head does not parse alike: %q vs %q", what, oa.parseErr, ob.parseErr)
		}
	case ob.werr && !oa.werr, !ob.complete && oa.complete:
		return ret("c15:body-fault-masked:"+logger, "%s: the unlogged twin is forwarded broken off (Write error %v, complete=%v), the logged message as a complete one (Write error %v, complete=%v, %d body bytes)",
			what, werrB, ob.complete, werrA, oa.complete, len(oa.body))
	case oa.werr && !ob.werr, !oa.complete && ob.complete:
		return ret("c15:body-fault-introduced:"+logger, "%s: the unlogged twin is forwarded complete, the logged message broken off (Write error %v)", what, werrA)
	case !bytes.Equal(oa.body, ob.body):
		if bytes.HasPrefix(ob.body, oa.body) {
			// (the state of the code before /repo 5291428; its old known-finding sig is not reused, so
			// that a regression is reported as a violation whatever known_findings.json says)
			return ret("c15:body-fault-bytes-lost:"+logger, "%s: the unlogged twin forwards %d body bytes before it breaks off, the message logged by %s only %d (the logger consumed them)",
				what, len(ob.body), logger, len(oa.body))
		}
		return ret("c15:forwarded-differs:"+logger, "%s: body bytes forwarded before the break differ (%d vs %d bytes)", what, len(oa.body), len(ob.body))
	}
	if skiplog && rec != 0 && logger != "snapshot" {
		return ret("c15:skip-logging-recorded:"+logger, "exchange marked skip-logging was recorded by the %s logger", logger)
	}
	cause := ""
	if e == 1 {
		cause = "body-read-failed"
	} else {
		short := *a
		if k <= len(a.Body) {
			short.Body = a.Body[:k]
		}
		cause = errCause(logger, o1, o2, &short)
	}
	if r, bad := loggerErrorVerdict(logger, o1, o2, a, modErr, cause, impl); bad {
		r.ModelOp = modelOp
		return r
	}
	return core.Result{Impl: impl, ModelOp: modelOp}
}

// faultCases: messages with a framed body (chunked, Content-Length; close-delimited as the control),
// cut at every kind of place of the body section (inside a chunk-size line, inside chunk data, between
// chunks, inside / after the last-chunk, inside the trailers), under every logger, option kind and
// skip flag.
func faultCases(r *core.Rand, tier string, emit func([]string)) {
	n := 140
	if tier == "thorough" {
		n = 2500
	}
	type lgk struct{ name, o1, o2 string }
	loggers := []lgk{{"har", "all", "all"}, {"har", "none", "none"}, {"text", "0", "0"}, {"text", "0", "1"}, {"text", "1", "0"},
		{"snapshot", "0", "-"}, {"snapshot", "1", "-"}, {"marbl", "-", "-"}}
	for i := 0; i < n; i++ {
		var a *msggen.Abs
		var s *msggen.Spec
		for {
			s = msggen.Gen(r, r.Bool(), 3000)
			a = s.Abs()
			if BodySectionLen(a) > 1 && (a.Chunked() || a.CL > 0 || s.Framing == "eof") {
				break
			}
		}
		a.BodyTok = ""
		core.Count("faultmsg:" + s.Class())
		bl := BodySectionLen(a)
		var ops []string
		for j, m := 0, r.Range(2, 4); j < m; j++ {
			cut := r.Intn(bl)
			switch r.Intn(5) {
			case 0:
				cut = 0
			case 1:
				cut = bl - 1 - r.Intn(6)
				if cut < 0 {
					cut = 0
				}
			}
			l := loggers[r.Intn(len(loggers))]
			o1, o2 := l.o1, l.o2
			if l.name == "har" && r.Chance(1, 4) {
				o1, o2 = HarSpec(r), HarSpec(r)
			}
			if l.name == "snapshot" && r.Chance(1, 5) {
				o1 = "ct:" + ctsTok(drawCTs(r))
			}
			skip := "0"
			if l.name != "snapshot" && r.Chance(1, 5) {
				skip = "1"
			}
			ops = append(ops, strings.Join(append([]string{"twinf", l.name, o1, o2, skip, strconv.Itoa(cut), TrustedTok(a)}, a.Tokens()...), " "))
		}
		emit(ops)
	}
	// every cut position of one small chunked request and one small chunked response with trailers,
	// under every logger
	for _, req := range []bool{true, false} {
		s := &msggen.Spec{Req: req, Method: "POST", URL: "http://h.example/up", Host: "h.example", Code: 200, Framing: "chunked",
			CT: "text/plain", Payload: []byte("abcdefghij"), Chunks: []int{4, 3}, HasTr: true, Trailer: []msggen.KV{{K: "X-T", V: "v"}}}
		a := s.Abs()
		bl := BodySectionLen(a)
		for _, l := range loggers {
			var ops []string
			for cut := 0; cut < bl; cut++ {
				ops = append(ops, strings.Join(append([]string{"twinf", l.name, l.o1, l.o2, "0", strconv.Itoa(cut), TrustedTok(a)}, a.Tokens()...), " "))
			}
			emit(ops)
		}
	}
}
