package c15

import (
	"hash/fnv"
	"fmt"
	"strconv"
	"strings"

	"verif/harness/internal/core"
	"verif/harness/internal/golib"
	"verif/harness/internal/msggen"
)

var ctPrefixes = []string{"text/", "text/plain", "application/json", "image", "TEXT", "application/", "Application/JSON", "multipart/", "application/x-www-form-urlencoded", "zz/none"}

func drawCTs(r *core.Rand) []string {
	n := r.Range(1, 3)
	var out []string
	for i := 0; i < n; i++ {
		out = append(out, ctPrefixes[r.Intn(len(ctPrefixes))])
	}
	return out
}

// HarSpec draws a post-data / body logging option: all | none | in:<cts> | out:<cts>.
func HarSpec(r *core.Rand) string {
	switch r.Intn(6) {
	case 0, 1:
		return "all"
	case 2:
		return "none"
	case 3:
		return "in:" + ctsTok(drawCTs(r))
	default:
		return "out:" + ctsTok(drawCTs(r))
	}
}

// InflatedTok is the value of the trusted decompression parameter for the model: what
// gzip/flate give for this body ("na" when messageview does not decompress).
func InflatedTok(a *msggen.Abs) string {
	ce := a.Get("Content-Encoding")
	if !a.Req && (a.Code == 204 || a.Code == 206) {
		ce = ""
	}
	if ce != "gzip" && ce != "deflate" {
		return "na"
	}
	b, err := msggen.Inflate(ce, a.Body)
	if err != nil {
		return "err"
	}
	return BytesTok(b)
}

// BigTok is the size above which byte strings travel as h:<len>:<fnv64> instead of hex.
const BigTok = 1 << 20

// BytesTok renders a byte string for an op / observation line: hex, or length and hash when big.
func BytesTok(b []byte) string {
	if len(b) <= BigTok {
		return core.Hex(b)
	}
	h := fnv.New64a()
	h.Write(b)
	return fmt.Sprintf("h:%d:%016x", len(b), h.Sum64())
}

func twinOp(r *core.Rand, a *msggen.Abs, mode string) string {
	logger := r.Pick("har", "har", "marbl", "text", "text", "snapshot")
	if a.NilBody && logger == "marbl" {
		// domain: net/http never hands the proxy a nil Body (http.NoBody instead); marbl's body
		// wrapper dereferences it
		logger = "text"
	}
	o1, o2 := "-", "-"
	switch logger {
	case "har":
		o1, o2 = HarSpec(r), HarSpec(r)
	case "text":
		o1, o2 = r.Pick("0", "0", "1"), r.Pick("0", "1")
	case "snapshot":
		o1 = r.Pick("0", "0", "1", "ct:"+ctsTok(drawCTs(r)))
	}
	skip := "0"
	if logger != "snapshot" && r.Chance(1, 4) {
		skip = "1"
		if r.Chance(3, 4) {
			// the marking spelled out: any number of marks, from either side of the exchange
			return strings.Join(append([]string{"twinm", logger, o1, o2, DrawMarks(r, a.Req), mode, TrustedTok(a)}, a.Tokens()...), " ")
		}
	}
	return strings.Join(append([]string{"twinx", logger, o1, o2, skip, mode, TrustedTok(a)}, a.Tokens()...), " ")
}

// maybeMalform turns about one body-carrying twin message in four into one whose body does not
// parse as declared (form / multipart for requests, content coding for both directions).
func maybeMalform(r *core.Rand, a *msggen.Abs) {
	if !CarriesBody(a) || !r.Chance(1, 4) {
		return
	}
	kinds := BadKindsAny
	if a.Req && r.Chance(2, 3) {
		kinds = BadKindsReq
	}
	k := kinds[r.Intn(len(kinds))]
	Malform(r, a, k)
	core.Count("bad:" + k)
}

// badCases: every malformation x every logger (body capture on, and the options that avoid the
// failing parser) x Content-Length / chunked (/ close-delimited) framing.
func badCases(r *core.Rand, emit func([]string)) {
	type lg struct{ name, o1, o2 string }
	loggers := []lg{{"har", "all", "all"}, {"har", "in:" + ctsTok([]string{"multipart/", "application/x-www-form"}), "out:" + ctsTok([]string{"zz/none"})},
		{"har", "none", "none"}, {"marbl", "-", "-"}, {"text", "0", "0"}, {"text", "0", "1"}, {"text", "1", "1"}, {"snapshot", "0", "-"}}
	for _, req := range []bool{true, false} {
		kinds := BadKindsAny
		if req {
			kinds = append(append([]string{}, BadKindsReq...), BadKindsAny...)
		}
		for _, k := range kinds {
			for _, fr := range []string{"cl", "chunked", "eof"} {
				if req && fr == "eof" {
					continue
				}
				var ops []string
				for _, l := range loggers {
					s := &msggen.Spec{Req: req, Method: r.Pick("POST", "PUT"), URL: "http://h.example/up", Host: "h.example", Code: 200,
						Framing: fr, CT: "application/octet-stream", Payload: []byte("x")}
					if fr == "chunked" {
						s.Chunks = []int{1 + r.Intn(9), 1 + r.Intn(40)}
						if r.Chance(1, 3) {
							s.HasTr, s.Trailer = true, []msggen.KV{{K: "X-T", V: "v"}}
						}
					}
					a := s.Abs()
					Malform(r, a, k)
					core.Count("badcase:" + l.name)
					ops = append(ops, strings.Join(append([]string{"twinx", l.name, l.o1, l.o2, "0", "p", TrustedTok(a)}, a.Tokens()...), " "))
				}
				emit(ops)
			}
		}
	}
}

// bigCases: every logger with body capture on, on request and response, each framing, with a body
// just over 1 MiB (thorough: also 2 MiB and compressed) — a logger that truncates or re-frames a
// large body shows here.
func bigCases(r *core.Rand, tier string, emit func([]string)) {
	sizes := []int{1<<20 + 1}
	encs := []string{""}
	if tier == "thorough" {
		sizes = []int{1<<20 - 1, 1 << 20, 1<<20 + 1, 2 << 20}
		encs = []string{"", "gzip", "deflate", "br"}
	}
	type lg struct{ name, o1, o2 string }
	loggers := []lg{{"har", "all", "all"}, {"marbl", "-", "-"}, {"text", "0", "0"}, {"text", "0", "1"}, {"snapshot", "0", "-"}}
	for _, n := range sizes {
		for _, enc := range encs {
			for _, req := range []bool{true, false} {
				for _, fr := range []string{"cl", "chunked", "eof"} {
					if req && fr == "eof" {
						continue
					}
					var ops []string
					for _, l := range loggers {
						seed := r.U64() % 1000000
						kind := r.Pick("bin", "text")
						s := &msggen.Spec{Req: req, Method: "POST", URL: "http://h.example/big", Host: "h.example", Code: 200,
							Framing: fr, Enc: enc, CT: "application/octet-stream", Payload: msggen.Payload(core.NewRand(seed), kind, n)}
						e := "id"
						if enc == "gzip" || enc == "deflate" {
							e = enc
						}
						s.BodyTok = "gen:" + e + ":" + kind + ":" + strings.TrimSpace(strings.Join([]string{itoa(int(seed)), itoa(n)}, ":"))
						if fr == "chunked" {
							s.Chunks = []int{1 + r.Intn(70000), 1 + r.Intn(70000)}
						}
						core.Count("big:" + l.name)
						ab := s.Abs()
						ops = append(ops, strings.Join(append([]string{"twinx", l.name, l.o1, l.o2, "0", "p", TrustedTok(ab)}, ab.Tokens()...), " "))
					}
					emit(ops)
				}
			}
		}
	}
}

// labelBodiless: a message without a body that still carries a Content-Encoding label (a 304 or the
// reply to a HEAD repeats the representation's headers; a GET with a stray label): a decoder run over
// the empty body fails.
func labelBodiless(r *core.Rand, a *msggen.Abs) bool {
	if a.NilBody || len(a.Body) != 0 || a.Chunked() || a.CL > 0 {
		return false
	}
	if !a.Req {
		if a.CL < 0 { // close-delimited: an empty body, not a bodiless message
			return false
		}
		a.Code, a.Status = 304, "304 Not Modified"
		if a.Get("Content-Length") == "0" && r.Chance(1, 2) {
			a.Code, a.Status = 200, "200 OK" // an explicit empty body
		}
	}
	setHdr(a, "Content-Encoding", r.Pick("gzip", "deflate", "deflate"))
	core.Count("bodiless-with-label")
	return true
}

// warnCases: single-op cases in which the logger-error classes that exist on the unchanged tree (open
// findings: the proxy turns the logger's error into a Warning header) are reported.
func warnCases(r *core.Rand, emit func([]string)) {
	mk := func(req bool, fr string) *msggen.Abs {
		s := &msggen.Spec{Req: req, Method: "POST", URL: "http://h.example/w", Host: "h.example", Code: 200,
			Framing: fr, CT: "application/octet-stream", Payload: []byte("payload payload payload")}
		if fr == "chunked" {
			s.Chunks = []int{5}
		}
		return s.Abs()
	}
	x := func(logger, o1, o2 string, a *msggen.Abs) {
		emit([]string{strings.Join(append([]string{"twinxw", logger, o1, o2, "0", "p", TrustedTok(a)}, a.Tokens()...), " ")})
	}
	for _, k := range []string{"form-badpct", "mp-truncated"} {
		a := mk(true, "cl")
		Malform(r, a, k)
		x("har", "all", "all", a)
	}
	for _, k := range []string{"gzip-trunc-mid", "gzip-garbage", "deflate-garbage"} {
		a := mk(false, r.Pick("cl", "chunked"))
		Malform(r, a, k)
		x("har", "all", "all", a)
	}
	for _, k := range []string{"gzip-garbage", "gzip-empty"} {
		a := mk(r.Bool(), "cl")
		Malform(r, a, k)
		x("text", "0", "1", a)
	}
	a := mk(false, "cl")
	setHdr(a, "Content-Encoding", "gzip")
	setBody(a, msggen.Gzip([]byte("fine")))
	x("text", "1", "1", a) // headers-only + decode: gzip is opened on the empty body section
	for _, l := range [][3]string{{"har", "all", "all"}, {"text", "0", "0"}} {
		for _, req := range []bool{true, false} {
			a := mk(req, "chunked")
			emit([]string{strings.Join(append([]string{"twinfw", l[0], l[1], l[2], "0", "9", TrustedTok(a)}, a.Tokens()...), " ")})
		}
	}
}

// constructedCases: messages that were never on the wire, field by field: ContentLength in {-1, 0, n}
// x Body present / absent x TransferEncoding nil / chunked, requests and responses, under every logger.
func constructedCases(r *core.Rand, emit func([]string)) {
	type lg struct{ name, o1, o2 string }
	loggers := []lg{{"har", "all", "all"}, {"har", "none", "none"}, {"text", "0", "0"}, {"text", "0", "1"}, {"text", "1", "0"},
		{"snapshot", "0", "-"}, {"marbl", "-", "-"}}
	for _, req := range []bool{true, false} {
		for _, te := range []bool{false, true} {
			var ops []string
			for _, cl := range []int64{-1, 0, 23} {
				for _, body := range []bool{true, false} {
					for _, l := range loggers {
						a := &msggen.Abs{Req: req, Major: 1, Minor: 1, NilTrailer: true, CL: cl,
							Hdr: []msggen.KV{{K: "Content-Type", V: r.Pick("text/plain", "application/octet-stream")}, {K: "X-A", V: "1"}}}
						if req {
							a.Method, a.URL, a.Host = r.Pick("POST", "PUT"), "http://h.example/c", "h.example"
						} else {
							a.Code, a.Status = 200, "200 OK"
						}
						if te {
							a.TE = []string{"chunked"}
						}
						if body {
							a.Body = []byte("constructed body bytes.")
						} else {
							a.Body = nil // a Body that is present but empty (a nil Body is outside the domain)
						}
						core.Count("constructed:directed")
						ops = append(ops, strings.Join(append([]string{"twinx", l.name, l.o1, l.o2, "0", "d", TrustedTok(a)}, a.Tokens()...), " "))
					}
				}
			}
			emit(ops)
		}
	}
}

// hugeCases: size thresholds. A logger (or the view it builds) may treat bodies differently beyond
// some limit - a look-ahead buffer, a cap on what is kept for the log - and get the boundary wrong by
// one. Bodies around powers of two up to 64 MiB, 16 MiB +-1 above all, for every framing and logger;
// the op carries only a seed and a length (gen:...), the model does not look into the body.
func hugeCases(r *core.Rand, tier string, emit func([]string)) {
	type lg struct{ name, o1, o2 string }
	type shape struct {
		req bool
		fr  string
	}
	mk := func(n int, sh shape, l lg) string {
		seed := r.U64() % 1000000
		s := &msggen.Spec{Req: sh.req, Method: "POST", URL: "http://h.example/huge", Host: "h.example", Code: 200,
			Framing: sh.fr, CT: "application/octet-stream", Payload: msggen.Payload(core.NewRand(seed), "bin", n)}
		s.BodyTok = "gen:id:bin:" + itoa(int(seed)) + ":" + itoa(n)
		if sh.fr == "chunked" {
			s.Chunks = []int{1 + r.Intn(70000), 1 + r.Intn(1<<20)}
		}
		core.Count("huge:" + l.name)
		ab := s.Abs()
		return strings.Join(append([]string{"twinx", l.name, l.o1, l.o2, "0", "p", TrustedTok(ab)}, ab.Tokens()...), " ")
	}
	const M = 1 << 20
	if tier != "thorough" {
		for _, sh := range []shape{{false, "chunked"}, {false, "eof"}, {true, "chunked"}} {
			emit([]string{mk(16*M+1, sh, lg{"har", "all", "all"})})
		}
		emit([]string{mk(16*M+1, shape{false, "chunked"}, lg{"text", "0", "0"})})
		return
	}
	loggers := []lg{{"har", "all", "all"}, {"text", "0", "0"}, {"marbl", "-", "-"}, {"snapshot", "0", "-"}}
	shapes := []shape{{false, "chunked"}, {false, "eof"}, {false, "cl"}, {true, "chunked"}, {true, "cl"}}
	for _, n := range []int{16*M - 1, 16 * M, 16*M + 1, 32*M + 1} {
		for _, sh := range shapes {
			for _, l := range loggers {
				emit([]string{mk(n, sh, l)})
			}
		}
	}
	for _, n := range []int{4*M + 1, 8*M - 1, 8*M + 1, 32*M - 1, 32 * M, 64 * M, 64*M + 1} {
		for _, sh := range []shape{{false, "chunked"}, {false, "eof"}, {true, "chunked"}} {
			emit([]string{mk(n, sh, loggers[0])})
		}
		emit([]string{mk(n, shape{false, "chunked"}, loggers[1])})
	}
}

func itoa(n int) string { return strconv.Itoa(n) }

func (P) Gen(r *core.Rand, tier string, emit func([]string)) {
	// the HTTP/1 reader of the model against net/http (wires of msggen and of golib's own serialiser)
	hr := r.Fork()
	for i, k := 0, map[bool]int{true: 300, false: 30}[tier == "thorough"]; i < k; i++ {
		emit(golib.GenH1Read(hr, 4000))
	}
	bigCases(r.Fork(), tier, emit)
	hugeCases(r.Fork(), tier, emit)
	warnCases(r.Fork(), emit)
	constructedCases(r.Fork(), emit)
	badCases(r.Fork(), emit)
	multiCases(r.Fork(), tier, emit)
	faultCases(r.Fork(), tier, emit)
	n := 350
	if tier == "thorough" {
		n = 4000
	}
	for i := 0; i < n; i++ {
		req := r.Bool()
		maxSnap := 4200
		if tier == "thorough" && r.Chance(1, 40) {
			maxSnap = 70000
		}
		s := msggen.Gen(r, req, maxSnap)
		s.BodyTok = ""
		a := s.Abs()
		core.Count("msg:" + s.Class())
		var ops []string
		mode := "p"
		if r.Chance(1, 8) {
			// constructed structs: nil body, or an empty non-nil trailer map
			mode = "d"
			if !a.Chunked() && len(a.Body) == 0 && r.Bool() {
				a.NilBody = true
			}
			if a.Chunked() && a.NilTrailer && r.Bool() {
				a.NilTrailer = false
			}
		}
		if mode == "p" && r.Chance(1, 6) {
			mode = "l" // repeated field names spelled in different case on the wire
		}
		if mode == "p" && r.Chance(1, 10) {
			// struct fields that disagree with same-named keys of the header map: the snapshot, like
			// the wire, carries the fields
			if label, m := msggen.Disagree(r, a); label != "" {
				mode = m
				core.Count("disagree:" + label)
			}
		}
		skip, cts := "0", "-"
		switch r.Intn(10) {
		case 0, 1:
			skip = "1"
		case 2, 3, 4:
			skip, cts = "ct", ctsTok(drawCTs(r))
		}
		ops = append(ops, strings.Join(append([]string{"snap", mode, skip, cts}, a.Tokens()...), " "))
		ops = append(ops, "sections")
		ops = append(ops, "h1.resnap") // the snapshot bytes through the real and the modelled reader
		ops = append(ops, "decode "+InflatedTok(a))
		// twins on the same message and on a bigger one
		ops = append(ops, twinOp(r, a, mode))
		maxTwin := 65536
		if tier == "thorough" && r.Chance(1, 3) {
			maxTwin = 2 << 20
		} else if r.Chance(1, 10) {
			maxTwin = 1<<20 + 4096
		}
		for k := 0; k < 2; k++ {
			b := msggen.Gen(r, r.Bool(), maxTwin)
			ab := b.Abs()
			m := "p"
			if r.Chance(1, 6) {
				m = "d"
				if !ab.Chunked() && len(ab.Body) > 0 && r.Chance(2, 3) {
					// messages that were not parsed off the wire (a modifier replaced the body,
					// proxyutil.NewResponse for a skipped round trip, http.NewRequest with a stream):
					// net/http's "unknown length" is ContentLength -1 or 0 with a non-empty Body and no
					// TransferEncoding; it decides the framing when it writes the message
					ab.CL = int64(r.Pick2(-1, 0))
					core.Count(fmt.Sprintf("constructed:cl=%d+body", ab.CL))
				}
				if r.Bool() {
					// the same field name under keys of different case in the map (a modifier wrote
					// req.Header["cookie"] directly): separate lines, all of them forwarded
					ab.Hdr = append(ab.Hdr, msggen.KV{K: r.Pick("cookie", "x-rep", "authorization"), V: "low=1"},
						msggen.KV{K: "x-rep", V: "lower"})
				}
			} else if r.Chance(1, 6) {
				m = "l"
			}
			core.Count("twinmsg:" + b.Class())
			if m == "p" && r.Chance(1, 3) {
				labelBodiless(r, ab)
			}
			maybeMalform(r, ab)
			ops = append(ops, twinOp(r, ab, m))
		}
		emit(ops)
	}
}
