package c15

import (
	"net/http"
	"strings"

	"github.com/google/martian/v3"
	"github.com/google/martian/v3/api"

	"verif/harness/internal/core"
)

// Context flag operations of one exchange. A marks token is "<pre>/<post>": the operations made on
// the exchange's context before the request side of the loggers runs, and those made between the
// request side and the response side; each a '+'-separated list of
//
//	s  martian.NewContext(req).SkipLogging()   (a stateless "do not log this" modifier)
//	r  martian.NewContext(req).SkipRoundTrip()
//	a  martian.NewContext(req).APIRequest()
//	f  api.NewForwarder("", 8181).ModifyRequest(req)   (marks APIRequest + SkipLogging, rewrites the URL)
//
// or "-" for none. Setting a flag is idempotent: any number >= 1 of marks means "marked".
type marks struct {
	tok       string
	pre, post []byte
}

func parseMarkList(s string) ([]byte, bool) {
	if s == "-" || s == "" {
		return nil, true
	}
	var out []byte
	for _, x := range strings.Split(s, "+") {
		if len(x) != 1 || !strings.Contains("sraf", x) {
			return nil, false
		}
		out = append(out, x[0])
	}
	return out, true
}

func parseMarks(tok string) (*marks, bool) {
	p := strings.Split(tok, "/")
	if len(p) != 2 {
		return nil, false
	}
	pre, ok1 := parseMarkList(p[0])
	post, ok2 := parseMarkList(p[1])
	if !ok1 || !ok2 {
		return nil, false
	}
	return &marks{tok: tok, pre: pre, post: post}, true
}

func marksSkip(l []byte) int {
	n := 0
	for _, c := range l {
		if c == 's' || c == 'f' {
			n++
		}
	}
	return n
}

// skips: is the exchange marked skip-logging by the time the logger sees this message? (a request
// is logged on the request side: only the marks made before count)
func (m *marks) skips(isReq bool) bool {
	if isReq {
		return marksSkip(m.pre) > 0
	}
	return marksSkip(m.pre)+marksSkip(m.post) > 0
}

func (m *marks) skipsAnywhere() bool { return marksSkip(m.pre)+marksSkip(m.post) > 0 }
func (m *marks) count() int          { return marksSkip(m.pre) + marksSkip(m.post) }

func (m *marks) class() string {
	n := m.count()
	side := "none"
	switch {
	case marksSkip(m.pre) > 0 && marksSkip(m.post) > 0:
		side = "both-sides"
	case marksSkip(m.pre) > 0:
		side = "request-side"
	case marksSkip(m.post) > 0:
		side = "response-side"
	}
	if n > 3 {
		n = 3
	}
	return side + ":" + string(rune('0'+n))
}

var forwarder = api.NewForwarder("", 8181)

func applyMark(c byte, req *http.Request) {
	switch c {
	case 's':
		martian.NewContext(req).SkipLogging()
	case 'r':
		martian.NewContext(req).SkipRoundTrip()
	case 'a':
		martian.NewContext(req).APIRequest()
	case 'f':
		forwarder.ModifyRequest(req)
	}
}

func flagsTok(ctx *martian.Context) string {
	b := func(x bool) string {
		if x {
			return "1"
		}
		return "0"
	}
	return b(ctx.SkippingRoundTrip()) + b(ctx.SkippingLogging()) + b(ctx.IsAPIRequest())
}

// DrawMarks draws a marks token: mostly few operations, any multiplicity 1..4 of the skip-logging
// mark, from the request side, the response side or both, mixed with the other flags.
func DrawMarks(r *core.Rand, isReq bool) string {
	draw := func(max int) string {
		n := r.Intn(max + 1)
		if n == 0 {
			return "-"
		}
		var l []string
		for i := 0; i < n; i++ {
			l = append(l, r.Pick("s", "s", "s", "f", "r", "a"))
		}
		return strings.Join(l, "+")
	}
	pre, post := "-", "-"
	switch r.Intn(4) {
	case 0:
		pre = draw(4)
	case 1:
		if !isReq {
			post = draw(4)
		} else {
			pre = draw(2)
		}
	case 2:
		pre = draw(3)
		if !isReq {
			post = draw(3)
		}
	default:
		pre = r.Pick("s", "s+s", "s+s+s", "f+s", "s+f", "r+s+a+s", "s+s+s+s", "a+r", "r+r", "a+a")
	}
	return pre + "/" + post
}
