package pxy

// Modifiers that use the PUBLIC session / context API during an exchange, and what later exchanges of
// the same connection see of it.
//   * Every scripted request modifier call stores a value in the session (Session.Set) and first reads
//     back the values of all earlier exchanges of the connection: "the session is shared by all
//     exchanges of one connection" means its storage too - across CONNECT, the TLS upgrade, nested
//     tunnels (C02 / C05). It also stores a value in the per-exchange context, which the response
//     modifier of the same exchange must find (C02: both see the same context).
//   * rq=insec: the request modifier calls Session.MarkInsecure() and returns nil; sapi=insec: the
//     response modifier does. Requests decrypted from TLS afterwards are https on a secure session all
//     the same (C05), plain ones stay plain.
//   * api=skiplog / api=marksec: Context.SkipLogging(), Session.MarkSecure() on a session that is
//     secure already - calls without any effect the proxy may show.
//   * api=…,skiprt,…,apireq,…: ORDERED combinations of the context calls SkipRoundTrip, SkipLogging,
//     APIRequest on one exchange (with rq=skip the SkipRoundTrip call is the one in the list, or comes
//     first when the list has none); afterwards every flag's getter must report the union of the
//     calls, and "skip" must still mean zero upstream contact.

import (
	"strings"

	"github.com/google/martian/v3"
)

const ctxValueKey = "verif-ctx-value"

func sessKey(id string) string { return "verif-session-value-" + id }

// sessionValues runs inside the request modifier of a scripted exchange, w.mu held.
func (w *world) sessionValues(id string, r *exRec, ctx *martian.Context) {
	if ctx == nil {
		return
	}
	s := ctx.Session()
	for oid, o := range w.recs {
		if oid == id || o.reqmod == 0 || !o.storedValue {
			continue
		}
		r.svWant++
		if v, ok := s.Get(sessKey(oid)); ok && v == oid {
			r.svSeen++
		} else if len(r.svLost) < 200 {
			r.svLost += " " + oid
		}
	}
	s.Set(sessKey(id), id)
	r.storedValue = true
	ctx.Set(ctxValueKey, id)
}

// apiCalls performs the calls scripted by api= (request side) / sapi= (response side).
func apiCalls(list string, ctx *martian.Context) {
	if ctx == nil {
		return
	}
	for _, a := range strings.Split(list, ",") {
		switch a {
		case "skiplog":
			ctx.SkipLogging()
		case "marksec":
			ctx.Session().MarkSecure()
		case "insec":
			ctx.Session().MarkInsecure()
		case "skiprt":
			ctx.SkipRoundTrip()
		case "apireq":
			ctx.APIRequest()
		}
	}
}

// wantFlags: the context flags after the request modifier's calls, from the script alone: every call
// sets its own flag and no call clears another's (skip round trip, skip logging, API request).
func wantFlags(it *item) string {
	rt, lg, ap := false, false, false
	switch it.s("rq", "pass") {
	case "skip", "errskip":
		rt = true
	}
	for _, a := range strings.Split(it.s("api", ""), ",") {
		switch a {
		case "skiprt":
			rt = true
		case "skiplog":
			lg = true
		case "apireq":
			ap = true
		}
	}
	return b01(rt) + b01(lg) + b01(ap)
}

func seenFlags(ctx *martian.Context) string {
	if ctx == nil {
		return "---"
	}
	return b01(ctx.SkippingRoundTrip()) + b01(ctx.SkippingLogging()) + b01(ctx.IsAPIRequest())
}
