package pxy

// Modifiers that use the PUBLIC session / context API during an exchange, and what later exchanges of
// the same connection see of it.
//   * Every scripted request modifier call stores a value in the session (Session.Set) and first reads
//     back the values of all earlier exchanges of the connection: "the session is shared by all
//     exchanges of one connection" means its storage too - across CONNECT, the TLS upgrade, nested
//     tunnels (C02 / C05). It also stores a value in the per-exchange context, which the response
//     modifier of the same exchange must find (C02: both see the same context).
//   * rq=insec: the request modifier calls Session.MarkInsecure() and returns nil; sapi=insec: the
//     response modifier does. Requests decrypted from TLS afterwards are https on a secure session all
//     the same (C05), plain ones stay plain.
//   * api=skiplog / api=marksec: Context.SkipLogging(), Session.MarkSecure() on a session that is
//     secure already - calls without any effect the proxy may show.

import (
	"strings"

	"github.com/google/martian/v3"
)

const ctxValueKey = "verif-ctx-value"

func sessKey(id string) string { return "verif-session-value-" + id }

// sessionValues runs inside the request modifier of a scripted exchange, w.mu held.
func (w *world) sessionValues(id string, r *exRec, ctx *martian.Context) {
	if ctx == nil {
		return
	}
	s := ctx.Session()
	for oid, o := range w.recs {
		if oid == id || o.reqmod == 0 || !o.storedValue {
			continue
		}
		r.svWant++
		if v, ok := s.Get(sessKey(oid)); ok && v == oid {
			r.svSeen++
		} else if len(r.svLost) < 200 {
			r.svLost += " " + oid
		}
	}
	s.Set(sessKey(id), id)
	r.storedValue = true
	ctx.Set(ctxValueKey, id)
}

// apiCalls performs the calls scripted by api= (request side) / sapi= (response side).
func apiCalls(list string, ctx *martian.Context) {
	if ctx == nil {
		return
	}
	for _, a := range strings.Split(list, ",") {
		switch a {
		case "skiplog":
			ctx.SkipLogging()
		case "marksec":
			ctx.Session().MarkSecure()
		case "insec":
			ctx.Session().MarkInsecure()
		}
	}
}
