package pxy

// Wire-level attributes of an exchange that decide whether a connection is kept alive: the protocol
// version on the request and status line and the tokens of the Connection header on either side,
// and how the response that reaches the client is delimited.
//
// op keys of an `x` item (all optional, the legacy keys rc=/oc= keep their meaning when absent):
//   pv=10|11     protocol version the client speaks                       (default 11)
//   ct=<hex>|-   the client's Connection header lines, joined by "\n"      (default: "close" iff rc=1)
//   opv=10|11    protocol version of the origin's status line             (default 11)
//   oct=<hex>|-  the origin's Connection header lines                      (default: "close" iff oc=1)
// Model counterpart: lean/Martian/Model/ProxyWire.lean (shouldClose, resClose, writeAttr).

import (
	"bufio"
	"bytes"
	"fmt"
	"io"
	"net/http"
	"strings"

	"verif/harness/internal/core"
)

func protoOf(v string) string {
	if v == "10" {
		return "HTTP/1.0"
	}
	return "HTTP/1.1"
}

// connLines returns the Connection header lines of one side of an exchange.
func connLines(it *item, key, legacyKey string) []string {
	if v, ok := it.kv[key]; ok {
		if v == "-" || v == "" {
			return nil
		}
		b, ok := core.Unhex(v)
		if !ok {
			return nil
		}
		return strings.Split(string(b), "\n")
	}
	if it.s(legacyKey, "0") == "1" {
		return []string{"close"}
	}
	return nil
}

func writeConnLines(b *bytes.Buffer, lines []string) {
	for _, l := range lines {
		fmt.Fprintf(b, "Connection: %s\r\n", l)
	}
}

// listsToken: does a comma separated header list (any of its lines) contain the token? Written from
// RFC 9110 5.6.1 (list elements separated by commas, optional white space around them, tokens are
// case-insensitive), not from net/http's implementation: this is the oracle's reading of "asked to close".
func listsToken(lines []string, token string) bool {
	for _, l := range lines {
		for _, el := range strings.Split(l, ",") {
			if strings.EqualFold(strings.Trim(el, " \t"), token) {
				return true
			}
		}
	}
	return false
}

// askedClose: does a message of this version with these Connection lines ask for the connection to
// be closed after it? HTTP/1.1 is persistent unless "close"; HTTP/1.0 is not unless "keep-alive".
func askedClose(pv string, lines []string) bool {
	if listsToken(lines, "close") {
		return true
	}
	if pv == "10" {
		return !listsToken(lines, "keep-alive")
	}
	return false
}

// clientAsksClose / originAsksClose: the two "either side asked to close" inputs of C01's last
// clause, read off the script alone.
func clientAsksClose(it *item) bool {
	return askedClose(it.s("pv", "11"), connLines(it, "ct", "rc"))
}

func originAsksClose(it *item) bool {
	if askedClose(it.s("opv", "11"), connLines(it, "oct", "oc")) {
		return true
	}
	// a body that is delimited by the end of the connection
	return it.s("of", "cl") == "close" && !bodiless(it.s("m", "GET"), it.n("st", 200))
}

// framingSeen names how the response the client parsed was delimited.
func framingSeen(method string, res *http.Response) string {
	switch {
	case bodiless(method, res.StatusCode):
		return "none"
	case len(res.TransferEncoding) > 0 && res.TransferEncoding[0] == "chunked":
		return "ch"
	case res.ContentLength >= 0:
		return "cl"
	}
	return "eof"
}

// ---------- differential ops for the model's wire functions (no proxy involved) ----------

// doWireOp runs `h1.reqclose` / `h1.reswrite` against the real net/http.
//   h1.reqclose <pv> <ct>                      -> close=<0|1>      (Request.Close as http.ReadRequest computes it)
//   h1.reswrite <method> <st> <opv> <oct> <of> <askclose>
//        -> rclose=<0|1> pv=<10|11> fr=<cl|ch|eof|none> cm=<0|1>
// the origin's response is parsed by http.ReadResponse, `Close` is raised like handle() does when
// <askclose>=1 (request close / shutdown), the response is written by Response.Write and parsed
// again the way a client would.
func doWireOp(toks []string) (string, bool) {
	switch toks[0] {
	case "h1.reqclose":
		if len(toks) != 3 {
			return "bad-op", true
		}
		it := &item{kv: map[string]string{"pv": toks[1], "ct": toks[2]}}
		var b bytes.Buffer
		fmt.Fprintf(&b, "GET / %s\r\nHost: a\r\n", protoOf(toks[1]))
		writeConnLines(&b, connLines(it, "ct", "rc"))
		b.WriteString("\r\n")
		req, err := http.ReadRequest(bufio.NewReader(&b))
		if err != nil {
			return "error", true
		}
		return "close=" + b01(req.Close), true
	case "h1.reswrite":
		if len(toks) != 7 {
			return "bad-op", true
		}
		it := &item{kv: map[string]string{"m": toks[1], "st": toks[2], "opv": toks[3], "oct": toks[4], "of": toks[5], "ob": "5", "o": "ok"}}
		full, _ := originResponse("w", it)
		res, err := http.ReadResponse(bufio.NewReader(bytes.NewReader(full)), &http.Request{Method: toks[1]})
		if err != nil {
			return "error", true
		}
		rclose := res.Close
		if toks[6] == "1" || res.Close {
			res.Close = true
		}
		var out bytes.Buffer
		if err := res.Write(&out); err != nil {
			return "write-error", true
		}
		got, err := http.ReadResponse(bufio.NewReader(&out), &http.Request{Method: toks[1]})
		if err != nil {
			return "reparse-error", true
		}
		io.Copy(io.Discard, got.Body)
		return fmt.Sprintf("rclose=%s pv=%d%d fr=%s cm=%s", b01(rclose), got.ProtoMajor, got.ProtoMinor, framingSeen(toks[1], got), b01(got.Close)), true
	}
	return "", false
}

// connTokenSets is the class of Connection header contents: absent, each token in several
// spellings, lists with other members, several lines, optional white space, and near misses that
// are NOT the token.
var connTokenSets = [][]string{
	nil, nil, nil,
	{"close"}, {"Close"}, {"CLOSE"}, {" close "}, {"close,"},
	{"keep-alive"}, {"Keep-Alive"}, {"KEEP-ALIVE"}, {"\tkeep-alive"},
	{"keep-alive, close"}, {"close, keep-alive"}, {"keep-alive", "close"},
	{"x-verif-hop"}, {"x-verif-hop, keep-alive"}, {"x-verif-hop,close"}, {"x-verif-hop", "keep-alive"},
	{"closed"}, {"keep-alivee"}, {"x-close"}, {"close;q=1"}, {"keepalive"},
}

func hexLines(lines []string) string {
	if len(lines) == 0 {
		return "-"
	}
	return core.HexS(strings.Join(lines, "\n"))
}

// pickConn picks Connection lines; want: 0 = anything, 1 = must not end the connection for this version.
func pickConn(r *core.Rand, pv string, keepOpen bool) []string {
	for {
		c := connTokenSets[r.Intn(len(connTokenSets))]
		if keepOpen && askedClose(pv, c) {
			continue
		}
		return c
	}
}

// GenWireOps emits the differential ops of the wire functions.
func GenWireOps(r *core.Rand, n int) []string {
	var ops []string
	for i := 0; i < n; i++ {
		pv := r.Pick("10", "11")
		ops = append(ops, "h1.reqclose "+pv+" "+hexLines(connTokenSets[r.Intn(len(connTokenSets))]))
		m := r.Pick("GET", "GET", "POST", "HEAD")
		st := r.Pick("200", "200", "404", "204", "304")
		opv := r.Pick("10", "11", "11")
		of := r.Pick("cl", "ch", "close")
		if opv == "10" && of == "ch" {
			of = "cl"
		}
		ops = append(ops, fmt.Sprintf("h1.reswrite %s %s %s %s %s %s", m, st, opv, hexLines(connTokenSets[r.Intn(len(connTokenSets))]), of, b01(r.Chance(1, 3))))
	}
	return ops
}
