package pxy

// A downstream proxy (Proxy.SetDownstreamProxy) and what it answers to the CONNECT the proxy relays
// to it: "tunnel established", complete refusals and redirects with and without bodies (2xx other
// than 200, 3xx, 4xx, 5xx; Content-Length, chunked, none), answers cut inside the status line,
// bytes that are not HTTP, an immediate hang-up, a refused dial. Whatever it is, the client gets a
// well-formed response - the downstream proxy's own or a 502 with a Warning - and the proxy process
// lives (C03: "no failure terminates the proxy process"; a crash is reported by the runner with the
// case that was running).
//
// conn dsp=1; `cblind … dsr=<kind>` (sequential client).

import (
	"bufio"
	"fmt"
	"io"
	"net"
	"net/http"
	"strings"
	"time"
)

// DownstreamAnswers: the generated kinds. The ones after "200" up to "503c" are complete answers.
var DownstreamAnswers = []string{"200", "200cl", "204", "301b", "403b", "403", "407", "429b", "500b", "502", "503c",
	"trunc", "garbage", "close", "refuse"}

// dsrFails: kinds for which the relayed CONNECT fails before a complete answer (the proxy's own 502).
func dsrFails(k string) bool {
	return k == "trunc" || k == "garbage" || k == "close" || k == "refuse"
}

func dsrStatus(k string) int {
	var st int
	fmt.Sscanf(k, "%d", &st)
	return st
}

func (e *Ex) serveDownstream(l net.Listener) {
	for {
		c, err := l.Accept()
		if err != nil {
			return
		}
		go e.downstreamConn(c)
	}
}

func (e *Ex) downstreamConn(c net.Conn) {
	defer c.Close()
	c.SetDeadline(time.Now().Add(10 * time.Second))
	br := bufio.NewReader(c)
	req, err := http.ReadRequest(br)
	if err != nil || req.Method != "CONNECT" {
		return
	}
	e.w.mu.Lock()
	kind := "200"
	if it, ok := e.w.items[e.w.current]; ok {
		kind = it.s("dsr", "200")
	}
	e.w.mu.Unlock()
	body := "the downstream proxy says no\n"
	switch kind {
	case "200":
		io.WriteString(c, "HTTP/1.1 200 Connection established\r\n\r\n")
		io.Copy(c, br) // the tunnel: an echo
	case "200cl":
		io.WriteString(c, "HTTP/1.1 200 OK\r\nContent-Length: 0\r\n\r\n")
		io.Copy(c, br)
	case "204":
		io.WriteString(c, "HTTP/1.1 204 No Content\r\n\r\n")
		io.Copy(c, br)
	case "301b", "403b", "429b", "500b":
		st := dsrStatus(kind)
		fmt.Fprintf(c, "HTTP/1.1 %d %s\r\nLocation: http://elsewhere.test/\r\nContent-Type: text/plain\r\nContent-Length: %d\r\n\r\n%s", st, http.StatusText(st), len(body), body)
	case "403", "502":
		st := dsrStatus(kind)
		fmt.Fprintf(c, "HTTP/1.1 %d %s\r\nContent-Length: 0\r\n\r\n", st, http.StatusText(st))
	case "407":
		io.WriteString(c, "HTTP/1.1 407 Proxy Authentication Required\r\nProxy-Authenticate: Basic realm=\"downstream\"\r\nContent-Length: 0\r\n\r\n")
	case "503c":
		fmt.Fprintf(c, "HTTP/1.1 503 Service Unavailable\r\nRetry-After: 1\r\nTransfer-Encoding: chunked\r\n\r\n%x\r\n%s\r\n0\r\n\r\n", len(body), body)
	case "trunc":
		io.WriteString(c, "HTTP/1.1 40")
	case "garbage":
		io.WriteString(c, "\x00\x01\x02 this is not HTTP \r\n\r\n")
	default: // close
	}
}

// downstreamDial: the dial toward the downstream proxy, attributed to the exchange being driven.
func (e *Ex) downstreamDial(addr string) (refuse bool) {
	if e.downAddr == "" || addr != e.downAddr {
		return false
	}
	w := e.w
	if it, ok := w.items[w.current]; ok {
		r := w.rec(w.current)
		r.dialed++
		r.upSeq = w.next()
		return it.s("dsr", "200") == "refuse"
	}
	return false
}

func isDownstreamComplete(k string) bool { return k != "" && !dsrFails(k) && !strings.HasPrefix(k, "200") }
