package pxy

// Origin behaviour on REUSED upstream connections. The proxy's transport keeps connections to the
// origin in a pool; an origin may give up such a connection at the very moment it is used again
// (keep-alive idle timeout race): it reads the request and closes without answering. http.Transport
// then retries on a fresh connection when it can replay the request - bodiless and idempotent (GET,
// HEAD, OPTIONS, TRACE) - so the client must get the origin's answer (C01); a request it cannot
// replay ends as a 502 (C03). Whether a connection really was reused is an observation of the run;
// it is handed to the model with the `end` op (`dropped=<indices>`).
//
// op key of an `x` item: oi=drop.

import (
	"fmt"
	"net/http"
	"strings"
)

func replayable(it *item) bool {
	switch it.s("m", "GET") {
	case "GET", "HEAD", "OPTIONS", "TRACE":
		return it.n("rb", 0) == 0
	}
	return false
}

// dropReused: should the origin drop this connection instead of answering?
func (e *Ex) dropReused(req *http.Request, servedOnConn int) bool {
	if servedOnConn == 0 {
		return false
	}
	id := req.Header.Get(idHeader)
	w := e.w
	w.mu.Lock()
	defer w.mu.Unlock()
	it := w.items[id]
	if it == nil || it.s("oi", "") != "drop" || it.s("o", "ok") != "ok" {
		return false
	}
	r := w.rec(id)
	if r.dropped > 0 { // once per exchange: the retry is answered even if it lands on a reused connection too
		return false
	}
	r.dropped++
	r.dialed++ // upstream contact, but nothing the origin answered
	r.upSeq = w.next()
	return true
}

// endHint: the `end` line the model gets - the op plus what the run observed about reuse.
func (e *Ex) endHint() string {
	var idx []string
	e.w.mu.Lock()
	for i, id := range e.ids {
		if r, ok := e.w.recs[id]; ok && r.dropped > 0 {
			idx = append(idx, fmt.Sprint(i))
		}
	}
	e.w.mu.Unlock()
	if len(idx) == 0 {
		return ""
	}
	return "end dropped=" + strings.Join(idx, ",")
}
