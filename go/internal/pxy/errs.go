package pxy

// The class of error VALUES a modifier can return. C02: "a modifier error never aborts the exchange"
// holds for every one of them, including the values that proxy.go's isCloseable() singles out when
// they come from the connection (io.EOF, io.ErrClosedPipe, timeouts): a body-parsing modifier that
// does io.ReadFull on an empty body returns io.EOF, one that calls a slow backend returns a
// deadline error.
//
// op keys: ek=<kind> (error returned by the request modifier when rq=err|errskip),
//          sek=<kind> (error returned by the response modifier when rs=err); default "plain".

import (
	"context"
	"errors"
	"fmt"
	"io"
	"net"
	"os"
	"strings"

	"github.com/google/martian/v3"
)

// ErrKinds lists the generated kinds; the first half are ordinary, the second half closeable-looking.
var ErrKinds = []string{"plain", "wrapped", "multi", "ueof", "canceled", "refused", "ctl", "nonascii",
	"eof", "pipe", "timeout", "optimeout", "deadline", "ctxdeadline", "multieof", "dnstimeout"}

const reqErrMark = "verif-modifier-error"
const resErrMark = "verif-resmod-error"

// modErr builds the error value of a kind; mark distinguishes the request and the response side
// wherever the value has room for a text of ours.
func modErr(kind, mark string) error {
	switch kind {
	case "wrapped":
		return fmt.Errorf("%s: %w", mark, io.EOF)
	case "multi":
		m := martian.NewMultiError()
		m.Add(errors.New(mark))
		m.Add(errors.New(mark + "-2"))
		return m
	case "multieof":
		m := martian.NewMultiError()
		m.Add(io.EOF)
		m.Add(io.ErrClosedPipe)
		return m
	case "ctl": // a text with control characters, quotes and a backslash
		return errors.New(mark + ": line one\r\nline two\x00\x1b[0m \"quoted\" back\\slash\ttab")
	case "nonascii":
		return errors.New(mark + ": caf\u00e9 \u2013 \xff\xfe")
	case "ueof":
		return io.ErrUnexpectedEOF
	case "canceled":
		return context.Canceled
	case "refused":
		return &net.OpError{Op: "dial", Net: "tcp", Err: errors.New(mark + ": connection refused")}
	case "eof":
		return io.EOF
	case "pipe":
		return io.ErrClosedPipe
	case "timeout":
		return timeoutError{}
	case "optimeout":
		return &net.OpError{Op: "read", Net: "tcp", Err: timeoutError{}}
	case "deadline":
		return os.ErrDeadlineExceeded
	case "ctxdeadline":
		return context.DeadlineExceeded
	case "dnstimeout":
		return &net.DNSError{Err: mark, Name: "backend.test", IsTimeout: true}
	}
	return errors.New(mark)
}

// warningCarries: is this Warning header value the one proxyutil.Warning writes for err?
func warningCarries(v string, err error) bool {
	return strings.Contains(v, fmt.Sprintf("%q", err.Error()))
}
