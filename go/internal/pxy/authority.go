package pxy

// Authority spellings. The authority a client names - in the Host header and in an absolute-form
// target - reaches the origin as it was written: an explicit default port (:80, :443 on a secure
// session), another port, upper case, a trailing dot, an IPv6 literal. The harness origins listen on
// ephemeral ports, so names under verif.test (and the literal [fd00::1]) are routed to them by the
// proxy's dial function, whatever port they carry.
//
// op key of an `x` item: au=d|other|upper|dot|v6|noport (d = the scheme's default port).

import (
	"strings"
)

// AuthorityKinds lists the generated kinds.
var AuthorityKinds = []string{"d", "d", "other", "upper", "dot", "v6", "noport"}

// authorityOf: the authority the client names for this exchange ("" = the origin's own address).
func authorityOf(it *item) string {
	port := "80"
	if it.s("sec", "0") == "1" {
		port = "443"
	}
	switch it.s("au", "") {
	case "d":
		return "origin.verif.test:" + port
	case "other":
		return "origin.verif.test:8080"
	case "upper":
		return "ORIGIN.Verif.TEST:" + port
	case "dot":
		return "origin.verif.test.:" + port
	case "v6":
		return "[fd00::1]:" + port
	case "noport":
		return "origin.verif.test"
	}
	return ""
}

// routedName: is this dial address one of the names the harness routes to its origins?
func routedName(addr string) bool {
	a := strings.ToLower(addr)
	return strings.HasPrefix(a, "origin.verif.test") || strings.HasPrefix(a, "[fd00::1]")
}
