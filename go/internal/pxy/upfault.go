package pxy

// Upstream faults at the TLS layer. A request decrypted from a tunnel (or read on a transparent-TLS
// listener) names an https target; the port it names holds a server that speaks plain HTTP, a TLS
// server whose certificate the proxy does not trust, or one that hangs up on the ClientHello. The
// proxy must answer 502 and must never reach the origin in cleartext (C05), and the connection goes
// on (C03). The fault port sniffs the first byte of every connection: a TLS record (22) is an
// upstream contact over TLS, anything else is cleartext contact - and is served, so that it shows.
//
// fk=tlsplain|tlsbadcert|tlsclose on an `x … o=fail sec=1` item (sequential client: the contact is
// attributed to the exchange being driven).

import (
	"bufio"
	"crypto/tls"
	"net"
	"sync"
	"time"

	"github.com/google/martian/v3/mitm"
)

var (
	badOnce   sync.Once
	badOrgTLS *tls.Config
)

// otherAuthority: a TLS server identity the proxy's transport has no reason to trust.
func otherAuthority() *tls.Config {
	badOnce.Do(func() {
		ca, priv, err := mitm.NewAuthority("somebody else's CA", "elsewhere", time.Hour)
		if err != nil {
			panic(err)
		}
		c, err := mitm.NewConfig(ca, priv)
		if err != nil {
			panic(err)
		}
		badOrgTLS = c.TLSForHost("127.0.0.1")
	})
	return badOrgTLS
}

func (e *Ex) serveFaults(l net.Listener) {
	for {
		c, err := l.Accept()
		if err != nil {
			return
		}
		go e.faultConn(c)
	}
}

func (e *Ex) faultConn(c net.Conn) {
	c.SetDeadline(time.Now().Add(10 * time.Second))
	br := bufio.NewReader(c)
	b, err := br.Peek(1)
	if err != nil {
		c.Close()
		return
	}
	isTLS := b[0] == 22
	w := e.w
	w.mu.Lock()
	fk := ""
	if it, ok := w.items[w.current]; ok {
		fk = it.s("fk", "")
		r := w.rec(w.current)
		r.dialed++
		r.upSeq = w.next()
		if isTLS {
			r.upTLS = true
		}
	}
	w.mu.Unlock()
	bc := &bufConn{Conn: c, r: br}
	switch {
	case !isTLS:
		e.originConn(bc, false) // cleartext on the port of an https target
	case fk == "tlsplain":
		// what a plain HTTP server answers to a ClientHello
		c.Write([]byte("HTTP/1.1 400 Bad Request\r\nContent-Type: text/plain; charset=utf-8\r\nConnection: close\r\n\r\n400 Bad Request"))
		c.Close()
	case fk == "tlsbadcert":
		tc := tls.Server(bc, otherAuthority())
		if err := tc.Handshake(); err != nil {
			c.Close()
			return
		}
		e.originConn(tc, true)
	case fk == "tlsclose":
		c.Close()
	default:
		// an ordinary exchange sent here (via=sniff): a TLS origin the proxy trusts
		tc := tls.Server(bc, orgTLS)
		if err := tc.Handshake(); err != nil {
			c.Close()
			return
		}
		e.originConn(tc, true)
	}
}
