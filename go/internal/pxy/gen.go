package pxy

import (
	"fmt"
	"strings"

	"verif/harness/internal/core"
)

// Profile selects what a generated connection scenario emphasises.
type Profile struct {
	Modifiers bool // scripted modifier behaviours (C02)
	Faults    bool // origin faults (C03)
	Tunnels   bool // CONNECT / MITM (C02, C05)
	Rich      bool // rich requests and responses, pipelining (C01)
	BigBodies bool // thorough tier
}

var methods = []string{"GET", "GET", "GET", "POST", "PUT", "HEAD", "DELETE", "OPTIONS", "PATCH", "PROPFIND"}
var statuses = []int{200, 200, 200, 201, 404, 500, 204, 304, 301, 206}

func bodyLen(r *core.Rand, big bool) int {
	switch r.Intn(12) {
	case 0, 1, 2:
		return 0
	case 3:
		return 1
	case 4:
		return r.Pick2(4095, 4096)
	case 5:
		return 4097
	case 6:
		return 65536
	case 7:
		if big {
			return 1<<20 + r.Intn(1<<20)
		}
		return 20000
	default:
		return r.Range(2, 600)
	}
}

// genX generates one non-CONNECT exchange. mayClose=false keeps the exchange from ending the
// connection (used for the non-final requests of a pipelined batch: a proxy that closes with
// unread pipelined bytes in its socket makes the kernel send RST, which can destroy the tail of
// the previous response - a transport artefact outside the property).
func genX(r *core.Rand, pr Profile, sec bool, mayClose bool) string {
	return genXm(r, pr, sec, mayClose, true)
}

// genXm: seqMode = the client sends one request at a time (dial-level faults are attributed to the
// request being driven, which needs that).
func genXm(r *core.Rand, pr Profile, sec bool, mayClose bool, seqMode bool) string {
	m := "GET"
	if pr.Rich || r.Chance(1, 3) {
		m = methods[r.Intn(len(methods))]
	}
	st := 200
	if pr.Rich || r.Chance(1, 3) {
		st = statuses[r.Intn(len(statuses))]
	}
	kv := []string{"x", "m=" + m}
	tf := "origin"
	if r.Chance(1, 2) {
		tf = "abs"
		if sec && r.Bool() {
			tf = "abss"
		}
	}
	if !sec && tf == "origin" && r.Chance(1, 2) {
		tf = "abs"
	}
	kv = append(kv, "tf="+tf)
	rc := r.Chance(1, 8) && mayClose
	kv = append(kv, "rc="+b01(rc))
	hs := r.Range(1, 9999)
	kv = append(kv, fmt.Sprintf("hs=%d", hs))
	if pr.Rich && r.Chance(1, 2) {
		kv = append(kv, fmt.Sprintf("pk=%d", r.Range(1, 5)))
	}
	if pr.Rich {
		kv = append(kv, fmt.Sprintf("hdr=%d", r.Intn(13)), fmt.Sprintf("ohdr=%d", r.Intn(9)))
	} else {
		kv = append(kv, fmt.Sprintf("hdr=%d", r.Intn(4)), fmt.Sprintf("ohdr=%d", r.Intn(3)))
	}
	rb := 0
	if m == "POST" || m == "PUT" || m == "PATCH" || (m == "DELETE" && r.Bool()) {
		rb = bodyLen(r, pr.BigBodies)
	}
	kv = append(kv, fmt.Sprintf("rb=%d", rb), "rf="+r.Pick("cl", "ch"))
	rq, rs := "pass", "pass"
	if pr.Modifiers {
		switch r.Intn(12) {
		case 0:
			rq = "err"
		case 1:
			rq = "skip"
		case 2:
			rq = "errskip"
		case 3:
			if r.Chance(1, 2) {
				rq = "hijack"
			}
		}
		switch r.Intn(12) {
		case 0, 1:
			rs = "err"
		case 2:
			if r.Chance(1, 2) {
				rs = "hijack"
			}
		}
	}
	if !mayClose {
		if rq == "hijack" {
			rq = "pass"
		}
		if rs == "hijack" {
			rs = "pass"
		}
	}
	kv = append(kv, "rq="+rq, "rs="+rs)
	o := "ok"
	if pr.Faults {
		switch r.Intn(5) {
		case 0:
			o = "fail"
		case 1:
			o = "trunc"
		}
	} else if pr.Modifiers && r.Chance(1, 10) {
		o = "fail"
	}
	if !mayClose && o == "trunc" {
		o = "fail"
	}
	ob := bodyLen(r, pr.BigBodies)
	of := r.Pick("cl", "cl", "ch", "ch", "close")
	oc := r.Chance(1, 10)
	if !mayClose {
		oc = false
		if of == "close" {
			of = "ch"
		}
	}
	gz := r.Chance(1, 8)
	switch o {
	case "fail":
		fk := r.Pick("none", "head", "garbage")
		if seqMode && !sec && r.Chance(1, 3) {
			fk = r.Pick("refuse", "dtimeout")
		}
		kv = append(kv, "fk="+fk, fmt.Sprintf("k=%d", r.Range(1, 60)))
		oc = false
	case "trunc":
		if of == "close" {
			of = "cl"
		}
		if ob < 2 {
			ob = r.Range(2, 300)
		}
		if m == "HEAD" {
			kv[1] = "m=GET"
			m = "GET"
		}
		if st == 204 || st == 304 {
			st = 200
		}
		kv = append(kv, fmt.Sprintf("k=%d", r.Intn(ob)))
		oc = false
		gz = false
	}
	rcl := o == "ok" && (oc || (of == "close" && !bodiless(m, st)))
	kv = append(kv, "o="+o, fmt.Sprintf("st=%d", st), fmt.Sprintf("ob=%d", ob), "of="+of, "oc="+b01(oc), "gz="+b01(gz), "rcl="+b01(rcl))
	if sec {
		kv = append(kv, "sec=1")
	}
	return strings.Join(kv, " ")
}

func genMods(r *core.Rand, pr Profile) (string, string) {
	rq, rs := "pass", "pass"
	if pr.Modifiers {
		switch r.Intn(10) {
		case 0:
			rq = "err"
		case 1:
			rq = "hijack"
		}
		switch r.Intn(10) {
		case 0:
			rs = "err"
		case 1:
			rs = "hijack"
		}
	}
	return rq, rs
}

// GenCase emits one connection scenario.
func GenCase(r *core.Rand, pr Profile) []string {
	var ops []string
	n := r.Range(1, 6)
	tunnel := pr.Tunnels && r.Chance(2, 3)
	mode := "seq"
	if !tunnel {
		mode = r.Pick("seq", "seq", "pipe", "pipe", "dribble", "half")
	}
	if !tunnel {
		listener, rt := "plain", ""
		switch r.Intn(10) {
		case 0:
			listener = "shaped"
		case 1, 2:
			if pr.Tunnels { // transparent TLS listener: decrypted from the first byte
				listener = "tls"
			}
		case 3:
			rt = " rt=clone" // a RoundTripper wrapper that sends a clone of the request
		}
		if pr.Rich && mode == "seq" && listener == "plain" && r.Chance(1, 60) {
			// a keep-alive connection kept busy for longer than the proxy's idle timeout
			ops = append(ops, "conn mode=seq listener=plain shutdown=0 to=500 gap=200")
			for i := 0; i < 5; i++ {
				ops = append(ops, genXm(r, Profile{}, false, false, true))
			}
			ops = append(ops, "end")
			return ops
		}
		ops = append(ops, "conn mode="+mode+" listener="+listener+" shutdown=0"+rt)
		for i := 0; i < n; i++ {
			ops = append(ops, genXm(r, pr, listener == "tls", (mode != "pipe" && mode != "half") || i == n-1, mode == "seq" || mode == "dribble"))
		}
		ops = append(ops, "end")
		return ops
	}
	switch r.Intn(4) {
	case 0: // blind CONNECT
		ops = append(ops, "conn mode=seq listener=plain shutdown=0")
		pre := r.Intn(3)
		for i := 0; i < pre; i++ {
			ops = append(ops, genX(r, pr, false, true))
		}
		rq, rs := genMods(r, pr)
		ops = append(ops, fmt.Sprintf("cblind dial=%s dk=%s rq=%s rs=%s", b01(r.Chance(1, 2)), r.Pick("refuse", "timeout", "eof"), rq, rs))
		for i := 0; i < r.Intn(3); i++ {
			ops = append(ops, genX(r, pr, false, true))
		}
	case 1: // MITM configured, tunnel carries plain HTTP
		if r.Chance(1, 6) { // ... or nothing at all: the client hangs up right after the 200
			ops = append(ops, "conn mode=seq listener="+r.Pick("mitm", "shapedmitm")+" shutdown=0 quiet=1")
			for i := 0; i < r.Intn(2); i++ {
				ops = append(ops, genX(r, pr, false, false))
			}
			ops = append(ops, fmt.Sprintf("cmitm tls=%s rq=pass rs=%s", b01(r.Bool()), r.Pick("pass", "err")))
			break
		}
		ops = append(ops, "conn mode=seq listener="+r.Pick("mitm", "mitm", "shapedmitm")+" shutdown=0")
		rq, rs := genMods(r, pr)
		ops = append(ops, fmt.Sprintf("cmitm tls=0 rq=%s rs=%s", rq, rs))
		for i := 0; i < n; i++ {
			ops = append(ops, genX(r, pr, false, true))
		}
	default: // MITM with TLS inside
		ops = append(ops, "conn mode=seq listener="+r.Pick("mitm", "mitm", "shapedmitm")+" shutdown=0")
		pre := 0
		if r.Chance(1, 4) {
			pre = 1
		}
		for i := 0; i < pre; i++ {
			ops = append(ops, genX(r, pr, false, true))
		}
		rq, rs := genMods(r, pr)
		ops = append(ops, fmt.Sprintf("cmitm tls=1 rq=%s rs=%s", rq, rs))
		for i := 0; i < n; i++ {
			ops = append(ops, genX(r, pr, true, true))
		}
	}
	ops = append(ops, "end")
	return ops
}

// Nontrivial: at least two requests were served on the connection or a non-pass behaviour occurred.
func Nontrivial(ops []string, impl []string) bool {
	if len(impl) == 0 {
		return false
	}
	last := impl[len(impl)-1]
	return strings.Count(last, "rq=1") >= 2 || strings.Contains(last, "unserved") || strings.Contains(last, "st=502") || strings.Contains(last, "hij=tls") || strings.Contains(last, "hij=raw")
}
