package pxy

import (
	"fmt"
	"strings"

	"verif/harness/internal/core"
)

// Profile selects what a generated connection scenario emphasises.
type Profile struct {
	Modifiers bool // scripted modifier behaviours (C02)
	Faults    bool // origin faults (C03)
	Tunnels   bool // CONNECT / MITM (C02, C05)
	Rich      bool // rich requests and responses, pipelining (C01)
	BigBodies bool // thorough tier
}

var methods = []string{"GET", "GET", "GET", "POST", "PUT", "HEAD", "DELETE", "OPTIONS", "PATCH", "PROPFIND", "TRACE", "OPTIONS", "M-SEARCH", "PURGE"}
var statuses = []int{200, 200, 200, 201, 404, 500, 204, 304, 301, 206}

func bodyLen(r *core.Rand, big bool) int {
	switch r.Intn(12) {
	case 0, 1, 2:
		return 0
	case 3:
		return 1
	case 4:
		return r.Pick2(4095, 4096)
	case 5:
		return 4097
	case 6:
		return 65536
	case 7:
		if big {
			return 1<<20 + r.Intn(1<<20)
		}
		return 20000
	default:
		return r.Range(2, 600)
	}
}

// genX generates one non-CONNECT exchange. mayClose=false keeps the exchange from ending the
// connection (used for the non-final requests of a pipelined batch: a proxy that closes with
// unread pipelined bytes in its socket makes the kernel send RST, which can destroy the tail of
// the previous response - a transport artefact outside the property).
func genX(r *core.Rand, pr Profile, sec bool, mayClose bool) string {
	return genXm(r, pr, sec, mayClose, true)
}

// genXm: seqMode = the client sends one request at a time (dial-level faults are attributed to the
// request being driven, which needs that).
func genXm(r *core.Rand, pr Profile, sec bool, mayClose bool, seqMode bool) string {
	m := "GET"
	if pr.Rich || r.Chance(1, 3) {
		m = methods[r.Intn(len(methods))]
	}
	st := 200
	if pr.Rich || r.Chance(1, 3) {
		st = statuses[r.Intn(len(statuses))]
	}
	kv := []string{"x", "m=" + m}
	tf := "origin"
	if r.Chance(1, 2) {
		tf = "abs"
		if sec && r.Bool() {
			tf = "abss"
		}
	}
	if !sec && tf == "origin" && r.Chance(1, 2) {
		tf = "abs"
	}
	kv = append(kv, "tf="+tf)
	// protocol version and Connection tokens of the client: what decides Request.Close
	pv := "11"
	if r.Chance(1, 5) {
		pv = "10"
	}
	var ct []string
	switch {
	case !mayClose:
		ct = pickConn(r, pv, true)
	case r.Chance(1, 8):
		ct = []string{"close"}
	case pv == "10" || r.Chance(1, 3):
		ct = pickConn(r, pv, pv == "10" && r.Chance(2, 3)) // most HTTP/1.0 clients generated ask for keep-alive
	}
	kv = append(kv, "pv="+pv, "ct="+hexLines(ct))
	core.Count("wire:client-" + pv + "-" + closeWord(askedClose(pv, ct)))
	hs := r.Range(1, 9999)
	kv = append(kv, fmt.Sprintf("hs=%d", hs))
	if m == "OPTIONS" && tf == "origin" && r.Chance(1, 3) {
		kv = append(kv, "pk=6") // OPTIONS *
	} else if pr.Rich && r.Chance(1, 2) {
		kv = append(kv, fmt.Sprintf("pk=%d", r.Range(1, 5)))
	}
	// request headers with defined proxy semantics - all end-to-end - on every method, always on the
	// methods that have rules of their own (semantics.go)
	if rare := m == "TRACE" || m == "OPTIONS" || m == "PATCH" || m == "M-SEARCH" || m == "PURGE"; (pr.Rich && r.Chance(1, 3)) || (rare && r.Chance(2, 3)) {
		mask := 0
		for i := r.Range(1, 4); i > 0; i-- {
			mask |= 1 << uint(r.Intn(len(SemanticHeaders)))
		}
		if rare && r.Bool() {
			mask |= 1 << uint(r.Pick2(r.Pick2(0, 1), r.Pick2(2, 3))) // a Max-Forwards of some kind
		}
		kv = append(kv, fmt.Sprintf("sh=%d", mask))
		core.Count("semantic-headers:" + m)
	}
	// a request that asks for a protocol switch is a request like any other
	if r.Chance(1, 20) {
		kv = append(kv, "upg="+r.Pick("ws", "ws", "h2c", "wsonly"))
		core.Count("upgrade:" + closeWord(sec) + "-secure")
	}
	if pr.Rich {
		kv = append(kv, fmt.Sprintf("hdr=%d", r.Intn(13)), fmt.Sprintf("ohdr=%d", r.Intn(9)))
	} else {
		kv = append(kv, fmt.Sprintf("hdr=%d", r.Intn(4)), fmt.Sprintf("ohdr=%d", r.Intn(3)))
	}
	rb := 0
	if m == "POST" || m == "PUT" || m == "PATCH" || (m == "DELETE" && r.Bool()) {
		rb = bodyLen(r, pr.BigBodies)
	}
	rf := r.Pick("cl", "ch")
	if pv == "10" {
		rf = "cl"
	}
	if seqMode && rb > 0 && r.Chance(1, 5) { // an upload that can be gated on an early answer (early.go)
		rb, rf = r.Pick2(20000, 65536), "cl"
	}
	kv = append(kv, fmt.Sprintf("rb=%d", rb), "rf="+rf)
	rq, rs := "pass", "pass"
	if pr.Modifiers {
		switch r.Intn(12) {
		case 0:
			rq = "err"
		case 1:
			rq = "skip"
		case 2:
			rq = "errskip"
		case 3:
			if r.Chance(1, 2) {
				rq = "hijack"
			}
		case 4:
			rq = "insec" // the modifier calls the public Session.MarkInsecure()
		}
		switch r.Intn(12) {
		case 0, 1:
			rs = "err"
		case 2:
			if r.Chance(1, 2) {
				rs = "hijack"
			}
		}
	}
	if !mayClose {
		if rq == "hijack" {
			rq = "pass"
		}
		if rs == "hijack" {
			rs = "pass"
		}
	}
	capUnread := func() {
		rb = r.Range(0, 2000)
		for i := range kv {
			if strings.HasPrefix(kv[i], "rb=") {
				kv[i] = fmt.Sprintf("rb=%d", rb)
			}
		}
	}
	if (rq == "skip" || rq == "errskip") && rb > 2000 && askedClose(pv, ct) {
		// nobody reads the body of a request whose round trip is skipped; when the connection is closed
		// right after the response the kernel answers the unread upload with RST, which can destroy the
		// response on its way (the same transport artefact as with pipelined batches, DESIGN section 7 b):
		// keep such uploads inside what the proxy has read together with the head
		capUnread()
	}
	if rq == "hijack" && rb > 2000 {
		// a request-modifier hijacker answers without reading the upload and the proxy then closes the
		// connection: the same artefact (the client's write fails / RST destroys the hijacker's answer
		// on a slow machine; seen once in an offline check run as c02:not-closed-after-hijack)
		capUnread()
	}
	kv = append(kv, "rq="+rq, "rs="+rs)
	kv = append(kv, errKinds(r, rq, rs)...)
	kv = append(kv, consulted(r, rq != "pass" || rs != "pass")...)
	if pr.Modifiers && r.Chance(1, 8) && rq != "hijack" && rq != "insec" {
		// ordered combinations of the context calls on one exchange (api.go); SkipRoundTrip means rq=skip
		calls := []string{"skiprt", "skiplog", "apireq", "skiplog", "apireq"}
		n := r.Range(2, 4)
		var list []string
		for i := 0; i < n; i++ {
			list = append(list, calls[r.Intn(len(calls))])
		}
		api := strings.Join(list, ",")
		if strings.Contains(api, "skiprt") {
			if rq == "pass" {
				rq = "skip"
			} else if rq == "err" {
				rq = "errskip"
			}
			for i := range kv {
				if strings.HasPrefix(kv[i], "rq=") {
					kv[i] = "rq=" + rq
				}
			}
		}
		if (rq == "skip" || rq == "errskip") && rb > 2000 && askedClose(pv, ct) {
			capUnread()
		}
		kv = append(kv, "api="+api)
		core.Count("api:ordered-context-calls")
	} else if pr.Modifiers { // calls of the public context / session API without any effect the proxy may show
		if r.Chance(1, 10) {
			api := r.Pick("skiplog", "skiplog,insec", "insec")
			if sec { // MarkSecure only where the session is secure anyway: on a plain connection it is the modifier's own downgrade-in-reverse, not the proxy's
				api = r.Pick(api, "insec,marksec", "marksec")
			}
			kv = append(kv, "api="+api)
		}
		if r.Chance(1, 10) {
			kv = append(kv, "sapi="+r.Pick("insec", "skiplog", "insec,skiplog"))
		}
	}
	if pr.Rich && r.Chance(1, 30) { // size extremes of the parts that are not the body (sizes.go)
		switch r.Intn(4) {
		case 0:
			kv = append(kv, fmt.Sprintf("rhb=%d", HeaderBulks[r.Intn(len(HeaderBulks))]), "rhs="+r.Pick("many", "one", "lines"))
			core.Count("size:request-headers")
		case 1, 2:
			kv = append(kv, fmt.Sprintf("ohb=%d", HeaderBulks[r.Intn(len(HeaderBulks))]), "ohs="+r.Pick("many", "many", "one", "lines"))
			core.Count("size:response-headers")
		case 3:
			kv = append(kv, fmt.Sprintf("tl=%d", r.Pick2(8000, r.Pick2(65536, 300000))))
			core.Count("size:target")
		}
	}
	o := "ok"
	if pr.Faults {
		switch r.Intn(5) {
		case 0:
			o = "fail"
		case 1:
			o = "trunc"
		}
	} else if pr.Modifiers && r.Chance(1, 10) {
		o = "fail"
	}
	if !mayClose && o == "trunc" {
		o = "fail"
	}
	if o == "fail" && rb > 2000 && askedClose(pv, ct) { // same: a failed round trip leaves the upload unread
		capUnread()
	}
	ob := bodyLen(r, pr.BigBodies)
	of := r.Pick("cl", "cl", "ch", "ch", "close")
	// protocol version and Connection tokens of the origin: what decides Response.Close
	opv := "11"
	if r.Chance(1, 6) {
		opv = "10"
		if of == "ch" {
			of = "cl"
		}
	}
	if !mayClose && of == "close" {
		of = "cl"
		if opv == "11" {
			of = "ch"
		}
	}
	var oct []string
	switch {
	case !mayClose:
		oct = pickConn(r, opv, true)
	case r.Chance(1, 10):
		oct = []string{"close"}
	case opv == "10" || r.Chance(1, 4):
		oct = pickConn(r, opv, opv == "10" && r.Chance(2, 3))
	}
	gz := r.Chance(1, 8)
	setKV := func(key, val string) {
		for i := range kv {
			if strings.HasPrefix(kv[i], key+"=") {
				kv[i] = key + "=" + val
			}
		}
	}
	// requests at the edge of what http.ReadRequest accepts: still requests the proxy read (semantics.go)
	xr := ""
	if !sec && mayClose && (pr.Rich || pr.Modifiers) && rq != "hijack" && rs != "hijack" && o != "trunc" && r.Chance(1, 25) {
		xr = r.Pick("nohost10", "emptyhost", "hostdiff")
		switch xr {
		case "hostdiff":
			tf = "abs"
		case "nohost10":
			tf, o, pv, rf = "origin", "fail", "10", "cl"
			setKV("pv", pv)
			setKV("rf", rf)
		default:
			tf, o = "origin", "fail"
		}
		setKV("tf", tf)
		if o == "fail" && rb > 2000 && askedClose(pv, ct) {
			capUnread()
		}
		kv = append(kv, "xr="+xr)
		core.Count("edge-request:" + xr)
	}
	switch o {
	case "fail":
		fk := r.Pick("none", "head", "garbage", "ctlname", "leadsp")
		if xr == "nohost10" || xr == "emptyhost" {
			fk = "none"
		} else
		if seqMode && !sec && r.Chance(1, 3) {
			fk = r.Pick("refuse", "dtimeout", "badport")
		}
		if xr == "" && seqMode && sec && r.Chance(1, 2) { // the https target's port does not hold a usable TLS server
			fk = r.Pick("tlsplain", "tlsplain", "tlsbadcert", "tlsclose")
			core.Count("upfault:" + fk)
		}
		kv = append(kv, "fk="+fk, fmt.Sprintf("k=%d", r.Range(1, 60)))
	case "trunc":
		if of == "close" {
			of = "cl"
		}
		if ob < 2 {
			ob = r.Range(2, 300)
		}
		if m == "HEAD" {
			kv[1] = "m=GET"
			m = "GET"
		}
		if st == 204 || st == 304 {
			st = 200
		}
		kv = append(kv, fmt.Sprintf("k=%d", r.Intn(ob)))
		gz = false
		if askedClose(opv, oct) { // the cut ends the connection by itself; keep the close mark the client's alone
			opv, oct = "11", nil
		}
	}
	kv = append(kv, "o="+o, fmt.Sprintf("st=%d", st), fmt.Sprintf("ob=%d", ob), "of="+of, "opv="+opv, "oct="+hexLines(oct), "gz="+b01(gz))
	if o == "ok" {
		core.Count("wire:origin-" + opv + "-" + of + "-" + closeWord(askedClose(opv, oct)))
		if pv == "10" && !askedClose(pv, ct) && of == "ch" && !bodiless(m, st) {
			core.Count("wire:http10-keepalive-client-gets-unknown-length-response")
		}
	}
	// an origin that answers before it has read the whole upload, the client still sending
	// (the upload must be larger than the buffers on the way - 4 KiB in the proxy's reader and in the
	// transport's writer - or its beginning never reaches the origin before its end does)
	if seqMode && o == "ok" && (rb >= earlyMinChunkedUpload || (rb >= earlyMinUpload && rf == "cl")) && ob >= 2 && !bodiless(m, st) && rq == "pass" && rs == "pass" && r.Chance(2, 3) {
		kv = append(kv, fmt.Sprintf("ea=%d", r.Pick2(1, 1024)))
		core.Count("early:generated")
	}
	if seqMode && o == "ok" && xr == "" && r.Chance(1, 12) { // authority spellings (authority.go)
		au := AuthorityKinds[r.Intn(len(AuthorityKinds))]
		if sec && (au == "dot" || au == "v6") {
			au = "d"
		}
		kv = append(kv, "au="+au)
		core.Count("authority:" + au)
	} else if sec {
		if seqMode && o == "ok" && r.Chance(1, 5) {
			kv = append(kv, "via=sniff") // the origin port tells a ClientHello from a cleartext request (upfault.go)
			core.Count("upfault:via-sniff")
		}
	}
	if sec {
		kv = append(kv, "sec=1")
	}
	return strings.Join(kv, " ")
}

func closeWord(c bool) string {
	if c {
		return "close"
	}
	return "keep"
}

// errKinds picks the error values the scripted modifiers return (errs.go).
func errKinds(r *core.Rand, rq, rs string) []string {
	var kv []string
	if rq == "err" || rq == "errskip" {
		k := ErrKinds[r.Intn(len(ErrKinds))]
		kv = append(kv, "ek="+k)
		core.Count("moderr:req-" + k)
	}
	if rs == "err" {
		k := ErrKinds[r.Intn(len(ErrKinds))]
		kv = append(kv, "sek="+k)
		core.Count("moderr:res-" + k)
	}
	return kv
}

// consulted picks the headers the proxy itself looks at (consulted.go): Date lines on either side and
// a Warning that is already there; more often when a modifier is going to add its own.
func consulted(r *core.Rand, likely bool) []string {
	var kv []string
	den := 12
	if likely {
		den = 2
	}
	if r.Chance(1, den) {
		k := DateKinds[r.Intn(len(DateKinds))]
		kv = append(kv, "dt="+k)
		core.Count("consulted:request-date-" + k)
	}
	if r.Chance(1, den) {
		k := DateKinds[r.Intn(len(DateKinds))]
		kv = append(kv, "odt="+k)
		core.Count("consulted:response-date-" + k)
	}
	if r.Chance(1, 2*den) {
		kv = append(kv, "wp=1")
	}
	if r.Chance(1, 2*den) {
		kv = append(kv, "owp=1")
	}
	return kv
}

// genConnect emits one MITM CONNECT item with scripted modifier behaviours.
func genConnect(r *core.Rand, pr Profile, tls bool) string {
	rq, rs := genMods(r, pr)
	ed := ""
	if r.Chance(1, 4) { // the client sends the first tunnel bytes in the same write as the CONNECT head (earlydata.go)
		ed = " ed=1"
		core.Count("earlydata:mitm-connect-tls" + b01(tls))
	}
	return strings.TrimSpace(fmt.Sprintf("cmitm tls=%s rq=%s rs=%s %s", b01(tls), rq, rs, strings.Join(errKinds(r, rq, rs), " "))) + ed
}

// GenNoCallbackCase: a proxy whose MITM configuration has had its handshake error callback cleared
// (SetHandshakeErrorCallback(nil)), and a client whose TLS handshake inside the tunnel fails; the failed
// handshake is the last thing the client does on the connection. Whatever the client sends, the proxy
// process must survive it (C03) - the following cases run in the same process.
func GenNoCallbackCase(r *core.Rand, pr Profile) []string {
	listener := r.Pick("mitm", "mitm", "shapedmitm")
	ops := []string{"conn mode=seq listener=" + listener + " shutdown=0 hscb=nil"}
	if r.Chance(1, 3) {
		ops = append(ops, genX(r, pr, false, true))
	}
	core.Count("nocallback:generated")
	return append(ops, "cmitm tls=1 rq=pass rs=pass hf="+HandshakeFailKinds[r.Intn(len(HandshakeFailKinds))], "end")
}

// genFailedConnect: a MITM CONNECT whose tunnel starts with a TLS handshake that fails (hsfail.go).
func genFailedConnect(r *core.Rand, pr Profile) string {
	return genConnect(r, pr, true) + " hf=" + HandshakeFailKinds[r.Intn(len(HandshakeFailKinds))]
}

func genMods(r *core.Rand, pr Profile) (string, string) {
	rq, rs := "pass", "pass"
	if pr.Modifiers {
		switch r.Intn(10) {
		case 0:
			rq = "err"
		case 1:
			rq = "hijack"
		case 2:
			rq = "insec"
		}
		switch r.Intn(10) {
		case 0:
			rs = "err"
		case 1:
			rs = "hijack"
		}
	}
	return rq, rs
}

// GenCase emits one connection scenario.
func GenCase(r *core.Rand, pr Profile) []string {
	var ops []string
	if pr.Rich && r.Chance(1, 25) {
		// the model's keep-alive / framing functions against the real net/http, without a proxy
		core.Count("wire:differential-op-cases")
		return GenWireOps(r, 12)
	}
	if pr.Modifiers && r.Chance(1, 40) {
		core.Count("consulted:differential-op-cases")
		return GenConsultedOps(r, 12)
	}
	if r.Chance(1, 12) {
		return genEarlyCase(r, pr)
	}
	if pr.Rich && r.Chance(1, 150) {
		return GenLongCase(r, r.Range(1001, 2200))
	}
	if (pr.Rich || pr.Faults) && r.Chance(1, 40) {
		return GenReuseCase(r)
	}
	if pr.Rich && r.Chance(1, 25) {
		return GenPipeCloseCase(r)
	}
	if (pr.Rich || pr.Tunnels) && r.Chance(1, 60) {
		return GenHalfCloseCase(r, pr)
	}
	if pr.Tunnels && !pr.Faults && r.Chance(1, 400) {
		return GenBusyCase(r, r.Pick("mitm", "shapedmitm", "tls", "plain"))
	}
	if pr.Rich && r.Chance(1, 250) {
		return GenUnreadCase(r, r.Pick2(4, r.Pick2(8, 16))<<20)
	}
	if pr.Faults && pr.Tunnels && r.Chance(1, 4) {
		return GenDownstreamCase(r, pr)
	}
	if pr.Modifiers && !pr.Faults && r.Chance(1, 600) {
		return []string{"conn mode=pipe listener=plain shutdown=0", fmt.Sprintf("burst n=%d", r.Pick2(66000, r.Pick2(70000, 140000)))}
	}
	if pr.Rich && r.Chance(1, 200) {
		return GenSlowCase(r)
	}
	n := r.Range(1, 6)
	tunnel := pr.Tunnels && r.Chance(2, 3)
	mode := "seq"
	if !tunnel {
		mode = r.Pick("seq", "seq", "pipe", "pipe", "dribble", "half")
	}
	if !tunnel {
		listener, rt := "plain", ""
		switch r.Intn(10) {
		case 0:
			listener = "shaped"
		case 1, 2:
			if pr.Tunnels { // transparent TLS listener: decrypted from the first byte
				listener = r.Pick("tls", "tls", "tlsmitm", "shapedtls")
			}
		case 3:
			rt = " rt=clone" // a RoundTripper wrapper that sends a clone of the request
		}
		if pr.Rich && mode == "seq" && listener == "plain" && r.Chance(1, 60) {
			// a keep-alive connection kept busy for longer than the proxy's idle timeout
			ops = append(ops, "conn mode=seq listener=plain shutdown=0 to=500 gap=200")
			for i := 0; i < 5; i++ {
				ops = append(ops, genXm(r, Profile{}, false, false, true))
			}
			ops = append(ops, "end")
			return ops
		}
		ops = append(ops, "conn mode="+mode+" listener="+listener+" shutdown=0"+rt+tflip(r, listener))
		for i := 0; i < n; i++ {
			ops = append(ops, genXm(r, pr, listenerTLS(listener), (mode != "pipe" && mode != "half") || i == n-1, mode == "seq" || mode == "dribble"))
		}
		ops = append(ops, "end")
		return ops
	}
	switch r.Intn(5) {
	case 4: // nested: a transparent-TLS or plain listener, CONNECT inside CONNECT, cleartext or TLS at each level
		listener := r.Pick("tlsmitm", "tlsmitm", "shapedtlsmitm", "mitm", "shapedmitm")
		secure := listenerTLS(listener)
		ops = append(ops, "conn mode=seq listener="+listener+" shutdown=0"+tflip(r, listener))
		if r.Chance(1, 3) {
			ops = append(ops, genX(r, pr, secure, true))
		}
		depth := 1
		if r.Chance(1, 2) {
			depth = r.Range(2, 3)
		}
		for d := 0; d < depth; d++ {
			for r.Chance(1, 3) { // handshakes that fail first: the connection goes on as it was
				ops = append(ops, genFailedConnect(r, pr))
				for i := r.Intn(2); i > 0; i-- {
					ops = append(ops, genX(r, pr, secure, true))
				}
			}
			inner := r.Chance(3, 4)
			ops = append(ops, genConnect(r, pr, inner))
			secure = secure || inner
			for i := r.Range(1, 3); i > 0; i-- {
				ops = append(ops, genX(r, pr, secure, true))
			}
		}
		core.Count(fmt.Sprintf("tls:nested-depth-%d-%s", depth, listener))
	case 0: // blind CONNECT
		ops = append(ops, "conn mode=seq listener=plain shutdown=0")
		pre := r.Intn(3)
		for i := 0; i < pre; i++ {
			ops = append(ops, genX(r, pr, false, true))
		}
		rq, rs := genMods(r, pr)
		dialOK := r.Chance(1, 2)
		tg := ""
		if dialOK && r.Chance(1, 2) { // the target answers k bytes and closes abortively; the client waits in silence (tunnelrst.go)
			tg = fmt.Sprintf(" tg=rst k=%d", r.Pick2(r.Pick2(0, 1), r.Pick2(100, 5000)))
			core.Count("tunnel:target-resets")
		}
		ops = append(ops, strings.TrimSpace(fmt.Sprintf("cblind dial=%s dk=%s rq=%s rs=%s %s", b01(dialOK), r.Pick("refuse", "timeout", "eof", "badport", "noport"), rq, rs, strings.Join(errKinds(r, rq, rs), " "))+tg))
		for i := 0; i < r.Intn(3); i++ {
			ops = append(ops, genX(r, pr, false, true))
		}
	case 1: // MITM configured, tunnel carries plain HTTP
		if r.Chance(1, 6) { // ... or nothing at all: the client hangs up right after the 200
			ops = append(ops, "conn mode=seq listener="+r.Pick("mitm", "shapedmitm")+" shutdown=0 quiet=1")
			for i := 0; i < r.Intn(2); i++ {
				ops = append(ops, genX(r, pr, false, false))
			}
			ops = append(ops, fmt.Sprintf("cmitm tls=%s rq=pass rs=%s", b01(r.Bool()), r.Pick("pass", "err")))
			break
		}
		listener := r.Pick("mitm", "mitm", "shapedmitm", "tlsmitm")
		ops = append(ops, "conn mode=seq listener="+listener+" shutdown=0"+tflip(r, listener)+map[bool]string{true: " pre=" + r.Pick("tls", "tls,tls"), false: ""}[!listenerTLS(listener) && r.Chance(1, 2)])
		if r.Chance(1, 3) { // a tunnel whose handshake fails, then one that carries plain HTTP
			ops = append(ops, genFailedConnect(r, pr))
		}
		ops = append(ops, genConnect(r, pr, false))
		for i := 0; i < n; i++ {
			ops = append(ops, genX(r, pr, listenerTLS(listener), true))
		}
	default: // MITM with TLS inside
		listener := r.Pick("mitm", "mitm", "shapedmitm", "tlsmitm")
		ops = append(ops, "conn mode=seq listener="+listener+" shutdown=0"+tflip(r, listener))
		pre := 0
		if r.Chance(1, 4) {
			pre = 1
		}
		for i := 0; i < pre; i++ {
			ops = append(ops, genX(r, pr, listenerTLS(listener), true))
		}
		if r.Chance(1, 3) { // earlier connections through the same proxy (multiconn.go)
			ops[len(ops)-1-pre] += " pre=" + r.Pick("tls", "tls,plain", "plain,tls", "tls,tls")
		}
		if r.Chance(1, 4) { // the requests inside the tunnel are pipelined
			ops[len(ops)-1-pre] += " tpipe=1"
			ops = append(ops, genConnect(r, pr, true))
			for i := 0; i < n; i++ {
				ops = append(ops, genXm(r, pr, true, i == n-1, false))
			}
			core.Count("tunnel:pipelined-inside")
			ops = append(ops, "end")
			return ops
		}
		ops = append(ops, genConnect(r, pr, true))
		for i := 0; i < n; i++ {
			ops = append(ops, genX(r, pr, true, true))
		}
	}
	ops = append(ops, "end")
	return ops
}

// genEarlyCase: a sequential connection on which origins answer before the upload has ended
// (early.go), with ordinary exchanges in between; the last exchange may end the connection.
func genEarlyCase(r *core.Rand, pr Profile) []string {
	listener := r.Pick("plain", "plain", "plain", "shaped")
	if pr.Tunnels && r.Chance(1, 3) {
		listener = r.Pick("tls", "shapedtls")
	}
	sec := listenerTLS(listener)
	ops := []string{"conn mode=seq listener=" + listener + " shutdown=0"}
	n := r.Range(1, 3)
	for i := 0; i < n; i++ {
		last := i == n-1
		if r.Chance(1, 4) {
			ops = append(ops, genXm(r, pr, sec, last, true))
			continue
		}
		rb := r.Pick2(20000, 65536)
		if pr.BigBodies && r.Chance(1, 3) {
			rb = 1<<20 + r.Intn(1<<20)
		}
		rf := "cl"
		if rb >= earlyMinChunkedUpload && r.Bool() {
			rf = "ch"
		}
		of := r.Pick("cl", "ch", "ch")
		if last && r.Chance(1, 5) {
			of = "close"
		}
		tf := r.Pick("origin", "abs")
		if sec && tf == "abs" && r.Bool() {
			tf = "abss"
		}
		kv := []string{"x", "m=" + r.Pick("POST", "PUT", "PATCH"), "tf=" + tf, "pv=11", "ct=-",
			fmt.Sprintf("hs=%d", r.Range(1, 9999)), fmt.Sprintf("hdr=%d", r.Intn(4)), fmt.Sprintf("ohdr=%d", r.Intn(3)),
			fmt.Sprintf("rb=%d", rb), "rf=" + rf, "rq=pass", "rs=pass", "o=ok", "st=" + r.Pick("200", "200", "201", "404", "500"),
			fmt.Sprintf("ob=%d", r.Pick2(r.Range(2, 600), r.Pick2(4096, 20000))), "of=" + of, "opv=11", "oct=-", "gz=0",
			fmt.Sprintf("ea=%d", r.Pick2(1, 1024))}
		if sec {
			kv = append(kv, "sec=1")
		}
		core.Count("early:generated")
		ops = append(ops, strings.Join(kv, " "))
	}
	return append(ops, "end")
}

// GenLongCase: a long keep-alive history - n tiny exchanges on one connection, one at a time or
// pipelined in one write (bodiless requests, small responses, a fast origin). Nobody asks to close,
// so every one of them must be answered and the connection must still be usable afterwards.
func GenLongCase(r *core.Rand, n int) []string {
	mode := r.Pick("seq", "pipe")
	ops := []string{"conn mode=" + mode + " listener=plain shutdown=0"}
	for i := 0; i < n; i++ {
		ops = append(ops, fmt.Sprintf("x m=GET tf=%s pv=11 ct=- hs=%d hdr=0 ohdr=0 rb=0 rf=cl rq=pass rs=pass o=ok st=200 ob=%d of=%s opv=11 oct=- gz=0",
			r.Pick("abs", "origin"), i+1, r.Intn(4), r.Pick("cl", "cl", "ch")))
	}
	core.Count("long:" + mode)
	return append(ops, "end")
}

// GenReuseCase: origins that give up a pooled upstream connection at the moment it is reused
// (reuse.go), under requests the transport can replay (bodiless GET/HEAD/OPTIONS) and under ones it
// cannot (bodies, POST); everything keep-alive, one origin, so that connections do get reused.
func GenReuseCase(r *core.Rand) []string {
	mode := r.Pick("seq", "seq", "pipe")
	ops := []string{"conn mode=" + mode + " listener=plain shutdown=0"}
	n := r.Range(3, 7)
	for i := 0; i < n; i++ {
		m, rb := r.Pick("GET", "GET", "HEAD", "OPTIONS"), 0
		if r.Chance(1, 3) {
			m = r.Pick("POST", "PUT", "POST")
			rb = r.Pick2(0, r.Range(1, 3000))
		}
		oi := ""
		if i > 0 && r.Chance(1, 2) {
			oi = " oi=drop"
			core.Count("reuse:drop-" + closeWord(m != "GET" && m != "HEAD" && m != "OPTIONS") + "-replay")
		}
		ops = append(ops, fmt.Sprintf("x m=%s tf=abs pv=11 ct=- hs=%d hdr=1 ohdr=1 rb=%d rf=cl rq=pass rs=pass o=ok st=%s ob=%d of=%s opv=11 oct=- gz=0%s",
			m, r.Range(1, 9999), rb, r.Pick("200", "200", "404"), r.Range(1, 400), r.Pick("cl", "ch"), oi))
	}
	return append(ops, "end")
}

// GenPipeCloseCase: a small pipelined batch (one write, well inside what the proxy reads at once, so
// that closing leaves nothing unread in the socket) in which ONE side asks to close in the middle: the
// origin on a length- or chunk-delimited response, or the client. The proxy closes after that
// response; the requests pipelined behind it are not answered.
func GenPipeCloseCase(r *core.Rand) []string {
	ops := []string{"conn mode=pipe listener=plain shutdown=0"}
	n := r.Range(2, 5)
	closer := r.Intn(n - 1) // never the last: something is buffered behind it
	for i := 0; i < n; i++ {
		ct, oct, of := "-", "-", r.Pick("cl", "ch")
		if i == closer {
			switch r.Intn(4) {
			case 0:
				ct = hexLines([]string{"close"})
			default:
				oct = hexLines([]string{r.Pick("close", "Close", "x-verif-hop, close")})
			}
		}
		ops = append(ops, fmt.Sprintf("x m=GET tf=%s pv=11 ct=%s hs=%d hdr=0 ohdr=0 rb=0 rf=cl rq=pass rs=pass o=ok st=200 ob=%d of=%s opv=11 oct=%s gz=0",
			r.Pick("abs", "origin"), ct, i+1, r.Range(1, 200), of, oct))
	}
	core.Count("pipe:close-in-the-middle")
	return append(ops, "end")
}

// GenUnreadCase: an upload of several MiB that the origin never reads while answering keep-alive
// (unread.go), between ordinary exchanges on the same connection.
func GenUnreadCase(r *core.Rand, size int) []string {
	ops := []string{"conn mode=seq listener=" + r.Pick("plain", "plain", "shaped") + " shutdown=0"}
	plain := func(i int) string {
		return fmt.Sprintf("x m=GET tf=abs pv=11 ct=- hs=%d hdr=1 ohdr=1 rb=0 rf=cl rq=pass rs=pass o=ok st=200 ob=%d of=cl opv=11 oct=- gz=0", i, r.Range(1, 300))
	}
	if r.Bool() {
		ops = append(ops, plain(1))
	}
	ops = append(ops, fmt.Sprintf("x m=%s tf=%s pv=11 ct=- hs=%d hdr=1 ohdr=1 rb=%d rf=cl rq=pass rs=pass o=ok st=%s ob=%d of=%s opv=11 oct=- gz=0 ur=1",
		r.Pick("POST", "PUT"), r.Pick("abs", "origin"), r.Range(2, 9999), size, r.Pick("200", "201", "413"), r.Range(1, 300), r.Pick("cl", "ch")))
	ops = append(ops, plain(3), plain(4))
	core.Count("unread:upload-MiB-" + fmt.Sprint(size>>20))
	return append(ops, "end")
}

// GenDownstreamCase: CONNECTs relayed to a downstream proxy and its answers (dsp.go).
func GenDownstreamCase(r *core.Rand, pr Profile) []string {
	ops := []string{"conn mode=seq listener=plain shutdown=0 dsp=1" + r.Pick("", " dspu=1")}
	for i := r.Intn(2); i > 0; i-- {
		ops = append(ops, genX(r, pr, false, false))
	}
	// refusals that leave the connection in use first, then one answer that ends it
	for i := r.Intn(3); i > 0; i-- {
		k := r.Pick("trunc", "garbage", "close", "refuse")
		ops = append(ops, "cblind dial=0 dk=refuse rq=pass rs=pass dsr="+k)
		core.Count("dsp:" + k)
	}
	k := DownstreamAnswers[r.Intn(len(DownstreamAnswers))]
	core.Count("dsp:" + k)
	rq, rs := genMods(r, pr)
	if rq == "insec" {
		rq = "pass"
	}
	ops = append(ops, fmt.Sprintf("cblind dial=%s dk=refuse rq=%s rs=%s dsr=%s", b01(!dsrFails(k)), rq, rs, k))
	if dsrFails(k) && r.Bool() {
		ops = append(ops, genX(r, pr, false, true))
	}
	return append(ops, "end")
}

// GenSlowCase: the proxy's idle timeout is short, every origin response takes less than it, the
// whole batch takes more: the deadline is per request, so nothing may be lost - pipelined (the next
// request is already buffered when a response is done) or one at a time.
func GenSlowCase(r *core.Rand) []string {
	mode := r.Pick("pipe", "pipe", "seq", "half")
	ops := []string{"conn mode=" + mode + " listener=plain shutdown=0 to=2000"}
	n := r.Range(5, 6)
	for i := 0; i < n; i++ {
		ops = append(ops, fmt.Sprintf("x m=GET tf=abs pv=11 ct=- hs=%d hdr=1 ohdr=1 rb=0 rf=cl rq=pass rs=pass o=ok st=200 ob=%d of=%s opv=11 oct=- gz=0 lat=%d",
			i+1, r.Range(1, 300), r.Pick("cl", "ch"), r.Range(480, 560)))
	}
	core.Count("slow:" + mode)
	return append(ops, "end")
}

// tflip: which of the two TLS flavours the odd layers of the connection get (tlsid.go).
func tflip(r *core.Rand, listener string) string {
	out := ""
	if (listenerTLS(listener) || strings.Contains(listener, "mitm")) && r.Bool() {
		out = " tflip=1"
	}
	// the SETTINGS of a traffic-shaping listener: a per-connection latency (0 / a few ms), bit rates
	if strings.HasPrefix(listener, "shaped") {
		out += r.Pick("", "", " tsl=1", " tsl=3", " tsl=5 tsb=80000000", " tsl=2 tsb=400000000", " tsb=200000000")
	}
	return out
}

// GenHalfCloseCase: the client half-closes after its last (bodiless) request - before the origin has
// answered (the answer is delayed) or after it has read the response (lifecycle.go).
func GenHalfCloseCase(r *core.Rand, pr Profile) []string {
	listener := r.Pick("plain", "plain", "shaped")
	if pr.Tunnels {
		listener = r.Pick("plain", "tls", "shapedtls")
	}
	sec := listenerTLS(listener)
	mode := r.Pick("seq", "seq", "pipe")
	hc := r.Pick("before", "before", "after")
	ops := []string{"conn mode=" + mode + " listener=" + listener + " shutdown=0 quiet=1 hc=" + hc + tflip(r, listener)}
	n := r.Range(1, 3)
	for i := 0; i < n; i++ {
		lat := ""
		if i == n-1 || mode == "pipe" {
			lat = fmt.Sprintf(" lat=%d", r.Range(120, 300))
		}
		tf := r.Pick("abs", "origin")
		kv := fmt.Sprintf("x m=%s tf=%s pv=11 ct=- hs=%d hdr=1 ohdr=1 rb=0 rf=cl rq=pass rs=pass o=ok st=%s ob=%d of=%s opv=11 oct=- gz=0%s",
			r.Pick("GET", "GET", "HEAD", "OPTIONS"), tf, r.Range(1, 9999), r.Pick("200", "200", "404"), r.Range(1, 5000), r.Pick("cl", "ch"), lat)
		if sec {
			kv += " sec=1"
		}
		ops = append(ops, kv)
	}
	core.Count("lifecycle:half-close-" + hc + "-" + mode)
	return append(ops, "end")
}

// GenBusyCase: the idle timeout is short, the connection is kept busy - every gap and every exchange
// far below the timeout - for a multiple of it: nothing may be cut, on any kind of connection.
func GenBusyCase(r *core.Rand, kind string) []string {
	ops := []string{"conn mode=seq listener=" + kind + " shutdown=0 to=800 gap=300" + tflip(r, kind)}
	sec := listenerTLS(kind)
	if strings.Contains(kind, "mitm") {
		ops = append(ops, "cmitm tls=1 rq=pass rs=pass")
		sec = true
	}
	for i := 0; i < 7; i++ {
		kv := fmt.Sprintf("x m=GET tf=origin pv=11 ct=- hs=%d hdr=1 ohdr=1 rb=0 rf=cl rq=pass rs=pass o=ok st=200 ob=%d of=%s opv=11 oct=- gz=0", i+1, r.Range(1, 300), r.Pick("cl", "ch"))
		if sec {
			kv += " sec=1"
		}
		ops = append(ops, kv)
	}
	core.Count("busy:" + kind)
	return append(ops, "end")
}

// Nontrivial: at least two requests were served on the connection or a non-pass behaviour occurred.
func Nontrivial(ops []string, impl []string) bool {
	if len(impl) == 0 {
		return false
	}
	last := impl[len(impl)-1]
	return strings.Count(last, "rq=1") >= 2 || strings.Contains(last, "unserved") || strings.Contains(last, "st=502") || strings.Contains(last, "hij=tls") || strings.Contains(last, "hij=raw")
}
