package pxy

// Upstream faults on blind CONNECT tunnels: the target answers with k bytes and then closes
// ABORTIVELY (SO_LINGER 0: the peer gets RST, not FIN) - a crashed process, a firewall. The copy from
// the target ends with an error instead of EOF; end-of-stream must still be passed on to the client,
// which is waiting in silence: a clean close, never a hang until some idle timeout (C03).
//
// `cblind dial=1 tg=rst k=<bytes>`.

import (
	"io"
	"net"
	"time"
)

func (e *Ex) serveResets(l net.Listener) {
	for {
		c, err := l.Accept()
		if err != nil {
			return
		}
		go func(c net.Conn) {
			c.SetDeadline(time.Now().Add(10 * time.Second))
			buf := make([]byte, 4)
			io.ReadFull(c, buf)
			e.w.mu.Lock()
			k := 0
			if it, ok := e.w.items[e.w.current]; ok {
				k = it.n("k", 0)
			}
			e.w.mu.Unlock()
			c.Write(Body(k, 77))
			time.Sleep(30 * time.Millisecond) // let the bytes go out before the reset overtakes them
			if tc, ok := c.(*net.TCPConn); ok {
				tc.SetLinger(0)
			}
			c.Close()
		}(c)
	}
}
