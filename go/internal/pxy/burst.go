package pxy

// Very long connections. `burst n=<N>`: N bodiless requests pipelined on ONE connection, the request
// modifier skips every round trip (no origin involved, so 70000 exchanges take a few seconds); what
// is compared is the bookkeeping over the whole connection: one response per request, context ids
// pairwise distinct over ALL exchanges of the connection (not only neighbours), the same context on
// the response side, one session, nothing left linked afterwards (C02).

import (
	"bufio"
	"bytes"
	"fmt"
	"io"
	"net"
	"net/http"
	"strconv"
	"strings"
	"time"

	"github.com/google/martian/v3"

	"verif/harness/internal/core"
)

type burstRec struct {
	reqCtx, resCtx []string
	reqs           []*http.Request
	sameReq        []bool
	sessions       map[string]bool
}

func burstIndex(id string) (int, bool) {
	if !strings.HasPrefix(id, "burst-") {
		return 0, false
	}
	k, err := strconv.Atoi(id[6:])
	return k, err == nil
}

// burstReqmod / burstResmod: the light recording path of burst exchanges (no per-exchange record).
func (w *world) burstReqmod(k int, req *http.Request) {
	ctx := martian.NewContext(req)
	w.mu.Lock()
	b := w.burst
	if b != nil && k < len(b.reqCtx) && ctx != nil {
		b.reqCtx[k] = ctx.ID()
		b.reqs[k] = req
		b.sessions[ctx.Session().ID()] = true
	}
	w.mu.Unlock()
	if ctx != nil {
		ctx.SkipRoundTrip()
	}
}

func (w *world) burstResmod(k int, res *http.Response) {
	ctx := martian.NewContext(res.Request)
	w.mu.Lock()
	b := w.burst
	if b != nil && k < len(b.resCtx) && ctx != nil {
		b.resCtx[k] = ctx.ID()
		b.sameReq[k] = b.reqs[k] == res.Request
	}
	w.mu.Unlock()
}

func (e *Ex) runBurst(toks []string) core.Result {
	n, _ := strconv.Atoi(parseKV(toks[1:])["n"])
	if n <= 0 {
		return core.Result{Impl: "bad-op"}
	}
	e.w.burst = &burstRec{reqCtx: make([]string, n), resCtx: make([]string, n), reqs: make([]*http.Request, n), sameReq: make([]bool, n), sessions: map[string]bool{}}
	e.start()
	raw, err := net.DialTimeout("tcp", e.pl.Addr().String(), 2*time.Second)
	if err != nil {
		return core.Result{Impl: "dial-failed", Fail: err.Error(), Sig: "harness"}
	}
	defer raw.Close()
	go func() {
		var b bytes.Buffer
		for k := 0; k < n; k++ {
			fmt.Fprintf(&b, "GET http://%s/b HTTP/1.1\r\nHost: %s\r\n%s: burst-%d\r\n\r\n", e.originAddr, e.originAddr, idHeader, k)
			if b.Len() > 1<<16 || k == n-1 {
				raw.SetWriteDeadline(time.Now().Add(10 * ioTimeout))
				if _, err := raw.Write(b.Bytes()); err != nil {
					return
				}
				b.Reset()
			}
		}
	}()
	br := bufio.NewReaderSize(raw, 1<<16)
	served := 0
	for ; served < n; served++ {
		raw.SetReadDeadline(time.Now().Add(ioTimeout))
		res, err := http.ReadResponse(br, nil)
		if err != nil {
			isTimeout(err)
			break
		}
		io.Copy(io.Discard, res.Body)
		if res.StatusCode != 200 {
			break
		}
	}
	raw.Close()
	left := -1
	for i := 0; i < int(ioTimeout/(15*time.Millisecond)); i++ {
		if left = martian.VerifLiveContexts(); left == 0 {
			break
		}
		time.Sleep(10 * time.Millisecond)
	}
	core.Count(fmt.Sprintf("burst:%d", n))

	b := e.w.burst
	e.w.mu.Lock()
	defer e.w.mu.Unlock()
	var fails []string
	sig := ""
	failf := func(s, f string, a ...interface{}) {
		if sig == "" {
			sig = s
		}
		if len(fails) < 6 {
			fails = append(fails, fmt.Sprintf(f, a...))
		}
	}
	if served != n {
		failf("c01:no-response", "%d of %d pipelined requests were answered", served, n)
	}
	seen := make(map[string]int, n)
	distinct, same := true, true
	for k := 0; k < served; k++ {
		id := b.reqCtx[k]
		if id == "" {
			failf("c02:reqmod-count", "exchange %d: the request modifier saw no context", k)
			continue
		}
		if o, dup := seen[id]; dup {
			distinct = false
			failf("c02:context-id-reused", "exchanges %d and %d of one connection share context id %s", o, k, id)
		}
		seen[id] = k
		if b.resCtx[k] != id || !b.sameReq[k] {
			same = false
			failf("c02:context-differs", "exchange %d: context %q at request, %q at response (same request: %v)", k, id, b.resCtx[k], b.sameReq[k])
		}
	}
	if len(b.sessions) != 1 {
		failf("c02:session-not-shared", "%d sessions on one connection", len(b.sessions))
	}
	if left != 0 {
		failf("c02:context-table-not-empty", "%d contexts still linked at quiescence", left)
	}
	res := core.Result{Impl: fmt.Sprintf("served=%d distinct=%s samectx=%s sessions=%d ctxleft=%d", served, b01(distinct), b01(same), len(b.sessions), left)}
	if len(fails) > 0 {
		res.Fail, res.Sig = strings.Join(fails, "; "), sig
	}
	return res
}
