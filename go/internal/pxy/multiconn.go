package pxy

// Several connections through ONE proxy instance. Every connection starts from scratch: its own
// session, insecure until its own TLS, no values - whatever earlier connections of the same proxy
// did (C05: a plain connection after a MITM'd TLS one is plain; C02: the session is shared by no other
// connection). `conn … pre=<kinds>` runs short connections first, one after the other, each ended and
// fully released before the next is accepted; the scripted connection of the case follows and is
// judged as always.
//   tls    CONNECT, TLS handshake inside the tunnel, one request, close   (MITM listeners)
//   plain  one plain request, close
//   tlsl   one request on the transparent-TLS listener, close             (TLS listeners)

import (
	"bufio"
	"crypto/tls"
	"fmt"
	"io"
	"net"
	"net/http"
	"strings"
	"time"

	"github.com/google/martian/v3"

	"verif/harness/internal/core"
)

func (e *Ex) runPreludes() {
	for n, kind := range strings.Split(e.conn["pre"], ",") {
		if kind == "" {
			continue
		}
		e.prelude(n, kind)
		// the connection is over for the proxy too: nothing linked, its serving loop gone
		for i := 0; i < 200 && martian.VerifLiveContexts() != 0; i++ {
			time.Sleep(5 * time.Millisecond)
		}
		time.Sleep(30 * time.Millisecond)
		core.Count("multiconn:prelude-" + kind)
	}
}

func (e *Ex) prelude(n int, kind string) {
	raw, err := net.DialTimeout("tcp", e.pl.Addr().String(), 2*time.Second)
	if err != nil {
		return
	}
	defer raw.Close()
	raw.SetDeadline(time.Now().Add(ioTimeout))
	var c net.Conn = raw
	br := bufio.NewReader(raw)
	host := e.originAddr
	if listenerTLS(e.conn["listener"]) {
		tc := tls.Client(raw, layerConfig(e.caseNo, 90+n, false))
		if tc.Handshake() != nil {
			return
		}
		c, br, host = tc, bufio.NewReader(tc), e.originTLSAddr
	}
	if kind == "tls" {
		fmt.Fprintf(c, "CONNECT %s HTTP/1.1\r\nHost: %s\r\n%s: %d-pre%d-c\r\n\r\n", e.originTLSAddr, e.originTLSAddr, idHeader, e.caseNo, n)
		res, err := http.ReadResponse(br, &http.Request{Method: "CONNECT"})
		if err != nil || res.StatusCode != 200 {
			return
		}
		tc := tls.Client(&bufConn{Conn: c, r: br}, layerConfig(e.caseNo, 95+n, true))
		tc.SetDeadline(time.Now().Add(ioTimeout))
		if tc.Handshake() != nil {
			return
		}
		c, br, host = tc, bufio.NewReader(tc), e.originTLSAddr
	}
	fmt.Fprintf(c, "GET /prelude HTTP/1.1\r\nHost: %s\r\n%s: %d-pre%d\r\n\r\n", host, idHeader, e.caseNo, n)
	if res, err := http.ReadResponse(br, nil); err == nil {
		io.Copy(io.Discard, res.Body)
	}
	c.Close()
}
