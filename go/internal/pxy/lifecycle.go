package pxy

// The client's write-side lifecycle. A raw client may HALF-CLOSE its connection (shutdown(SHUT_WR) /
// close_notify) once it has sent its last request and then read the answers: every request it sent
// completely is still answered with the origin's response, however long the origin takes (C01). The
// point of the half-close is generated: right after the last request has been written - the origin's
// answer is delayed by lat= so that the FIN reaches the proxy while the exchange is in flight - or
// only after the response has been read.
//
// conn hc=before|after (with quiet=1: no probe follows); sequential and pipelined clients.

import "net"

// closeWrite half-closes the client's side of cc (TCP FIN, or close_notify on a TLS session).
func closeWrite(c net.Conn) {
	if cw, ok := c.(interface{ CloseWrite() error }); ok {
		cw.CloseWrite()
	}
}
