package pxy

// Method-specific and header-specific handling. A proxy without modifiers relays every end-to-end
// header as the client sent it - also the ones that have defined meaning FOR proxies (Max-Forwards on
// TRACE / OPTIONS, Range / If-Range, Cache-Control, Pragma, Expect, From, Referer, Date, Content-*)
// and on the rarely used methods (TRACE, OPTIONS incl. `OPTIONS *`, PATCH, extension tokens): C01 has
// no clause that lets the relay rewrite them. Requests at the edge of what http.ReadRequest accepts
// (no Host on HTTP/1.0, an empty Host, an absolute target with a different Host) are requests the proxy
// read: modifiers run exactly once on them, whatever the round trip then does (C02). Requests that ask
// for a protocol switch (Upgrade: websocket / h2c, Connection: Upgrade, HTTP2-Settings) are requests
// like any other: relayed by the round tripper, over TLS on a secure session (C05).
//
// op keys of an `x` item: sh=<bit mask over SemanticHeaders>, xr=nohost10|emptyhost|hostdiff,
// upg=ws|h2c|wsonly, via=sniff (send a secure request to the port that tells TLS from cleartext).

import "fmt"

// SemanticHeaders: request headers with defined proxy / cache semantics, all of them end-to-end.
var SemanticHeaders = [][2]string{
	{"Max-Forwards", "3"}, {"Max-Forwards", "1"}, {"Max-Forwards", "0"}, {"Max-Forwards", "many"},
	{"Range", "bytes=5-20"}, {"If-Range", "\"etag-1\""}, {"Cache-Control", "no-cache, max-age=0"}, {"Pragma", "no-cache"},
	{"From", "verif@example.test"}, {"Referer", "http://referrer.test/page?x=1"}, {"Expect", "x-verif-nothing"},
	{"Content-Type", "text/x-verif; charset=utf-8"}, {"Content-Language", "en, de"}, {"Content-Location", "/elsewhere"},
	{"Content-MD5", "Q2hlY2sgSW50ZWdyaXR5IQ=="}, {"Via", "1.0 earlier-hop"}, {"If-Modified-Since", "Mon, 02 Jan 2006 15:04:05 GMT"},
	{"TE", "trailers"}, {"Accept-Encoding", "br;q=1.0, gzip;q=0.5"}, {"Max-Forwards", "+2"},
}

// semanticHeaders returns the headers selected by sh= (only one Max-Forwards line: the first selected).
func semanticHeaders(it *item) [][2]string {
	mask := it.n("sh", 0)
	var hs [][2]string
	seenMF := false
	for i, h := range SemanticHeaders {
		if mask&(1<<uint(i)) == 0 {
			continue
		}
		if h[0] == "Max-Forwards" {
			if seenMF {
				continue
			}
			seenMF = true
		}
		hs = append(hs, h)
	}
	return hs
}

// upgradeHeaders: the protocol-switch request headers of upg= (the Connection token goes with them).
func upgradeHeaders(it *item) [][2]string {
	switch it.s("upg", "") {
	case "ws":
		return [][2]string{{"Upgrade", "websocket"}, {"Sec-WebSocket-Key", "dGhlIHNhbXBsZSBub25jZQ=="}, {"Sec-WebSocket-Version", "13"}, {"Connection", "Upgrade"}}
	case "wsonly":
		return [][2]string{{"Upgrade", "WebSocket"}}
	case "h2c":
		return [][2]string{{"Upgrade", "h2c"}, {"HTTP2-Settings", "AAMAAABkAARAAAAAAAIAAAAA"}, {"Connection", "Upgrade, HTTP2-Settings"}}
	}
	return nil
}

// hostLine: the Host header line of the request (xr= shapes it).
func hostLine(it *item, host string) string {
	switch it.s("xr", "") {
	case "nohost10":
		return ""
	case "emptyhost":
		return "Host: \r\n"
	case "hostdiff":
		return "Host: somebody-else.test:8080\r\n"
	}
	return fmt.Sprintf("Host: %s\r\n", host)
}

// noHost: does the request name no origin at all?
func noHost(it *item) bool {
	x := it.s("xr", "")
	return (x == "nohost10" || x == "emptyhost") && it.s("tf", "origin") == "origin"
}
