package pxy

// An origin that answers early: it starts its response as soon as it has seen the beginning of the
// upload, keeps reading the upload to its end and only then finishes the response (streaming /
// echo style services). The client's upload is gated on that: the rest of the body is sent only
// after the origin has started to answer, so the proxy relays a request body and a response at the
// same time. C01 demands a byte-identical request body at the origin and a complete response at
// the client under this schedule too.
//
// op key of an `x` item: ea=<n> (n > 0): the origin answers after the first n body bytes. Needs a
// request body of at least 2 bytes and a response with a non-empty framed body; sequential client.

import (
	"bytes"
	"io"
	"net"
	"net/http"
	"time"

	"verif/harness/internal/core"
)

// earlyMinUpload: uploads from this size on can be gated: the beginning of the upload must be larger
// than the buffers on the way (4 KiB in the proxy's reader and in the transport's writer), or it
// never reaches the origin before the end does. A chunked upload needs much more: net/http's chunked
// reader does not return in the middle of a chunk while its caller's buffer (32 KiB in io.Copy) has room.
const earlyMinUpload = 16384
const earlyMinChunkedUpload = 1 << 20

// earlyOK: can this exchange run in the early-answering mode?
func earlyOK(it *item) bool {
	if it.n("ea", 0) <= 0 || it.s("o", "ok") != "ok" {
		return false
	}
	if it.s("rf", "cl") == "ch" && it.s("pv", "11") != "10" {
		return it.n("rb", 0) >= earlyMinChunkedUpload
	}
	return it.n("rb", 0) >= earlyMinUpload
}

func (w *world) earlyChan(id string) chan struct{} {
	w.mu.Lock()
	defer w.mu.Unlock()
	if w.early == nil {
		w.early = map[string]chan struct{}{}
	}
	c, ok := w.early[id]
	if !ok {
		c = make(chan struct{})
		w.early[id] = c
	}
	return c
}

// originEarly serves one request in the early-answering way. It returns the upload as received and
// false when the exchange does not qualify (then the caller answers the ordinary way).
func (e *Ex) originEarly(c net.Conn, req *http.Request, id string, it *item, record func([]byte, error)) (readErr error, closeAfter bool, handled bool) {
	n := it.n("ea", 0)
	if !earlyOK(it) {
		return nil, false, false
	}
	full, closeAfter := originResponse(id, it)
	headLen := bytes.Index(full, []byte("\r\n\r\n")) + 4
	if len(full)-headLen < 2 {
		return nil, false, false
	}
	first := make([]byte, n)
	k, err := io.ReadFull(req.Body, first)
	if err != nil {
		// the upload is shorter than announced: answer the ordinary way with what there is
		rest, _ := io.ReadAll(req.Body)
		record(append(first[:k], rest...), nil)
		c.Write(full)
		return nil, closeAfter, true
	}
	cut := headLen + (len(full)-headLen)/2
	c.Write(full[:cut]) // the complete head and the first half of the framed body
	close(e.w.earlyChan(id))
	rest, err := io.ReadAll(req.Body) // the rest of the upload, relayed while the response is under way
	record(append(first, rest...), err)
	c.Write(full[cut:])
	return err, closeAfter, true
}

// sendGated writes the request head and the first half of the body, waits until the origin has
// started to answer (and, briefly, for the first byte of the response to show up at the client),
// then sends the rest of the upload in pieces.
func (e *Ex) sendGated(cc *clientConn, req []byte, id string) error {
	headEnd := bytes.Index(req, []byte("\r\n\r\n")) + 4
	firstLen := headEnd + (len(req)-headEnd)/2 // at least earlyMinUpload/2: more than the buffers on the way hold back
	if _, err := cc.c.Write(req[:firstLen]); err != nil {
		return err
	}

	// wait for the origin to start answering - unless the connection is already gone (an earlier
	// exchange closed it) or a response shows up without it (the request never reached the origin)
	ch := e.w.earlyChan(id)
	deadline := time.Now().Add(5 * time.Second)
wait:
	for {
		select {
		case <-ch:
			core.Count("early:origin-answered-before-upload-end")
			// the response head is on its way back through the proxy: give the round trip time to return
			// (not a verdict, only a pause; a shorter one only makes the schedule less likely)
			time.Sleep(60 * time.Millisecond)
			break wait
		default:
		}
		cc.c.SetReadDeadline(time.Now().Add(20 * time.Millisecond))
		_, err := cc.br.Peek(1)
		switch {
		case err == nil:
			core.Count("early:answered-without-the-origin")
			break wait
		case !timeoutErr(err): // polling, not a verdict
			core.Count("early:connection-gone")
			return err
		case time.Now().After(deadline):
			core.Count("early:origin-never-answered-early")
			break wait
		}
	}
	rest := req[firstLen:]
	pieces := 8
	for i := 0; i < pieces && len(rest) > 0; i++ {
		k := (len(rest) + pieces - i - 1) / (pieces - i)
		cc.c.SetWriteDeadline(time.Now().Add(ioTimeout))
		if _, err := cc.c.Write(rest[:k]); err != nil {
			return err
		}
		rest = rest[k:]
		time.Sleep(3 * time.Millisecond)
	}
	return nil
}

func earlyNote(it *item, r *exRec) string {
	if it.n("ea", 0) <= 0 {
		return ""
	}
	s := " (the origin answered early and went on reading the upload"
	if r.earlyErr != "" {
		s += ": " + r.earlyErr
	}
	return s + ")"
}
