package pxy

// Which TLS session a request is attributed to. A connection can carry several TLS sessions: the
// one a transparent-TLS listener terminates (layer 1) and one per MITM'd CONNECT whose tunnel starts
// with a handshake (the CONNECT with index i on the connection opens layer i+2), nested inside each
// other. C05: every request decrypted from a tunnel carries *that* tunnel's TLS state. The harness
// makes the layers of one connection pairwise distinguishable - different SNI, protocol version
// and ALPN outcome - and compares what the request modifier finds in req.TLS with the client's own
// view of the session the request was sent through (tls-unique too where TLS 1.2 defines it).

import (
	"bytes"
	"crypto/tls"
	"fmt"
	"net"
	"strconv"
	"strings"

	"github.com/google/martian/v3/trafficshape"
)

// tlsView is what both ends can read off a session.
type tlsView struct {
	ok       bool // there is a TLS state at all
	sni      string
	version  uint16
	alpn     string
	complete bool
	unique   []byte
}

func viewOf(cs *tls.ConnectionState) tlsView {
	if cs == nil {
		return tlsView{}
	}
	return tlsView{ok: true, sni: cs.ServerName, version: cs.Version, alpn: cs.NegotiatedProtocol, complete: cs.HandshakeComplete, unique: cs.TLSUnique}
}

func (v tlsView) String() string {
	if !v.ok {
		return "none"
	}
	return fmt.Sprintf("sni=%s version=%x alpn=%q complete=%v", v.sni, v.version, v.alpn, v.complete)
}

// same: do the two views describe the same session (as far as the fields can tell)?
func (v tlsView) same(o tlsView) bool {
	if v.ok != o.ok || v.sni != o.sni || v.version != o.version || v.alpn != o.alpn {
		return false
	}
	if len(v.unique) > 0 && len(o.unique) > 0 && !bytes.Equal(v.unique, o.unique) {
		return false
	}
	return true
}

func layerSNI(caseNo, layer int) string { return fmt.Sprintf("l%d.c%d.verif.test", layer, caseNo) }

// layerOfSNI recovers the layer number from a server name made by layerSNI (0 when it is not one).
func layerOfSNI(sni string) int {
	if !strings.HasPrefix(sni, "l") {
		return 0
	}
	i := strings.IndexByte(sni, '.')
	if i < 0 {
		return 0
	}
	n, err := strconv.Atoi(sni[1:i])
	if err != nil {
		return 0
	}
	return n
}

// layerConfig: odd layers speak TLS 1.3 and negotiate http/1.1 by ALPN, even layers speak TLS 1.2
// without ALPN (flip swaps the two), so that neighbouring layers always differ in every field.
func layerConfig(caseNo, layer int, flip bool) *tls.Config {
	c := &tls.Config{RootCAs: caPool, ServerName: layerSNI(caseNo, layer)}
	if (layer%2 == 1) != flip {
		c.MinVersion, c.MaxVersion = tls.VersionTLS13, tls.VersionTLS13
		c.NextProtos = []string{"http/1.1"}
	} else {
		c.MinVersion, c.MaxVersion = tls.VersionTLS12, tls.VersionTLS12
	}
	return c
}

// listenerTLS: does the proxy's listener terminate TLS itself (transparent TLS)?
func listenerTLS(kind string) bool {
	switch kind {
	case "tls", "tlsmitm", "shapedtls", "shapedtlsmitm":
		return true
	}
	return false
}

// connView: the TLS session of a connection handed out by the proxy (unwrapping a shaped connection).
func connView(c net.Conn) tlsView {
	if ts, ok := c.(*trafficshape.Conn); ok {
		c = ts.GetWrappedConn()
	}
	if tc, ok := c.(*tls.Conn); ok {
		cs := tc.ConnectionState()
		return viewOf(&cs)
	}
	return tlsView{}
}
