// Package pxy is the end-to-end harness of the per-connection exchange machine (proxy.go):
// a real martian.Proxy on a loopback listener, a raw TCP (or TLS-in-CONNECT) client, a scripted
// raw origin, recording modifiers. Shared by C01, C02, C03 and C05: one op language, one model
// (lean/Martian/Model/Proxy.lean), property-specific generators and the property oracles below.
package pxy

import (
	"bufio"
	"bytes"
	"compress/gzip"
	"crypto/sha256"
	"crypto/tls"
	"crypto/x509"
	"encoding/hex"
	"errors"
	"fmt"
	"io"
	"net"
	"net/http"
	"net/url"
	"os"
	"sort"
	"strconv"
	"strings"
	"sync"
	"syscall"
	"time"

	"github.com/google/martian/v3"
	mlog "github.com/google/martian/v3/log"
	"github.com/google/martian/v3/mitm"
	"github.com/google/martian/v3/trafficshape"

	"verif/harness/internal/core"
	"verif/harness/internal/golib"
)

// ---------- op parsing ----------

type item struct {
	kind string // x | cmitm | cblind
	kv   map[string]string
	raw  string
}

func parseKV(toks []string) map[string]string {
	m := map[string]string{}
	for _, t := range toks {
		if i := strings.IndexByte(t, '='); i > 0 {
			m[t[:i]] = t[i+1:]
		}
	}
	return m
}

func (it *item) s(k, def string) string {
	if v, ok := it.kv[k]; ok {
		return v
	}
	return def
}
func (it *item) n(k string, def int) int {
	if v, ok := it.kv[k]; ok {
		n, err := strconv.Atoi(v)
		if err == nil {
			return n
		}
	}
	return def
}

// Body is the deterministic body of length n for seed s.
func Body(n int, seed int) []byte {
	b := make([]byte, n)
	x := uint32(seed)*2654435761 + 12345
	for i := range b {
		x = x*1664525 + 1013904223
		b[i] = byte(x >> 24)
	}
	return b
}

func sum(b []byte) string {
	h := sha256.Sum256(b)
	return fmt.Sprintf("%d:%s", len(b), hex.EncodeToString(h[:6]))
}

// ---------- shared MITM authority ----------

var (
	caOnce sync.Once
	caCert *x509.Certificate
	caPool *x509.CertPool
	mitmC  *mitm.Config
	// mitmNoCB: the same authority, with the handshake error callback explicitly cleared
	// (SetHandshakeErrorCallback(nil) is legal: "if it is non-nil"); conn key hscb=nil.
	mitmNoCB *mitm.Config
	orgTLS *tls.Config
)

func authority() {
	caOnce.Do(func() {
		ca, priv, err := mitm.NewAuthority("verif CA", "verif", time.Hour)
		if err != nil {
			panic(err)
		}
		caCert = ca
		caPool = x509.NewCertPool()
		caPool.AddCert(ca)
		mitmC, err = mitm.NewConfig(ca, priv)
		if err != nil {
			panic(err)
		}
		mitmC.SetHandshakeErrorCallback(func(*http.Request, error) { onHandshakeError() })
		mitmNoCB, err = mitm.NewConfig(ca, priv)
		if err != nil {
			panic(err)
		}
		mitmNoCB.SetHandshakeErrorCallback(nil)
		// the TLS origin uses a certificate minted by the same authority for 127.0.0.1
		oc, err := mitm.NewConfig(ca, priv)
		if err != nil {
			panic(err)
		}
		orgTLS = oc.TLSForHost("127.0.0.1")
	})
}

// mitmConfig: the MITM configuration of this case's proxy.
func (e *Ex) mitmConfig() *mitm.Config {
	if e.conn["hscb"] == "nil" {
		return mitmNoCB
	}
	return mitmC
}

// ---------- recording ----------

type exRec struct {
	reqmod, resmod          int
	reqSeq, upSeq, resSeq   int
	ctxReq, ctxRes          string
	sess                    string
	sameReq                 bool
	https, sec, tlsAttached bool
	upCount                 int
	dialed                  int // dial attempts toward a scripted target on behalf of this exchange
	upTLS                   bool
	upWarn                  int
	resReqWarn              int
	hij                     string
	retained                *http.Request
	// what the origin received
	upMethod, upURI, upBody string
	upHdrOK                 bool
	upHdrDetail             string
	// what the client received
	got               bool
	st                int
	cm, cp            bool
	ws, wt            int
	downBody          string
	downHdrOK         bool
	downHdrDetail     string
	downID            string
	extraAfterHijack  int
	closedAfterHijack bool
	ctxAfterEnd       bool // context still retrievable when a later request of the connection was handled
	stalled           bool // the response body neither completed nor hit EOF: the read timed out
	// wire attributes of the response the client parsed (wire.go)
	pvSeen, frSeen string
	// TLS session attribution (tlsid.go): what req.TLS held, and the client's view of the session the
	// request was sent through
	layer            int
	tlsSeen, tlsWant tlsView
	hijView          tlsView // the TLS session of the connection a hijacker was handed
	// session / context storage (api.go)
	storedValue    bool
	svWant, svSeen int
	svLost         string
	ctxValueOK     bool
	// reused upstream connections (reuse.go)
	dropped int
	upHost  string // the Host the origin received (authority.go)
	ctlHdr  string // a response header value with a control byte in it
	// blind tunnel against a resetting target (tunnelrst.go)
	tunnelGot  int
	tunnelHung bool
	// context flags after the request modifier's calls (api.go): skip round trip, skip logging, API request
	flags string
	// early-answering origin (early.go)
	earlyErr string
}

type world struct {
	mu      sync.Mutex
	seq     int
	recs    map[string]*exRec
	items   map[string]*item
	dials   int
	current string // id of the exchange being driven (sequential mode)
	early   map[string]chan struct{} // closed when the origin has started to answer early (early.go)
	burst   *burstRec                // the light records of a burst (burst.go)
}

func (w *world) rec(id string) *exRec {
	r, ok := w.recs[id]
	if !ok {
		r = &exRec{}
		w.recs[id] = r
	}
	return r
}
func (w *world) next() int { w.seq++; return w.seq }

const idHeader = "X-Verif-Id"

func hijackReply(conn net.Conn, brw *bufio.ReadWriter) {
	// the hijacker answers on the connection it was handed and returns without closing it
	brw.WriteString("HTTP/1.1 299 Hijacked\r\nContent-Length: 0\r\nX-Verif-Hijack: 1\r\n\r\n")
	brw.Flush()
}

func connKind(c net.Conn) string {
	if ts, ok := c.(*trafficshape.Conn); ok { // a shaped listener wraps what it hands out
		c = ts.GetWrappedConn()
	}
	if _, ok := c.(*tls.Conn); ok {
		return "tls"
	}
	return "raw"
}

// cloningRT behaves like the many RoundTripper wrappers (oauth2, tracing) that send a clone of the
// request: the response's Request field is then not the request the proxy handed over.
type cloningRT struct{ base http.RoundTripper }

func (c cloningRT) RoundTrip(req *http.Request) (*http.Response, error) {
	return c.base.RoundTrip(req.Clone(req.Context()))
}

func (w *world) reqmod() martian.RequestModifier {
	return martian.RequestModifierFunc(func(req *http.Request) error {
		id := req.Header.Get(idHeader)
		if k, ok := burstIndex(id); ok {
			w.burstReqmod(k, req)
			return nil
		}
		ctx := martian.NewContext(req)
		w.mu.Lock()
		r := w.rec(id)
		it := w.items[id]
		r.reqmod++
		r.reqSeq = w.next()
		r.retained = req
		if ctx != nil {
			r.ctxReq = ctx.ID()
			r.sess = ctx.Session().ID()
			r.sec = ctx.Session().IsSecure()
		}
		r.https = req.URL.Scheme == "https"
		r.tlsAttached = req.TLS != nil
		r.tlsSeen = viewOf(req.TLS)
		// exchanges that have ended on this connection must no longer have a retrievable context,
		// even while the connection lives on (a MITM CONNECT has not ended while its tunnel is served)
		for oid, o := range w.recs {
			oit := w.items[oid]
			if oid != id && o.retained != nil && o.resmod > 0 && oit != nil && oit.kind != "cmitm" && martian.NewContext(o.retained) != nil {
				o.ctxAfterEnd = true
			}
		}
		if it != nil {
			w.sessionValues(id, r, ctx)
		}
		w.mu.Unlock()
		if it == nil {
			return nil
		}
		rq := it.s("rq", "pass")
		if (rq == "skip" || rq == "errskip") && ctx != nil && !strings.Contains(it.s("api", ""), "skiprt") {
			ctx.SkipRoundTrip() // first; otherwise the call is at its place in the api= list
		}
		apiCalls(it.s("api", ""), ctx)
		w.mu.Lock()
		r.flags = seenFlags(ctx)
		w.mu.Unlock()
		switch rq {
		case "insec":
			apiCalls("insec", ctx)
		case "err":
			return modErr(it.s("ek", "plain"), reqErrMark)
		case "errskip":
			return modErr(it.s("ek", "plain"), reqErrMark)
		case "hijack":
			if ctx == nil { // no context for this message: the oracle reports it; nothing to hijack
				return nil
			}
			conn, brw, err := ctx.Session().Hijack()
			if err == nil {
				w.mu.Lock()
				r.hij, r.hijView = connKind(conn), connView(conn)
				w.mu.Unlock()
				hijackReply(conn, brw)
			}
		}
		return nil
	})
}

func (w *world) resmod() martian.ResponseModifier {
	return martian.ResponseModifierFunc(func(res *http.Response) error {
		id := ""
		if res.Request != nil {
			id = res.Request.Header.Get(idHeader)
		}
		if k, ok := burstIndex(id); ok {
			w.burstResmod(k, res)
			return nil
		}
		ctx := martian.NewContext(res.Request)
		w.mu.Lock()
		r := w.rec(id)
		it := w.items[id]
		r.resmod++
		r.resSeq = w.next()
		r.sameReq = res.Request == r.retained
		if ctx != nil {
			r.ctxRes = ctx.ID()
			v, ok := ctx.Get(ctxValueKey)
			r.ctxValueOK = ok && v == id
		}
		if res.Request != nil {
			r.resReqWarn = len(res.Request.Header["Warning"])
			if it != nil {
				r.resReqWarn = carrying(res.Request.Header["Warning"], modErr(it.s("ek", "plain"), reqErrMark))
			}
		}
		w.mu.Unlock()
		if it == nil {
			return nil
		}
		apiCalls(it.s("sapi", ""), ctx)
		switch it.s("rs", "pass") {
		case "err":
			return modErr(it.s("sek", "plain"), resErrMark)
		case "hijack":
			if ctx == nil { // no context for this message: the oracle reports it; nothing to hijack
				return nil
			}
			conn, brw, err := ctx.Session().Hijack()
			if err == nil {
				w.mu.Lock()
				r.hij, r.hijView = connKind(conn), connView(conn)
				w.mu.Unlock()
				hijackReply(conn, brw)
			}
		}
		return nil
	})
}

// ---------- request / response construction ----------

func reqHeaders(it *item) [][2]string {
	n := it.n("hdr", 0)
	seed := it.n("hs", 1)
	var hs [][2]string
	names := []string{"X-A", "x-b-lower", "X-Repeat", "X-Repeat", "Accept", "X-Empty", "Cookie", "X-MiXeD-CaSe", "Authorization", "X-Repeat", "If-None-Match", "X-Long"}
	for i := 0; i < n && i < len(names); i++ {
		v := fmt.Sprintf("v%d-%d", seed, i)
		if names[i] == "X-Empty" {
			v = ""
		}
		if names[i] == "X-Long" {
			v = strings.Repeat("z", 700+seed%300)
		}
		hs = append(hs, [2]string{names[i], v})
	}
	hs = append(hs, semanticHeaders(it)...)
	for _, l := range dateLines(it.s("dt", "")) { // the Date the client sent is an end-to-end header too
		hs = append(hs, [2]string{"Date", l})
	}
	for _, h := range upgradeHeaders(it) {
		if h[0] != "Connection" {
			hs = append(hs, h)
		}
	}
	return append(hs, bulkHeaders("X-Bulk", it.n("rhb", 0), it.s("rhs", "many"), seed)...)
}

func resHeaders(it *item) [][2]string {
	n := it.n("ohdr", 0)
	seed := it.n("hs", 1)
	var hs [][2]string
	names := []string{"X-Origin-A", "Set-Cookie", "Set-Cookie", "ETag", "x-lower", "X-Empty", "Cache-Control", "Set-Cookie"}
	for i := 0; i < n && i < len(names); i++ {
		v := fmt.Sprintf("o%d-%d", seed, i)
		if names[i] == "X-Empty" {
			v = ""
		}
		hs = append(hs, [2]string{names[i], v})
	}
	return append(hs, bulkHeaders("Set-Cookie", it.n("ohb", 0), it.s("ohs", "many"), seed)...)
}

func chunked(b []byte, seed int) []byte {
	var out bytes.Buffer
	x := uint32(seed) + 7
	for len(b) > 0 {
		x = x*1103515245 + 12345
		n := 1 + int(x>>16)%4096
		if n > len(b) {
			n = len(b)
		}
		fmt.Fprintf(&out, "%x\r\n", n)
		out.Write(b[:n])
		out.WriteString("\r\n")
		b = b[n:]
	}
	out.WriteString("0\r\n\r\n")
	return out.Bytes()
}

// pathOf is the path-and-query the client sends (and the origin must see unchanged).
func pathOf(id string, it *item) string {
	switch it.n("pk", 0) {
	case 1:
		return "/p" + id + "/./a/../b/index.html?rev=3"
	case 2:
		return "/p" + id + "//double//slash/"
	case 3:
		return "/p" + id + "/enc%2Fslash%20sp;param=1?a=b&a=c&empty=&u=%C3%A9"
	case 4:
		return "/p" + id + "/../../up?x=/../y"
	case 5:
		return "/p" + id + "/a+b/~t/(1)!$,'*?k=v+w&sub=a%26b%3Dc"
	}
	if it.n("pk", 0) == 6 { // the asterisk form (OPTIONS only)
		return "*"
	}
	if n := it.n("tl", 0); n > 0 { // a very long target
		return "/p" + id + "/" + strings.Repeat("segment/", n/16) + "?q=" + id + "&pad=" + strings.Repeat("a", n/2)
	}
	return "/p" + id + "?q=" + id + "&x=%41+b"
}

func (e *Ex) buildRequest(id string, it *item) []byte {
	var b bytes.Buffer
	method := it.s("m", "GET")
	host := e.originAddr
	if it.s("sec", "0") == "1" {
		host = e.originTLSAddr
	}
	if it.s("o", "ok") == "fail" { // dial-level failures: nothing ever listens / answers there
		switch it.s("fk", "none") {
		case "refuse":
			host = "dead.test:1"
		case "dtimeout":
			host = "timeout.test:1"
		case "tlsplain", "tlsbadcert", "tlsclose":
			host = e.faultAddr // the port the https target names does not hold a (trusted) TLS server
		case "badport":
			host = "127.0.0.1:99999" // the REAL dialer fails: a *net.OpError without an address
		case "noname":
			host = "no-such-host.invalid.:80x"
		}
	}
	if a := authorityOf(it); a != "" && it.s("o", "ok") == "ok" {
		host = a // routed to the origin by the dial function (authority.go)
	}
	if it.s("via", "") == "sniff" && it.s("sec", "0") == "1" && it.s("o", "ok") == "ok" {
		host = e.sniffAddr // a TLS origin behind a port that tells a ClientHello from a cleartext request
	}
	path := pathOf(id, it)
	target := path
	switch it.s("tf", "origin") {
	case "abs":
		target = "http://" + host + path
	case "abss":
		target = "https://" + host + path
	}
	fmt.Fprintf(&b, "%s %s %s\r\n%s%s: %s\r\n", method, target, protoOf(it.s("pv", "11")), hostLine(it, host), idHeader, id)
	for _, h := range reqHeaders(it) {
		if h[0] != "Date" {
			fmt.Fprintf(&b, "%s: %s\r\n", h[0], h[1])
		}
	}
	writeConnLines(&b, connLines(it, "ct", "rc"))
	for _, h := range upgradeHeaders(it) {
		if h[0] == "Connection" {
			fmt.Fprintf(&b, "Connection: %s\r\n", h[1])
		}
	}
	writeConsulted(&b, it.s("dt", ""), it.s("wp", "0") == "1")
	body := Body(it.n("rb", 0), it.n("hs", 1))
	hasBody := method == "POST" || method == "PUT" || method == "PATCH" || method == "DELETE" || it.n("rb", 0) > 0
	if hasBody {
		if it.s("rf", "cl") == "ch" && it.s("pv", "11") != "10" { // HTTP/1.0 has no chunked coding
			b.WriteString("Transfer-Encoding: chunked\r\n\r\n")
			b.Write(chunked(body, it.n("hs", 1)))
		} else {
			fmt.Fprintf(&b, "Content-Length: %d\r\n\r\n", len(body))
			b.Write(body)
		}
	} else {
		b.WriteString("\r\n")
	}
	return b.Bytes()
}

func originBody(it *item) []byte {
	b := Body(it.n("ob", 0), it.n("hs", 1)+1000)
	if it.s("gz", "0") == "1" {
		var z bytes.Buffer
		zw := gzip.NewWriter(&z)
		zw.Write(b)
		zw.Close()
		return z.Bytes()
	}
	return b
}

func bodiless(method string, st int) bool {
	return method == "HEAD" || st == 204 || st == 304 || (st >= 100 && st < 200)
}

// originResponse returns the bytes the origin writes and whether it closes afterwards.
func originResponse(id string, it *item) ([]byte, bool) {
	st := it.n("st", 200)
	var b bytes.Buffer
	proto := protoOf(it.s("opv", "11"))
	fmt.Fprintf(&b, "%s %d %s\r\n%s: %s\r\n", proto, st, http.StatusText(st), idHeader, id)
	for _, h := range resHeaders(it) {
		fmt.Fprintf(&b, "%s: %s\r\n", h[0], h[1])
	}
	if it.s("gz", "0") == "1" {
		b.WriteString("Content-Encoding: gzip\r\n")
	}
	// the origin hangs up after the response exactly when it said so (version and Connection tokens)
	closeAfter := askedClose(it.s("opv", "11"), connLines(it, "oct", "oc"))
	writeConnLines(&b, connLines(it, "oct", "oc"))
	writeConsulted(&b, it.s("odt", ""), it.s("owp", "0") == "1")
	body := originBody(it)
	if bodiless(it.s("m", "GET"), st) {
		if it.s("m", "GET") == "HEAD" {
			fmt.Fprintf(&b, "Content-Length: %d\r\n", len(body))
		}
		b.WriteString("\r\n")
		return b.Bytes(), closeAfter
	}
	of := it.s("of", "cl")
	if of == "ch" && it.s("opv", "11") == "10" {
		of = "cl" // HTTP/1.0 has no chunked coding
	}
	switch of {
	case "ch":
		b.WriteString("Transfer-Encoding: chunked\r\n\r\n")
		b.Write(chunked(body, it.n("hs", 1)+5))
	case "close":
		b.WriteString("\r\n")
		b.Write(body)
		closeAfter = true
	default:
		fmt.Fprintf(&b, "Content-Length: %d\r\n\r\n", len(body))
		b.Write(body)
	}
	return b.Bytes(), closeAfter
}

// ---------- origin ----------

func (e *Ex) serveOrigin(l net.Listener, isTLS bool) {
	for {
		c, err := l.Accept()
		if err != nil {
			return
		}
		go e.originConn(c, isTLS)
	}
}

func (e *Ex) originConn(c net.Conn, isTLS bool) {
	defer c.Close()
	br := bufio.NewReader(c)
	for servedOnConn := 0; ; servedOnConn++ {
		c.SetDeadline(time.Now().Add(20 * time.Second))
		req, err := http.ReadRequest(br)
		if err != nil {
			return
		}
		if e.dropReused(req, servedOnConn) {
			return // the origin gives up a connection that is being REUSED, without a word (reuse.go)
		}
		id := req.Header.Get(idHeader)
		w := e.w
		w.mu.Lock()
		eit := w.items[id]
		w.mu.Unlock()
		var body []byte
		var earlyErr error
		earlyClose, early := false, false
		// what the origin received is recorded BEFORE the last byte of its answer goes out: the client may
		// finish the case the moment it has the complete response
		record := func(body []byte, earlyErr error) {
			w.mu.Lock()
			defer w.mu.Unlock()
			it := w.items[id]
			r := w.rec(id)
			r.upCount++
			r.upSeq = w.next()
			r.upTLS = isTLS
			r.upMethod = req.Method
			r.upURI = req.URL.RequestURI()
			r.upHost = req.Host
			r.upBody = sum(body)
			r.upWarn = len(req.Header["Warning"])
			if it != nil {
				r.upWarn = carrying(req.Header["Warning"], modErr(it.s("ek", "plain"), reqErrMark))
				r.upHdrOK, r.upHdrDetail = headersIncluded(reqHeaders(it), req.Header)
			}
			if earlyErr != nil {
				r.earlyErr = earlyErr.Error()
			}
		}
		unread := eit != nil && eit.s("ur", "0") == "1" && eit.s("o", "ok") == "ok"
		if unread {
			early = true // recorded first, answered below without reading the upload (unread.go)
			record(nil, nil)
		} else if eit != nil {
			earlyErr, earlyClose, early = e.originEarly(c, req, id, eit, record)
		}
		if !early {
			body, _ = io.ReadAll(req.Body)
			record(body, nil)
		}
		it := eit
		if unread {
			e.originUnread(c, req, id, eit)
			return
		}
		if early {
			if earlyClose || earlyErr != nil {
				return
			}
			continue
		}
		if it == nil { // probe or unknown: plain 200
			fmt.Fprintf(c, "HTTP/1.1 200 OK\r\n%s: %s\r\nContent-Length: 2\r\n\r\nok", idHeader, id)
			continue
		}
		full, closeAfter := originResponse(id, it)
		if ms := it.n("lat", 0); ms > 0 { // a slow origin
			time.Sleep(time.Duration(ms) * time.Millisecond)
		}
		switch it.s("o", "ok") {
		case "ok":
			c.Write(full)
			if closeAfter {
				return
			}
		case "fail":
			switch it.s("fk", "none") {
			case "head":
				k := it.n("k", 5)
				headLen := bytes.Index(full, []byte("\r\n\r\n")) + 3 // strictly inside the head
				if k > headLen {
					k = headLen
				}
				c.Write(full[:k])
			case "garbage":
				c.Write([]byte("\x00\x01NOT HTTP AT ALL\r\n\r\n<html>"))
			case "ctlname": // almost HTTP: a control byte in a header name - net/textproto quotes the line in its error
				c.Write([]byte("HTTP/1.1 200 OK\r\nX-Verif\x01\x7fBad\x0bName: v\r\nContent-Length: 0\r\n\r\n"))
			case "leadsp": // a header section that starts with a continuation line
				c.Write([]byte("HTTP/1.1 200 OK\r\n \tfolded\x02\x1b[31m start\r\nContent-Length: 0\r\n\r\n"))
			case "tlsplain", "tlsbadcert", "tlsclose":
				// the request got here although the TLS layer toward this port cannot work: answer it, so
				// that what the client receives shows it too
				c.Write(full)
			}
			return
		case "trunc":
			headLen := bytes.Index(full, []byte("\r\n\r\n")) + 4
			k := headLen + it.n("k", 0)
			if k >= len(full) {
				k = len(full) - 1
			}
			c.Write(full[:k])
			return
		}
	}
}

// headersIncluded: every (name,value) the sender put must be received, with multiplicity and
// per-name order; extra headers added by the transport are allowed.
func headersIncluded(sent [][2]string, got http.Header) (bool, string) {
	want := map[string][]string{}
	for _, h := range sent {
		k := http.CanonicalHeaderKey(h[0])
		want[k] = append(want[k], h[1])
	}
	keys := make([]string, 0, len(want))
	for k := range want {
		keys = append(keys, k)
	}
	sort.Strings(keys)
	for _, k := range keys {
		g := got[k]
		if strings.Join(g, "\x00") != strings.Join(want[k], "\x00") {
			return false, fmt.Sprintf("header %s: sent %q received %q", k, want[k], g)
		}
	}
	return true, ""
}

// ---------- the executor ----------

type Ex struct {
	w             *world
	conn          map[string]string
	ids           []string
	caseNo        int
	proxy         *martian.Proxy
	pl            net.Listener
	ol, otl       net.Listener
	dead          net.Listener
	echo          net.Listener
	originAddr    string
	originTLSAddr string
	sessions      []string
	shaped        *trafficshape.Listener
	snl           net.Listener // a trusted TLS origin behind the first-byte sniffer (upfault.go)
	sniffAddr     string
	rstl          net.Listener // a tunnel target that closes abortively (tunnelrst.go)
	rstAddr       string
	dl            net.Listener // the downstream proxy (dsp.go)
	downAddr      string
	fl            net.Listener // the port of TLS-layer upstream faults (upfault.go)
	faultAddr     string
	ops           []string // the conn / item ops of the case, for a re-confirming second run
}

var caseCounter int
var sessionsSeen = map[string]int{}
var sessMu sync.Mutex

func New() *Ex {
	caseCounter++
	return &Ex{caseNo: caseCounter, conn: map[string]string{}}
}

func (e *Ex) Close() {
	for _, l := range []net.Listener{e.pl, e.ol, e.otl, e.dead, e.echo, e.fl, e.dl, e.rstl, e.snl} {
		if l != nil {
			l.Close()
		}
	}
	if e.proxy != nil {
		done := make(chan bool)
		go func() { e.proxy.Close(); close(done) }()
		select {
		case <-done:
		case <-time.After(3 * time.Second):
			core.Count("proxy-close-timeout")
		}
	}
}

func listen() net.Listener {
	l, err := net.Listen("tcp", "127.0.0.1:0")
	if err != nil {
		panic(err)
	}
	return l
}

func (e *Ex) Do(op string) core.Result {
	if o, ok := golib.Do(op); ok {
		return core.Result{Impl: o}
	}
	toks := strings.Fields(op)
	if o, ok := doWireOp(toks); ok {
		return core.Result{Impl: o}
	}
	if o, ok := doConsultedOp(toks); ok {
		return core.Result{Impl: o}
	}
	switch toks[0] {
	case "conn":
		e.ops = append(e.ops, op)
		e.conn = parseKV(toks[1:])
		return core.Result{Impl: "ok"}
	case "x", "cmitm", "cblind":
		if e.w == nil {
			e.w = &world{recs: map[string]*exRec{}, items: map[string]*item{}}
		}
		e.ops = append(e.ops, op)
		id := fmt.Sprintf("%d-%d", e.caseNo, len(e.ids))
		e.ids = append(e.ids, id)
		e.w.items[id] = &item{kind: toks[0], kv: parseKV(toks[1:]), raw: op}
		return core.Result{Impl: "queued"}
	case "end":
		if e.w == nil {
			e.w = &world{recs: map[string]*exRec{}, items: map[string]*item{}}
		}
		t0 := time.Now()
		res := e.runConfirmed()
		res.ModelOp = e.endHint()
		if d := time.Since(t0); d > 400*time.Millisecond && os.Getenv("VERIF_PXY_SLOW") != "" {
			fmt.Fprintf(os.Stderr, "SLOW %v conn=%v\n", d, e.conn)
			for _, id := range e.ids {
				fmt.Fprintf(os.Stderr, "   %s\n", e.w.items[id].raw)
			}
		}
		return res
	case "junk":
		return e.junk(toks)
	case "burst":
		if e.w == nil {
			e.w = &world{recs: map[string]*exRec{}, items: map[string]*item{}}
		}
		return e.runBurst(toks)
	}
	return core.Result{Impl: "bad-op"}
}

func (e *Ex) start() {
	mlog.SetLevel(mlog.Silent)
	authority()
	e.ol = listen()
	e.otl = tls.NewListener(listen(), orgTLS)
	e.originAddr = e.ol.Addr().String()
	e.originTLSAddr = e.otl.Addr().String()
	go e.serveOrigin(e.ol, false)
	go e.serveOrigin(e.otl, true)
	e.rstl = listen()
	e.rstAddr = e.rstl.Addr().String()
	go e.serveResets(e.rstl)
	e.snl = listen() // same sniffer, a port of its own: connections pooled toward it must not serve the faults
	e.sniffAddr = e.snl.Addr().String()
	go e.serveFaults(e.snl)
	e.fl = listen()
	e.faultAddr = e.fl.Addr().String()
	go e.serveFaults(e.fl)
	e.echo = listen()
	go func() {
		for {
			c, err := e.echo.Accept()
			if err != nil {
				return
			}
			go func() { defer c.Close(); io.Copy(c, c) }()
		}
	}()
	p := martian.NewProxy()
	p.SetTimeout(30 * time.Second)
	if e.conn["dsp"] == "1" { // CONNECTs are relayed to a downstream proxy; plain requests still go direct (Proxy is reset below)
		e.dl = listen()
		e.downAddr = e.dl.Addr().String()
		go e.serveDownstream(e.dl)
		du := &url.URL{Scheme: "http", Host: e.downAddr}
		if e.conn["dspu"] == "1" { // a downstream proxy URL that carries credentials
			du.User = url.UserPassword("verif-user", "verif-pass")
		}
		p.SetDownstreamProxy(du)
	}
	if ms, err := strconv.Atoi(e.conn["to"]); err == nil && ms > 0 {
		// a short idle timeout: a connection that stays busy must outlive it (the deadline is per request)
		p.SetTimeout(time.Duration(ms) * time.Millisecond)
	}
	p.SetRequestModifier(e.w.reqmod())
	p.SetResponseModifier(e.w.resmod())
	if strings.Contains(e.conn["listener"], "mitm") { // mitm, shapedmitm, tlsmitm, shapedtlsmitm
		p.SetMITM(e.mitmConfig())
		// upstream TLS must trust the harness origin; keep the default transport's other settings
		tr := p.GetRoundTripper().(*http.Transport).Clone()
		tr.TLSClientConfig = &tls.Config{RootCAs: caPool}
		tr.Proxy = nil
		p.SetRoundTripper(tr)
	} else if tr, ok := p.GetRoundTripper().(*http.Transport); ok {
		tr.Proxy = nil // never consult the environment
	}
	echoAddr := e.echo.Addr().String()
	p.SetDial(func(network, addr string) (net.Conn, error) {
		e.w.mu.Lock()
		e.w.dials++
		if _, ok := e.w.items[e.w.current]; ok && (strings.HasSuffix(addr, ":99999") || !strings.Contains(addr, ":") || strings.HasSuffix(addr, ":80x")) {
			r := e.w.rec(e.w.current) // a dial the real dialer is going to refuse outright
			r.dialed++
			r.upSeq = e.w.next()
		}
		if e.downstreamDial(addr) {
			e.w.mu.Unlock()
			return nil, &net.OpError{Op: "dial", Net: network, Err: syscall.ECONNREFUSED}
		}
		if _, ok := e.w.items[e.w.current]; ok && strings.HasSuffix(addr, ".test:1") {
			// a dial attempt toward a scripted target is upstream contact of the current exchange
			r := e.w.rec(e.w.current)
			r.dialed++
			r.upSeq = e.w.next()
		}
		e.w.mu.Unlock()
		if strings.HasPrefix(addr, "dead.") {
			// a synthesised refusal: dialling a port that was free a moment ago is not deterministic
			// when other processes allocate ephemeral ports (it once reached another proxy and looped)
			return nil, &net.OpError{Op: "dial", Net: network, Err: syscall.ECONNREFUSED}
		}
		if strings.HasPrefix(addr, "timeout.") { // what an unresponsive host produces, without the wait
			return nil, &net.OpError{Op: "dial", Net: network, Err: timeoutError{}}
		}
		if strings.HasPrefix(addr, "eof.") { // e.g. a downstream hop that hangs up during the dial
			return nil, io.EOF
		}
		if routedName(addr) {
			target := e.originAddr
			if it, ok := e.w.items[e.w.current]; (ok && it.s("sec", "0") == "1") || strings.HasSuffix(addr, ":443") {
				target = e.originTLSAddr
			}
			return net.DialTimeout(network, target, 2*time.Second)
		}
		if strings.HasPrefix(addr, "rst.") {
			return net.DialTimeout(network, e.rstAddr, 2*time.Second)
		}
		if strings.HasPrefix(addr, "echo.") {
			return net.DialTimeout(network, echoAddr, 2*time.Second)
		}
		return net.DialTimeout(network, addr, 2*time.Second)
	})
	if e.conn["rt"] == "clone" {
		p.SetRoundTripper(cloningRT{p.GetRoundTripper()})
	}
	e.proxy = p
	e.pl = listen()
	var sl net.Listener = e.pl
	if listenerTLS(e.conn["listener"]) {
		// transparent TLS: the proxy's own listener terminates TLS with forged certificates
		// (tls, tlsmitm; shapedtls, shapedtlsmitm: the same behind a traffic-shaping listener)
		if t, ok := p.GetRoundTripper().(*http.Transport); ok {
			t = t.Clone()
			t.TLSClientConfig = &tls.Config{RootCAs: caPool}
			p.SetRoundTripper(t)
		}
		sl = tls.NewListener(e.pl, e.mitmConfig().TLS())
	}
	if strings.HasPrefix(e.conn["listener"], "shaped") {
		e.shaped = trafficshape.NewListener(sl)
		// listener SETTINGS: a latency per connection, bit rates (default when absent)
		if ms, err := strconv.Atoi(e.conn["tsl"]); err == nil && ms > 0 {
			e.shaped.SetLatency(time.Duration(ms) * time.Millisecond)
		}
		if br, err := strconv.ParseInt(e.conn["tsb"], 10, 64); err == nil && br > 0 {
			e.shaped.SetReadBitrate(br)
			e.shaped.SetWriteBitrate(br)
		}
		sl = e.shaped
	}
	go p.Serve(sl)
}

type clientConn struct {
	c  net.Conn
	br *bufio.Reader
}

func (cc *clientConn) readResponse(method string) (*http.Response, []byte, error) {
	cc.c.SetReadDeadline(time.Now().Add(ioTimeout))
	res, err := http.ReadResponse(cc.br, &http.Request{Method: method})
	if err != nil {
		isTimeout(err)
		return nil, nil, err
	}
	if method == "CONNECT" && res.StatusCode == 200 {
		return res, nil, nil
	}
	body, berr := io.ReadAll(res.Body)
	return res, body, berr
}

func (e *Ex) absorb(id string, it *item, res *http.Response, body []byte, berr error) {
	w := e.w
	w.mu.Lock()
	defer w.mu.Unlock()
	r := w.rec(id)
	r.got = true
	r.st = res.StatusCode
	r.cm = res.Close
	r.cp = berr == nil
	r.stalled = isTimeout(berr)
	r.downID = res.Header.Get(idHeader)
	for k, vs := range res.Header {
		for _, v := range vs {
			for i := 0; i < len(v); i++ {
				if (v[i] < 0x20 && v[i] != '\t') || v[i] == 0x7f {
					r.ctlHdr = fmt.Sprintf("%s: %q", k, v)
				}
			}
		}
	}
	// the response modifier's Warning is the one carrying its error text (added last); any other
	// Warning comes from the round trip / dial failure
	r.wt = 0
	for _, v := range res.Header["Warning"] {
		if v != preWarning { // a Warning of somebody else, already on the origin's response
			r.wt++
		}
	}
	if it.s("rs", "pass") == "err" {
		want := modErr(it.s("sek", "plain"), resErrMark)
		for _, v := range res.Header["Warning"] {
			if warningCarries(v, want) {
				r.ws, r.wt = 1, r.wt-1
				break
			}
		}
	}
	r.pvSeen = fmt.Sprintf("%d%d", res.ProtoMajor, res.ProtoMinor)
	r.frSeen = framingSeen(it.s("m", "GET"), res)
	r.downBody = sum(body)
	r.downHdrOK, r.downHdrDetail = headersIncluded(resHeaders(it), res.Header)
}

func (e *Ex) runScenario() core.Result {
	e.start()
	e.runPreludes()
	w := e.w
	raw, err := net.DialTimeout("tcp", e.pl.Addr().String(), 2*time.Second)
	if err != nil {
		return core.Result{Impl: "dial-failed", Fail: err.Error(), Sig: "harness"}
	}
	defer raw.Close()
	cc := &clientConn{c: raw, br: bufio.NewReader(raw)}
	flip := e.conn["tflip"] == "1"
	curLayer, curView := 0, tlsView{} // the innermost TLS session the client currently speaks through
	if listenerTLS(e.conn["listener"]) {
		tc := tls.Client(raw, layerConfig(e.caseNo, 1, flip))
		tc.SetDeadline(time.Now().Add(ioTimeout))
		if err := tc.Handshake(); err != nil {
			return core.Result{Impl: "tls-listener-handshake-failed", Fail: err.Error(), Sig: "c05:handshake"}
		}
		cs := tc.ConnectionState()
		curLayer, curView = 1, viewOf(&cs)
		cc = &clientConn{c: tc, br: bufio.NewReader(tc)}
	}
	sentIn := func(id string) { // the request with this id is about to be sent through the current session
		w.mu.Lock()
		w.rec(id).layer, w.rec(id).tlsWant = curLayer, curView
		w.mu.Unlock()
	}
	alive := true
	pipe := e.conn["mode"] == "pipe"
	hijacked := false

	if pipe {
		var all bytes.Buffer
		for _, id := range e.ids {
			all.Write(e.buildRequest(id, w.items[id]))
			sentIn(id)
		}
		cc.c.SetWriteDeadline(time.Now().Add(ioTimeout))
		if e.conn["hc"] == "before" {
			cc.c.Write(all.Bytes())
			closeWrite(cc.c) // nothing more to say; the answers are still to come (lifecycle.go)
		} else {
			go cc.c.Write(all.Bytes())
		}
		for _, id := range e.ids {
			it := w.items[id]
			res, body, berr := cc.readResponse(it.s("m", "GET"))
			if res == nil {
				alive = false
				break
			}
			if res.StatusCode == 299 && res.Header.Get("X-Verif-Hijack") == "1" {
				hijacked = true
				cc.c.SetReadDeadline(time.Now().Add(ioTimeout))
				extra, rerr := io.ReadAll(cc.br)
				w.mu.Lock()
				w.rec(id).extraAfterHijack = len(extra)
				w.rec(id).closedAfterHijack = !isTimeout(rerr)
				w.mu.Unlock()
				alive = false
				break
			}
			e.absorb(id, it, res, body, berr)
			if berr != nil {
				alive = false
				break
			}
		}
		if e.conn["hc"] != "" {
			closeWrite(cc.c)
			alive = false
		}
	} else {
		halfSent := 0
		skipTo := 0
		preSent := map[string]bool{}
		for idx, id := range e.ids {
			if !alive {
				break
			}
			it := w.items[id]
			w.mu.Lock()
			w.current = id
			w.mu.Unlock()
			sentIn(id)
			if ms, err := strconv.Atoi(e.conn["gap"]); err == nil && ms > 0 && idx > 0 {
				time.Sleep(time.Duration(ms) * time.Millisecond)
			}
			if skipTo > idx {
				continue // answered as part of a pipelined run inside the tunnel
			}
			if it.kind == "x" && e.conn["tpipe"] == "1" && curLayer > 0 {
				// pipelining INSIDE the decrypted connection: this and the following non-CONNECT requests go
				// out in one write (one TLS record when small), the responses are read in order
				var all bytes.Buffer
				run := []string{}
				for j := idx; j < len(e.ids) && w.items[e.ids[j]].kind == "x"; j++ {
					all.Write(e.buildRequest(e.ids[j], w.items[e.ids[j]]))
					run = append(run, e.ids[j])
					sentIn(e.ids[j])
				}
				skipTo = idx + len(run)
				cc.c.SetWriteDeadline(time.Now().Add(ioTimeout))
				go cc.c.Write(all.Bytes())
				for _, rid := range run {
					rit := w.items[rid]
					res, body, berr := cc.readResponse(rit.s("m", "GET"))
					if res == nil {
						alive = false
						break
					}
					if res.StatusCode == 299 && res.Header.Get("X-Verif-Hijack") == "1" {
						hijacked = true
						cc.c.SetReadDeadline(time.Now().Add(ioTimeout))
						extra, rerr := io.ReadAll(cc.br)
						w.mu.Lock()
						w.rec(rid).extraAfterHijack = len(extra)
						w.rec(rid).closedAfterHijack = !isTimeout(rerr)
						w.mu.Unlock()
						alive = false
						break
					}
					e.absorb(rid, rit, res, body, berr)
					if berr != nil {
						alive = false
						break
					}
				}
				continue
			}
			switch it.kind {
			case "x":
				cc.c.SetWriteDeadline(time.Now().Add(ioTimeout))
				req := e.buildRequest(id, it)
				// The request is written while the answer is being read: a write that fails or stalls (nobody
				// reads the upload: a hijacker, a skipped or failed round trip, an early answer, and then the
				// close) must not keep the harness from seeing what the peer did send and that it closed.
				var send func() error
				if e.conn["mode"] == "half" {
					// this request's remainder plus the first half of the next one in ONE write; the
					// client then waits for this response before sending the rest of the next request
					out := req[halfSent:]
					halfSent = 0
					if idx+1 < len(e.ids) {
						if nx := w.items[e.ids[idx+1]]; nx.kind == "x" {
							nreq := e.buildRequest(e.ids[idx+1], nx)
							halfSent = len(nreq) / 2
							out = append(append([]byte{}, out...), nreq[:halfSent]...)
						}
					}
					send = func() error { _, err := cc.c.Write(out); return err }
				} else if e.conn["mode"] == "dribble" {
					send = func() error {
						for i := 0; i < len(req); i += 7 {
							j := i + 7
							if j > len(req) {
								j = len(req)
							}
							if _, err := cc.c.Write(req[i:j]); err != nil {
								return err
							}
						}
						return nil
					}
				} else if earlyOK(it) {
					send = func() error { return e.sendGated(cc, req, id) }
				} else {
					send = func() error { _, err := cc.c.Write(req); return err }
				}
				if preSent[id] {
					send = func() error { return nil } // went out together with the CONNECT head
				}
				halfClose := e.conn["hc"] != "" && idx == len(e.ids)-1
				if halfClose && e.conn["hc"] == "before" {
					s0 := send
					send = func() error { err := s0(); closeWrite(cc.c); return err }
				}
				wdone := make(chan error, 1)
				if earlyOK(it) {
					// the gated upload reads (peeks) the connection itself while it waits: it runs first
					wdone <- send()
				} else {
					go func() { wdone <- send() }()
				}
				res, body, berr := cc.readResponse(it.s("m", "GET"))
				var werr error
				select {
				case werr = <-wdone:
				case <-time.After(ioTimeout):
					cc.c.SetWriteDeadline(time.Now()) // unblock a writer nobody reads from
					werr = <-wdone
				}
				if werr != nil {
					core.Count("client:request-write-failed")
					isTimeout(werr) // an upload that did not fit into the bound is a bound-dependent observation
				}
				if halfClose {
					closeWrite(cc.c) // hc=after: now; hc=before: again, harmless
				}
				if res == nil {
					alive = false
					continue
				}
				if res.StatusCode == 299 && res.Header.Get("X-Verif-Hijack") == "1" {
					hijacked = true
					// after the hijacker's bytes the proxy must close without writing anything else
					cc.c.SetReadDeadline(time.Now().Add(ioTimeout))
					extra, rerr := io.ReadAll(cc.br)
					w.mu.Lock()
					w.rec(id).extraAfterHijack = len(extra)
					w.rec(id).closedAfterHijack = !isTimeout(rerr)
					w.mu.Unlock()
					alive = false
					continue
				}
				e.absorb(id, it, res, body, berr)
				if berr != nil || halfClose {
					alive = false // (after a half-close there is nothing more the client can ask)
				}
			case "cmitm", "cblind":
				authority := e.originTLSAddr
				if it.kind == "cblind" {
					authority = "echo.test:1"
					if it.s("tg", "") == "rst" {
						authority = "rst.test:1"
					}
					if it.s("dial", "1") == "0" {
						authority = map[string]string{"timeout": "timeout.test:1", "eof": "eof.test:1", "badport": "127.0.0.1:99999", "noport": "127.0.0.1"}[it.s("dk", "refuse")]
						if authority == "" {
							authority = "dead.test:1"
						}
					}
				}
				head := []byte(fmt.Sprintf("CONNECT %s HTTP/1.1\r\nHost: %s\r\n%s: %s\r\n\r\n", authority, authority, idHeader, id))
				var et *earlyTLS
				switch {
				case it.kind == "cmitm" && it.s("ed", "0") == "1" && it.s("tls", "1") == "1" && it.s("hf", "") == "":
					// the ClientHello goes out in the same write as the CONNECT head (earlydata.go)
					et = startEarlyTLS(cc, head, layerConfig(e.caseNo, idx+2, flip))
				case it.kind == "cmitm" && it.s("ed", "0") == "1" && it.s("tls", "1") == "0" && idx+1 < len(e.ids) && w.items[e.ids[idx+1]].kind == "x" && !earlyOK(w.items[e.ids[idx+1]]) && e.conn["tpipe"] != "1":
					// ... or the first cleartext request of the tunnel does
					nid := e.ids[idx+1]
					w.mu.Lock()
					w.current = nid // upstream contact from here on is on behalf of that request
					w.mu.Unlock()
					sentIn(nid)
					cc.c.Write(append(head, e.buildRequest(nid, w.items[nid])...))
					preSent[nid] = true
				default:
					cc.c.Write(head)
				}
				res, body, berr := cc.readResponse("CONNECT")
				if res == nil {
					alive = false
					continue
				}
				if res.StatusCode == 299 && res.Header.Get("X-Verif-Hijack") == "1" {
					hijacked = true
					cc.c.SetReadDeadline(time.Now().Add(ioTimeout))
					extra, rerr := io.ReadAll(cc.br)
					w.mu.Lock()
					w.rec(id).extraAfterHijack = len(extra)
					w.rec(id).closedAfterHijack = !isTimeout(rerr)
					w.mu.Unlock()
					alive = false
					continue
				}
				e.absorb(id, it, res, body, berr)
				if res.StatusCode != 200 {
					continue
				}
				if it.kind == "cmitm" && e.conn["quiet"] == "1" && idx == len(e.ids)-1 {
					// the client goes silent after the tunnel is up and hangs up: no byte follows the 200
					alive = false
					continue
				}
				if it.kind == "cmitm" && it.s("tls", "1") == "1" && it.s("hf", "") != "" {
					// a handshake that fails without closing TCP: the connection goes on as it was
					if err := e.failHandshake(cc, idx, it.s("hf", ""), flip); err != nil {
						w.mu.Lock()
						w.rec(id).hij = "handshake-failed:" + err.Error()
						w.mu.Unlock()
						alive = false
					}
					continue
				}
				if it.kind == "cmitm" && it.s("tls", "1") == "1" {
					// layer idx+2: a session of its own, nested inside whatever the connection already carries
					tc := tls.Client(&bufConn{Conn: cc.c, r: cc.br}, layerConfig(e.caseNo, idx+2, flip))
					tc.SetDeadline(time.Now().Add(ioTimeout))
					hs := tc.Handshake
					if et != nil { // the handshake is under way already: let it read on
						tc = et.tc
						close(et.ec.goRead)
						hs = func() error {
							select {
							case err := <-et.done:
								return err
							case <-time.After(ioTimeout):
								isTimeout(timeoutError{})
								return errors.New("handshake did not finish")
							}
						}
					}
					if err := hs(); err != nil {
						w.mu.Lock()
						w.rec(id).hij = "handshake-failed:" + err.Error()
						w.mu.Unlock()
						alive = false
						continue
					}
					cs := tc.ConnectionState()
					curLayer, curView = idx+2, viewOf(&cs)
					cc = &clientConn{c: tc, br: bufio.NewReader(tc)}
				} else if it.kind == "cblind" && it.s("tg", "") == "rst" {
					// the target sends part of an answer and closes ABORTIVELY; the client waits in silence:
					// end-of-stream must reach it (C03: failures become clean closes, never a hang)
					cc.c.SetDeadline(time.Now().Add(ioTimeout))
					cc.c.Write([]byte("ping"))
					got, rerr := io.ReadAll(cc.br)
					w.mu.Lock()
					w.rec(id).tunnelGot, w.rec(id).tunnelHung = len(got), isTimeout(rerr)
					w.mu.Unlock()
					alive = false
				} else if it.kind == "cblind" {
					// use the tunnel, then finish it: the proxy must close the connection afterwards
					cc.c.SetDeadline(time.Now().Add(ioTimeout))
					cc.c.Write([]byte("ping"))
					buf := make([]byte, 4)
					io.ReadFull(cc.br, buf)
					if tcp, ok := raw.(*net.TCPConn); ok {
						tcp.CloseWrite()
					}
					io.ReadAll(cc.br)
					alive = false
				}
			}
		}
	}

	// is the connection still serving?
	open := false
	probeID := fmt.Sprintf("%d-probe", e.caseNo)
	if alive || hijacked {
		cc.c.SetDeadline(time.Now().Add(ioTimeout))
		fmt.Fprintf(cc.c, "GET /probe HTTP/1.1\r\nHost: %s\r\n%s: %s\r\n\r\n", e.originAddr, idHeader, probeID)
		if res, _, _ := cc.readResponse("GET"); res != nil {
			open = true // any response to the probe shows the connection is still being served
		}
	}
	cc.c.Close()
	raw.Close()

	// quiescence: every context of this connection must go away
	left := -1
	for i := 0; i < int(ioTimeout/(15*time.Millisecond)); i++ { // 2 s, longer when re-confirming
		left = martian.VerifLiveContexts()
		if left == 0 {
			break
		}
		time.Sleep(10 * time.Millisecond)
	}
	if left != 0 {
		hitBound()
	}

	return e.report(open, left, probeID)
}

// bufConn lets the TLS client read bytes already buffered by the HTTP response reader.
type bufConn struct {
	net.Conn
	r *bufio.Reader
}

func (b *bufConn) Read(p []byte) (int, error) { return b.r.Read(p) }

type timeoutError struct{}

func (timeoutError) Error() string   { return "i/o timeout" }
func (timeoutError) Timeout() bool   { return true }
func (timeoutError) Temporary() bool { return true }

func isTimeout(err error) bool {
	if timeoutErr(err) {
		hitBound() // a verdict that rests on this is bound-dependent (reconfirm.go)
		return true
	}
	return false
}

func timeoutErr(err error) bool {
	var ne net.Error
	return err != nil && errors.As(err, &ne) && ne.Timeout()
}

func rqIsErr(rq string) bool { return rq == "err" || rq == "errskip" }

func b01(x bool) string {
	if x {
		return "1"
	}
	return "0"
}

func (e *Ex) report(open bool, left int, probeID string) core.Result {
	w := e.w
	w.mu.Lock()
	defer w.mu.Unlock()
	var parts []string
	var fails []string
	var sig string
	failf := func(s, f string, a ...interface{}) {
		if sig == "" {
			sig = s
		}
		fails = append(fails, fmt.Sprintf(f, a...))
	}
	ctxSeen := map[string]string{}
	distinct := true
	sess := ""
	servedBefore := true
	for idx, id := range e.ids {
		it := w.items[id]
		r := w.rec(id)
		served := r.reqmod > 0 || r.got
		if !served {
			parts = append(parts, fmt.Sprintf("%d:unserved", idx))
			servedBefore = false
			continue
		}
		upt := "-"
		if it.kind == "x" && (r.upCount > 0 || r.dialed > 0) {
			upt = b01(r.upTLS)
		}
		wq := r.resReqWarn
		if r.upCount > 0 && it.kind == "x" && r.upWarn > wq {
			wq = r.upWarn
		}
		st, cm, cp := "-", "-", "-"
		if r.got {
			st, cm, cp = strconv.Itoa(r.st), b01(r.cm), b01(r.cp)
		}
		hij := "-,htid=-"
		if r.hij != "" {
			hij = r.hij
			if r.hij == "raw" || r.hij == "tls" {
				hij += fmt.Sprintf(",htid=%d", layerOfSNI(r.hijView.sni))
			} else {
				hij += ",htid=-"
			}
		}
		// which TLS session the request was attributed to (0 = none), and the wire attributes of the
		// response a non-CONNECT exchange delivered
		tid := 0
		if r.tlsSeen.ok {
			tid = layerOfSNI(r.tlsSeen.sni)
		}
		pvs, frs := "-", "-"
		if r.got && it.kind == "x" {
			pvs, frs = r.pvSeen, r.frSeen
		}
		parts = append(parts, fmt.Sprintf("%d:rq=%d,up=%s,uptls=%s,rs=%d,wq=%d,wt=%d,ws=%d,st=%s,cm=%s,cp=%s,https=%s,sec=%s,tls=%s,hij=%s,tid=%d,pv=%s,fr=%s,sv=%d,fl=%s",
			idx, r.reqmod, b01(r.upCount > 0 || r.dialed > 0), upt, r.resmod, wq, r.wt, r.ws, st, cm, cp, b01(r.https), b01(r.sec), b01(r.tlsAttached), hij, tid, pvs, frs, r.svSeen, r.flags))

		// ---------------- property oracles (independent of the Lean model) ----------------
		rq, rs := it.s("rq", "pass"), it.s("rs", "pass")
		// C02
		if !servedBefore {
			failf("c01:served-after-gap", "exchange %d served after an unserved one", idx)
		}
		if (rqIsErr(rq) || rs == "err") && r.reqmod > 0 && r.hij == "" && !r.got {
			ek := it.s("ek", "plain")
			if !rqIsErr(rq) {
				ek = it.s("sek", "plain")
			}
			failf("c02:error-aborted-exchange", "exchange %d: a modifier error (value kind %q) aborted the exchange: no response reached the client", idx, ek)
		}
		if r.reqmod != 1 {
			failf("c02:reqmod-count", "exchange %d: request modifier ran %d times", idx, r.reqmod)
		}
		if (r.upCount > 0 || r.dialed > 0) && r.upSeq < r.reqSeq {
			failf("c02:upstream-before-reqmod", "exchange %d: upstream contact before the request modifier", idx)
		}
		hijackedHere := r.hij == "raw" || r.hij == "tls"
		if !hijackedHere {
			if r.resmod != 1 {
				failf("c02:resmod-count", "exchange %d: response modifier ran %d times", idx, r.resmod)
			} else {
				if !r.sameReq {
					failf("c02:resmod-other-request", "exchange %d: res.Request is not the request the request modifier saw", idx)
				}
				if r.ctxReq == "" || r.ctxReq != r.ctxRes {
					failf("c02:context-differs", "exchange %d: context %q at request, %q at response", idx, r.ctxReq, r.ctxRes)
				}
			}
		} else if rq == "hijack" && r.resmod != 0 {
			failf("c02:resmod-after-hijack", "exchange %d: response modifier ran after a request-side hijack", idx)
		}
		if r.ctxReq != "" {
			if other, dup := ctxSeen[r.ctxReq]; dup {
				failf("c02:context-id-reused", "exchanges %s and %d share context id %s", other, idx, r.ctxReq)
				distinct = false
			}
			ctxSeen[r.ctxReq] = strconv.Itoa(idx)
		}
		if sess == "" {
			sess = r.sess
		} else if r.sess != sess {
			failf("c02:session-not-shared", "exchange %d has session %s, the connection started with %s", idx, r.sess, sess)
		}
		// the session's storage is the connection's: what earlier exchanges stored is still there (across
		// CONNECT, TLS upgrade, nested tunnels); the context's storage is the exchange's
		if r.reqmod == 1 && r.flags != "---" && r.flags != wantFlags(it) {
			failf("c02:context-flag-lost", "exchange %d: after the request modifier's calls (rq=%s api=%s) the context reports skip-round-trip/skip-logging/api-request = %s, the calls made add up to %s", idx, rq, it.s("api", "-"), r.flags, wantFlags(it))
		}
		if it.kind == "cblind" && it.s("tg", "") == "rst" && r.got && r.st == 200 && r.tunnelHung {
			failf("c03:tunnel-hang-after-upstream-reset", "exchange %d: the tunnel's target sent %d bytes and reset the connection; the client got %d bytes and then neither data nor end-of-stream within %v", idx, it.n("k", 0), r.tunnelGot, ioTimeout)
		}
		if a := authorityOf(it); a != "" && it.kind == "x" && it.s("o", "ok") == "ok" && r.upCount > 0 && r.upHost != a {
			failf("c01:host", "exchange %d: the client named the authority %q, the origin received Host: %q", idx, a, r.upHost)
		}
		if r.got && r.ctlHdr != "" {
			failf("c03:malformed-response-header", "exchange %d: the response (status %d) carries a control byte in a header value: %s", idx, r.st, r.ctlHdr)
		}
		if r.svSeen != r.svWant {
			failf("c02:session-value-lost", "exchange %d: of the %d values earlier exchanges of this connection stored in the session only %d are readable (lost:%s)", idx, r.svWant, r.svSeen, r.svLost)
		}
		if r.resmod == 1 && r.ctxRes != "" && r.ctxRes == r.ctxReq && !r.ctxValueOK {
			failf("c02:context-value-lost", "exchange %d: the value the request modifier stored in the context is not there for the response modifier", idx)
		}
		if r.ctxAfterEnd {
			failf("c02:context-retrievable-after-exchange", "exchange %d: its context was still retrievable while a later request of the same connection was being handled", idx)
		}
		if r.retained != nil && martian.NewContext(r.retained) != nil {
			failf("c02:context-leak", "exchange %d: context still retrievable after the exchange ended", idx)
		}
		if (rq == "err" || rq == "errskip") && wq < 1 {
			failf("c02:no-warning-request", "exchange %d: request modifier error but no Warning on the request", idx)
		}
		if rs == "err" && r.got && r.ws < 1 {
			failf("c02:no-warning-response", "exchange %d: response modifier error but no Warning on the response", idx)
		}
		if it.kind == "x" && (rq == "skip" || rq == "errskip") {
			if r.upCount != 0 || r.dialed != 0 {
				failf("c02:skip-contacted-upstream", "exchange %d: skip round trip but the origin was contacted", idx)
			}
			if r.got && r.st != 200 {
				failf("c02:skip-status", "exchange %d: skip round trip answered %d", idx, r.st)
			}
		}
		if hijackedHere {
			if r.extraAfterHijack != 0 {
				failf("c02:write-after-hijack", "exchange %d: %d bytes written by the proxy after the hijack", idx, r.extraAfterHijack)
			}
			if open {
				failf("c02:read-after-hijack", "exchange %d: the proxy kept serving the hijacked connection", idx)
			}
			if pr, ok := w.recs[probeID]; ok && pr.reqmod > 0 {
				failf("c02:read-after-hijack", "exchange %d: the proxy read a further request from the hijacked connection", idx)
			}
			if !r.closedAfterHijack {
				failf("c02:not-closed-after-hijack", "exchange %d: the connection was not closed after the hijacking modifier returned", idx)
			}
		}
		// C01: fidelity of what was relayed
		if it.kind == "x" && r.upCount > 0 {
			wantBody := sum(Body(it.n("rb", 0), it.n("hs", 1)))
			if r.upMethod != it.s("m", "GET") {
				failf("c01:method", "exchange %d: origin saw method %s, client sent %s", idx, r.upMethod, it.s("m", "GET"))
			}
			if want := pathOf(id, it); r.upURI != want {
				failf("c01:target", "exchange %d: origin saw %q, client sent %q", idx, r.upURI, want)
			}
			if r.upBody != wantBody && it.s("ur", "0") != "1" { // (ur=1: the origin chose not to read the upload)
				failf("c01:request-body", "exchange %d: origin received body %s, client sent %s%s", idx, r.upBody, wantBody, earlyNote(it, r))
			}
			if !r.upHdrOK {
				failf("c01:request-header", "exchange %d: %s", idx, r.upHdrDetail)
			}
		}
		okOrigin := it.kind == "x" && it.s("o", "ok") == "ok" && rq != "skip" && rq != "errskip" && rq != "hijack" && rs != "hijack"
		if r.dropped > 0 && !replayable(it) {
			// the origin dropped a reused connection under a request the transport cannot replay: an upstream
			// failure, to be answered 502 (C03); a replayable one must still get the origin's answer
			okOrigin = false
			if rq == "pass" && rs != "hijack" && (!r.got || r.st != 502 || r.wt < 1) {
				failf("c03:no-502", "exchange %d: origin dropped the reused connection under a request that cannot be replayed; client got=%v status=%d warnings=%d", idx, r.got, r.st, r.wt)
			}
		}
		if okOrigin && r.got {
			if r.st != it.n("st", 200) {
				failf("c01:status", "exchange %d: client got %d, origin sent %d", idx, r.st, it.n("st", 200))
			}
			want := originBody(it)
			if bodiless(it.s("m", "GET"), it.n("st", 200)) {
				want = nil
			}
			if r.stalled {
				failf("c01:response-never-ends", "exchange %d: the client cannot find the end of the response (%s framing on a connection that stays open): it still waits after %v", idx, r.frSeen, ioTimeout)
			}
			if r.downBody != sum(want) || !r.cp {
				failf("c01:response-body", "exchange %d: client received body %s (complete=%v), origin sent %s", idx, r.downBody, r.cp, sum(want))
			}
			if !r.downHdrOK {
				failf("c01:response-header", "exchange %d: %s", idx, r.downHdrDetail)
			}
			if r.downID != id {
				failf("c01:response-order", "exchange %d: received the response of %q", idx, r.downID)
			}
		}
		if okOrigin && !r.got {
			failf("c01:no-response", "exchange %d: no response for a request the origin answered", idx)
		}
		// C03
		if it.kind == "x" && it.s("o", "ok") == "fail" && rq == "pass" && rs != "hijack" {
			if !r.got || r.st != 502 || r.wt < 1 || r.resmod != 1 || !r.cp {
				failf("c03:no-502", "exchange %d: origin failed before a complete head; client got=%v status=%d warnings=%d resmod=%d", idx, r.got, r.st, r.wt, r.resmod)
			}
		}
		if it.kind == "x" && it.s("o", "ok") == "trunc" && rq == "pass" && rs != "hijack" && r.got {
			if r.cp {
				failf("c03:truncation-undetectable", "exchange %d: origin cut the body but the client saw a complete response", idx)
			}
			if open {
				failf("c03:served-after-truncation", "exchange %d: connection kept serving after an incomplete response", idx)
			}
			if r.stalled {
				failf("c03:no-close-after-truncation", "exchange %d: the incomplete response was not followed by connection close (the client stalled inside its frame)", idx)
			}
		}
		if k := it.s("dsr", ""); it.kind == "cblind" && isDownstreamComplete(k) && rq != "hijack" && rs != "hijack" {
			if !r.got || (r.st != dsrStatus(k) && r.st != 502) {
				failf("c03:connect-refusal-lost", "exchange %d: the downstream proxy answered the CONNECT with %d; the client got=%v status=%d", idx, dsrStatus(k), r.got, r.st)
			}
		}
		if it.kind == "cblind" && it.s("dial", "1") == "0" && rq != "hijack" && rs != "hijack" {
			if !r.got || r.st != 502 || r.wt < 1 {
				failf("c04:connect-no-502", "exchange %d: CONNECT to an unreachable target: got=%v status=%d warnings=%d", idx, r.got, r.st, r.wt)
			}
		}
		// C05
		if it.s("sec", "0") == "1" && it.kind == "x" {
			if !r.https || !r.sec || !r.tlsAttached {
				failf("c05:not-secure", "tunnelled request %d: https=%v secure-session=%v tls-state=%v", idx, r.https, r.sec, r.tlsAttached)
			}
			if r.upCount > 0 && !r.upTLS {
				failf("c05:cleartext-upstream", "tunnelled request %d was forwarded in cleartext", idx)
			}
			if hijackedHere && r.hij != "tls" {
				failf("c05:hijack-raw-conn", "tunnelled request %d: hijacker was handed the raw connection", idx)
			}
			if hijackedHere && r.hij == "tls" && r.tlsWant.ok && !r.hijView.same(r.tlsWant) {
				failf("c05:hijack-other-session", "tunnelled request %d was decrypted from TLS session %d (%s) but the hijacker was handed the connection of another session (%s)", idx, r.layer, r.tlsWant, r.hijView)
			}
		}
		// ... and the TLS state attached is the state of the session the request was decrypted from - on
		// every kind of request, CONNECTs included - never that of another layer of the connection
		if r.reqmod > 0 && r.tlsWant.ok {
			if !r.tlsSeen.ok {
				if it.kind != "x" || it.s("sec", "0") != "1" { // for tunnelled requests c05:not-secure says it already
					failf("c05:no-tls-state", "request %d was sent through TLS session %d but has no TLS state", idx, r.layer)
				}
			} else if !r.tlsSeen.same(r.tlsWant) {
				failf("c05:tls-state-of-other-session", "request %d was decrypted from TLS session %d (%s) but carries the state of another session (%s)", idx, r.layer, r.tlsWant, r.tlsSeen)
			} else if !r.tlsSeen.complete {
				failf("c05:tls-state-incomplete", "request %d: TLS state with HandshakeComplete=false", idx)
			}
		}
		if it.s("sec", "0") == "0" && it.kind == "x" && (r.https || r.sec || r.tlsAttached) {
			failf("c05:plain-marked-secure", "plain request %d: https=%v secure-session=%v tls-state=%v", idx, r.https, r.sec, r.tlsAttached)
		}
		if strings.HasPrefix(r.hij, "handshake-failed") {
			failf("c05:handshake", "exchange %d: TLS handshake inside the tunnel failed: %s", idx, r.hij)
		}
	}
	// connection-level clauses
	if pr, ok := w.recs[probeID]; ok && pr.sess != "" && sess != "" && pr.sess != sess {
		failf("c02:session-not-shared", "probe on the same connection has another session")
	}
	sessMu.Lock()
	if sess != "" {
		if other, dup := sessionsSeen[sess]; dup && other != e.caseNo {
			failf("c02:session-shared-across-connections", "session %s also seen on connection %d", sess, other)
		}
		sessionsSeen[sess] = e.caseNo
	}
	sessMu.Unlock()
	if left != 0 {
		failf("c02:context-table-not-empty", "%d contexts still linked at quiescence", left)
	}
	impl := strings.Join(parts, " | ") + fmt.Sprintf(" | open=%s ctxleft=%d distinct=%s", b01(open), left, b01(distinct))
	// keep-alive clause of C01: decided from the script alone
	wantOpen := e.conn["quiet"] != "1"
	for _, id := range e.ids {
		it := w.items[id]
		r := w.rec(id)
		if r.reqmod == 0 && !r.got {
			continue
		}
		rq, rs := it.s("rq", "pass"), it.s("rs", "pass")
		switch {
		case rq == "hijack" || rs == "hijack":
			wantOpen = false
		case it.kind == "x" && clientAsksClose(it):
			wantOpen = false
		case it.kind == "x" && it.s("o", "ok") == "ok" && originAsksClose(it) && rq != "skip" && rq != "errskip":
			wantOpen = false
		case it.kind == "x" && it.s("o", "ok") == "trunc" && rq != "skip" && rq != "errskip":
			wantOpen = false
		case it.kind == "cblind" && it.s("dial", "1") == "1":
			wantOpen = false
		}
	}
	if wantOpen != open {
		failf("c01:keepalive", "connection open=%v after the exchanges, expected %v (closed exactly when a side asked to close)", open, wantOpen)
	}
	res := core.Result{Impl: impl}
	if len(fails) > 0 {
		res.Fail = strings.Join(fails, "; ")
		res.Sig = sig
	}
	return res
}

// junk: arbitrary client bytes must not take the proxy down (oracle only).
func (e *Ex) junk(toks []string) core.Result {
	if e.w == nil {
		e.w = &world{recs: map[string]*exRec{}, items: map[string]*item{}}
	}
	if e.proxy == nil {
		e.start()
	}
	b, _ := core.Unhex(toks[1])
	c, err := net.DialTimeout("tcp", e.pl.Addr().String(), 2*time.Second)
	if err == nil {
		c.SetDeadline(time.Now().Add(2 * time.Second))
		c.Write(b)
		if tcp, ok := c.(*net.TCPConn); ok {
			tcp.CloseWrite()
		}
		io.Copy(io.Discard, c)
		c.Close()
	}
	// the proxy must still serve a fresh connection
	c2, err := net.DialTimeout("tcp", e.pl.Addr().String(), 2*time.Second)
	if err != nil {
		return core.Result{SkipModel: true, Impl: "dead", Fail: "proxy no longer accepts connections after junk input", Sig: "c03:proxy-dead"}
	}
	defer c2.Close()
	c2.SetDeadline(time.Now().Add(ioTimeout))
	fmt.Fprintf(c2, "GET /alive HTTP/1.1\r\nHost: %s\r\n%s: alive\r\n\r\n", e.originAddr, idHeader)
	res, err := http.ReadResponse(bufio.NewReader(c2), nil)
	if err != nil || res.StatusCode != 200 {
		return core.Result{SkipModel: true, Impl: "dead", Fail: fmt.Sprintf("proxy does not serve after junk input: %v", err), Sig: "c03:proxy-dead"}
	}
	io.Copy(io.Discard, res.Body)
	return core.Result{SkipModel: true, Impl: "alive"}
}
