package pxy

// Bound-dependent verdicts are re-confirmed. Several clauses are judged through a wall-clock bound
// (a client read that hits its deadline: "the response never ends", "not closed after the hijack",
// "no response"; contexts still linked after the wait for quiescence). On a loaded machine a bound
// can be missed by a correct proxy, so a failing scenario in which any bound was hit is run once
// more from scratch - fresh proxy, origin and client - with every bound four times longer, and only
// the verdict of that second run counts. After three confirmations in one process the class is
// taken as real and later failures are reported directly (a broken tree must not cost minutes).

import (
	"sync/atomic"
	"time"

	"verif/harness/internal/core"
)

// ioTimeout bounds every client-side read and write of a scenario.
var ioTimeout = 3 * time.Second

// boundsHit counts the bounds that were actually hit (see isTimeout and the quiescence wait).
var boundsHit int64

var confirmations int

func hitBound() { atomic.AddInt64(&boundsHit, 1) }

// runConfirmed runs the scenario of e; ops are the ops of the case so far (without "end").
func (e *Ex) runConfirmed() core.Result {
	before := atomic.LoadInt64(&boundsHit)
	res := e.runScenario()
	if res.Fail != "" && e.conn["to"] != "" && confirmations < 3 {
		// the scenario sets the proxy's own idle timeout short and lives on the margin between it and the
		// scripted latencies: the bounds cannot be scaled without changing the scenario, so it has to
		// fail three times out of three
		core.Count("reconfirm:tight-timeout-scenario-rerun")
		for i := 0; i < 2; i++ {
			e2 := New()
			for _, op := range e.ops {
				e2.Do(op)
			}
			res = e2.runScenario()
			e2.Close()
			if res.Fail == "" {
				core.Count("reconfirm:tight-timeout-scenario-not-reproduced")
				return res
			}
		}
		confirmations++
		return res
	}
	if res.Fail == "" || atomic.LoadInt64(&boundsHit) == before || confirmations >= 3 {
		return res
	}
	core.Count("reconfirm:bound-dependent-failure-rerun")
	e2 := New()
	defer e2.Close()
	for _, op := range e.ops {
		e2.Do(op)
	}
	old := ioTimeout
	ioTimeout = 4 * old
	res2 := e2.runScenario()
	ioTimeout = old
	if res2.Fail == "" {
		core.Count("reconfirm:not-reproduced-with-longer-bounds")
	} else {
		confirmations++
	}
	return res2
}
