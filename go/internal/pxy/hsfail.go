package pxy

// TLS handshakes inside a MITM tunnel that FAIL without closing the TCP connection: the client
// rejects the forged certificate (unknown authority, or its own verification callback says no) and
// sends an alert, or offers only cipher suites the proxy refuses (the proxy sends the alert). tlsconn.Handshake() returns an
// error that is not closeable, so the proxy goes on serving the connection it had - as it was:
// nothing about the session may have changed (C05: what follows is judged by what the connection
// was before the CONNECT).
//
// op key of a `cmitm tls=1` item: hf=cert|verify|cipher.

import (
	"crypto/tls"
	"crypto/x509"
	"errors"
	"fmt"
	"time"

	"verif/harness/internal/core"
)

// HandshakeFailKinds lists the generated kinds.
var HandshakeFailKinds = []string{"cert", "verify", "cipher"}

// hsFailed is signalled by the proxy's handshake error callback (the MITM config is shared by all cases).
var hsFailed = make(chan struct{}, 16)

func onHandshakeError() {
	select {
	case hsFailed <- struct{}{}:
	default:
	}
}

func (e *Ex) failHandshake(cc *clientConn, idx int, kind string, flip bool) error {
	for len(hsFailed) > 0 {
		<-hsFailed
	}
	cfg := layerConfig(e.caseNo, idx+2, flip)
	switch kind {
	case "cert": // does not know the authority
		cfg.RootCAs = x509.NewCertPool()
	case "verify": // knows it, but its own policy rejects the connection
		cfg.VerifyConnection = func(tls.ConnectionState) error { return errors.New("verif: rejected by client policy") }
	case "cipher": // offers only cipher suites the proxy will not use: the proxy sends the alert
		cfg.MinVersion, cfg.MaxVersion = tls.VersionTLS12, tls.VersionTLS12
		cfg.CipherSuites = []uint16{tls.TLS_RSA_WITH_RC4_128_SHA, tls.TLS_ECDHE_RSA_WITH_RC4_128_SHA}
		cfg.NextProtos = nil
	}
	tc := tls.Client(&bufConn{Conn: cc.c, r: cc.br}, cfg)
	tc.SetDeadline(time.Now().Add(ioTimeout))
	if err := tc.Handshake(); err == nil {
		return fmt.Errorf("a handshake of kind %q succeeded", kind)
	}
	core.Count("tls:handshake-failed-" + kind)
	if e.conn["hscb"] == "nil" {
		// no callback to hear from: give the proxy's connection goroutine time to reach the point where it
		// would have called it (GenNoCallbackCase sends nothing after this item, so nothing can be misread)
		time.Sleep(100 * time.Millisecond)
		core.Count("tls:handshake-failed-no-callback")
		return nil
	}
	// the proxy has given up on the handshake too (it reads the alert, or has sent one) ...
	select {
	case <-hsFailed:
	case <-time.After(ioTimeout):
		isTimeout(timeoutError{})
		return errors.New("the proxy did not report the failed handshake")
	}
	// ... so whatever is left of its flight is on its way: discard it, the tunnel is cleartext again
	buf := make([]byte, 4096)
	for {
		cc.c.SetReadDeadline(time.Now().Add(150 * time.Millisecond))
		if _, err := cc.br.Read(buf); err != nil {
			if !timeoutErr(err) {
				return err
			}
			break
		}
	}
	return nil
}
