package pxy

// Uploads the origin never reads. The origin answers as soon as it has the request head - a
// length-delimited keep-alive response, no Connection: close - and leaves a Content-Length upload of
// several MiB unread (more than the socket buffers toward it absorb). The proxy relays the answer,
// consumes the rest of the upload itself (the deferred drain of the request body) and the client
// connection keeps serving: neither side asked to close (C01).
//
// op key of an `x` item: ur=1 (with rb of several MiB, rf=cl).

import (
	"io"
	"net"
	"net/http"
	"time"
)

func (e *Ex) originUnread(c net.Conn, req *http.Request, id string, it *item) (seen []byte, closeAfter bool, handled bool) {
	full, _ := originResponse(id, it)
	c.Write(full)
	// not reading: the transport's writer toward this socket stalls; when the round trip is over the
	// transport gives the connection up (the request was not written completely), which ends this wait
	time.Sleep(150 * time.Millisecond)
	c.SetDeadline(time.Now().Add(10 * time.Second))
	io.Copy(io.Discard, req.Body)
	return nil, true, true
}
