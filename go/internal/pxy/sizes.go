package pxy

// Size extremes of every message part other than the body: header sections of 64 KiB .. 1 MiB (many
// lines of a few KiB, one huge value, thousands of tiny lines) on requests and on origin responses,
// and very long request targets. C01 puts no bound on them: the values must arrive, in order, and the
// exchange and its neighbours on the connection must be relayed as usual.
//
// op keys of an `x` item: rhb=<bytes> rhs=many|one|lines (request header bulk and its shape),
// ohb=<bytes> ohs=… (origin response header bulk, as Set-Cookie lines), tl=<bytes> (target length).

import (
	"fmt"
	"strings"
)

// HeaderBulks are the generated totals: around the classical limits 64 KiB (a common cap, also
// http.DefaultMaxHeaderBytes x 1/16), 256 KiB, 1 MiB (http.DefaultMaxHeaderBytes).
var HeaderBulks = []int{60000, 65536, 70000, 131072, 262144, 1 << 20}

func bulkHeaders(name string, total int, shape string, seed int) [][2]string {
	if total <= 0 {
		return nil
	}
	var hs [][2]string
	switch shape {
	case "one":
		hs = append(hs, [2]string{name, fmt.Sprintf("huge%d=", seed) + strings.Repeat("h", total)})
	case "lines":
		for i := 0; i*14 < total; i++ {
			hs = append(hs, [2]string{name, fmt.Sprintf("l%d=%d", i, seed)})
		}
	default: // many lines of about 3 KiB
		for i := 0; i*3000 < total; i++ {
			hs = append(hs, [2]string{name, fmt.Sprintf("c%d-%d=", i, seed) + strings.Repeat("m", 2980)})
		}
	}
	return hs
}
