package pxy

// Early-writing clients on a MITM'd CONNECT: the client does not wait for the 200 but sends the
// CONNECT head and the first bytes of the tunnel - a cleartext HTTP request, or the TLS ClientHello -
// in ONE write. What arrives together with the head is the beginning of the tunnel: the cleartext
// request is answered (plain, insecure), the handshake succeeds (C05, C01). (C04 has the same for
// blind tunnels.)
//
// op key of a `cmitm` item: ed=1.

import (
	"bufio"
	"crypto/tls"
	"net"
	"time"
)

// earlyConn sends head together with the first Write, and holds reads back until the caller has taken
// the CONNECT's response off the stream.
type earlyConn struct {
	net.Conn
	r      *bufio.Reader
	head   []byte
	wrote  chan struct{}
	goRead chan struct{}
}

func (c *earlyConn) Write(p []byte) (int, error) {
	if c.head != nil {
		out := append(append([]byte{}, c.head...), p...)
		c.head = nil
		_, err := c.Conn.Write(out)
		close(c.wrote)
		if err != nil {
			return 0, err
		}
		return len(p), nil
	}
	return c.Conn.Write(p)
}

func (c *earlyConn) Read(p []byte) (int, error) {
	select {
	case <-c.goRead:
	case <-time.After(3 * ioTimeout): // the tunnel never came up: do not wait for ever
		return 0, net.ErrClosed
	}
	return c.r.Read(p)
}

type earlyTLS struct {
	tc   *tls.Conn
	ec   *earlyConn
	done chan error
}

// startEarlyTLS starts a handshake whose ClientHello travels in the same write as the CONNECT head.
func startEarlyTLS(cc *clientConn, head []byte, cfg *tls.Config) *earlyTLS {
	ec := &earlyConn{Conn: cc.c, r: cc.br, head: head, wrote: make(chan struct{}), goRead: make(chan struct{})}
	et := &earlyTLS{tc: tls.Client(ec, cfg), ec: ec, done: make(chan error, 1)}
	go func() { et.done <- et.tc.Handshake() }()
	select {
	case <-ec.wrote:
	case <-time.After(ioTimeout):
	}
	return et
}
