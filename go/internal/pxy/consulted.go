package pxy

// Headers the proxy itself consults. proxyutil.Warning reads the message's Date header (to repeat
// it as the warn-date); a modifier error must become a Warning on the message whatever that header
// looks like - valid in any of the three HTTP-date formats, invalid, empty, absent, repeated - and
// also when the message already carries a Warning of somebody else.
//
// op keys of an `x` item: dt=<kind> / odt=<kind> (Date lines of the request / of the origin's
// response; default none), wp=1 / owp=1 (a Warning already present on the request / response).
// Differential op (no proxy): `pu.warning <n> <hex of n Date lines joined by LF> <pre>` runs the real
// proxyutil.Warning on a header with those Date lines and <pre> Warning values.

import (
	"bytes"
	"errors"
	"fmt"
	"net/http"
	"strconv"
	"strings"

	"github.com/google/martian/v3/proxyutil"

	"verif/harness/internal/core"
)

const (
	dateIMF     = "Mon, 02 Jan 2006 15:04:05 GMT"
	dateRFC850  = "Monday, 02-Jan-06 15:04:05 GMT"
	dateAsctime = "Mon Jan  2 15:04:05 2006"
)

// DateKinds: the class of Date header contents.
var DateKinds = []string{"imf", "rfc850", "asctime", "bad1", "bad2", "bad3", "bad4", "empty", "dup", "dupbad", "dupsame"}

func dateLines(kind string) []string {
	switch kind {
	case "imf":
		return []string{dateIMF}
	case "rfc850":
		return []string{dateRFC850}
	case "asctime":
		return []string{dateAsctime}
	case "bad1":
		return []string{"Thursday"}
	case "bad2":
		return []string{"2006-01-02"}
	case "bad3":
		return []string{"Mon, 02 Jan 2006 15:04:05 +0100"}
	case "bad4":
		return []string{"0"}
	case "empty":
		return []string{""}
	case "dup":
		return []string{dateIMF, "Thursday"}
	case "dupbad":
		return []string{"yesterday", dateIMF}
	case "dupsame":
		return []string{dateIMF, dateIMF}
	}
	return nil
}

const preWarning = `299 - "verif-preexisting-warning"`

func writeConsulted(b *bytes.Buffer, dateKind string, pre bool) {
	for _, l := range dateLines(dateKind) {
		fmt.Fprintf(b, "Date: %s\r\n", l)
	}
	if pre {
		fmt.Fprintf(b, "Warning: %s\r\n", preWarning)
	}
}

// carrying counts the Warning values that proxyutil.Warning wrote for err.
func carrying(values []string, err error) int {
	n := 0
	for _, v := range values {
		if warningCarries(v, err) {
			n++
		}
	}
	return n
}

func doConsultedOp(toks []string) (string, bool) {
	if toks[0] != "pu.warning" {
		return "", false
	}
	if len(toks) != 4 {
		return "bad-op", true
	}
	n, err1 := strconv.Atoi(toks[1])
	pre, err2 := strconv.Atoi(toks[3])
	raw, ok := core.Unhex(toks[2])
	if err1 != nil || err2 != nil || !ok {
		return "bad-op", true
	}
	h := http.Header{}
	if n > 0 {
		for _, l := range strings.Split(string(raw), "\n") {
			h.Add("Date", l)
		}
	}
	for i := 0; i < pre; i++ {
		h.Add("Warning", preWarning)
	}
	date := h.Get("Date")
	proxyutil.Warning(h, errors.New("verif-modifier-error"))
	ws := h["Warning"]
	echo := len(ws) > 0 && date != "" && strings.HasSuffix(ws[len(ws)-1], strconv.Quote(date))
	return fmt.Sprintf("n=%d echo=%s", len(ws), b01(echo)), true
}

// GenConsultedOps emits the differential ops of proxyutil.Warning.
func GenConsultedOps(r *core.Rand, n int) []string {
	var ops []string
	for i := 0; i < n; i++ {
		var lines []string
		if r.Chance(4, 5) {
			lines = dateLines(DateKinds[r.Intn(len(DateKinds))])
		}
		ops = append(ops, fmt.Sprintf("pu.warning %d %s %d", len(lines), core.HexS(strings.Join(lines, "\n")), r.Intn(3)))
	}
	return ops
}
