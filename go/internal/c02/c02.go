// Package c02: property C02 over the shared exchange-machine harness (internal/pxy).
package c02

import (
	"verif/harness/internal/core"
	"verif/harness/internal/pxy"
)

type P struct{}

func init() { core.Register(P{}) }

func (P) ID() string                                  { return "C02" }
func (P) NewExec() core.Exec                          { return pxy.New() }
func (P) Nontrivial(ops []string, impl []string) bool { return pxy.Nontrivial(ops, impl) }

func (P) Rule() string {
	return "case = one client connection (plain, blind CONNECT, MITM with TLS or plain HTTP inside) with 1..7 requests whose request/response modifiers are scripted per exchange (pass, error, skip round trip, error+skip, hijack; an error is one of 14 kinds of values: errors.New, wrapped, MultiError, io.EOF, io.ErrClosedPipe, io.ErrUnexpectedEOF, timeouts as net.Error / *net.OpError / os.ErrDeadlineExceeded / context.DeadlineExceeded / *net.DNSError, context.Canceled, refused) on plain, CONNECT and tunnelled requests, clients and origins speaking HTTP/1.0 or 1.1 with varied Connection tokens; recording modifiers, origin log, hook VerifLiveContexts at quiescence; distinct by op-list hash; non-trivial when >= 2 requests were served, a 502 or a hijack occurred, or later requests went unserved"
}

func (P) Gen(r *core.Rand, tier string, emit func([]string)) {
	n := 500
	if tier == "thorough" {
		n = 3000
	}
	pr := pxy.Profile{Modifiers: true, Tunnels: true}
	for i := 0; i < n; i++ {
		emit(pxy.GenCase(r, pr))
	}
}
