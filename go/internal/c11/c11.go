// Package c11: gRPC reframing (h2/grpc adapter + emitter) under DATA fragmentation and compression.
//
// The real pipeline adapter -> pass-through grpc.Processor -> emitter -> sink is built with
// grpc.AsStreamProcessorFactory and the verif hook h2.VerifNewProcessors (recording sinks).
// Every op is one h2.Processor call on the c->s or s->c adapter; the observation is the ordered
// list of calls seen by the recording processor and by the recording sink.
package c11

import (
	"bytes"
	"compress/flate"
	"compress/gzip"
	"encoding/binary"
	"fmt"
	"io"
	"net/url"
	"strconv"
	"strings"
	"time"

	"github.com/golang/snappy"
	"github.com/google/martian/v3/h2"
	mgrpc "github.com/google/martian/v3/h2/grpc"
	"golang.org/x/net/http2"
	"golang.org/x/net/http2/hpack"

	"verif/harness/internal/core"
)

type P struct{}

func init() { core.Register(P{}) }

func (P) ID() string { return "C11" }
func (P) Rule() string {
	return "case = one grpc.AsStreamProcessorFactory value, called once per stream id over recording sinks; mostly one bidirectional stream: HEADERS as an ordered field list (content-type " +
		"before, between or after 0..3 grpc-encoding fields identity/gzip/deflate/snappy of which the last counts, look-alike field names, content-type " +
		"variants, Trailers-Only), then the length-prefixed byte stream of 0..n messages (empty..1MiB, compressed flag 0/1, sender's own " +
		"compression level) cut into DATA frames - every one of the 2^(n-1) cut sets for short streams, all 1- and sampled 2-cut sets for medium, " +
		"random cuts for long, zero-length frames without END_STREAM at every position (short streams) or sprinkled in - with END_STREAM on the last " +
		"DATA frame, on a separate empty DATA frame or on trailers, in either or both directions; " +
		"plus malformed streams (truncated, bad flag bytes, undecodable payloads, unknown encodings), non-gRPC streams, PRIORITY/RST/PUSH frames " +
		"the uint32 prefix arithmetic at its boundaries; compressed payloads in every valid form of their format the real libraries can write (multi-member gzip, " +
		"header fields, stored blocks, sync flushes, several / repeated-header / skippable snappy chunks); a message of 64 KiB..4 MiB accumulated over 16-64 KiB frames " +
		"followed by short ones with a DATA boundary at every offset -2..+8 around its end; and cases with 2..4 streams (gRPC with their own encodings and non-gRPC, sequential in any " +
		"order or with interleaved frames) through the case's single factory value; " +
		"distinct by hash of the op list; non-trivial when a gRPC byte stream carrying at least one message arrives in at least two DATA frames, " +
		"or a non-gRPC stream carries at least one DATA frame"
}

func (P) Nontrivial(ops []string, impl []string) bool {
	data, pm, sdOnly := 0, 0, 0
	for i, o := range ops {
		if strings.HasPrefix(o, "@") { // @<stream id> prefix
			if k := strings.IndexByte(o, ' '); k > 0 {
				o = o[k+1:]
			}
		}
		if strings.HasPrefix(o, "data ") {
			data++
			if i < len(impl) {
				if strings.Contains(impl[i], "pm:") {
					pm++
				} else if strings.HasPrefix(impl[i], "sd:") {
					sdOnly++
				}
			}
		}
	}
	return (pm >= 1 && data >= 2) || (pm == 0 && sdOnly >= 1)
}

// ---------------------------------------------------------------------------------------------
// real codecs, used (a) by the oracle's independent reader and (b) to validate the dec/cmp table
// lines that stand for the compression library in the model.

func realDecode(enc string, p []byte) ([]byte, error) {
	switch enc {
	case "identity":
		return p, nil
	case "gzip":
		r, err := gzip.NewReader(bytes.NewReader(p))
		if err != nil {
			return nil, err
		}
		return io.ReadAll(r)
	case "deflate":
		return io.ReadAll(flate.NewReader(bytes.NewReader(p)))
	case "snappy":
		return io.ReadAll(snappy.NewReader(bytes.NewReader(p)))
	}
	return nil, fmt.Errorf("unknown encoding %q", enc)
}

// realEncode compresses as a gRPC peer would; level 0 = the library default (what the emitter
// is expected to produce), other levels stand for senders with their own settings.
func realEncode(enc string, p []byte, level int) []byte {
	if level >= 100 {
		if w := variantEncode(enc, p, level); w != nil {
			if back, err := realDecode(enc, w); err == nil && bytes.Equal(back, p) {
				core.Count("codec-variant:" + enc + ":" + strconv.Itoa(level))
				return w
			}
			core.Count("codec-variant:rejected-by-reference-decoder:" + enc + ":" + strconv.Itoa(level))
		}
		level = 0
	}
	var buf bytes.Buffer
	switch enc {
	case "identity":
		return p
	case "gzip":
		l := gzip.DefaultCompression
		if level != 0 {
			l = level
		}
		w, _ := gzip.NewWriterLevel(&buf, l)
		w.Write(p)
		w.Close()
	case "deflate":
		l := flate.DefaultCompression
		if level != 0 {
			l = level
		}
		w, _ := flate.NewWriter(&buf, l)
		w.Write(p)
		w.Close()
	case "snappy":
		if level != 0 {
			// unbuffered writer: one chunk per Write, a different but valid framing of the same data
			w := snappy.NewWriter(&buf)
			half := len(p) / 2
			w.Write(p[:half])
			w.Write(p[half:])
		} else {
			w := snappy.NewBufferedWriter(&buf)
			w.Write(p)
			w.Close()
		}
	}
	return buf.Bytes()
}

// variantEncode: valid encodings of p that no single Writer.Close of the emitter's kind produces -
// the part of each format's input space a gRPC peer (another library, another language) may use.
// Every result is checked against the reference decoder by realEncode before it is used.
//
//	gzip    100 two members (RFC 1952: a file is a series of members; ISIZE covers the last only)
//	        101 header with FEXTRA, FNAME, FCOMMENT and MTIME      102 stored blocks (level 0)
//	        103 sync-flushed in the middle, then an EMPTY last member (ISIZE = 0)
//	        104 three members, the first empty
//	deflate 100 sync flush in the middle (00 00 ff ff marker, several blocks)   101 two flushes + full flush
//	        102 stored blocks (level 0)                                103 Huffman-only with a flush
//	snappy  100 three chunks (unbuffered writer)     101 two framed streams concatenated (stream identifier repeated)
//	        102 a skippable chunk (type 0x80) after the stream identifier      103 a padding chunk (0xfe) at the end
func variantEncode(enc string, p []byte, v int) []byte {
	var buf bytes.Buffer
	half := len(p) / 2
	gz := func(q []byte, level int, hdr bool, flushAt int) {
		w, _ := gzip.NewWriterLevel(&buf, level)
		if hdr {
			w.Name, w.Comment, w.Extra = "msg.bin", "a comment", []byte{'A', 'p', 2, 0, 1, 2}
			w.ModTime = time.Unix(1700000000, 0)
		}
		if flushAt >= 0 && flushAt <= len(q) {
			w.Write(q[:flushAt])
			w.Flush()
			q = q[flushAt:]
		}
		w.Write(q)
		w.Close()
	}
	switch enc {
	case "gzip":
		switch v {
		case 100:
			gz(p[:half], gzip.DefaultCompression, false, -1)
			gz(p[half:], gzip.BestSpeed, false, -1)
		case 101:
			gz(p, gzip.DefaultCompression, true, -1)
		case 102:
			gz(p, gzip.NoCompression, false, -1)
		case 103:
			gz(p, gzip.DefaultCompression, false, half)
			gz(nil, gzip.DefaultCompression, false, -1)
		case 104:
			gz(nil, gzip.DefaultCompression, false, -1)
			gz(p[:half], gzip.BestCompression, true, -1)
			gz(p[half:], gzip.HuffmanOnly, false, -1)
		default:
			return nil
		}
	case "deflate":
		level := map[int]int{100: flate.DefaultCompression, 101: flate.BestSpeed, 102: flate.NoCompression, 103: flate.HuffmanOnly}
		l, ok := level[v]
		if !ok {
			return nil
		}
		w, _ := flate.NewWriter(&buf, l)
		w.Write(p[:half])
		w.Flush()
		if v == 101 {
			w.Write(p[half : half+(len(p)-half)/2])
			w.Flush()
			w.Write(p[half+(len(p)-half)/2:])
			w.Flush()
		} else {
			w.Write(p[half:])
		}
		w.Close()
	case "snappy":
		switch v {
		case 100:
			w := snappy.NewWriter(&buf)
			third := len(p) / 3
			w.Write(p[:third])
			w.Write(p[third : 2*third])
			w.Write(p[2*third:])
		case 101:
			for _, q := range [][]byte{p[:half], p[half:]} {
				w := snappy.NewBufferedWriter(&buf)
				w.Write(q)
				w.Close()
			}
		case 102, 103:
			var inner bytes.Buffer
			w := snappy.NewBufferedWriter(&inner)
			w.Write(p)
			w.Close()
			b := inner.Bytes()
			if len(b) < 10 {
				return nil
			}
			if v == 102 {
				buf.Write(b[:10])
				buf.Write([]byte{0x80, 3, 0, 0, 'x', 'y', 'z'})
				buf.Write(b[10:])
			} else {
				buf.Write(b)
				buf.Write([]byte{0xfe, 2, 0, 0, 0, 0})
			}
		default:
			return nil
		}
	default:
		return nil
	}
	return buf.Bytes()
}

// senderLevels: how a peer may have compressed a message (see realEncode / variantEncode).
var senderLevels = []int{0, 1, 9, -2, 100, 101, 102, 103, 104}

// ---------------------------------------------------------------------------------------------
// independent gRPC length-prefixed-message reader

type wmsg struct {
	flag    byte
	payload []byte
}

func parseFrames(b []byte) (ms []wmsg, rest []byte) {
	for len(b) >= 5 {
		n := int(b[1])<<24 | int(b[2])<<16 | int(b[3])<<8 | int(b[4])
		if len(b)-5 < n {
			break
		}
		ms = append(ms, wmsg{b[0], b[5 : 5+n]})
		b = b[5+n:]
	}
	return ms, b
}

func wire(flag byte, payload []byte) []byte {
	n := len(payload)
	out := []byte{flag, byte(n >> 24), byte(n >> 16), byte(n >> 8), byte(n)}
	return append(out, payload...)
}

// ---------------------------------------------------------------------------------------------
// canonical rendering (kept in step with Drv/C11.lean)

func fnv(b []byte) uint64 {
	h := uint64(14695981039346656037)
	for _, x := range b {
		h = (h ^ uint64(x)) * 1099511628211
	}
	return h
}

// tokOf renders a byte string as an op token: hex, or - for a large string that is a short pattern
// repeated - `gen:<hex pattern>:<n>`, so that op lines with multi-megabyte compressible plaintexts
// stay short (the driver expands the same token).
func tokOf(b []byte) string {
	if len(b) > 1<<16 {
		for k := 1; k <= 16; k++ {
			periodic := true
			for i := k; i < len(b) && periodic; i++ {
				periodic = b[i] == b[i-k]
			}
			if periodic {
				return "gen:" + core.Hex(b[:k]) + ":" + strconv.Itoa(len(b))
			}
		}
	}
	return core.Hex(b)
}

func unhexTok(t string) ([]byte, bool) {
	if !strings.HasPrefix(t, "gen:") {
		return core.Unhex(t)
	}
	parts := strings.Split(t, ":")
	if len(parts) != 3 {
		return nil, false
	}
	pat, ok := core.Unhex(parts[1])
	n, err := strconv.Atoi(parts[2])
	if !ok || err != nil || len(pat) == 0 || n < 0 || n > 1<<26 {
		return nil, false
	}
	out := make([]byte, n)
	for i := range out {
		out[i] = pat[i%len(pat)]
	}
	return out, true
}

func showBytes(b []byte) string {
	if len(b) <= 48 {
		return core.Hex(b)
	}
	return fmt.Sprintf("#%d:%d", len(b), fnv(b))
}

type hf struct{ n, v string }

func showHdrs(hs []hf) string {
	if len(hs) == 0 {
		return "-"
	}
	var parts []string
	for _, h := range hs {
		parts = append(parts, core.HexS(h.n)+"="+core.HexS(h.v))
	}
	return strings.Join(parts, ",")
}

func parseHdrs(s string) ([]hf, bool) {
	if s == "-" {
		return nil, true
	}
	var out []hf
	for _, p := range strings.Split(s, ",") {
		nv := strings.Split(p, "=")
		if len(nv) != 2 {
			return nil, false
		}
		n, ok1 := core.Unhex(nv[0])
		v, ok2 := core.Unhex(nv[1])
		if !ok1 || !ok2 {
			return nil, false
		}
		out = append(out, hf{string(n), string(v)})
	}
	return out, true
}

func b01(b bool) string {
	if b {
		return "1"
	}
	return "0"
}

// ---------------------------------------------------------------------------------------------
// recording processors

type shownMsg struct {
	data []byte
	es   bool
}
type sinkEv struct {
	kind byte // 'd' data, 'h' header, 'o' other
	data []byte
	es   bool
}

type dirState struct {
	// what the real code did
	shown []shownMsg
	sink  []sinkEv
	// the oracle's own reading of the inputs
	in        []byte
	lastEmpty bool // the last DATA frame fed was empty
	sinkFrom  int  // sink events before this index predate the gRPC announcement (forwarded as they are)
	enc       string
	encKnown  bool
	dead      bool
	fedData   bool // a DATA frame of the gRPC stream has been fed in this direction
}

// strm is one HTTP/2 stream of the case: the processors the factory built for it, what they and
// its sinks saw, and the oracle's reading of it.
type strm struct {
	sid  int
	d    [2]*dirState
	proc [2]h2.Processor
	grpc bool // oracle's reading: a content-type field announcing gRPC (specGrpc) has been seen ON THIS STREAM
}

// ex is one case: ONE factory value (as h2.Config holds one), called once per stream id.
type ex struct {
	cur       []string
	factory   h2.StreamProcessorFactory
	streams   map[int]*strm
	creating  *strm  // the stream the factory is being called for
	on        *strm  // the stream of the current op
	cross     string // an event was seen on a stream other than the one the op was fed to
	reportF11 bool
}

// specGrpc: the content-types that announce gRPC according to the gRPC-over-HTTP/2 specification
// ("application/grpc" [("+proto" / "+json" / {custom})]) and, like grpc-go, a ';' parameter.
func specGrpc(v string) bool {
	const base = "application/grpc"
	return v == base || (strings.HasPrefix(v, base) && (v[len(base)] == '+' || v[len(base)] == ';'))
}

type sink struct {
	e   *ex
	st  *strm
	dir int
}

// tag marks an event seen by the processors or sinks of a stream other than the op's.
func (e *ex) tag(st *strm) string {
	if st == e.on {
		return ""
	}
	e.cross = fmt.Sprintf("a frame fed to stream %d produced an event on stream %d", e.on.sid, st.sid)
	return fmt.Sprintf("x%d:", st.sid)
}

func conv(hs []hpack.HeaderField) []hf {
	var out []hf
	for _, h := range hs {
		out = append(out, hf{h.Name, h.Value})
	}
	return out
}

func (s *sink) Data(data []byte, es bool) error {
	c := append([]byte{}, data...)
	s.e.cur = append(s.e.cur, s.e.tag(s.st)+"sd:"+b01(es)+":"+showBytes(c))
	s.st.d[s.dir].sink = append(s.st.d[s.dir].sink, sinkEv{'d', c, es})
	return nil
}
func (s *sink) Header(hs []hpack.HeaderField, es bool, _ http2.PriorityParam) error {
	s.e.cur = append(s.e.cur, s.e.tag(s.st)+"sh:"+b01(es)+":"+showHdrs(conv(hs)))
	s.st.d[s.dir].sink = append(s.st.d[s.dir].sink, sinkEv{'h', []byte(showHdrs(conv(hs))), es})
	return nil
}
func (s *sink) Priority(http2.PriorityParam) error {
	s.e.cur = append(s.e.cur, s.e.tag(s.st)+"sp")
	s.st.d[s.dir].sink = append(s.st.d[s.dir].sink, sinkEv{'o', nil, false})
	return nil
}
func (s *sink) RSTStream(c http2.ErrCode) error {
	s.e.cur = append(s.e.cur, s.e.tag(s.st)+"sr:"+strconv.Itoa(int(c)))
	s.st.d[s.dir].sink = append(s.st.d[s.dir].sink, sinkEv{'o', nil, false})
	return nil
}
func (s *sink) PushPromise(id uint32, hs []hpack.HeaderField) error {
	s.e.cur = append(s.e.cur, s.e.tag(s.st)+"su:"+strconv.Itoa(int(id))+":"+showHdrs(conv(hs)))
	s.st.d[s.dir].sink = append(s.st.d[s.dir].sink, sinkEv{'o', nil, false})
	return nil
}

// pass is the pass-through grpc.Processor: records, then forwards to the emitter.
type pass struct {
	e    *ex
	st   *strm
	dir  int
	next mgrpc.Processor
}

func (p *pass) Header(hs []hpack.HeaderField, es bool, pr http2.PriorityParam) error {
	p.e.cur = append(p.e.cur, p.e.tag(p.st)+"ph:"+b01(es)+":"+showHdrs(conv(hs)))
	return p.next.Header(hs, es, pr)
}
func (p *pass) Message(data []byte, es bool) error {
	c := append([]byte{}, data...)
	p.e.cur = append(p.e.cur, p.e.tag(p.st)+"pm:"+b01(es)+":"+showBytes(c))
	p.st.d[p.dir].shown = append(p.st.d[p.dir].shown, shownMsg{c, es})
	return p.next.Message(data, es)
}

func (P) NewExec() core.Exec {
	e := &ex{streams: map[int]*strm{}}
	e.factory = mgrpc.AsStreamProcessorFactory(func(_ *url.URL, server, client mgrpc.Processor) (mgrpc.Processor, mgrpc.Processor) {
		return &pass{e, e.creating, 0, server}, &pass{e, e.creating, 1, client}
	})
	return e
}

// stream returns the stream with the given id; on first use the case's factory is called for it
// with fresh recording sinks, as h2.Config does for every new HTTP/2 stream.
func (e *ex) stream(sid int) *strm {
	if st, ok := e.streams[sid]; ok {
		return st
	}
	st := &strm{sid: sid}
	st.d[0], st.d[1] = &dirState{enc: "identity", encKnown: true}, &dirState{enc: "identity", encKnown: true}
	e.streams[sid] = st
	sinks := h2.VerifNewProcessors(&sink{e, st, 0}, &sink{e, st, 1})
	u, _ := url.Parse("https://example.com/svc/Method")
	e.creating = st
	st.proc[0], st.proc[1] = e.factory(u, sinks)
	e.creating = nil
	core.Count("streams:created")
	return st
}
func (e *ex) Close() {}

func dirOf(s string) int {
	switch s {
	case "c":
		return 0
	case "s":
		return 1
	}
	return -1
}

func errKind(err error) string {
	s := err.Error()
	switch {
	case strings.Contains(s, "unrecognized grpc-encoding"):
		return "encoding"
	case strings.Contains(s, "gunzipping"), strings.Contains(s, "deflating"), strings.Contains(s, "uncompressing snappy"):
		return "decompress"
	}
	return "other"
}

func (e *ex) line() string {
	if len(e.cur) == 0 {
		return "-"
	}
	return strings.Join(e.cur, " ")
}

func (e *ex) Do(op string) core.Result {
	t := strings.Fields(op)
	bad := core.Result{Impl: "bad-op"}
	if len(t) == 0 {
		return bad
	}
	e.cur = nil
	sid := 1
	if strings.HasPrefix(t[0], "@") { // @<stream id> <op>: the op is on that stream (default: stream 1)
		n, err := strconv.Atoi(t[0][1:])
		if err != nil || n < 0 || len(t) < 2 {
			return bad
		}
		sid, t = n, t[1:]
	}
	switch t[0] {
	case "hdr", "data", "prio", "rst", "push":
		e.on = e.stream(sid)
		e.cross = ""
		r := e.doFrame(t)
		if e.cross != "" && r.Fail == "" {
			r.Fail, r.Sig = e.cross, "c11:cross-stream-event"
		}
		return r
	}
	return e.doOther(t)
}

// doOther: ops that are not frames of a stream.
func (e *ex) doOther(t []string) core.Result {
	bad := core.Result{Impl: "bad-op"}
	switch t[0] {
	case "pfx": // pfx <n>: what emitter.Message writes for a payload of n bytes, read back as adapter.Data reads it
		if len(t) != 2 {
			return bad
		}
		n, err := strconv.ParseInt(t[1], 10, 64)
		if err != nil || n < 0 {
			return bad
		}
		var buf bytes.Buffer
		binary.Write(&buf, binary.BigEndian, uint32(int(n)))
		var l uint32
		binary.Read(bytes.NewReader(buf.Bytes()), binary.BigEndian, &l)
		core.Count("arith:pfx")
		return core.Result{Impl: core.Hex(buf.Bytes()) + " " + strconv.FormatUint(uint64(l), 10)}
	case "report-known":
		e.reportF11 = true
		return core.Result{Impl: "ok", SkipModel: true}
	case "dec": // dec <enc> <wire> <plain|!> : the real reader maps wire to plain (or fails)
		if len(t) != 4 {
			return bad
		}
		w, ok := core.Unhex(t[2])
		if !ok {
			return bad
		}
		got, err := realDecode(t[1], w)
		if t[3] == "!" {
			if err == nil {
				return core.Result{Impl: "table-mismatch: decodes"}
			}
			return core.Result{Impl: "ok"}
		}
		p, ok := unhexTok(t[3])
		if !ok || err != nil || !bytes.Equal(got, p) {
			return core.Result{Impl: "table-mismatch"}
		}
		return core.Result{Impl: "ok"}
	case "cmp": // cmp <enc> <plain> <wire> : the library's default writer maps plain to wire
		if len(t) != 4 {
			return bad
		}
		p, ok1 := unhexTok(t[2])
		w, ok2 := core.Unhex(t[3])
		if !ok1 || !ok2 || !bytes.Equal(realEncode(t[1], p, 0), w) {
			return core.Result{Impl: "table-mismatch"}
		}
		return core.Result{Impl: "ok"}
	}
	return bad
}

// doFrame: one frame on the stream e.on.
func (e *ex) doFrame(t []string) core.Result {
	bad := core.Result{Impl: "bad-op"}
	switch t[0] {
	case "hdr":
		if len(t) != 4 || dirOf(t[1]) < 0 || (t[2] != "0" && t[2] != "1") {
			return bad
		}
		hs, ok := parseHdrs(t[3])
		if !ok {
			return bad
		}
		return e.header(dirOf(t[1]), hs, t[2] == "1")
	case "data":
		if len(t) != 4 || dirOf(t[1]) < 0 || (t[2] != "0" && t[2] != "1") {
			return bad
		}
		b, ok := core.Unhex(t[3])
		if !ok {
			return bad
		}
		return e.data(dirOf(t[1]), b, t[2] == "1")
	case "prio":
		if len(t) != 2 || dirOf(t[1]) < 0 {
			return bad
		}
		err := e.on.proc[dirOf(t[1])].Priority(http2.PriorityParam{StreamDep: 3, Weight: 7})
		return e.other(err, "sp")
	case "rst":
		if len(t) != 3 || dirOf(t[1]) < 0 {
			return bad
		}
		c, err := strconv.Atoi(t[2])
		if err != nil || c < 0 {
			return bad
		}
		return e.other(e.on.proc[dirOf(t[1])].RSTStream(http2.ErrCode(c)), "sr:"+strconv.Itoa(c))
	case "push":
		if len(t) != 4 || dirOf(t[1]) < 0 {
			return bad
		}
		id, err := strconv.Atoi(t[2])
		hs, ok := parseHdrs(t[3])
		if err != nil || id < 0 || !ok {
			return bad
		}
		var hh []hpack.HeaderField
		for _, h := range hs {
			hh = append(hh, hpack.HeaderField{Name: h.n, Value: h.v})
		}
		return e.other(e.on.proc[dirOf(t[1])].PushPromise(uint32(id), hh), "su:"+strconv.Itoa(id)+":"+showHdrs(hs))
	}
	return bad
}

// PRIORITY / RST_STREAM / PUSH_PROMISE: always forwarded as they are, gRPC or not.
func (e *ex) other(err error, want string) core.Result {
	if err != nil {
		e.cur = append(e.cur, "err:"+errKind(err))
	}
	r := core.Result{Impl: e.line()}
	if r.Impl != want {
		r.Fail = fmt.Sprintf("frame not forwarded untouched: sink saw %q, want %q", r.Impl, want)
		r.Sig = "c11:other-frame-modified"
	}
	return r
}

func (e *ex) header(dir int, hs []hf, es bool) core.Result {
	d := e.on.d[dir]
	var hh []hpack.HeaderField
	for _, h := range hs {
		hh = append(hh, hpack.HeaderField{Name: h.n, Value: h.v})
	}
	// the oracle's own reading of the header block: is the stream gRPC (whichever field says so,
	// wherever it stands), and which encoding does this direction use (the last grpc-encoding field)
	for _, h := range hs {
		if h.n == "content-type" && specGrpc(h.v) && !e.on.grpc {
			e.on.grpc = true
			if h.v != "application/grpc" {
				core.Count("hdr:grpc-subtype")
			}
			e.on.d[0].sinkFrom, e.on.d[1].sinkFrom = len(e.on.d[0].sink), len(e.on.d[1].sink)
		}
	}
	if e.on.grpc {
		for _, h := range hs {
			if h.n == "grpc-encoding" {
				switch h.v {
				case "identity", "gzip", "deflate", "snappy":
					if d.fedData && d.enc != h.v {
						d.encKnown = false // the encoding changes in mid-stream: outside the statement
					}
					d.enc = h.v
				default:
					d.encKnown = false
				}
			}
		}
	}
	if d.dead {
		return core.Result{Impl: "out-of-model", SkipModel: true}
	}
	err := e.on.proc[dir].Header(hh, es, http2.PriorityParam{})
	if err != nil {
		e.cur = append(e.cur, "err:"+errKind(err))
		d.dead = true
	}
	r := core.Result{Impl: e.line()}
	want := "sh:" + b01(es) + ":" + showHdrs(hs)
	if !e.on.grpc {
		core.Count("hdr:non-grpc")
		if r.Impl != want {
			r.Fail = fmt.Sprintf("non-gRPC HEADERS not forwarded untouched: %q, want %q", r.Impl, want)
			r.Sig = "c11:non-grpc-modified"
		}
		return r
	}
	core.Count("hdr:grpc")
	if err == nil && d.encKnown {
		// a gRPC header block reaches the processor and then the sink, unchanged
		if r.Impl != "ph:"+b01(es)+":"+showHdrs(hs)+" "+want {
			r.Fail = fmt.Sprintf("gRPC HEADERS changed on the way: %q", r.Impl)
			r.Sig = "c11:grpc-header-modified"
			return r
		}
	}
	if es && err == nil {
		core.Count("eos:on-headers")
		if f, sig := e.judgeEnd(dir, false); f != "" {
			r.Fail, r.Sig = f, sig
		}
	}
	return r
}

func (e *ex) data(dir int, b []byte, es bool) core.Result {
	d := e.on.d[dir]
	if d.dead {
		return core.Result{Impl: "out-of-model", SkipModel: true}
	}
	if e.on.grpc { // the oracle's reading: only DATA of a stream already announced as gRPC is gRPC
		d.in = append(d.in, b...)
		d.fedData = true
	}
	d.lastEmpty = len(b) == 0
	err := e.on.proc[dir].Data(append([]byte{}, b...), es)
	if err != nil {
		e.cur = append(e.cur, "err:"+errKind(err))
		d.dead = true
		core.Count("data:error:" + errKind(err))
	}
	r := core.Result{Impl: e.line()}
	if !e.on.grpc {
		core.Count("data:non-grpc")
		want := "sd:" + b01(es) + ":" + showBytes(b)
		if r.Impl != want {
			r.Fail = fmt.Sprintf("non-gRPC DATA not forwarded untouched: %q, want %q", trunc(r.Impl), trunc(want))
			r.Sig = "c11:non-grpc-modified"
		}
		return r
	}
	core.Count("data:grpc")
	if len(b) == 0 {
		core.Count("data:grpc:empty-frame")
	}
	if es && err == nil {
		if len(b) == 0 {
			core.Count("eos:on-empty-data")
		} else {
			core.Count("eos:on-last-data")
		}
		if f, sig := e.judgeEnd(dir, true); f != "" {
			r.Fail, r.Sig = f, sig
		}
	}
	return r
}

func trunc(s string) string {
	if len(s) > 160 {
		return s[:160] + "…"
	}
	return s
}

// judgeEnd is the property, stated over the observations of one direction whose END_STREAM has
// just been delivered: with M = the messages an independent reader finds in the concatenation of
// the DATA payloads fed (decoded with the real library under the negotiated encoding),
//
//	(1) the processor was shown exactly M (decompressed), end-of-stream on no call but the last;
//	(2) the sink's DATA payloads, concatenated and read independently, are exactly M again with the
//	    same compressed flags, each compressed payload readable by the same real decoder;
//	(3) the sink saw end-of-stream exactly once, on its last event;
//	(4) an END_STREAM that carries no message adds no message (to (1) or to (2)).
//
// Streams that are not a whole number of well-formed messages are outside the statement.
func (e *ex) judgeEnd(dir int, viaData bool) (string, string) {
	d := e.on.d[dir]
	if !d.encKnown {
		core.Count("oracle:skipped:unknown-encoding")
		return "", ""
	}
	ms, rest := parseFrames(d.in)
	if len(rest) != 0 {
		core.Count("oracle:skipped:truncated-stream")
		return "", ""
	}
	type pm struct {
		flag  byte
		plain []byte
	}
	var want []pm
	for _, m := range ms {
		if m.flag > 1 {
			core.Count("oracle:skipped:bad-flag-byte")
			return "", ""
		}
		p := m.payload
		if m.flag == 1 {
			var err error
			if p, err = realDecode(d.enc, m.payload); err != nil {
				core.Count("oracle:skipped:undecodable-input")
				return "", ""
			}
		}
		want = append(want, pm{m.flag, p})
	}
	core.Count("oracle:judged")
	core.Count(fmt.Sprintf("oracle:judged:msgs=%d", min(len(want), 4)))

	// the known defect F11b: END_STREAM on an empty DATA frame while no message is pending is
	// turned into Message(nil, true) and re-emitted as one more, empty, message.
	emptyEOS := viaData && d.lastEmpty
	shown := d.shown
	extraShown := false
	if emptyEOS && len(shown) == len(want)+1 && len(shown[len(shown)-1].data) == 0 && shown[len(shown)-1].es {
		extraShown = true
		shown = shown[:len(shown)-1]
	}
	// (1)
	if len(shown) != len(want) {
		return fmt.Sprintf("processor was shown %d messages, the stream carries %d", len(shown), len(want)), "c11:shown-messages-differ"
	}
	for i, s := range shown {
		if !bytes.Equal(s.data, want[i].plain) {
			return fmt.Sprintf("message %d shown to the processor is %s, sent %s", i, showBytes(s.data), showBytes(want[i].plain)), "c11:shown-messages-differ"
		}
		last := i == len(shown)-1
		if s.es && (!last || extraShown) {
			return fmt.Sprintf("message %d of %d was shown with end-of-stream", i, len(shown)), "c11:eos-before-last-message"
		}
	}
	// (2)
	var out []byte
	nEOS, lastIsEOS := 0, false
	for i, s := range d.sink {
		if i < d.sinkFrom {
			continue
		}
		if s.kind == 'd' {
			out = append(out, s.data...)
		}
		if s.es {
			nEOS++
			lastIsEOS = i == len(d.sink)-1
		}
	}
	got, rest2 := parseFrames(out)
	if len(rest2) != 0 {
		return fmt.Sprintf("DATA reaching the destination is not a whole number of gRPC messages (%d stray bytes)", len(rest2)), "c11:sink-stream-malformed"
	}
	extraSink := false
	if emptyEOS && len(got) == len(want)+1 {
		g := got[len(got)-1]
		p, err := g.payload, error(nil)
		if g.flag == 1 {
			p, err = realDecode(d.enc, g.payload)
		}
		if err == nil && len(p) == 0 {
			extraSink = true
			got = got[:len(got)-1]
		}
	}
	if len(got) != len(want) {
		return fmt.Sprintf("destination received %d messages, the stream carries %d", len(got), len(want)), "c11:sink-messages-differ"
	}
	for i, g := range got {
		if g.flag != want[i].flag {
			return fmt.Sprintf("message %d reached the destination with compressed flag %d, sent %d", i, g.flag, want[i].flag), "c11:sink-flag-differs"
		}
		p := g.payload
		if g.flag == 1 {
			var err error
			if p, err = realDecode(d.enc, g.payload); err != nil {
				return fmt.Sprintf("message %d reached the destination in a form the %s reader rejects: %v", i, d.enc, err), "c11:sink-encoding-differs"
			}
		}
		if !bytes.Equal(p, want[i].plain) {
			return fmt.Sprintf("message %d reached the destination as %s, sent %s", i, showBytes(p), showBytes(want[i].plain)), "c11:sink-messages-differ"
		}
	}
	// (3)
	if nEOS != 1 {
		return fmt.Sprintf("destination saw end-of-stream %d times", nEOS), "c11:eos-count"
	}
	if !lastIsEOS {
		return "destination saw end-of-stream before its last frame", "c11:eos-not-last"
	}
	// (4)
	if extraShown || extraSink {
		core.Count("f11b:pattern-seen")
		if e.reportF11 {
			core.Count("f11b:reported")
			return fmt.Sprintf("END_STREAM on an empty DATA frame after %d message(s): processor shown an extra empty message=%v, destination received an extra empty message=%v",
				len(want), extraShown, extraSink), "c11:empty-eos-extra-message"
		}
	}
	return "", ""
}

func min(a, b int) int {
	if a < b {
		return a
	}
	return b
}
