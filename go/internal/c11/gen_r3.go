package c11

// Round-3 generators: the header block as an ordered field list, zero-length DATA frames that do
// not end the stream, content-type variants, Trailers-Only responses, the 32-bit prefix arithmetic.

import (
	"fmt"

	"verif/harness/internal/core"
)

// hdrPlan is one way of writing the header block of a gRPC stream: which content-type, which
// grpc-encoding fields in which order, where content-type stands among them, and what else is in
// the block. The effective encoding is the one named by the LAST grpc-encoding field.
type hdrPlan struct {
	ct    string   // content-type value; "" = no content-type field
	encs  []string // grpc-encoding values, in order
	ctPos int      // content-type is written after encs[:ctPos]
	rich  bool     // pseudo-headers and te
	noise bool     // fields with similar names that must be ignored, between the others
	ctDup bool     // a second, different content-type field in front
}

var noiseFields = []hf{
	{"grpc-accept-encoding", "identity,deflate,gzip"}, {"content-encoding", "br"}, {"accept-encoding", "snappy"},
	{"grpc-encoding-x", "gzip"}, {"x-grpc-encoding", "snappy"}, {"grpc-timeout", "1S"}, {"user-agent", "grpc-go/1.50"},
	{"grpc-message-type", "application/grpc"}, {"x-content-type", "application/grpc"},
	{"Grpc-Encoding", "snappy"}, {"grpc-encoding ", "gzip"}, {"grpc_encoding", "deflate"},
}

func (p hdrPlan) fields(r *core.Rand, dir string) []hf {
	var hs []hf
	if p.rich {
		if dir == "c" {
			hs = append(hs, hf{":method", "POST"}, hf{":path", "/svc/Method"}, hf{"te", "trailers"})
		} else {
			hs = append(hs, hf{":status", "200"})
		}
	}
	noise := func() {
		if p.noise && r.Bool() {
			hs = append(hs, noiseFields[r.Intn(len(noiseFields))])
		}
	}
	ct := func() {
		if p.ct == "" {
			return
		}
		if p.ctDup {
			hs = append(hs, hf{"content-type", "text/plain"})
		}
		hs = append(hs, hf{"content-type", p.ct})
	}
	for i, e := range p.encs {
		noise()
		if i == p.ctPos {
			ct()
			noise()
		}
		hs = append(hs, hf{"grpc-encoding", e})
	}
	noise()
	if p.ctPos >= len(p.encs) {
		ct()
		noise()
	}
	return hs
}

func otherEnc(r *core.Rand, enc string) string {
	for {
		if o := r.Pick(encs...); o != enc {
			return o
		}
	}
}

// planFor draws a header plan whose effective encoding is enc: the field alone, absent (identity
// only), duplicated, preceded by other encodings; content-type before, between or after them.
func planFor(r *core.Rand, enc string) hdrPlan {
	p := hdrPlan{ct: "application/grpc", rich: r.Bool(), noise: r.Chance(1, 3), ctDup: r.Chance(1, 12)}
	if r.Chance(1, 6) {
		p.ct = r.Pick("application/grpc+proto", "application/grpc+json", "application/grpc;charset=utf-8", "application/grpc+x")
	}
	switch k := r.Intn(10); {
	case k < 4:
		p.encs = []string{enc}
	case k == 4 && enc == "identity":
		p.encs = nil
	case k < 7:
		p.encs = []string{otherEnc(r, enc), enc}
	case k == 7:
		p.encs = []string{enc, enc}
	case k == 8:
		p.encs = []string{otherEnc(r, enc), otherEnc(r, enc), enc}
	default:
		p.encs = []string{enc}
	}
	p.ctPos = r.Intn(len(p.encs) + 1)
	core.Count(fmt.Sprintf("hdrplan:encs=%d", len(p.encs)))
	switch {
	case len(p.encs) == 0:
	case p.ctPos == 0:
		core.Count("hdrplan:ct-first")
	case p.ctPos == len(p.encs):
		core.Count("hdrplan:ct-after-encoding")
	default:
		core.Count("hdrplan:ct-between-encodings")
	}
	return p
}

// sprinkleEmpty inserts k zero-length DATA frames (never carrying END_STREAM) anywhere in a frame
// list: before the first frame, between any two, and - unless the last frame carries the
// END_STREAM - after the last one. HTTP/2 allows them anywhere; no cut set produces one.
func sprinkleEmpty(r *core.Rand, frames [][]byte, eos string, k int) [][]byte {
	out := append([][]byte{}, frames...)
	for i := 0; i < k; i++ {
		max := len(out)
		if eos == "last" {
			max = len(out) - 1
		}
		if max < 0 {
			break
		}
		at := r.Intn(max + 1)
		out = append(out[:at], append([][]byte{{}}, out[at:]...)...)
		core.Count("empty-frame:inserted")
	}
	return out
}

// smallStream: 1..3 short messages, at least one flagged compressed, as a sender using enc writes them.
func smallStream(r *core.Rand, enc string) []byte {
	ms := genMsgs(r, 3, 12)
	if len(ms) == 0 {
		ms = []gmsg{{1, payload(r, r.Range(0, 6))}}
	}
	ms[r.Intn(len(ms))].flag = 1
	return streamOf(enc, ms, senderLevels[r.Intn(len(senderLevels))])
}

// genHeaders: the header block as an ORDERED field list. Systematically: 4 effective encodings x
// both directions x {grpc-encoding before / after content-type, duplicated with the other values
// first, content-type between two grpc-encoding fields, similar-looking field names around} in the
// first block of a direction, with compressed messages behind it (so the encoding chosen is
// observable); a direction that only names its encoding after the other one announced gRPC; request
// and response with their own encodings; Trailers-Only responses; content-type variants the
// specification calls gRPC (+proto, +json, ;charset) and ones it does not.
func genHeaders(r *core.Rand, rounds int, emit func([]string)) {
	ctx := hf{"content-type", "application/grpc"}
	ge := func(v string) hf { return hf{"grpc-encoding", v} }
	for round := 0; round < rounds; round++ {
		for _, enc := range encs {
			for _, dir := range []string{"c", "s"} {
				o1, o2 := otherEnc(r, enc), otherEnc(r, enc)
				blocks := [][]hf{
					{ctx, ge(enc)},
					{ge(enc), ctx},
					{ge(o1), ge(enc), ctx},
					{ge(o1), ctx, ge(enc)},
					{ctx, ge(o1), ge(o2), ge(enc)},
					{ge(enc), {"grpc-accept-encoding", o1}, {"te", "trailers"}, ctx},
					{{":method", "POST"}, ge(enc), {"content-encoding", o1}, ctx, {"grpc-encoding-bin", o2}},
					{ge(enc), ge(enc), ctx, {"content-type", "text/plain"}},
				}
				for bi, hs := range blocks {
					stream := smallStream(r, enc)
					eos := pickEOS(r, len(stream))
					frames := randomCuts(r, stream)
					if r.Chance(1, 3) {
						frames = sprinkleEmpty(r, frames, eos, 1)
					}
					core.Count(fmt.Sprintf("headers:block=%d", bi))
					emit(buildCase(r, false, dirSpec{dir: dir, enc: enc, hdrs: hs, frames: frames, eos: eos}))
				}
				// the other direction announced gRPC earlier; this one only names its encoding
				other := "c"
				if dir == "c" {
					other = "s"
				}
				stream := smallStream(r, enc)
				ops := tables(enc, stream, map[string]bool{})
				ops = append(ops, hdrLine(other, false, planFor(r, o1).fields(r, other)))
				spec := dirSpec{dir: dir, enc: enc, hdrs: []hf{{"x-trace", "1"}, ge(enc)}, frames: randomCuts(r, stream), eos: pickEOS(r, len(stream))}
				if r.Bool() {
					spec.hdrs = []hf{ge(enc), ctx}
				}
				core.Count("headers:enabled-by-other-direction")
				emit(append(ops, opsOf(spec)...))
			}
			// request and response with their own encodings, field order drawn independently
			o := otherEnc(r, enc)
			a := dirSpec{dir: "c", enc: enc, hdrs: planFor(r, enc).fields(r, "c"), eos: "last"}
			b := dirSpec{dir: "s", enc: o, hdrs: planFor(r, o).fields(r, "s"), eos: "trailers"}
			a.frames, b.frames = randomCuts(r, smallStream(r, enc)), randomCuts(r, smallStream(r, o))
			core.Count("headers:two-directions")
			emit(buildCase(r, false, a, b))
		}
		// Trailers-Only: the response is one HEADERS frame with END_STREAM
		for _, hs := range [][]hf{
			{{":status", "200"}, ctx, {"grpc-status", "12"}},
			{{"grpc-status", "5"}, {"grpc-encoding", "gzip"}, ctx},
			{{":status", "200"}, {"grpc-status", "0"}}, // the request announced gRPC
		} {
			core.Count("headers:trailers-only")
			req := dirSpec{dir: "c", enc: "identity", hdrs: planFor(r, "identity").fields(r, "c"), frames: randomCuts(r, streamOf("identity", genMsgs(r, 2, 8), 0)), eos: "last"}
			ops := opsOf(req)
			at := r.Range(1, len(ops))
			ops = append(ops[:at], append([]string{hdrLine("s", true, hs)}, ops[at:]...)...)
			emit(ops)
		}
		// content-type variants: gRPC with a +subtype or a ;parameter (F11d, fixed by 1b6fe6f) ...
		for i, ct := range []string{"application/grpc+proto", "application/grpc+json", "application/grpc;charset=utf-8", "application/grpc+", "application/grpc;"} {
			enc := r.Pick(encs...)
			dir := r.Pick("c", "s")
			stream := smallStream(r, enc)
			p := planFor(r, enc)
			p.ct, p.ctDup = ct, false
			core.Count("headers:grpc-subtype")
			_ = i
			emit(buildCase(r, false, dirSpec{dir: dir, enc: enc, hdrs: p.fields(r, dir), frames: randomCuts(r, stream), eos: pickEOS(r, len(stream))}))
		}
		// ... and lookalikes that are not gRPC by either reading: forwarded untouched
		for _, ct := range []string{"application/grpc-web", "application/grpc-web+proto", "application/grpcx", "application/grp", "Application/grpc", "application/grpc ", " application/grpc", "application/GRPC", "application/grpc\t", "application/json"} {
			enc := r.Pick(encs...)
			dir := r.Pick("c", "s")
			p := planFor(r, enc)
			p.ct, p.ctDup = ct, false
			core.Count("headers:not-grpc")
			emit(buildCase(r, false, dirSpec{dir: dir, enc: "identity", hdrs: p.fields(r, dir), frames: randomCuts(r, smallStream(r, enc)), eos: pickEOS(r, 1)}))
		}
	}
}

// genEmptyFrames: a zero-length DATA frame without END_STREAM at EVERY position of the frame list,
// for every cut set of the short streams (1..2 messages, at most maxN bytes; all three END_STREAM
// placements up to 8 bytes, one drawn per cut set above); and compressed streams cut at the message boundaries and right after each prefix
// with 1..4 empty frames among the pieces.
func genEmptyFrames(r *core.Rand, maxN int, compressed int, emit func([]string)) {
	for _, sh := range shapes(maxN) {
		n := 0
		for _, l := range sh {
			n += 5 + l
		}
		for mask := uint64(0); mask < 1<<uint(n-1); mask++ {
			var ms []gmsg
			for _, l := range sh {
				ms = append(ms, gmsg{0, payload(r, l)})
			}
			frames := cutMask(streamOf("identity", ms, 0), mask)
			placements := []string{"last", "empty", "trailers"}
			if len(sh) > 1 || n > 8 { // longer streams: every position, one END_STREAM placement per cut set
				placements = []string{placements[r.Intn(3)]}
			}
			for _, eos := range placements {
				positions := len(frames) + 1
				if eos == "last" {
					positions = len(frames)
				}
				for at := 0; at < positions; at++ {
					fs := append(append(append([][]byte{}, frames[:at]...), []byte{}), frames[at:]...)
					dir := r.Pick("c", "s")
					core.Count("empty-frame:exhaustive")
					emit(buildCase(r, false, dirSpec{dir: dir, enc: "identity", hdrs: grpcHdrs(dir, "identity", false), frames: fs, eos: eos}))
				}
			}
		}
	}
	for i := 0; i < compressed; i++ {
		enc := encs[i%4]
		dir := r.Pick("c", "s")
		stream := smallStream(r, enc)
		ms, _ := parseFrames(stream)
		var pos []int
		off := 0
		for _, m := range ms {
			pos = append(pos, off, off+5)
			off += 5 + len(m.payload)
		}
		eos := pickEOS(r, len(stream))
		frames := sprinkleEmpty(r, cutAt(stream, pos), eos, r.Range(1, 4))
		core.Count("empty-frame:compressed")
		emit(buildCase(r, false, dirSpec{dir: dir, enc: enc, hdrs: planFor(r, enc).fields(r, dir), frames: frames, eos: eos}))
	}
}

// genArith: the 32-bit arithmetic of the emitter's length prefix around its boundaries (values no
// DATA frame can reach: a payload of 2^32 bytes).
func genArith(r *core.Rand, emit func([]string)) {
	pts := []int64{0, 1, 4, 5, 255, 256, 65535, 65536, 1<<24 - 1, 1 << 24, 1<<31 - 1, 1 << 31, 1<<32 - 2, 1<<32 - 1, 1 << 32, 1<<32 + 1, 1<<32 + 5, 1<<32 + 255, 1<<33 - 1, 1 << 33, 1<<40 + 7}
	var ops []string
	for _, n := range pts {
		ops = append(ops, fmt.Sprintf("pfx %d", n))
	}
	emit(ops)
	ops = nil
	for i := 0; i < 40; i++ {
		n := int64(r.Intn(1<<30))<<3 + int64(r.Intn(8))
		ops = append(ops, fmt.Sprintf("pfx %d", n))
	}
	emit(ops)
}

// mergeDirs renders one stream: its directions' op lists merged at random, each direction's order
// kept, the first direction's header block first.
func mergeDirs(r *core.Rand, specs []dirSpec) []string {
	if len(specs) == 1 {
		return opsOf(specs[0])
	}
	a, b := opsOf(specs[0]), opsOf(specs[1])
	ops := []string{a[0]}
	a = a[1:]
	for len(a) > 0 || len(b) > 0 {
		if len(b) == 0 || (len(a) > 0 && r.Bool()) {
			ops, a = append(ops, a[0]), a[1:]
		} else {
			ops, b = append(ops, b[0]), b[1:]
		}
	}
	return ops
}

// genStreams: SEVERAL streams through the case's one factory value (h2.Config calls the same
// factory for every stream of every connection). 2..4 streams with distinct ids, each either gRPC
// (own encoding per direction, own header plan, own cuts, own END_STREAM placement) or not gRPC
// (other or no content-type, look-alike content-types, a body of random bytes or of bytes that look
// like a gRPC stream); scheduled one after the other in a random order (non-gRPC after gRPC, gRPC
// after non-gRPC, ...) or with their frames interleaved. Every stream is judged on its own.
func genStreams(r *core.Rand, cases int, emit func([]string)) {
	ids := []int{1, 3, 5, 7, 9, 2, 11}
	for i := 0; i < cases; i++ {
		k := r.Range(2, 4)
		perm := make([]int, len(ids))
		for x := range perm {
			perm[x] = x
		}
		for x := len(perm) - 1; x > 0; x-- {
			y := r.Intn(x + 1)
			perm[x], perm[y] = perm[y], perm[x]
		}
		var streams [][]string
		var tabs []string
		seen := map[string]bool{}
		nGrpc, nPlain := 0, 0
		for j := 0; j < k; j++ {
			sid := ids[perm[j]]
			isGrpc := r.Chance(3, 5)
			if j == k-1 && nGrpc == 0 {
				isGrpc = true
			} else if j == k-1 && nPlain == 0 && r.Chance(2, 3) {
				isGrpc = false
			}
			var specs []dirSpec
			if isGrpc {
				nGrpc++
				dirs := []string{r.Pick("c", "s")}
				if r.Chance(1, 3) {
					dirs = []string{"c", "s"}
				}
				for _, dir := range dirs {
					enc := r.Pick(encs...)
					stream := smallStream(r, enc)
					eos := pickEOS(r, len(stream))
					frames := randomCuts(r, stream)
					if r.Chance(1, 5) {
						frames = sprinkleEmpty(r, frames, eos, 1)
					}
					specs = append(specs, dirSpec{dir: dir, enc: enc, hdrs: planFor(r, enc).fields(r, dir), frames: frames, eos: eos})
					tabs = append(tabs, tables(enc, stream, seen)...)
				}
			} else {
				nPlain++
				dir := r.Pick("c", "s")
				var hs []hf
				if dir == "c" {
					hs = append(hs, hf{":method", "POST"}, hf{":path", "/upload"})
				} else {
					hs = append(hs, hf{":status", "200"})
				}
				switch r.Intn(4) {
				case 0:
				case 1:
					hs = append(hs, hf{"content-type", r.Pick("application/json", "text/plain", "application/octet-stream")})
				case 2:
					hs = append(hs, hf{"content-type", r.Pick("application/grpc-web", "application/grpcx", "Application/grpc")}, hf{"grpc-encoding", r.Pick(encs...)})
				default:
					hs = append(hs, hf{"grpc-encoding", "gzip"}, hf{"content-length", "7"})
				}
				var body []byte
				switch r.Intn(3) {
				case 0:
					body = r.Bytes(r.Range(0, 40))
				case 1: // looks like gRPC messages
					body = streamOf("identity", genMsgs(r, 3, 8), 0)
				default: // looks like the start of a long gRPC message: a parser would swallow it
					body = append([]byte{0, 0, 0, 1, 0}, r.Bytes(r.Range(0, 20))...)
				}
				eos := r.Pick("last", "last", "empty", "trailers")
				specs = append(specs, dirSpec{dir: dir, enc: "identity", hdrs: hs, frames: randomCuts(r, body), eos: eos})
			}
			ops := mergeDirs(r, specs)
			for x := range ops {
				ops[x] = fmt.Sprintf("@%d %s", sid, ops[x])
			}
			streams = append(streams, ops)
		}
		ops := append([]string{}, tabs...)
		if r.Bool() {
			core.Count("streams:sequential")
			for _, st := range streams {
				ops = append(ops, st...)
			}
		} else {
			core.Count("streams:interleaved")
			for {
				var live []int
				for x, st := range streams {
					if len(st) > 0 {
						live = append(live, x)
					}
				}
				if len(live) == 0 {
					break
				}
				x := live[r.Intn(len(live))]
				ops, streams[x] = append(ops, streams[x][0]), streams[x][1:]
			}
		}
		core.Count(fmt.Sprintf("streams:grpc=%d,plain=%d", nGrpc, nPlain))
		emit(ops)
	}
}

// genCodec: the compression formats' input space beyond what one Writer.Close of the emitter's
// kind produces (see variantEncode): every encoding x every sender variant, messages of several
// sizes flagged compressed (mixed with uncompressed ones), cut at random. The reference decoders
// (gzip.Reader with multistream on, flate.Reader, snappy.Reader) say what the messages are.
func genCodec(r *core.Rand, rounds int, emit func([]string)) {
	for round := 0; round < rounds; round++ {
		for _, enc := range []string{"gzip", "deflate", "snappy"} {
			for _, lv := range senderLevels {
				if lv < 100 && round > 0 {
					continue
				}
				sizes := []int{r.Range(2, 9), r.Range(10, 80), r.Range(200, 700)}
				var ms []gmsg
				for _, n := range sizes {
					ms = append(ms, gmsg{1, payload(r, n)})
					if r.Bool() {
						ms = append(ms, gmsg{0, payload(r, r.Range(0, 6))})
					}
				}
				if r.Chance(1, 4) {
					ms = append(ms, gmsg{1, nil})
				}
				stream := streamOf(enc, ms, lv)
				dir := r.Pick("c", "s")
				eos := pickEOS(r, len(stream))
				core.Count("codec:cases")
				emit(buildCase(r, false, dirSpec{dir: dir, enc: enc, hdrs: planFor(r, enc).fields(r, dir), frames: randomCuts(r, stream), eos: eos}))
			}
		}
	}
}

// bigThenSmall: one message of `size` bytes accumulated over frames of `frame` bytes, followed by
// 1..3 short messages; one DATA boundary at offset `k` from the end of the big message (k < 0: inside
// its last bytes, 0: exactly between the messages, 1..4: inside the next prefix, 5..: inside / after
// the next payload), then the rest in one or two frames.
func bigThenSmall(r *core.Rand, size, frame, k int) dirSpec {
	big := make([]byte, size)
	x := byte(r.Intn(256))
	for i := range big {
		big[i] = x + byte(i*7)
	}
	ms := []gmsg{{0, big}, {0, payload(r, r.Range(1, 6))}}
	for r.Chance(1, 2) && len(ms) < 4 {
		ms = append(ms, gmsg{0, payload(r, r.Range(0, 5))})
	}
	stream := streamOf("identity", ms, 0)
	end := 5 + size
	var pos []int
	for p := frame; p < end-8; p += frame {
		pos = append(pos, p)
	}
	pos = append(pos, end+k)
	if end+k+1 < len(stream)-1 && r.Bool() {
		pos = append(pos, r.Range(end+k+1, len(stream)-1))
	}
	dir := r.Pick("c", "s")
	core.Count(fmt.Sprintf("big-then-small:size=%dKiB", size>>10))
	core.Count(fmt.Sprintf("big-then-small:cut=%+d", k))
	return dirSpec{dir: dir, enc: "identity", hdrs: grpcHdrs(dir, r.Pick("identity", ""), r.Bool()), frames: cutAt(stream, pos), eos: pickEOS(r, len(stream))}
}

// genBigThenSmall: large messages around the growth thresholds of the reassembly buffer (64 KiB,
// 1 MiB, 4 MiB of capacity), followed by more messages, with the DATA boundary at every position of
// the window [end of the big message - 2, + 8]. quick: the whole window at the 64 KiB scale, and at
// the 1 MiB scale the boundary between the messages, two of the four positions inside the next
// prefix and two others; thorough: the whole window at every scale.
func genBigThenSmall(r *core.Rand, tier string, emit func([]string)) {
	one := func(size, frame, k int) {
		emit(buildCase(r, false, bigThenSmall(r, size, frame, k)))
	}
	small := []int{65536 - 7, 65536 + 3}
	for k := -2; k <= 8; k++ {
		one(small[r.Intn(2)]+r.Intn(3), 16384, k)
	}
	type scale struct{ size, frame int }
	if tier != "thorough" {
		ks := []int{0, 1 + r.Intn(2), 3 + r.Intn(2), []int{-2, -1}[r.Intn(2)], 5 + r.Intn(4)}
		for i, k := range ks {
			sc := []scale{{655000, 20000}, {1100000, 16384}}[i%2]
			one(sc.size+r.Intn(1000), sc.frame, k)
		}
		return
	}
	for _, sc := range []scale{{140000, 16384}, {655000, 20000}, {1100000, 16384}, {2200000, 16384}} {
		for k := -2; k <= 8; k++ {
			one(sc.size+r.Intn(1000), sc.frame, k)
		}
	}
	for _, k := range []int{0, 1 + r.Intn(4), 1 + r.Intn(4), 5 + r.Intn(4)} {
		one(4<<20+3+r.Intn(100), 65535, k)
	}
}

// blocksFor: SEVERAL header blocks of one direction before its DATA (1xx interim responses and the
// final one; a request split likewise), with content-type and grpc-encoding in any of them. The
// encoding in force is the one of the LAST block that names one after the stream became gRPC;
// `variant` < 0 draws one.
//
//	0 interim block(s) without gRPC fields, then the full block
//	1 first block announces gRPC (and names another encoding), the final block names enc only
//	2 first block announces and names enc, the final block names nothing (enc stays)
//	3 first block names another encoding BEFORE the stream is gRPC (ignored if nothing announced
//	  it yet), a second interim block, then the full block
func blocksFor(r *core.Rand, dir, enc string, variant int) (pre [][]hf, main []hf) {
	if variant < 0 {
		variant = r.Intn(4)
	}
	interim := func(extra ...hf) []hf {
		var b []hf
		if dir == "s" {
			b = append(b, hf{":status", r.Pick("100", "103")})
			if r.Bool() {
				b = append(b, hf{"link", "</x>; rel=preload"})
			}
		} else {
			b = append(b, hf{":method", "POST"}, hf{":path", "/svc/Method"})
		}
		return append(b, extra...)
	}
	ct := hf{"content-type", r.Pick("application/grpc", "application/grpc", "application/grpc+proto")}
	other := otherEnc(r, enc)
	core.Count(fmt.Sprintf("hdrblocks:variant=%d", variant))
	switch variant {
	case 0:
		pre = append(pre, interim())
		if r.Chance(1, 3) {
			pre = append(pre, interim(hf{"x-early", "1"}))
		}
		main = planFor(r, enc).fields(r, dir)
	case 1:
		pre = append(pre, interim(ct, hf{"grpc-encoding", other}))
		main = []hf{{"x-final", "1"}, {"grpc-encoding", enc}}
		if dir == "s" {
			main = append([]hf{{":status", "200"}}, main...)
		}
	case 2:
		if r.Bool() {
			pre = append(pre, interim(hf{"grpc-encoding", enc}, ct))
		} else {
			pre = append(pre, interim(ct, hf{"grpc-encoding", other}, hf{"grpc-encoding", enc}))
		}
		main = []hf{{"x-final", "1"}, {"grpc-accept-encoding", other}}
		if dir == "s" {
			main = append([]hf{{":status", "200"}}, main...)
		}
	default:
		pre = append(pre, interim(hf{"grpc-encoding", other}), interim())
		main = planFor(r, enc).fields(r, dir)
	}
	return pre, main
}

// genHeaderBlocks: every block variant x 4 encodings x both directions, compressed messages behind
// them, trailers (without and - outside the statement once DATA has flowed - with grpc-encoding) after.
func genHeaderBlocks(r *core.Rand, rounds int, emit func([]string)) {
	for round := 0; round < rounds; round++ {
		for _, enc := range encs {
			for _, dir := range []string{"c", "s"} {
				for v := 0; v < 4; v++ {
					stream := smallStream(r, enc)
					pre, main := blocksFor(r, dir, enc, v)
					spec := dirSpec{pre: pre, dir: dir, enc: enc, hdrs: main, frames: randomCuts(r, stream), eos: pickEOS(r, len(stream))}
					if r.Chance(1, 3) { // the other direction announced gRPC first
						other := "c"
						if dir == "c" {
							other = "s"
						}
						ops := tables(enc, stream, map[string]bool{})
						ops = append(ops, hdrLine(other, false, planFor(r, otherEnc(r, enc)).fields(r, other)))
						emit(append(ops, opsOf(spec)...))
						continue
					}
					emit(buildCase(r, false, spec))
				}
			}
		}
	}
}

// genBigDecompressed: messages that are small on the wire and LARGE once decompressed (a short
// pattern repeated: 4 MiB - 1, 4 MiB, 4 MiB + 1..3, 8 MiB + 1), under each compressing encoding, in
// both directions, followed by a short message. The plaintext travels in the op lines as a
// `gen:<pattern>:<n>` token.
func genBigDecompressed(r *core.Rand, tier string, emit func([]string)) {
	one := func(enc string, n int) {
		pat := r.Bytes(r.Range(1, 7))
		big := make([]byte, n)
		for i := range big {
			big[i] = pat[i%len(pat)]
		}
		ms := []gmsg{{1, big}, {byte(r.Intn(2)), payload(r, r.Range(0, 5))}}
		if r.Bool() {
			ms = append([]gmsg{{0, payload(r, 3)}}, ms...)
		}
		stream := streamOf(enc, ms, []int{0, 1}[r.Intn(2)])
		dir := r.Pick("c", "s")
		core.Count(fmt.Sprintf("big-decompressed:%s:%dMiB", enc, n>>20))
		emit(buildCase(r, false, dirSpec{dir: dir, enc: enc, hdrs: planFor(r, enc).fields(r, dir), frames: randomCuts(r, stream), eos: pickEOS(r, len(stream))}))
	}
	comp := []string{"gzip", "deflate", "snappy"}
	if tier != "thorough" {
		for _, enc := range comp {
			one(enc, 4<<20+r.Range(1, 3))
		}
		one(comp[r.Intn(3)], 4<<20-r.Intn(2))
		return
	}
	for _, enc := range comp {
		for _, n := range []int{4<<20 - 1, 4 << 20, 4<<20 + 1, 4<<20 + 4097, 8<<20 + 1} {
			one(enc, n)
		}
	}
}
