package c11

import (
	"fmt"
	"sort"

	"github.com/golang/snappy"

	"verif/harness/internal/core"
)

var encs = []string{"identity", "gzip", "deflate", "snappy"}

// dirSpec is one direction of a case: the byte stream, how it is cut, where END_STREAM goes.
type dirSpec struct {
	pre    [][]hf // header blocks of this direction BEFORE the main one (1xx interim responses, ...)
	dir    string // "c" | "s"
	enc    string
	hdrs   []hf
	frames [][]byte
	eos    string // last | empty | trailers | none
}

// tables returns the dec/cmp lines a stream needs under an encoding: the finite part of the
// compression library the model is given for this case (validated against the real library when
// the line is executed).
func tables(enc string, stream []byte, seen map[string]bool) []string {
	var out []string
	add := func(l string) {
		if !seen[l] {
			seen[l] = true
			out = append(out, l)
		}
	}
	if enc == "identity" {
		return nil
	}
	ms, _ := parseFrames(stream)
	any := false
	for _, m := range ms {
		if m.flag == 0 {
			continue
		}
		any = true
		p, err := realDecode(enc, m.payload)
		if err != nil {
			add("dec " + enc + " " + core.Hex(m.payload) + " !")
			continue
		}
		add("dec " + enc + " " + core.Hex(m.payload) + " " + tokOf(p))
		add("cmp " + enc + " " + tokOf(p) + " " + core.Hex(realEncode(enc, p, 0)))
	}
	if any {
		// an END_STREAM on an empty DATA frame is re-emitted with the previous compressed flag
		add("cmp " + enc + " - " + core.Hex(realEncode(enc, nil, 0)))
	}
	return out
}

func hdrLine(dir string, es bool, hs []hf) string {
	return "hdr " + dir + " " + b01(es) + " " + showHdrs(hs)
}

func grpcHdrs(dir, enc string, rich bool) []hf {
	var hs []hf
	if rich {
		if dir == "c" {
			hs = append(hs, hf{":method", "POST"}, hf{":path", "/svc/Method"}, hf{"te", "trailers"})
		} else {
			hs = append(hs, hf{":status", "200"})
		}
	}
	hs = append(hs, hf{"content-type", "application/grpc"})
	if enc != "" {
		hs = append(hs, hf{"grpc-encoding", enc})
	}
	return hs
}

// opsOf renders the per-direction op lists (headers, DATA frames, end-of-stream).
func opsOf(s dirSpec) []string {
	var ops []string
	for _, b := range s.pre {
		ops = append(ops, hdrLine(s.dir, false, b))
	}
	ops = append(ops, hdrLine(s.dir, false, s.hdrs))
	for i, f := range s.frames {
		es := s.eos == "last" && i == len(s.frames)-1
		ops = append(ops, "data "+s.dir+" "+b01(es)+" "+core.Hex(f))
	}
	switch s.eos {
	case "empty":
		ops = append(ops, "data "+s.dir+" 1 -")
	case "trailers":
		ops = append(ops, hdrLine(s.dir, true, []hf{{"grpc-status", "0"}}))
	}
	return ops
}

func concat(fs [][]byte) []byte {
	var out []byte
	for _, f := range fs {
		out = append(out, f...)
	}
	return out
}

func buildCase(r *core.Rand, report bool, specs ...dirSpec) []string {
	var ops []string
	if report {
		ops = append(ops, "report-known")
	}
	seen := map[string]bool{}
	for _, s := range specs {
		ops = append(ops, tables(s.enc, concat(s.frames), seen)...)
	}
	if len(specs) == 1 {
		return append(ops, opsOf(specs[0])...)
	}
	// two directions: random interleaving that keeps each direction's order; the request
	// header block goes first
	a, b := opsOf(specs[0]), opsOf(specs[1])
	ops = append(ops, a[0])
	a = a[1:]
	for len(a) > 0 || len(b) > 0 {
		if len(b) == 0 || (len(a) > 0 && r.Bool()) {
			ops = append(ops, a[0])
			a = a[1:]
		} else {
			ops = append(ops, b[0])
			b = b[1:]
		}
	}
	return ops
}

// cutMask cuts s after byte i+1 for every set bit i of mask (a cut set over the n-1 inner positions).
func cutMask(s []byte, mask uint64) [][]byte {
	var out [][]byte
	start := 0
	for i := 0; i+1 < len(s); i++ {
		if mask&(1<<uint(i)) != 0 {
			out = append(out, s[start:i+1])
			start = i + 1
		}
	}
	return append(out, s[start:])
}

func cutAt(s []byte, pos []int) [][]byte {
	sort.Ints(pos)
	var out [][]byte
	start := 0
	for _, p := range pos {
		if p <= start || p >= len(s) {
			continue
		}
		out = append(out, s[start:p])
		start = p
	}
	return append(out, s[start:])
}

func pickEOS(r *core.Rand, streamLen int) string {
	if streamLen == 0 {
		return r.Pick("empty", "trailers")
	}
	switch r.Intn(5) {
	case 0, 1:
		return "last"
	case 2, 3:
		return "empty"
	}
	return "trailers"
}

type gmsg struct {
	flag  byte
	plain []byte
}

func payload(r *core.Rand, n int) []byte {
	b := make([]byte, n)
	switch r.Intn(3) {
	case 0: // compressible
		for i := range b {
			b[i] = "gRPC message "[i%13]
		}
	case 1: // zero bytes and 0x01: looks like prefixes
		for i := range b {
			b[i] = byte(r.Intn(2))
		}
	default:
		copy(b, r.Bytes(n))
	}
	return b
}

// streamOf renders messages on the wire as a sender using `enc` would (level = its own setting).
func streamOf(enc string, ms []gmsg, level int) []byte {
	var out []byte
	for _, m := range ms {
		p := m.plain
		if m.flag != 0 {
			p = realEncode(enc, m.plain, level)
		}
		out = append(out, wire(m.flag, p)...)
	}
	return out
}

// shapes lists the payload-length vectors of all streams of at most maxN bytes with 1..3 messages.
func shapes(maxN int) [][]int {
	var out [][]int
	for a := 0; 5+a <= maxN; a++ {
		out = append(out, []int{a})
	}
	for a := 0; 10+a <= maxN; a++ {
		for b := 0; 10+a+b <= maxN; b++ {
			out = append(out, []int{a, b})
		}
	}
	for a := 0; 15+a <= maxN; a++ {
		for b := 0; 15+a+b <= maxN; b++ {
			for c := 0; 15+a+b+c <= maxN; c++ {
				out = append(out, []int{a, b, c})
			}
		}
	}
	return out
}

// genExhaustive: every cut set of every short stream; the remaining dimensions (direction,
// compressed flags, encoding, END_STREAM placement) rotate pseudo-randomly over the cut sets,
// `variants` draws per cut set.
func genExhaustive(r *core.Rand, minN, maxN, variants int, emit func([]string)) {
	nEmptyEOS := 0
	// the stream without any message: END_STREAM only
	for _, dir := range []string{"c", "s"} {
		if minN > 0 {
			break
		}
		for _, eos := range []string{"empty", "trailers"} {
			for _, enc := range encs {
				emit(buildCase(r, eos == "empty" && enc == "gzip", dirSpec{dir: dir, enc: enc, hdrs: grpcHdrs(dir, enc, false), frames: nil, eos: eos}))
			}
		}
	}
	for _, sh := range shapes(maxN) {
		n := 0
		for _, l := range sh {
			n += 5 + l
		}
		if n < minN {
			continue
		}
		core.Count(fmt.Sprintf("exhaustive:streams:n=%02d", n))
		for mask := uint64(0); mask < 1<<uint(n-1); mask++ {
			for v := 0; v < variants; v++ {
				dir := r.Pick("c", "s")
				var ms []gmsg
				anyFlag := false
				for _, l := range sh {
					f := byte(r.Intn(2))
					anyFlag = anyFlag || f == 1
					ms = append(ms, gmsg{f, payload(r, l)})
				}
				enc := "identity"
				if !anyFlag {
					enc = r.Pick(encs...)
				} else if len(sh) == 1 && sh[0] == 5 && r.Bool() {
					// the one compressed message that fits: an empty message under deflate (5 bytes)
					enc, ms = "deflate", []gmsg{{1, nil}}
				}
				var stream []byte
				if enc == "deflate" && anyFlag {
					stream = streamOf(enc, ms, 0)
				} else {
					stream = streamOf("identity", ms, 0)
				}
				if len(stream) != n {
					stream = streamOf("identity", ms, 0)
					enc = "identity"
				}
				eos := pickEOS(r, n)
				report := false
				if eos == "empty" {
					nEmptyEOS++
					report = nEmptyEOS%97 == 1
				}
				core.Count("exhaustive:cases")
				frames := cutMask(stream, mask)
				hdrs := grpcHdrs(dir, enc, false)
				switch r.Intn(8) {
				case 0, 1: // zero-length frames among the pieces
					frames = sprinkleEmpty(r, frames, eos, r.Range(1, 2))
				case 2: // grpc-encoding before content-type
					hdrs[0], hdrs[1] = hdrs[1], hdrs[0]
				}
				emit(buildCase(r, report, dirSpec{dir: dir, enc: enc, hdrs: hdrs, frames: frames, eos: eos}))
			}
		}
	}
}

func genMsgs(r *core.Rand, maxMsgs, maxLen int) []gmsg {
	k := r.Intn(maxMsgs + 1)
	var ms []gmsg
	for i := 0; i < k; i++ {
		l := 0
		switch r.Intn(6) {
		case 0:
			l = 0
		case 1:
			l = r.Range(1, 5)
		case 2:
			l = maxLen
		default:
			l = r.Intn(maxLen + 1)
		}
		ms = append(ms, gmsg{byte(r.Intn(2)), payload(r, l)})
	}
	return ms
}

func randomCuts(r *core.Rand, s []byte) [][]byte {
	n := len(s)
	if n <= 1 {
		return [][]byte{s}
	}
	switch r.Intn(5) {
	case 0: // h2 default max frame size
		var pos []int
		for p := 16384; p < n; p += 16384 {
			pos = append(pos, p)
		}
		return cutAt(s, pos)
	case 1: // dribble the head, then the rest
		var pos []int
		for p := 1; p < n && p < 24; p++ {
			pos = append(pos, p)
		}
		return cutAt(s, pos)
	case 2: // cuts around the message boundaries
		ms, _ := parseFrames(s)
		var pos []int
		off := 0
		for _, m := range ms {
			for _, d := range []int{-1, 0, 1, 4, 5, 6} {
				if r.Bool() {
					pos = append(pos, off+d)
				}
			}
			off += 5 + len(m.payload)
		}
		return cutAt(s, pos)
	}
	k := r.Range(1, 30)
	var pos []int
	for i := 0; i < k; i++ {
		pos = append(pos, r.Range(1, n-1))
	}
	return cutAt(s, pos)
}

// genMedium: real compression, every single cut (or a sample), sampled pairs of cuts.
func genMedium(r *core.Rand, streams, maxLen int, allSingle bool, pairs int, emit func([]string)) {
	for i := 0; i < streams; i++ {
		enc := encs[i%4]
		dir := r.Pick("c", "s")
		ms := genMsgs(r, 3, maxLen)
		if len(ms) == 0 {
			ms = []gmsg{{1, nil}}
		}
		if i%2 == 0 {
			ms[r.Intn(len(ms))].flag = 1
		}
		stream := streamOf(enc, ms, senderLevels[r.Intn(len(senderLevels))])
		n := len(stream)
		core.Count("medium:streams:" + enc)
		var cuts [][]int
		if allSingle {
			for p := 1; p < n; p++ {
				cuts = append(cuts, []int{p})
			}
		} else {
			for j := 0; j < 6; j++ {
				cuts = append(cuts, []int{r.Range(1, n-1)})
			}
		}
		for j := 0; j < pairs; j++ {
			cuts = append(cuts, []int{r.Range(1, n-1), r.Range(1, n-1)})
		}
		for j, c := range cuts {
			eos := pickEOS(r, n)
			core.Count("medium:cases")
			frames := cutAt(stream, c)
			if r.Chance(1, 4) {
				frames = sprinkleEmpty(r, frames, eos, r.Range(1, 3))
			}
			emit(buildCase(r, eos == "empty" && j == 0, dirSpec{dir: dir, enc: enc, hdrs: planFor(r, enc).fields(r, dir), frames: frames, eos: eos}))
		}
	}
}

func randSpec(r *core.Rand, dir string, maxMsgs, maxLen int) dirSpec {
	enc := r.Pick(encs...)
	ms := genMsgs(r, maxMsgs, maxLen)
	stream := streamOf(enc, ms, senderLevels[r.Intn(len(senderLevels))])
	hs := planFor(r, enc).fields(r, dir)
	eos := pickEOS(r, len(stream))
	frames := randomCuts(r, stream)
	if r.Chance(1, 4) {
		frames = sprinkleEmpty(r, frames, eos, r.Range(1, 4))
	}
	spec := dirSpec{dir: dir, enc: enc, hdrs: hs, frames: frames, eos: eos}
	if r.Chance(1, 5) {
		spec.pre, spec.hdrs = blocksFor(r, dir, enc, -1)
	}
	return spec
}

func genRandom(r *core.Rand, cases, maxMsgs, maxLen int, emit func([]string)) {
	for i := 0; i < cases; i++ {
		core.Count("random:cases")
		if r.Chance(1, 3) {
			a := randSpec(r, "c", maxMsgs, maxLen)
			b := randSpec(r, "s", maxMsgs, maxLen)
			core.Count("random:bidirectional")
			emit(buildCase(r, i%7 == 0, a, b))
		} else {
			emit(buildCase(r, i%7 == 0, randSpec(r, r.Pick("c", "s"), maxMsgs, maxLen)))
		}
	}
}

// genMalformed: inputs outside the statement's domain (model comparison only) and streams that
// are not gRPC (must pass untouched).
func genMalformed(r *core.Rand, cases int, emit func([]string)) {
	for i := 0; i < cases; i++ {
		dir := r.Pick("c", "s")
		enc := r.Pick(encs...)
		kind := r.Intn(9)
		core.Count(fmt.Sprintf("malformed:kind=%d", kind))
		ms := genMsgs(r, 3, 40)
		stream := streamOf(enc, ms, 0)
		hs := grpcHdrs(dir, enc, false)
		seen := map[string]bool{}
		var ops []string
		switch kind {
		case 0: // truncated stream
			if len(stream) > 1 {
				stream = stream[:r.Range(1, len(stream)-1)]
			}
		case 1: // flag byte other than 0/1
			if len(stream) > 0 {
				stream[0] = byte(r.Range(2, 255))
			}
		case 2: // payload that the reader of the encoding rejects
			junk := payload(r, r.Range(0, 30))
			if enc == "snappy" && r.Bool() {
				junk = snappy.Encode(nil, junk) // block format instead of the framing format
			}
			stream = append(stream, wire(1, junk)...)
			stream = append(stream, streamOf(enc, genMsgs(r, 2, 10), 0)...)
		case 3: // unknown or repeated grpc-encoding
			hs = []hf{{"content-type", "application/grpc"}, {"grpc-encoding", r.Pick("br", "zstd", "GZIP", "", "gzip ")}}
			if r.Bool() {
				hs = []hf{{"content-type", "application/grpc"}, {"grpc-encoding", enc}, {"grpc-encoding", r.Pick("identity", "gzip", "br")}}
				if hs[2].v != "br" {
					enc = hs[2].v
					stream = streamOf(enc, ms, 0)
				}
			}
		case 4, 5: // not gRPC
			ct := r.Pick("application/grpc-web+proto", "application/json", "Application/grpc", "application/grpc ", "text/html")
			hs = []hf{{":status", "200"}, {"content-type", ct}, {"grpc-encoding", enc}}
			if r.Chance(1, 4) {
				hs = []hf{{"Content-Type", "application/grpc"}} // the name is compared as is
			}
			if r.Bool() {
				stream = r.Bytes(r.Range(0, 60))
			}
		case 6: // DATA before any header block, then gRPC headers
			ops = append(ops, "data "+dir+" 0 "+core.Hex(r.Bytes(r.Range(0, 12))))
		case 7: // the other direction announces gRPC; this direction never sends a header block
			other := "c"
			if dir == "c" {
				other = "s"
			}
			ops = append(ops, tables(enc, stream, seen)...)
			ops = append(ops, hdrLine(other, false, grpcHdrs(other, "gzip", true)))
			for _, f := range randomCuts(r, streamOf("identity", ms, 0)) {
				ops = append(ops, "data "+dir+" 0 "+core.Hex(f))
			}
			ops = append(ops, "data "+dir+" 1 -")
			emit(ops)
			continue
		case 8: // random bytes as a gRPC stream
			stream = r.Bytes(r.Range(0, 40))
			if len(stream) > 4 && r.Bool() {
				stream[1], stream[2], stream[3] = 0, 0, 0
			}
		}
		spec := dirSpec{dir: dir, enc: enc, hdrs: hs, frames: randomCuts(r, stream), eos: pickEOS(r, len(stream))}
		ops = append(ops, tables(enc, stream, seen)...)
		body := opsOf(spec)
		// sprinkle frames that are never interpreted
		for _, o := range body {
			ops = append(ops, o)
			switch r.Intn(12) {
			case 0:
				ops = append(ops, "prio "+dir)
			case 1:
				ops = append(ops, fmt.Sprintf("rst %s %d", r.Pick("c", "s"), r.Intn(14)))
			case 2:
				ops = append(ops, fmt.Sprintf("push s %d %s", 2*r.Range(1, 50), showHdrs([]hf{{":path", "/p"}, {"content-type", "application/grpc"}})))
			}
		}
		emit(ops)
	}
}

func (P) Gen(r *core.Rand, tier string, emit func([]string)) {
	if tier == "thorough" {
		genExhaustive(r.Fork(), 0, 14, 4, emit)
		genExhaustive(r.Fork(), 15, 15, 1, emit) // includes the three-message stream
		genMedium(r.Fork(), 48, 40, true, 40, emit)
		genRandom(r.Fork(), 3000, 4, 300, emit)
		genRandom(r.Fork(), 150, 3, 70000, emit)
		genRandom(r.Fork(), 6, 2, 1<<20, emit)
		genMalformed(r.Fork(), 3000, emit)
		genHeaders(r.Fork(), 12, emit)
		genEmptyFrames(r.Fork(), 11, 400, emit)
		genArith(r.Fork(), emit)
		genStreams(r.Fork(), 4000, emit)
		genCodec(r.Fork(), 12, emit)
		genBigThenSmall(r.Fork(), tier, emit)
		genHeaderBlocks(r.Fork(), 10, emit)
		genBigDecompressed(r.Fork(), tier, emit)
		return
	}
	genExhaustive(r.Fork(), 0, 13, 1, emit)
	genMedium(r.Fork(), 24, 24, false, 8, emit)
	genRandom(r.Fork(), 800, 4, 300, emit)
	genRandom(r.Fork(), 16, 2, 70000, emit)
	genMalformed(r.Fork(), 800, emit)
	genHeaders(r.Fork(), 3, emit)
	genEmptyFrames(r.Fork(), 10, 60, emit)
	genArith(r.Fork(), emit)
	genStreams(r.Fork(), 600, emit)
	genCodec(r.Fork(), 3, emit)
	genBigThenSmall(r.Fork(), tier, emit)
	genHeaderBlocks(r.Fork(), 2, emit)
	genBigDecompressed(r.Fork(), tier, emit)
}
