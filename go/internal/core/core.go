// Package core is the property-independent part of the correspondence harness: PRNG, case
// runner with per-op recover and watchdog, model-driver invocation, line diff, delta-debugging
// shrinker, known-findings matching and the result file read by ./check.
package core

import (
	"bufio"
	"bytes"
	"crypto/sha256"
	"encoding/hex"
	"encoding/json"
	"fmt"
	"os"
	"os/exec"
	"path/filepath"
	"runtime/debug"
	"sort"
	"strings"
	"sync/atomic"
	"time"
)

// Rand is splitmix64; every random choice of a run derives from one seed.
type Rand struct{ s uint64 }

// NewRand mixes the seed through one splitmix64 finaliser first, so that consecutive seeds give
// unrelated streams (seed*γ as the state would make seed k+1 the stream of seed k shifted by one draw).
func NewRand(seed uint64) *Rand {
	z := seed + 0x1234567
	z = (z ^ (z >> 30)) * 0xBF58476D1CE4E5B9
	z = (z ^ (z >> 27)) * 0x94D049BB133111EB
	return &Rand{s: z ^ (z >> 31)}
}
func (r *Rand) U64() uint64 {
	r.s += 0x9E3779B97F4A7C15
	z := r.s
	z = (z ^ (z >> 30)) * 0xBF58476D1CE4E5B9
	z = (z ^ (z >> 27)) * 0x94D049BB133111EB
	return z ^ (z >> 31)
}
func (r *Rand) Intn(n int) int {
	if n <= 0 {
		return 0
	}
	return int(r.U64() % uint64(n))
}
func (r *Rand) Range(lo, hi int) int { return lo + r.Intn(hi-lo+1) }
func (r *Rand) Bool() bool           { return r.U64()&1 == 1 }
func (r *Rand) Chance(num, den int) bool {
	return r.Intn(den) < num
}
func (r *Rand) Pick(xs ...string) string { return xs[r.Intn(len(xs))] }
func (r *Rand) Bytes(n int) []byte {
	b := make([]byte, n)
	for i := range b {
		b[i] = byte(r.U64())
	}
	return b
}
func (r *Rand) Fork() *Rand { return &Rand{s: r.U64()} }

// Hex encodes bytes as a protocol token ("-" for empty).
func Hex(b []byte) string {
	if len(b) == 0 {
		return "-"
	}
	return hex.EncodeToString(b)
}
func HexS(s string) string { return Hex([]byte(s)) }
func Unhex(s string) ([]byte, bool) {
	if s == "-" {
		return nil, true
	}
	b, err := hex.DecodeString(s)
	return b, err == nil
}

// Result of executing one op against the implementation.
type Result struct {
	Impl      string // canonical observation, compared with the model's line
	Fail      string // property-oracle failure ("" = held)
	Sig       string // failure signature (for known-findings matching)
	SkipModel bool   // oracle-only op: not sent to the model
	// ModelOp, when non-empty, is the line sent to the model instead of the op itself: the op
	// plus choices the implementation made that the model takes as arguments (e.g. a Go map
	// iteration order observed from the outcome). Empty = the op is sent unchanged.
	ModelOp string
}

// Exec runs ops of one case against the real code.
type Exec interface {
	Do(op string) Result
	Close()
}

// Prop is what each property package provides.
type Prop interface {
	ID() string
	Rule() string
	Gen(r *Rand, tier string, emit func(ops []string))
	NewExec() Exec
	Nontrivial(ops []string, impl []string) bool
}

type Violation struct {
	Kind   string   `json:"kind"` // oracle | diverge | hang | panic
	Sig    string   `json:"sig"`
	Detail string   `json:"detail"`
	Ops    []string `json:"ops"`
	Replay string   `json:"replay,omitempty"`
	Known  string   `json:"known,omitempty"`
}

type Output struct {
	ID                 string            `json:"id"`
	Tier               string            `json:"tier"`
	Seed               uint64            `json:"seed"`
	Cases              int               `json:"cases"`
	Evaluations        int               `json:"evaluations"`
	DistinctNontrivial int               `json:"distinct_nontrivial"`
	Rule               string            `json:"rule"`
	Samples            []string          `json:"samples"`
	ModelCompared      int               `json:"model_lines_compared"`
	OutOfModel         int               `json:"out_of_model"`
	Violations         []Violation       `json:"violations"`
	KnownSeen          []Violation       `json:"known_findings_seen"`
	Stats              map[string]int    `json:"stats"`
	Notes              map[string]string `json:"notes,omitempty"`
	WallS              float64           `json:"wall_s"`
}

// Stats is a global distribution counter any property package may bump.
var Stats = map[string]int{}
var Notes = map[string]string{}

func Count(k string) { Stats[k]++ }

type caseRun struct {
	ops  []string
	res  []Result
	sent []int // indices of ops sent to the model
}

// modelOp is the line the model receives for op i.
func (c caseRun) modelOp(i int) string {
	if i < len(c.res) && c.res[i].ModelOp != "" {
		return c.res[i].ModelOp
	}
	return c.ops[i]
}

const OpTimeout = 30 * time.Second

// beats counts 50 ms ticks that this process actually got to run. The watchdog measures an
// operation in beats, not in wall-clock time: on a starved machine (load far above the core count)
// a 30 ms operation can take longer than 30 s of wall-clock time without hanging, and that must not
// be reported as a hang. A hard wall-clock cap still ends a run that never returns.
var beats int64

func init() {
	go func() {
		t := time.NewTicker(50 * time.Millisecond)
		for range t.C { // a Ticker drops ticks when the receiver is slow: only ticks that ran are counted
			atomic.AddInt64(&beats, 1)
		}
	}()
}

func doOp(e Exec, op string) (r Result) {
	ch := make(chan Result, 1)
	go func() {
		defer func() {
			if x := recover(); x != nil {
				st := string(debug.Stack())
				if len(st) > 1500 {
					st = st[:1500]
				}
				ch <- Result{Impl: "panic", Fail: fmt.Sprintf("panic: %v\n%s", x, st), Sig: "panic"}
			}
		}()
		ch <- e.Do(op)
	}()
	start := atomic.LoadInt64(&beats)
	need := int64(OpTimeout / (50 * time.Millisecond))
	hard := time.After(10 * OpTimeout)
	tick := time.NewTicker(250 * time.Millisecond)
	defer tick.Stop()
	for {
		select {
		case r = <-ch:
			return r
		case <-tick.C:
			if atomic.LoadInt64(&beats)-start >= need {
				return Result{Impl: "hang", Fail: "operation did not return within " + OpTimeout.String(), Sig: "hang"}
			}
		case <-hard:
			return Result{Impl: "hang", Fail: "operation did not return within " + (10 * OpTimeout).String() + " (wall clock)", Sig: "hang"}
		}
	}
}

func runCase(p Prop, ops []string) caseRun {
	e := p.NewExec()
	defer e.Close()
	cr := caseRun{ops: ops}
	for i, op := range ops {
		r := doOp(e, op)
		cr.res = append(cr.res, r)
		if !r.SkipModel {
			cr.sent = append(cr.sent, i)
		}
	}
	return cr
}

// runModel pipes the model-visible ops of the given cases to the Lean driver.
func runModel(driver, id string, cases []caseRun) ([][]string, error) {
	var in bytes.Buffer
	for _, c := range cases {
		in.WriteString("case\n")
		for _, i := range c.sent {
			in.WriteString(c.modelOp(i))
			in.WriteByte('\n')
		}
	}
	cmd := exec.Command(driver, id)
	cmd.Stdin = &in
	var out, errb bytes.Buffer
	cmd.Stdout = &out
	cmd.Stderr = &errb
	if err := cmd.Run(); err != nil {
		return nil, fmt.Errorf("driver: %v: %s", err, errb.String())
	}
	var res [][]string
	sc := bufio.NewScanner(&out)
	sc.Buffer(make([]byte, 1<<20), 1<<28)
	cur := -1
	for sc.Scan() {
		l := sc.Text()
		if l == "case" {
			res = append(res, nil)
			cur++
			continue
		}
		if cur < 0 {
			return nil, fmt.Errorf("driver output before first case: %q", l)
		}
		res[cur] = append(res[cur], l)
	}
	if len(res) != len(cases) {
		return nil, fmt.Errorf("driver returned %d cases, want %d", len(res), len(cases))
	}
	return res, nil
}

type failure struct {
	kind, sig, detail string
}

// judge returns the first failure of a case (oracle failures first, in op order, then divergence).
func judge(c caseRun, model []string) *failure {
	for i, r := range c.res {
		if r.Fail != "" {
			k := "oracle"
			if r.Sig == "panic" || r.Sig == "hang" {
				k = r.Sig
			}
			return &failure{k, r.Sig, fmt.Sprintf("op %d %q: %s", i, trunc(c.ops[i], 200), r.Fail)}
		}
	}
	if model != nil {
		if len(model) != len(c.sent) {
			return &failure{"diverge", "diverge", fmt.Sprintf("model produced %d lines for %d ops", len(model), len(c.sent))}
		}
		for j, i := range c.sent {
			if model[j] == "out-of-model" {
				continue
			}
			if model[j] != c.res[i].Impl {
				return &failure{"diverge", "diverge", fmt.Sprintf("op %d %q: impl=%q model=%q", i, trunc(c.ops[i], 200), trunc(c.res[i].Impl, 300), trunc(model[j], 300))}
			}
		}
	}
	return nil
}

func trunc(s string, n int) string {
	if len(s) > n {
		return s[:n] + "…"
	}
	return s
}

// shrink is delta debugging on the op list, keeping the failure kind and signature.
func shrink(p Prop, driver string, ops []string, f *failure, budget int) ([]string, *failure) {
	test := func(cand []string) *failure {
		if len(cand) == 0 {
			return nil
		}
		c := runCase(p, cand)
		var m []string
		if f.kind == "diverge" {
			ms, err := runModel(driver, p.ID(), []caseRun{c})
			if err != nil {
				return nil
			}
			m = ms[0]
		}
		g := judge(c, m)
		if g != nil && g.kind == f.kind && g.sig == f.sig {
			return g
		}
		return nil
	}
	cur, curF := ops, f
	n := 2
	deadline := time.Now().Add(45 * time.Second) // on a broken tree every attempt may cost a timeout
	for len(cur) >= 2 && budget > 0 && time.Now().Before(deadline) {
		chunk := (len(cur) + n - 1) / n
		reduced := false
		for start := 0; start < len(cur) && budget > 0 && time.Now().Before(deadline); start += chunk {
			end := start + chunk
			if end > len(cur) {
				end = len(cur)
			}
			cand := append(append([]string{}, cur[:start]...), cur[end:]...)
			budget--
			if g := test(cand); g != nil {
				cur, curF = cand, g
				if n > 2 {
					n--
				}
				reduced = true
				break
			}
		}
		if !reduced {
			if n >= len(cur) {
				break
			}
			n *= 2
			if n > len(cur) {
				n = len(cur)
			}
		}
	}
	return cur, curF
}

type KnownFinding struct {
	Property string `json:"property"`
	Status   string `json:"status"` // open | fixed
	Sig      string `json:"sig"`
	What     string `json:"what"`
	Commit   string `json:"commit,omitempty"`
}

func loadKnown(path, id string) map[string]KnownFinding {
	out := map[string]KnownFinding{}
	b, err := os.ReadFile(path)
	if err != nil {
		return out
	}
	var all struct {
		Findings []KnownFinding `json:"findings"`
	}
	if json.Unmarshal(b, &all) != nil {
		return out
	}
	for _, k := range all.Findings {
		if k.Property == id && k.Status == "open" {
			out[k.Sig] = k
		}
	}
	return out
}

func readCorpus(dir string) [][]string {
	var cases [][]string
	files, _ := filepath.Glob(filepath.Join(dir, "*.ops"))
	sort.Strings(files)
	for _, f := range files {
		b, err := os.ReadFile(f)
		if err != nil {
			continue
		}
		var cur []string
		for _, l := range strings.Split(string(b), "\n") {
			l = strings.TrimSpace(l)
			if l == "" || strings.HasPrefix(l, "#") {
				continue
			}
			if l == "case" || strings.HasPrefix(l, "case ") {
				if len(cur) > 0 {
					cases = append(cases, cur)
				}
				cur = nil
				continue
			}
			cur = append(cur, l)
		}
		if len(cur) > 0 {
			cases = append(cases, cur)
		}
	}
	return cases
}

type Config struct {
	Tier, Driver, OutDir, CorpusDir, ReplayDir, KnownFile, ReplayFile string
	Seed                                                              uint64
}

func hashOps(ops []string) string {
	h := sha256.Sum256([]byte(strings.Join(ops, "\n")))
	return hex.EncodeToString(h[:8])
}

// Run executes the correspondence + oracle run of one property and writes <out>/result.json.
func Run(p Prop, cfg Config) (*Output, error) {
	t0 := time.Now()
	os.MkdirAll(cfg.OutDir, 0o755)
	out := &Output{ID: p.ID(), Tier: cfg.Tier, Seed: cfg.Seed, Rule: p.Rule(), Stats: Stats, Notes: Notes}
	known := loadKnown(cfg.KnownFile, p.ID())

	var cases [][]string
	if cfg.ReplayFile != "" {
		b, err := os.ReadFile(cfg.ReplayFile)
		if err != nil {
			return nil, err
		}
		var v Violation
		if err := json.Unmarshal(b, &v); err != nil {
			return nil, err
		}
		if len(v.Ops) > 0 {
			cases = append(cases, v.Ops)
		}
	} else {
		cases = append(cases, readCorpus(cfg.CorpusDir)...)
		Stats["corpus_cases"] = len(cases)
		p.Gen(NewRand(cfg.Seed), cfg.Tier, func(ops []string) { cases = append(cases, append([]string{}, ops...)) })
	}

	runs := make([]caseRun, len(cases))
	seen := map[string]bool{}
	failing := 0
	for i, ops := range cases {
		if failing >= 12 && cfg.ReplayFile == "" {
			// enough concrete failing inputs: on a broken tree every further failing case may cost
			// a timeout, and the verdict is already decided
			Notes["stopped_early"] = fmt.Sprintf("after %d of %d cases: %d cases already fail the property oracle", i, len(cases), failing)
			cases, runs = cases[:i], runs[:i]
			break
		}
		// a panic in a goroutine of the code under test kills this process: leave the case on disk
		// so that ./check can report it as the failing input
		if cb, err := json.Marshal(map[string]interface{}{"index": i, "ops": ops}); err == nil {
			os.WriteFile(filepath.Join(cfg.OutDir, "current_case.json"), cb, 0o644)
		}
		runs[i] = runCase(p, ops)
		for _, r := range runs[i].res {
			if _, isKnown := known[r.Sig]; r.Fail != "" && !isKnown {
				failing++
				break
			}
		}
		out.Evaluations += len(ops)
		h := hashOps(ops)
		if !seen[h] {
			seen[h] = true
			impl := make([]string, len(ops))
			for j, r := range runs[i].res {
				impl[j] = r.Impl
			}
			if p.Nontrivial(ops, impl) {
				out.DistinctNontrivial++
			}
		}
	}
	out.Cases = len(cases)
	os.Remove(filepath.Join(cfg.OutDir, "current_case.json"))

	// ops / impl files, for inspection and for `diff`
	var opsF, implF bytes.Buffer
	for _, c := range runs {
		opsF.WriteString("case\n")
		implF.WriteString("case\n")
		for _, i := range c.sent {
			opsF.WriteString(c.modelOp(i) + "\n")
			implF.WriteString(c.res[i].Impl + "\n")
		}
	}
	os.WriteFile(filepath.Join(cfg.OutDir, "ops.txt"), opsF.Bytes(), 0o644)
	os.WriteFile(filepath.Join(cfg.OutDir, "impl.out"), implF.Bytes(), 0o644)

	model, merr := runModel(cfg.Driver, p.ID(), runs)
	if merr != nil {
		Notes["model_error"] = merr.Error()
	} else {
		var mf bytes.Buffer
		for _, m := range model {
			mf.WriteString("case\n")
			for _, l := range m {
				mf.WriteString(l + "\n")
				if l == "out-of-model" {
					out.OutOfModel++
				} else {
					out.ModelCompared++
				}
			}
		}
		os.WriteFile(filepath.Join(cfg.OutDir, "model.out"), mf.Bytes(), 0o644)
	}

	reported := map[string]int{}
	for i, c := range runs {
		var m []string
		if merr == nil {
			m = model[i]
		}
		f := judge(c, m)
		if f == nil {
			continue
		}
		key := f.kind + "/" + f.sig
		reported[key]++
		if reported[key] > 3 { // a few replays per failure class are enough
			continue
		}
		ops, f2 := shrink(p, cfg.Driver, c.ops, f, 400)
		v := Violation{Kind: f2.kind, Sig: f2.sig, Detail: f2.detail, Ops: ops}
		if k, ok := known[f2.sig]; ok && f2.kind == "oracle" {
			v.Known = k.What
			out.KnownSeen = append(out.KnownSeen, v)
			continue
		}
		if cfg.ReplayFile == "" {
			os.MkdirAll(cfg.ReplayDir, 0o755)
			v.Replay = filepath.Join(cfg.ReplayDir, fmt.Sprintf("%s-%s-%s.json", p.ID(), f2.kind, hashOps(ops)))
			b, _ := json.MarshalIndent(v, "", " ")
			os.WriteFile(v.Replay, b, 0o644)
		} else {
			v.Replay = cfg.ReplayFile
		}
		out.Violations = append(out.Violations, v)
	}
	for k, n := range reported {
		Stats["failures:"+k] = n
	}
	if merr != nil && len(out.Violations) == 0 {
		return out, merr
	}

	// samples: first few distinct cases, truncated
	for i := 0; i < len(cases) && len(out.Samples) < 5; i += 1 + len(cases)/5 {
		out.Samples = append(out.Samples, trunc(strings.Join(cases[i], " ; "), 600))
	}
	out.WallS = time.Since(t0).Seconds()
	b, _ := json.MarshalIndent(out, "", " ")
	os.WriteFile(filepath.Join(cfg.OutDir, "result.json"), b, 0o644)
	return out, nil
}

func (r *Rand) Pick2(a, b int) int {
	if r.Bool() {
		return a
	}
	return b
}

// Registry of property packages (each registers itself in init()).
var Registry = map[string]Prop{}

func Register(p Prop) { Registry[p.ID()] = p }
