// Package c07: shutdown of martian.Proxy (Serve / handleLoop / handle / Close) — trace validation
// against the Lean interleaving model (Model/Shutdown.lean) plus the property oracle.
//
// One op = one scenario, run on the REAL proxy over loopback TCP, without any hook:
//
//	scn p=<pt,..> x=<n,..> q=<0|1,..> s=<0|1,..> o=<perm> b=<bodyLen>
//	    1..3 connections, connection k is driven to progress point p[k] after x[k] complete exchanges
//	    (request Connection: close = q[k], response Close = s[k] on the parked exchange), then Close()
//	    is called (own goroutine, deadline), then the parked connections are released in order o.
//	    points: idle head reqmod rt resmod write | gate (Serve held between Accept and `go handleLoop`
//	    by a net.Conn whose RemoteAddr blocks) | late (connects after shutdown is observable)
//	    t=1: the proxy keeps its REAL default http.Transport (observed by a pass-through wrapper that
//	    leaves the request and its context untouched) and the requests go to a gated raw TCP origin:
//	    `rt` = the origin has read the request and has not answered yet; `rbody` = the origin has sent the
//	    head and half of the body while the exchange is parked in the response modifier (released first,
//	    the origin after it); `wbody` = the same while the proxy is already relaying the body to the
//	    client. te=1: the origin answers chunked; d=<µs>: pause between "shutdown observable" and the
//	    first release. The client must receive the ORIGIN's response: status 200 and the whole body.
//	race c=<clients> d=<delay µs> — clients connect/request concurrently with Close()
//
// Every event (listener accept, modifier/round-trip entry and exit, first/last byte of a response at
// the server-side conn, conn.Close by the handler, client sends, client-observed responses and EOF,
// Close call/return) is appended to one mutex-protected log: its order is a linearisation that
// respects happens-before. The log is sent to the Lean driver (`trace …`), which must accept it as the
// visible projection of a run of the model. The oracle (below) states C07 directly over the log.
package c07

import (
	"bufio"
	"bytes"
	"context"
	"crypto/tls"
	"crypto/x509"
	"errors"
	"fmt"
	"io"
	"net"
	"net/http"
	"net/http/httptest"
	"os"
	"runtime"
	"sort"
	"strconv"
	"strings"
	"sync"
	"sync/atomic"
	"time"

	martian "github.com/google/martian/v3"
	mlog "github.com/google/martian/v3/log"
	mh2 "github.com/google/martian/v3/h2"
	"github.com/google/martian/v3/mitm"
	"golang.org/x/net/http2"

	"verif/harness/internal/core"
)

type P struct{}

func init() { core.Register(P{}) }

func (P) ID() string { return "C07" }
func (P) Rule() string {
	return "case = one scenario on a real martian.Proxy over loopback TCP: 1..3 connections each parked at one of the progress points " +
		"idle / mid request head / in request modifier / in round trip / in response modifier / while the response is written " +
		"(after 0..2 complete exchanges, with or without Connection: close on request or response), optionally one connection held " +
		"between Accept and the handler spawn (blocking RemoteAddr) or one connecting after shutdown began; either with a gated stub round " +
		"tripper that honours the request context, or (t=1) with the proxy's real default http.Transport against a gated raw TCP origin " +
		"(origin parked before answering, or parked half-way through a Content-Length / chunked body while the exchange is in the response " +
		"modifier or already being relayed); Close() is called and the " +
		"parked connections are released in a given order; or a race of N clients against Close(). The recorded event trace is " +
		"validated against the Lean model and judged by the oracle. Round 3: the clients of the parked exchanges may stop reading for " +
		"st ms during the drain phase (responses of several MiB, far larger than the socket buffers) and then read on or give up (ab=1); " +
		"connections may hold a blind CONNECT tunnel (open, or its CONNECT parked in the request modifier / the dial / the response modifier), " +
		"be MITM'd tunnels (m=1: the six points inside the decrypted tunnel, or the client silent after the 200), or be hijacked by a modifier; " +
		"Close() may be called by up to 4 concurrent callers; the origin of one exchange per connection may FAIL (f=: connection closed " +
		"before any answer, truncated response head, timeout — stub released with an error, or the raw origin misbehaving): the client is owed " +
		"the proxy's complete 502; the request of the parked exchange may announce a body and send only part of it (u=: Content-Length, " +
		"Expect: 100-continue, chunked stopped mid-chunk), the rest being sent, or the client leaving, only once the response has arrived, or (u=7,8) an upload still in flight when shutdown is requested that the round tripper reads to the end; " +
		"the proxy may have a HISTORY (hs=, he=): 1..4 earlier connections, each with 0..2 exchanges, opened and closed before the ones under test. Distinct by hash of the op; non-trivial when Close() was called " +
		"while at least one connection was parked inside an exchange, held before the spawn, or accepted late, or (race) when at least " +
		"one exchange started"
}

func (P) Nontrivial(ops []string, impl []string) bool {
	for i, op := range ops {
		if strings.HasPrefix(op, "scn ") {
			for _, pt := range []string{"reqmod", "rt", "resmod", "write", "gate", "late", "head", "rbody", "wbody",
				"tunnel", "cdial", "mpeek", "hjq", "hjs", "h2s", "phead"} {
				if strings.Contains(op, pt) {
					return true
				}
			}
		}
		if strings.HasPrefix(op, "race ") && i < len(impl) && strings.Contains(impl[i], "started=1") {
			return true
		}
	}
	return false
}

const (
	stepDeadline = 4 * time.Second
	hostName     = "c07.test"
)

// ---- event log ----

type evlog struct {
	mu  sync.Mutex
	evs []string
}

func (l *evlog) add(format string, a ...interface{}) int {
	s := fmt.Sprintf(format, a...)
	l.mu.Lock()
	l.evs = append(l.evs, s)
	n := len(l.evs) - 1
	l.mu.Unlock()
	return n
}

func (l *evlog) snapshot() []string {
	l.mu.Lock()
	defer l.mu.Unlock()
	return append([]string{}, l.evs...)
}

// ---- the world of one scenario ----

type world struct {
	log       *evlog
	p         *martian.Proxy
	ln        *wlistener
	mu        sync.Mutex
	conns     map[string]*sconn // by client address (= RemoteAddr of the accepted conn)
	byIdx     []*sconn
	plans     []*cplan // plan for the k-th accepted connection
	body      []byte
	serveDone chan struct{}
	host      string  // authority of the request URLs
	org       *origin // nil: stub round tripper
	sbuf      int     // KiB of socket buffer on both ends of the client connections (0 = system default)
	tln       net.Listener // echo target of the blind CONNECT tunnels
	tmu       sync.Mutex
	tacc      map[string]net.Conn // target-side connections of the tunnels, by the proxy's local address
	tdial     map[int]string      // local address of the proxy's connection to the target, by connection index
	mitm      bool
	raw       bool // the proxy is handed the accepted *net.TCPConn itself (no observing wrapper)
	inHist    bool     // the connections accepted now belong to the history (before the scenario's own)
	hist      []*sconn // their server sides; numbered histBase+j in the log, renumbered when the trace is final
}

const histBase = 1000

// cplan says where (if anywhere) the k-th connection is to be parked.
type cplan struct {
	point    string
	parkSeq  int  // exchange number (0-based) on which to park
	resClose bool // response Close on the parked exchange
	proto    int  // the origin's answer to the parked exchange: 0 HTTP/1.1; 1 HTTP/1.0 with Connection: keep-alive (persistent); 2 HTTP/1.0 without it (not persistent)
	readBody bool // the round tripper / origin reads the parked exchange's request body (an upload still in flight) before it answers
	fault    int  // origin fault on exchange failSeq: 0 none, 1 connection closed before any answer (refused / reset), 2 truncated response head, 3 timeout
	failSeq  int  // X-Seq of the exchange whose round trip fails (-1: none)
	gate     chan struct{}
	parked   chan struct{}
	once     sync.Once
	gonce    sync.Once
	// origin side (t=1): the origin has sent half of its response / may send the rest; rmDone: the
	// response modifier of the parked exchange has returned
	ogate, oparked, rmDone chan struct{}
	oonce, ogonce, rmonce  sync.Once
}

func newPlan(point string, seq int, resClose bool) *cplan {
	return &cplan{point: point, parkSeq: seq, resClose: resClose, failSeq: -1, gate: make(chan struct{}), parked: make(chan struct{}),
		ogate: make(chan struct{}), oparked: make(chan struct{}), rmDone: make(chan struct{})}
}

func (c *cplan) arrive()   { c.once.Do(func() { close(c.parked) }) }
func (c *cplan) release()  { c.gonce.Do(func() { close(c.gate) }) }
func (c *cplan) oarrive()  { c.oonce.Do(func() { close(c.oparked) }) }
func (c *cplan) orelease() { c.ogonce.Do(func() { close(c.ogate) }) }

// parksAt: does the proxy-side gate of this plan sit at the given point?
func (c *cplan) parksAt(point string) bool {
	switch c.point {
	case "rbody", "cresmod", "hjs":
		return point == "resmod"
	case "creqmod", "hjq":
		return point == "reqmod"
	}
	return c.point == point
}

// hijacks: the modifier at this point takes the connection over (Session.Hijack) before it parks.
func (c *cplan) hijacks(point string) bool {
	return (c.point == "hjq" && point == "reqmod") || (c.point == "hjs" && point == "resmod")
}

func waitCh(ch <-chan struct{}, d time.Duration) bool {
	select {
	case <-ch:
		return true
	case <-time.After(d):
		return false
	}
}

// sconn wraps the server-side connection handed to Serve.
type sconn struct {
	net.Conn
	w         *world
	k         int
	plan      *cplan
	raddrN    int32
	inRead    int32
	readCalls int32
	readN     int64 // bytes delivered to the proxy
	closed    chan struct{}
	conce     sync.Once
	wmu       sync.Mutex
	wpending  int    // bytes of the current response still to be written
	wseq      int    // responses started
	wchunked  bool   // the current response is chunked: it ends with the last-chunk "0\r\n\r\n"
	wtail     []byte // last bytes written of a chunked response
	wdone     int32  // responses completely written
	connectRq int32  // the request being served is a CONNECT (set by the request modifier)
	raw       bool   // a tunnel is established (2xx to a CONNECT): writes are tunnel bytes / TLS records
	rawParked bool
}

// CloseWrite lets the blind tunnel propagate the target's end-of-stream to the client (the proxy looks
// for this method on the connection it was given).
func (c *sconn) CloseWrite() error {
	if cw, ok := c.Conn.(interface{ CloseWrite() error }); ok {
		return cw.CloseWrite()
	}
	return nil
}

func (c *sconn) started() int {
	c.wmu.Lock()
	defer c.wmu.Unlock()
	return c.wseq
}

type fixedAddr string

func (a fixedAddr) Network() string { return "tcp" }
func (a fixedAddr) String() string  { return string(a) }

// calledFromServe reports whether (*Proxy).Serve is on the caller's stack.
func calledFromServe() bool {
	pc := make([]uintptr, 24)
	n := runtime.Callers(3, pc)
	frames := runtime.CallersFrames(pc[:n])
	for {
		f, more := frames.Next()
		if strings.HasSuffix(f.Function, "(*Proxy).Serve") {
			return true
		}
		if !more {
			return false
		}
	}
}

func (c *sconn) RemoteAddr() net.Addr {
	if atomic.LoadInt32(&c.raddrN) == 0 && calledFromServe() && atomic.AddInt32(&c.raddrN, 1) == 1 {
		// evaluated by Serve (for its debug log) between Accept and `go p.handleLoop(conn)`
		c.w.log.add("raddr:%d", c.k)
		if c.plan != nil && c.plan.point == "gate" {
			c.plan.arrive()
			waitCh(c.plan.gate, 30*time.Second)
		}
	}
	return c.Conn.RemoteAddr()
}

func (c *sconn) Read(b []byte) (int, error) {
	if atomic.AddInt32(&c.readCalls, 1) == 1 {
		atomic.StoreInt32(&c.raddrN, 1) // the handler runs: Serve is past this connection
		// first read of the handler: it has passed conns.Add(1) and the Closing() check
		c.w.log.add("rd:%d", c.k)
	}
	atomic.StoreInt32(&c.inRead, 1)
	n, err := c.Conn.Read(b)
	atomic.AddInt64(&c.readN, int64(n))
	atomic.StoreInt32(&c.inRead, 0)
	return n, err
}

func (c *sconn) Close() error {
	c.conce.Do(func() {
		c.w.log.add("cc:%d", c.k)
		close(c.closed)
	})
	return c.Conn.Close()
}

// Write observes the first and the last byte of every response and implements the "slow client"
// park point: the first half of the chunk is passed on, the rest only after the gate opens.
func (c *sconn) Write(p []byte) (int, error) {
	c.wmu.Lock()
	defer c.wmu.Unlock()
	if c.raw {
		// inside a MITM'd tunnel the records are opaque; the "slow client" point parks the first write after
		// the response modifier of the parked exchange has returned, half-way through it
		if c.plan != nil && c.plan.point == "write" && !c.rawParked && len(p) >= 2 {
			select {
			case <-c.plan.rmDone:
				c.rawParked = true
				h := len(p) / 2
				n, err := c.Conn.Write(p[:h])
				if err != nil {
					return n, err
				}
				c.plan.arrive()
				waitCh(c.plan.gate, 30*time.Second)
				m, err := c.Conn.Write(p[h:])
				return n + m, err
			default:
			}
		}
		return c.Conn.Write(p)
	}
	park := false
	tunnelUp := false
	bodyFrom := 0 // chunked: offset in p from which the bytes belong to the chunk stream (incl. the CRLF ending the head)
	if !c.wchunked && c.wpending == 0 {
		he := bytes.Index(p, []byte("\r\n\r\n"))
		if he < 0 {
			c.w.log.add("bad:%d:head-not-in-first-chunk", c.k)
			return c.Conn.Write(p)
		}
		head := strings.ToLower(string(p[:he]))
		if atomic.CompareAndSwapInt32(&c.connectRq, 1, 0) && strings.HasPrefix(head, "http/1.1 2") {
			tunnelUp = true // everything after this response is tunnel traffic
		}
		cl := 0
		mark := 0
		for _, ln := range strings.Split(head, "\r\n") {
			if strings.HasPrefix(ln, "content-length:") {
				cl, _ = strconv.Atoi(strings.TrimSpace(ln[len("content-length:"):]))
			}
			if strings.HasPrefix(ln, "connection:") && strings.Contains(ln, "close") {
				mark = 1
			}
			if strings.HasPrefix(ln, "transfer-encoding:") && strings.Contains(ln, "chunked") {
				c.wchunked = true
			}
		}
		if c.wchunked {
			c.wtail = nil
			bodyFrom = he + 2
		} else {
			c.wpending = he + 4 + cl
		}
		c.w.log.add("ws:%d:%d", c.k, mark)
		if c.plan != nil && c.plan.point == "write" && c.wseq == c.plan.parkSeq {
			park = true
		}
		c.wseq++
	}
	orig := p
	written := 0
	if park && len(p) >= 2 {
		h := len(p) / 2
		n, err := c.Conn.Write(p[:h])
		written += n
		if err != nil {
			return written, err
		}
		c.plan.arrive()
		waitCh(c.plan.gate, 30*time.Second)
		p = p[h:]
	}
	n, err := c.Conn.Write(p)
	written += n
	if c.wchunked {
		if written > bodyFrom {
			c.chunkedProgress(orig[bodyFrom:written])
		}
		return written, err
	}
	c.wpending -= written
	if c.wpending < 0 {
		c.w.log.add("bad:%d:wrote-past-content-length", c.k)
		c.wpending = 0
	}
	if err == nil && c.wpending == 0 {
		atomic.AddInt32(&c.wdone, 1)
		c.w.log.add("we:%d", c.k)
		if tunnelUp {
			c.raw = true
		}
	}
	return written, err
}

// chunkedProgress follows a chunked response (bodies are letters only, so "\r\n0\r\n\r\n" is the
// last chunk and nothing else); called under wmu with the bytes just written.
func (c *sconn) chunkedProgress(b []byte) {
	c.wtail = append(c.wtail, b...)
	if len(c.wtail) > 7 {
		c.wtail = append([]byte{}, c.wtail[len(c.wtail)-7:]...)
	}
	if bytes.Equal(c.wtail, []byte("\r\n0\r\n\r\n")) {
		c.wchunked = false
		c.wtail = nil
		atomic.AddInt32(&c.wdone, 1)
		c.w.log.add("we:%d", c.k)
	}
}

type wlistener struct {
	net.Listener
	w        *world
	inAccept int32
}

func (l *wlistener) Accept() (net.Conn, error) {
	atomic.StoreInt32(&l.inAccept, 1)
	c, err := l.Listener.Accept()
	if err != nil {
		return c, err
	}
	w := l.w
	w.mu.Lock()
	if tc, ok := c.(*net.TCPConn); ok && w.sbuf > 0 {
		tc.SetWriteBuffer(w.sbuf << 10) // a small send buffer: a client that does not read stalls the writer early
	}
	if w.inHist {
		hc := &sconn{Conn: c, w: w, k: histBase + len(w.hist), closed: make(chan struct{})}
		w.hist = append(w.hist, hc)
		w.conns[c.RemoteAddr().String()] = hc
		w.log.add("acc:%d", hc.k)
		w.mu.Unlock()
		return hc, nil
	}
	k := len(w.byIdx)
	sc := &sconn{Conn: c, w: w, k: k, closed: make(chan struct{})}
	if k < len(w.plans) {
		sc.plan = w.plans[k]
	}
	w.byIdx = append(w.byIdx, sc)
	w.conns[c.RemoteAddr().String()] = sc
	w.log.add("acc:%d", k)
	w.mu.Unlock()
	if w.raw {
		// code that asks "is this a real TCP connection?" (socket options) must see one: the proxy gets the
		// connection itself; sc only keeps the books (plan, index), the server side is not observed
		return c, nil
	}
	return sc, nil
}

func (w *world) connOf(addr string) *sconn {
	w.mu.Lock()
	defer w.mu.Unlock()
	return w.conns[addr]
}

func (w *world) nAccepted() int {
	w.mu.Lock()
	defer w.mu.Unlock()
	return len(w.byIdx)
}

// ids from the request headers the client sets
func ids(req *http.Request) (string, int) {
	i, _ := strconv.Atoi(req.Header.Get("X-Seq"))
	return req.Header.Get("X-Conn"), i
}

func (w *world) at(point string, req *http.Request, start, end string, endArg func() string) {
	addr, i := ids(req)
	sc := w.connOf(addr)
	if sc == nil {
		w.log.add("bad:-1:unknown-conn-in-%s", point)
		return
	}
	if point == "reqmod" {
		if req.Method == "CONNECT" {
			atomic.StoreInt32(&sc.connectRq, 1)
		} else {
			atomic.StoreInt32(&sc.connectRq, 0)
		}
	}
	w.log.add("%s:%d", start, sc.k)
	if sc.plan != nil && sc.plan.parksAt(point) && sc.plan.parkSeq == i {
		if sc.plan.hijacks(point) {
			// the modifier takes the connection over; it is "the hijacker" until it returns
			if _, _, err := martian.NewContext(req).Session().Hijack(); err != nil {
				w.log.add("bad:%d:hijack-failed", sc.k)
			}
			sc.plan.arrive()
			waitCh(sc.plan.gate, 30*time.Second)
			w.log.add("hj:%d", sc.k)
			return
		}
		sc.plan.arrive()
		waitCh(sc.plan.gate, 30*time.Second)
	}
	w.log.add("%s:%d%s", end, sc.k, endArg())
	if point == "resmod" && sc.plan != nil && sc.plan.parkSeq == i {
		sc.plan.rmonce.Do(func() { close(sc.plan.rmDone) })
	}
}

type reqMod struct{ w *world }

func (m reqMod) ModifyRequest(req *http.Request) error {
	m.w.at("reqmod", req, "rqs", "rqe", func() string { return "" })
	return nil
}

type resMod struct{ w *world }

func (m resMod) ModifyResponse(res *http.Response) error {
	m.w.at("resmod", res.Request, "rms", "rme", func() string { return "" })
	return nil
}

type rtrip struct{ w *world }

// RoundTrip of the stub: parks at the `rt` point. Like a real transport it gives up with the
// context's error as soon as the request's context is cancelled (event rtx: the round trip did not
// deliver the origin's response — the model has no such step).
func (t rtrip) RoundTrip(req *http.Request) (*http.Response, error) {
	rc := false
	addr, i := ids(req)
	sc := t.w.connOf(addr)
	if sc == nil {
		t.w.log.add("bad:-1:unknown-conn-in-rt")
		return nil, fmt.Errorf("unknown connection")
	}
	if sc.plan != nil && sc.plan.parkSeq == i && sc.plan.resClose {
		rc = true
	}
	pv := 0
	if sc.plan != nil && sc.plan.parkSeq == i {
		pv = sc.plan.proto
		if pv == 2 {
			rc = true // HTTP/1.0 without keep-alive is not persistent: net/http reads it with Close = true
		}
	}
	ctx := req.Context()
	t.w.log.add("rts:%d", sc.k)
	if ctx.Err() == nil && sc.plan != nil && sc.plan.parksAt("rt") && sc.plan.parkSeq == i {
		sc.plan.arrive()
		select {
		case <-sc.plan.gate:
		case <-ctx.Done():
		case <-time.After(30 * time.Second):
		}
	}
	if err := ctx.Err(); err != nil {
		t.w.log.add("rtx:%d:%s", sc.k, sanitize(err.Error()))
		return nil, err
	}
	if sc.plan != nil && sc.plan.readBody && sc.plan.parkSeq == i {
		// like a transport relaying an upload: the whole request body goes to the origin before the answer
		b, err := io.ReadAll(req.Body)
		if err != nil || len(b) != 1000 {
			t.w.log.add("bad:%d:origin-got-%d-of-1000-request-body-bytes", sc.k, len(b))
			if err == nil {
				err = io.ErrUnexpectedEOF
			}
			return nil, err
		}
	}
	if sc.plan != nil && sc.plan.fault > 0 && sc.plan.failSeq == i {
		// the origin fails (event rtf): the proxy owes the client a 502, shutdown or not
		t.w.log.add("rtf:%d", sc.k)
		return nil, originFault(sc.plan.fault)
	}
	if rc {
		t.w.log.add("rte:%d:1", sc.k)
	} else {
		t.w.log.add("rte:%d:0", sc.k)
	}
	res := &http.Response{
		Status: "200 OK", StatusCode: 200, Proto: "HTTP/1.1", ProtoMajor: 1, ProtoMinor: 1,
		Header:        http.Header{"Content-Type": {"application/octet-stream"}},
		Body:          io.NopCloser(bytes.NewReader(t.w.body)),
		ContentLength: int64(len(t.w.body)),
		Request:       req,
		Close:         rc,
	}
	if pv > 0 {
		res.Proto, res.ProtoMinor = "HTTP/1.0", 0
		if pv == 1 && !rc {
			res.Header.Set("Connection", "keep-alive")
		}
	}
	return res, nil
}

type faultErr struct {
	msg     string
	timeout bool
}

func (e faultErr) Error() string   { return e.msg }
func (e faultErr) Timeout() bool   { return e.timeout }
func (e faultErr) Temporary() bool { return e.timeout }

func originFault(kind int) error {
	switch kind {
	case 2:
		return faultErr{msg: "c07: malformed HTTP response (truncated head)"}
	case 3:
		return faultErr{msg: "c07: i/o timeout awaiting response headers", timeout: true}
	}
	return faultErr{msg: "c07: connection refused / reset by the origin"}
}

// rtObs observes the proxy's own round tripper (the default *http.Transport of NewProxy): the request,
// with whatever context the proxy gave it, is passed through untouched.
type rtObs struct {
	w    *world
	base http.RoundTripper
}

func (t rtObs) RoundTrip(req *http.Request) (*http.Response, error) {
	addr, i := ids(req)
	sc := t.w.connOf(addr)
	if sc == nil {
		t.w.log.add("bad:-1:unknown-conn-in-rt")
		return t.base.RoundTrip(req)
	}
	t.w.log.add("rts:%d", sc.k)
	res, err := t.base.RoundTrip(req)
	if err != nil {
		if sc.plan != nil && sc.plan.fault > 0 && sc.plan.failSeq == i && req.Context().Err() == nil {
			t.w.log.add("rtf:%d", sc.k) // the harness origin failed this exchange on purpose
			return res, err
		}
		t.w.log.add("rtx:%d:%s", sc.k, sanitize(err.Error()))
		return res, err
	}
	if res.Close {
		t.w.log.add("rte:%d:1", sc.k)
	} else {
		t.w.log.add("rte:%d:0", sc.k)
	}
	return res, err
}

// origin is a raw TCP HTTP/1.1 server: it answers every request with 200 and the world's body
// (Content-Length or chunked), parking where the plan of the requesting connection says.
type origin struct {
	w       *world
	ln      net.Listener
	chunked bool
	mu      sync.Mutex
	conns   []net.Conn
}

func (o *origin) serve() {
	for {
		c, err := o.ln.Accept()
		if err != nil {
			return
		}
		o.mu.Lock()
		o.conns = append(o.conns, c)
		o.mu.Unlock()
		go o.handle(c)
	}
}

func (o *origin) close() {
	o.ln.Close()
	o.mu.Lock()
	for _, c := range o.conns {
		c.Close()
	}
	o.mu.Unlock()
}

func (o *origin) handle(c net.Conn) {
	defer c.Close()
	br := bufio.NewReader(c)
	for {
		c.SetReadDeadline(time.Now().Add(60 * time.Second))
		req, err := http.ReadRequest(br)
		if err != nil {
			return
		}
		addr, i := ids(req)
		var pl *cplan
		faulty := 0
		if sc := o.w.connOf(addr); sc != nil && sc.plan != nil {
			if sc.plan.parkSeq == i {
				pl = sc.plan
			}
			if sc.plan.fault > 0 && sc.plan.failSeq == i {
				faulty = sc.plan.fault
			}
		}
		head := "HTTP/1.1 200 OK\r\nContent-Type: application/octet-stream\r\n"
		if pl != nil && pl.proto > 0 {
			head = "HTTP/1.0 200 OK\r\nContent-Type: application/octet-stream\r\n"
			if pl.proto == 1 && !pl.resClose {
				head += "Connection: keep-alive\r\n"
			}
		}
		var payload []byte
		if o.chunked {
			head += "Transfer-Encoding: chunked\r\n"
			for b := o.w.body; len(b) > 0; {
				n := 1000
				if n > len(b) {
					n = len(b)
				}
				payload = append(payload, fmt.Sprintf("%x\r\n", n)...)
				payload = append(payload, b[:n]...)
				payload = append(payload, "\r\n"...)
				b = b[n:]
			}
			payload = append(payload, "0\r\n\r\n"...)
		} else {
			head += "Content-Length: " + strconv.Itoa(len(o.w.body)) + "\r\n"
			payload = o.w.body
		}
		if pl != nil && pl.resClose {
			head += "Connection: close\r\n"
		}
		if pl != nil && pl.point == "rt" {
			pl.arrive() // the head has arrived; an upload may still be in flight
			waitCh(pl.gate, 30*time.Second)
		}
		c.SetReadDeadline(time.Now().Add(60 * time.Second))
		nb, berr := io.Copy(io.Discard, req.Body)
		if pl != nil && pl.readBody && (berr != nil || nb != 1000) {
			if sc := o.w.connOf(addr); sc != nil {
				o.w.log.add("bad:%d:origin-got-%d-of-1000-request-body-bytes", sc.k, nb)
			}
			return
		}
		if faulty > 0 {
			// origin fault: the connection dies before any answer, or in the middle of the response head
			if faulty == 2 {
				c.Write([]byte("HTTP/1.1 200 OK\r\nContent-Le"))
			}
			return
		}
		half := len(payload) / 2
		c.SetWriteDeadline(time.Now().Add(60 * time.Second))
		if _, err := c.Write(append([]byte(head+"\r\n"), payload[:half]...)); err != nil {
			return
		}
		if pl != nil && pl.point == "wbody" {
			pl.oarrive()
			waitCh(pl.gate, 30*time.Second)
		}
		if pl != nil && pl.point == "rbody" {
			pl.oarrive()
			waitCh(pl.ogate, 30*time.Second)
		}
		c.SetWriteDeadline(time.Now().Add(60 * time.Second))
		if _, err := c.Write(payload[half:]); err != nil {
			return
		}
		if pl != nil && (pl.resClose || pl.proto == 2) {
			return
		}
	}
}

func newWorld(bodyLen int, plans []*cplan) (*world, error) {
	return newWorldT(bodyLen, plans, false, false, false)
}

var (
	mitmOnce sync.Once
	mitmCfg  *mitm.Config
	mitmErr  error
	h2Origin *httptest.Server // one HTTP/2 TLS origin per process, reached through MITM'd tunnels to 127.0.0.1
)

// theMitm: one authority per process (RSA key generation is slow); the configuration is immutable.
func theMitm() (*mitm.Config, error) {
	mitmOnce.Do(func() {
		ca, priv, err := mitm.NewAuthority("c07 verif CA", "c07", 24*time.Hour)
		if err != nil {
			mitmErr = err
			return
		}
		mitmCfg, mitmErr = mitm.NewConfig(ca, priv)
		if mitmErr != nil {
			return
		}
		h2Origin = httptest.NewUnstartedServer(http.HandlerFunc(func(rw http.ResponseWriter, req *http.Request) {
			rw.Write([]byte("h2 origin"))
		}))
		h2Origin.EnableHTTP2 = true
		h2Origin.StartTLS()
		pool := x509.NewCertPool()
		pool.AddCert(h2Origin.Certificate())
		// HTTP/2 is offered only inside tunnels to the loopback origin; the other MITM'd tunnels stay HTTP/1.1
		mitmCfg.SetH2Config(&mh2.Config{RootCAs: pool, AllowedHostsFilter: func(h string) bool { return strings.HasPrefix(h, "127.0.0.1") }})
	})
	return mitmCfg, mitmErr
}

// tunnelIdx: "t<k>.c07.test:443" is the CONNECT target of connection k.
func tunnelIdx(addr string) (int, bool) {
	if !strings.HasPrefix(addr, "t") || !strings.HasSuffix(addr, ".c07.test:443") {
		return 0, false
	}
	k, err := strconv.Atoi(addr[1 : len(addr)-len(".c07.test:443")])
	return k, err == nil
}

// pdial is the proxy's dial function: CONNECT targets go to the harness echo target; events dls / dle:k:<ok>.
func (w *world) pdial(network, addr string) (net.Conn, error) {
	k, ok := tunnelIdx(addr)
	if !ok {
		return (&net.Dialer{Timeout: stepDeadline}).Dial(network, addr)
	}
	w.log.add("dls:%d", k)
	var pl *cplan
	if k < len(w.plans) {
		pl = w.plans[k]
	}
	if pl != nil && pl.point == "cdial" {
		pl.arrive()
		waitCh(pl.gate, 30*time.Second)
	}
	if pl != nil && pl.point == "cdial" && pl.resClose {
		w.log.add("dle:%d:0", k)
		return nil, errors.New("c07: target refuses")
	}
	c, err := net.DialTimeout("tcp", w.tln.Addr().String(), stepDeadline)
	if err != nil {
		w.log.add("dle:%d:0", k)
		return nil, err
	}
	w.tmu.Lock()
	w.tdial[k] = c.LocalAddr().String()
	w.tmu.Unlock()
	w.log.add("dle:%d:1", k)
	return c, nil
}

// closeTarget: the target of tunnel k ends the conversation.
func (w *world) closeTarget(k int) bool {
	return poll(stepDeadline, func() bool {
		w.tmu.Lock()
		defer w.tmu.Unlock()
		if c := w.tacc[w.tdial[k]]; c != nil {
			c.Close()
			return true
		}
		return false
	})
}

// target: echoes until end-of-stream, then closes.
func (w *world) serveTarget() {
	for {
		c, err := w.tln.Accept()
		if err != nil {
			return
		}
		w.tmu.Lock()
		w.tacc[c.RemoteAddr().String()] = c
		w.tmu.Unlock()
		go func() {
			defer c.Close()
			c.SetDeadline(time.Now().Add(60 * time.Second))
			io.Copy(c, c)
		}()
	}
}

func (w *world) closeTargets() {
	w.tmu.Lock()
	defer w.tmu.Unlock()
	for _, c := range w.tacc {
		c.Close()
	}
}

// newWorldT: realTransport = keep the proxy's default transport and serve the requests from a raw origin;
// mitmOn = the proxy MITMs CONNECT tunnels.
func newWorldT(bodyLen int, plans []*cplan, realTransport, chunked, mitmOn bool) (*world, error) {
	mlog.SetLevel(mlog.Silent)
	w := &world{log: &evlog{}, conns: map[string]*sconn{}, plans: plans, serveDone: make(chan struct{}), host: hostName}
	w.body = make([]byte, bodyLen)
	for i := range w.body {
		w.body[i] = byte('a' + i%26)
	}
	l, err := net.Listen("tcp", "127.0.0.1:0")
	if err != nil {
		return nil, err
	}
	w.ln = &wlistener{Listener: l, w: w}
	w.p = martian.NewProxy()
	w.p.SetTimeout(60 * time.Second)
	if realTransport {
		ol, err := net.Listen("tcp", "127.0.0.1:0")
		if err != nil {
			l.Close()
			return nil, err
		}
		w.org = &origin{w: w, ln: ol, chunked: chunked}
		w.host = ol.Addr().String()
		go w.org.serve()
		w.p.SetRoundTripper(rtObs{w: w, base: w.p.GetRoundTripper()})
	} else {
		w.p.SetRoundTripper(rtrip{w})
	}
	w.p.SetRequestModifier(reqMod{w})
	w.p.SetResponseModifier(resMod{w})
	w.tacc = map[string]net.Conn{}
	w.tdial = map[int]string{}
	tl, err := net.Listen("tcp", "127.0.0.1:0")
	if err != nil {
		l.Close()
		return nil, err
	}
	w.tln = tl
	go w.serveTarget()
	w.p.SetDial(w.pdial)
	if mitmOn {
		mc, err := theMitm()
		if err != nil {
			l.Close()
			tl.Close()
			return nil, err
		}
		w.p.SetMITM(mc)
		w.mitm = true
	}
	go func() {
		defer close(w.serveDone)
		defer func() {
			if x := recover(); x != nil {
				w.log.add("bad:-1:serve-panic")
			}
		}()
		w.p.Serve(w.ln)
	}()
	// Serve has passed its first Closing() check and is in Accept
	poll(stepDeadline, func() bool { return atomic.LoadInt32(&w.ln.inAccept) == 1 })
	return w, nil
}

// ---- client side ----

type client struct {
	w     *world
	c     net.Conn
	addr  string
	k     int // -1 until known
	seq   int
	resps int32
	eof   chan struct{}
	// a client that stops reading: the reader does not pick up response number holdSeq (beyond the first
	// bytes) until hold is closed
	hold    chan struct{}
	holdSeq int
	honce   sync.Once
	// CONNECT
	kmu     sync.Mutex
	kinds   []bool      // per request sent on the plain connection: is it a CONNECT
	cresps  int32       // responses to CONNECT received
	cstatus int32       // status of the last one
	tun     chan []byte // bytes received through the blind tunnel
	secHost string      // MITM'd tunnel: authority of the requests sent inside it
	aborted int32       // the client gave up on purpose: read errors are not the proxy's fault
	closed  int32       // the client closed its end on purpose
	upIdx   int         // the response with this index answers a request whose body the client has not finished sending (-1: none)
	upTail  []byte      // the rest of that body
	bodyRead bool       // the upload is read to the end by the round tripper during the exchange
	upLeave bool        // having the response, the client leaves instead of sending the rest
	failIdx int         // the response with this index answers an exchange whose origin failed: a 502 (-1: none)
	rchunk  int         // slow reader: bytes per read (0 = unthrottled)
	rpause  time.Duration
	rfrom   int
}

func (cl *client) sent(connect bool) {
	cl.kmu.Lock()
	cl.kinds = append(cl.kinds, connect)
	cl.kmu.Unlock()
}

func (cl *client) isConnect(n int) bool {
	cl.kmu.Lock()
	defer cl.kmu.Unlock()
	return n < len(cl.kinds) && cl.kinds[n]
}

func (cl *client) connectBytes(target string) []byte {
	return []byte("CONNECT " + target + " HTTP/1.1\r\nHost: " + target + "\r\nX-Conn: " + cl.addr + "\r\nX-Seq: " + strconv.Itoa(cl.seq) + "\r\n\r\n")
}

// sendConnect: a complete CONNECT request on the plain connection (event snd:k:c).
func (cl *client) sendConnect(target string) error {
	b := cl.connectBytes(target)
	cl.w.log.add("snd:%s:c", cl.key())
	cl.sent(true)
	cl.seq++
	cl.c.SetWriteDeadline(time.Now().Add(stepDeadline))
	_, err := cl.c.Write(b)
	return err
}

// mitmConnect: CONNECT, read the 200 and (handshake) start TLS inside the tunnel; afterwards cl.c is the
// TLS connection and the reader goroutine parses the responses to the requests sent inside the tunnel.
func (cl *client) mitmConnect(host string, handshake bool) error {
	b := cl.connectBytes(host + ":443")
	cl.w.log.add("snd:%s:c", cl.key())
	cl.seq++
	cl.c.SetDeadline(time.Now().Add(stepDeadline))
	if _, err := cl.c.Write(b); err != nil {
		return err
	}
	res, err := http.ReadResponse(bufio.NewReader(cl.c), &http.Request{Method: "CONNECT"})
	if err != nil {
		return err
	}
	if res.StatusCode != 200 {
		return fmt.Errorf("CONNECT answered %d", res.StatusCode)
	}
	cl.w.log.add("cresp:%s", cl.key())
	atomic.AddInt32(&cl.cresps, 1)
	cl.secHost = host
	if !handshake {
		cl.c.SetDeadline(time.Time{})
		return nil
	}
	cl.w.log.add("tls:%s", cl.key())
	tc := tls.Client(cl.c, &tls.Config{InsecureSkipVerify: true, ServerName: host, NextProtos: []string{"http/1.1"}})
	if err := tc.Handshake(); err != nil {
		return err
	}
	tc.SetDeadline(time.Time{})
	cl.c = tc
	return nil
}

// h2Connect: CONNECT to the process-wide HTTP/2 origin through the MITM, TLS with ALPN h2, one complete
// request/response through the relayed session (event h2:k once that has worked). The connection is then
// owned by the HTTP/2 client; watch() reports its end as eof:k.
func (cl *client) h2Connect() error {
	host := h2Origin.Listener.Addr().String()
	b := cl.connectBytes(host)
	cl.w.log.add("snd:%s:c", cl.key())
	cl.seq++
	cl.c.SetDeadline(time.Now().Add(stepDeadline))
	if _, err := cl.c.Write(b); err != nil {
		return err
	}
	res, err := http.ReadResponse(bufio.NewReader(cl.c), &http.Request{Method: "CONNECT"})
	if err != nil {
		return err
	}
	if res.StatusCode != 200 {
		return fmt.Errorf("CONNECT answered %d", res.StatusCode)
	}
	cl.w.log.add("cresp:%s", cl.key())
	atomic.AddInt32(&cl.cresps, 1)
	cl.w.log.add("tls:%s", cl.key())
	tc := tls.Client(cl.c, &tls.Config{InsecureSkipVerify: true, NextProtos: []string{"h2"}})
	if err := tc.Handshake(); err != nil {
		return err
	}
	if tc.ConnectionState().NegotiatedProtocol != "h2" {
		return fmt.Errorf("negotiated %q, not h2", tc.ConnectionState().NegotiatedProtocol)
	}
	tc.SetDeadline(time.Time{})
	cl.c = tc
	cc, err := (&http2.Transport{}).NewClientConn(tc)
	if err != nil {
		return err
	}
	ctx, cancel := context.WithTimeout(context.Background(), stepDeadline)
	defer cancel()
	rq, _ := http.NewRequestWithContext(ctx, "GET", "https://"+host+"/", nil)
	rs, err := cc.RoundTrip(rq)
	if err != nil {
		return err
	}
	body, _ := io.ReadAll(rs.Body)
	rs.Body.Close()
	if string(body) != "h2 origin" {
		return fmt.Errorf("unexpected body %q through the HTTP/2 session", body)
	}
	cl.w.log.add("h2:%s", cl.key())
	go func() { // the session's end, as the client sees it
		defer close(cl.eof)
		for i := 0; i < 3000; i++ {
			pctx, pc := context.WithTimeout(context.Background(), 2*time.Second)
			err := cc.Ping(pctx)
			pc()
			if err != nil {
				break
			}
			time.Sleep(10 * time.Millisecond)
		}
		cl.w.log.add("eof:%s", cl.key())
	}()
	return nil
}

// goneAway: the client closes its end on purpose (event ev = tcl: end of a tunnel; cx: abort of a response).
func (cl *client) goneAway(ev string) {
	atomic.StoreInt32(&cl.closed, 1)
	cl.w.log.add("%s:%s", ev, cl.key())
	cl.c.Close()
}

// echo: n bytes through the blind tunnel and back.
func (cl *client) echo(n int) bool {
	cl.c.SetWriteDeadline(time.Now().Add(stepDeadline))
	if _, err := cl.c.Write(bytes.Repeat([]byte{'e'}, n)); err != nil {
		return false
	}
	t := time.After(stepDeadline)
	for got := 0; got < n; {
		select {
		case b, ok := <-cl.tun:
			if !ok {
				return false
			}
			got += len(b)
		case <-t:
			return false
		}
	}
	return true
}

// tunnelLoop: the blind tunnel is up; everything that arrives is tunnel traffic.
func (cl *client) tunnelLoop(br *bufio.Reader) {
	defer close(cl.tun)
	for {
		cl.c.SetReadDeadline(time.Now().Add(40 * time.Second))
		b := make([]byte, 4096)
		n, err := br.Read(b)
		if n > 0 {
			select {
			case cl.tun <- b[:n]:
			default:
			}
		}
		if err != nil {
			if ne, ok := err.(net.Error); ok && ne.Timeout() && atomic.LoadInt32(&cl.closed) == 0 {
				cl.w.log.add("bad:%s:client-read-timeout", cl.key())
			}
			cl.w.log.add("eof:%s", cl.key())
			cl.c.Close() // the other side of the tunnel is done: so is the client
			return
		}
	}
}

func (w *world) dial() (*client, error) {
	c, err := net.DialTimeout("tcp", w.ln.Addr().String(), stepDeadline)
	if err != nil {
		return nil, err
	}
	if tc, ok := c.(*net.TCPConn); ok && w.sbuf > 0 {
		tc.SetReadBuffer(w.sbuf << 10)
	}
	return &client{w: w, c: c, addr: c.LocalAddr().String(), k: -1, eof: make(chan struct{}), holdSeq: -1, failIdx: -1, upIdx: -1, tun: make(chan []byte, 256)}, nil
}

// evKey is the connection index if known, else a placeholder resolved when the log is rendered.
func (cl *client) key() string {
	if cl.k >= 0 {
		return strconv.Itoa(cl.k)
	}
	return "@" + cl.addr
}

// slowReader: a client that never stops but drains slower than the proxy writes.
type slowReader struct {
	r     io.Reader
	chunk int
	pause time.Duration
	cl    *client
	from  int32 // throttled from this response on (the warm-up exchanges are read at full speed)
}

func (s *slowReader) Read(p []byte) (int, error) {
	if atomic.LoadInt32(&s.cl.resps) < s.from {
		return s.r.Read(p)
	}
	if len(p) > s.chunk {
		p = p[:s.chunk]
	}
	time.Sleep(s.pause)
	return s.r.Read(p)
}

func (cl *client) resume() {
	cl.honce.Do(func() { close(cl.hold) })
}

func (cl *client) reader() {
	defer close(cl.eof)
	br := bufio.NewReader(cl.c)
	if cl.rchunk > 0 {
		br = bufio.NewReaderSize(&slowReader{cl.c, cl.rchunk, cl.rpause, cl, int32(cl.rfrom)}, 4096)
	}
	for n := 0; ; n++ {
		cl.c.SetReadDeadline(time.Now().Add(40 * time.Second))
		if _, err := br.Peek(1); err != nil { // closed between responses (EOF or reset): no partial response
			if ne, ok := err.(net.Error); ok && ne.Timeout() && atomic.LoadInt32(&cl.closed) == 0 {
				cl.w.log.add("bad:%s:client-read-timeout", cl.key())
			}
			cl.w.log.add("eof:%s", cl.key())
			return
		}
		if cl.hold != nil && int(atomic.LoadInt32(&cl.resps)) == cl.holdSeq {
			waitCh(cl.hold, 40*time.Second) // busy elsewhere: the response stays in the socket buffers and beyond
			cl.c.SetReadDeadline(time.Now().Add(40 * time.Second))
		}
		var rq *http.Request
		if cl.isConnect(n) {
			rq = &http.Request{Method: "CONNECT"}
		}
		res, err := http.ReadResponse(br, rq)
		if err != nil {
			if err != io.EOF && !strings.Contains(err.Error(), "reset") && !strings.Contains(err.Error(), "closed") && atomic.LoadInt32(&cl.closed) == 0 {
				if err == io.ErrUnexpectedEOF {
					cl.w.log.add("bad:%s:truncated-head", cl.key())
				} else {
					cl.w.log.add("bad:%s:read-%s", cl.key(), sanitize(err.Error()))
				}
			}
			cl.w.log.add("eof:%s", cl.key())
			return
		}
		mark := 0
		if res.Close {
			mark = 1
		}
		if rq != nil {
			if res.StatusCode/100 != 2 { // a 2xx to CONNECT has no body: what follows is the tunnel
				io.Copy(io.Discard, res.Body)
			}
			atomic.StoreInt32(&cl.cstatus, int32(res.StatusCode))
			cl.w.log.add("cresp:%s", cl.key())
			atomic.AddInt32(&cl.cresps, 1)
			if res.StatusCode/100 == 2 {
				cl.tunnelLoop(br)
				return
			}
			continue
		}
		cl.w.log.add("head:%s:%d", cl.key(), mark)
		b, err := io.ReadAll(res.Body)
		if atomic.LoadInt32(&cl.closed) == 1 && (err != nil || len(b) != len(cl.w.body)) {
			cl.w.log.add("eof:%s", cl.key()) // the client itself gave up on this response
			return
		}
		if int(atomic.LoadInt32(&cl.resps)) == cl.failIdx {
			// the origin failed: the proxy's own complete 502 (with its Warning) is the response owed
			if err != nil || res.StatusCode != 502 || res.Header.Get("Warning") == "" {
				cl.w.log.add("bad:%s:status-%d-not-the-502-owed-for-a-failed-round-trip", cl.key(), res.StatusCode)
				cl.w.log.add("eof:%s", cl.key())
				return
			}
			cl.w.log.add("resp:%s:%d", cl.key(), mark)
			atomic.AddInt32(&cl.resps, 1)
			continue
		}
		if err != nil || res.StatusCode != 200 || !bytes.Equal(b, cl.w.body) {
			cl.w.log.add("bad:%s:status-%d-body-%d-of-%d-not-the-origin-response", cl.key(), res.StatusCode, len(b), len(cl.w.body))
			cl.w.log.add("eof:%s", cl.key())
			return
		}
		cl.w.log.add("resp:%s:%d", cl.key(), mark)
		mine := int(atomic.LoadInt32(&cl.resps)) == cl.upIdx
		atomic.AddInt32(&cl.resps, 1)
		if mine {
			// the response to the request whose body is still outstanding has arrived: a client told that the
			// connection closes (or one that gives up the upload) leaves; otherwise it sends the rest
			if mark == 1 || cl.upLeave {
				cl.goneAway("tcl")
			} else {
				cl.w.log.add("snd:%s:t", cl.key())
				cl.c.SetWriteDeadline(time.Now().Add(stepDeadline))
				cl.c.Write(cl.upTail)
			}
		}
	}
}

func sanitize(s string) string {
	s = strings.Map(func(r rune) rune {
		if r == ' ' || r == ':' {
			return '_'
		}
		return r
	}, s)
	if len(s) > 40 {
		s = s[:40]
	}
	return s
}

func (cl *client) reqBytes(closeHdr bool) []byte {
	s := "GET http://" + cl.w.host + "/ HTTP/1.1\r\nHost: " + cl.w.host + "\r\nX-Conn: " + cl.addr + "\r\nX-Seq: " + strconv.Itoa(cl.seq) + "\r\n"
	if cl.secHost != "" { // inside a MITM'd tunnel: origin form
		s = "GET / HTTP/1.1\r\nHost: " + cl.secHost + "\r\nX-Conn: " + cl.addr + "\r\nX-Seq: " + strconv.Itoa(cl.seq) + "\r\n"
	}
	if closeHdr {
		s += "Connection: close\r\n"
	}
	return []byte(s + "\r\n")
}

// sendUpload: a request that announces a body and sends only part of it (event snd:k:u:<close>): mode 1 =
// Content-Length 1000, 400 bytes sent; 2 = Expect: 100-continue, no body byte sent; 3 = chunked, stopped in the
// middle of the first chunk. The rest is kept for after the response (reader).
func (cl *client) sendUpload(mode int, closeHdr bool) error {
	head := "POST http://" + cl.w.host + "/ HTTP/1.1\r\nHost: " + cl.w.host
	if cl.secHost != "" {
		head = "POST / HTTP/1.1\r\nHost: " + cl.secHost
	}
	head += "\r\nX-Conn: " + cl.addr + "\r\nX-Seq: " + strconv.Itoa(cl.seq) + "\r\n"
	if closeHdr {
		head += "Connection: close\r\n"
	}
	body := bytes.Repeat([]byte{'u'}, 1000)
	var now []byte
	switch mode {
	case 2:
		head += "Content-Length: 1000\r\nExpect: 100-continue\r\n\r\n"
		now, cl.upTail = nil, body
	case 3:
		head += "Transfer-Encoding: chunked\r\n\r\n"
		now = append([]byte("3e8\r\n"), body[:400]...)
		cl.upTail = append(append([]byte{}, body[400:]...), "\r\n0\r\n\r\n"...)
	default:
		head += "Content-Length: 1000\r\n\r\n"
		now, cl.upTail = body[:400], body[400:]
	}
	rc := 0
	if closeHdr {
		rc = 1
	}
	cl.upIdx = int(atomic.LoadInt32(&cl.resps))
	// will the handler wait for the rest? net/http's request body Close() reads it to the end — except for a
	// body without trailer (not chunked) on a request that said Connection: close ("no point in reading to EOF")
	drains := 1
	if closeHdr && mode != 3 {
		drains = 0
	}
	if cl.bodyRead { // the round tripper will have read the whole body before the response
		drains = 0
	}
	cl.w.log.add("snd:%s:u:%d:%d", cl.key(), rc, drains)
	cl.sent(false)
	cl.seq++
	cl.c.SetWriteDeadline(time.Now().Add(stepDeadline))
	_, err := cl.c.Write(append([]byte(head), now...))
	return err
}

func (cl *client) sendFull(closeHdr bool) error {
	b := cl.reqBytes(closeHdr)
	rc := 0
	if closeHdr {
		rc = 1
	}
	cl.w.log.add("snd:%s:f:%d", cl.key(), rc)
	cl.sent(false)
	cl.seq++
	cl.c.SetWriteDeadline(time.Now().Add(stepDeadline))
	_, err := cl.c.Write(b)
	return err
}

func poll(d time.Duration, f func() bool) bool {
	end := time.Now().Add(d)
	for i := 0; ; i++ {
		if f() {
			return true
		}
		if time.Now().After(end) {
			return false
		}
		if i < 50 {
			time.Sleep(50 * time.Microsecond)
		} else {
			time.Sleep(500 * time.Microsecond)
		}
	}
}

// ---- scenario ----

type scenario struct {
	pts   []string
	x     []int
	q, s  []bool
	order []int
	body  int
	real  bool // t=1: real default transport + raw origin
	chunk bool // te=1: the origin answers chunked
	delay int  // d: µs between "shutdown observable" and the first release
	stall int  // st: ms during which the clients of the parked exchanges do not read (after the releases)
	sbuf  int  // sb: KiB of socket buffer on both ends of the client connections (0 = system default)
	mitm  bool // m=1: the proxy MITMs CONNECT; the connections parked at the six points are MITM'd tunnels
	abort bool // ab=1: after the stall the clients of the stalled connections close instead of reading
	hist   int // hs: connections opened, used and CLOSED (client leaves, handler ends) before the connections under test
	hexch  int // he: exchanges on each of them
	nclose int // cl: number of concurrent callers of Close() (default 1)
	rchunk int // rk: KiB the clients of the parked exchanges read at a time (0 = as fast as they can)
	rpause int // rp: µs they pause between two reads
	tmo    int   // to: the proxy's SetTimeout in ms (0: the harness default of 60 s)
	park   int   // pk: ms the parked exchanges stay parked after shutdown became observable, before the releases
	upload []int // u: per connection, the parked exchange's request announces a body and sends only part of it (1 Content-Length, 2 Expect: 100-continue, 3 chunked; +3: the client leaves after the response instead of sending the rest)
	proto  []int // pv: per connection, protocol version / Connection token of the origin's answer to the parked exchange (0 HTTP/1.1, 1 HTTP/1.0 keep-alive, 2 HTTP/1.0)
	fault  []int // f: per connection, origin fault on one of its exchanges (0 none, 1 refused/reset, 2 truncated head, 3 timeout)
	raw    bool // rw=1: the proxy serves the accepted *net.TCPConn itself; only modifiers and clients are observed
}

// inTunnel: connection k does CONNECT + TLS first and is driven to its point inside the MITM'd tunnel.
func (sc *scenario) inTunnel(k int) bool {
	if !sc.mitm {
		return false
	}
	switch sc.pts[k] {
	case "idle", "head", "phead", "reqmod", "rt", "resmod", "write":
		return true
	}
	return false
}

// stalls: is connection k one whose client stops reading while shutdown drains it?
func (sc *scenario) stalls(k int) bool {
	if sc.stall <= 0 {
		return false
	}
	switch sc.pts[k] {
	case "reqmod", "rt", "resmod", "write", "rbody", "wbody":
		return true
	}
	return false
}

var points = []string{"idle", "head", "reqmod", "rt", "resmod", "write"}

func parseInts(s string) ([]int, bool) {
	var out []int
	for _, f := range strings.Split(s, ",") {
		n, err := strconv.Atoi(f)
		if err != nil || n < 0 {
			return nil, false
		}
		out = append(out, n)
	}
	return out, true
}

func parseScn(op string) (*scenario, bool) {
	f := strings.Fields(op)
	sc := &scenario{body: 64}
	for _, t := range f[1:] {
		kv := strings.SplitN(t, "=", 2)
		if len(kv) != 2 {
			return nil, false
		}
		switch kv[0] {
		case "p":
			sc.pts = strings.Split(kv[1], ",")
		case "x":
			v, ok := parseInts(kv[1])
			if !ok {
				return nil, false
			}
			sc.x = v
		case "q", "s":
			v, ok := parseInts(kv[1])
			if !ok {
				return nil, false
			}
			bs := make([]bool, len(v))
			for i := range v {
				bs[i] = v[i] != 0
			}
			if kv[0] == "q" {
				sc.q = bs
			} else {
				sc.s = bs
			}
		case "o":
			v, ok := parseInts(kv[1])
			if !ok {
				return nil, false
			}
			sc.order = v
		case "u":
			v, ok := parseInts(kv[1])
			if !ok {
				return nil, false
			}
			for _, x := range v {
				if x > 8 {
					return nil, false
				}
			}
			sc.upload = v
		case "pv":
			v, ok := parseInts(kv[1])
			if !ok {
				return nil, false
			}
			for _, x := range v {
				if x > 2 {
					return nil, false
				}
			}
			sc.proto = v
		case "f":
			v, ok := parseInts(kv[1])
			if !ok {
				return nil, false
			}
			for _, x := range v {
				if x > 3 {
					return nil, false
				}
			}
			sc.fault = v
		case "b":
			n, err := strconv.Atoi(kv[1])
			if err != nil || n < 0 || n > 1<<26 {
				return nil, false
			}
			sc.body = n
		case "st":
			n, err := strconv.Atoi(kv[1])
			if err != nil || n < 0 || n > 20000 {
				return nil, false
			}
			sc.stall = n
		case "sb":
			n, err := strconv.Atoi(kv[1])
			if err != nil || n < 0 || n > 4096 {
				return nil, false
			}
			sc.sbuf = n
		case "rk", "rp":
			n, err := strconv.Atoi(kv[1])
			if err != nil || n < 0 || n > 100000 {
				return nil, false
			}
			if kv[0] == "rk" {
				sc.rchunk = n
			} else {
				sc.rpause = n
			}
		case "t", "te", "m", "ab", "rw":
			if kv[1] != "0" && kv[1] != "1" {
				return nil, false
			}
			switch kv[0] {
			case "t":
				sc.real = kv[1] == "1"
			case "te":
				sc.chunk = kv[1] == "1"
			case "m":
				sc.mitm = kv[1] == "1"
			case "ab":
				sc.abort = kv[1] == "1"
			case "rw":
				sc.raw = kv[1] == "1"
			}
		case "hs", "he":
			n, err := strconv.Atoi(kv[1])
			if err != nil || n < 0 || n > 4 {
				return nil, false
			}
			if kv[0] == "hs" {
				sc.hist = n
			} else {
				sc.hexch = n
			}
		case "to", "pk":
			n, err := strconv.Atoi(kv[1])
			if err != nil || n < 0 || n > 6000 {
				return nil, false
			}
			if kv[0] == "to" {
				sc.tmo = n
			} else {
				sc.park = n
			}
		case "cl":
			n, err := strconv.Atoi(kv[1])
			if err != nil || n < 1 || n > 4 {
				return nil, false
			}
			sc.nclose = n
		case "d":
			n, err := strconv.Atoi(kv[1])
			if err != nil || n < 0 || n > 20000 {
				return nil, false
			}
			sc.delay = n
		default:
			return nil, false
		}
	}
	if sc.chunk && !sc.real {
		return nil, false
	}
	if sc.mitm && sc.real { // requests inside a MITM'd tunnel are https: the stub round tripper answers them
		return nil, false
	}
	if sc.abort && sc.stall <= 0 {
		return nil, false
	}
	if sc.nclose == 0 {
		sc.nclose = 1
	}
	if sc.raw && (sc.mitm || sc.stall > 0 || sc.hist > 0) {
		return nil, false
	}
	if sc.tmo > 0 {
		// a short proxy timeout: only exchanges parked in a modifier or the round tripper (a connection found
		// reading would simply hit its idle deadline before shutdown begins)
		if sc.tmo < 200 || sc.mitm || sc.stall > 0 || sc.rchunk > 0 || sc.raw {
			return nil, false
		}
		for _, p := range sc.pts {
			if p != "reqmod" && p != "rt" && p != "resmod" {
				return nil, false
			}
		}
	}
	n := len(sc.pts)
	if n < 1 || n > 4 {
		return nil, false
	}
	if sc.x == nil {
		sc.x = make([]int, n)
	}
	if sc.q == nil {
		sc.q = make([]bool, n)
	}
	if sc.s == nil {
		sc.s = make([]bool, n)
	}
	if sc.order == nil {
		for i := 0; i < n; i++ {
			sc.order = append(sc.order, i)
		}
	}
	if sc.fault == nil {
		sc.fault = make([]int, n)
	}
	if sc.upload == nil {
		sc.upload = make([]int, n)
	}
	if sc.proto == nil {
		sc.proto = make([]int, n)
	}
	if len(sc.proto) != n {
		return nil, false
	}
	for i, v := range sc.proto {
		if v == 0 {
			continue
		}
		if sc.chunk { // HTTP/1.0 has no chunked coding
			return nil, false
		}
		switch sc.pts[i] {
		case "reqmod", "rt", "resmod", "write":
		default:
			return nil, false
		}
	}
	if len(sc.upload) != n {
		return nil, false
	}
	for i, u := range sc.upload {
		if u == 0 {
			continue
		}
		if u >= 7 {
			// 7 / 8: Content-Length / chunked upload that the round tripper (stub, or the real transport relaying it
			// to the raw origin) reads to the end before it answers; the client sends the rest only during the
			// round trip, after shutdown was requested
			if sc.stall > 0 || sc.rchunk > 0 || (sc.pts[i] != "reqmod" && sc.pts[i] != "rt") {
				return nil, false
			}
			continue
		}
		// the stub round tripper answers from the head alone; the real transport would first upload the body
		if sc.real || sc.stall > 0 || sc.rchunk > 0 {
			return nil, false
		}
		switch sc.pts[i] {
		case "reqmod", "rt", "resmod", "write":
		default:
			return nil, false
		}
	}
	if len(sc.x) != n || len(sc.q) != n || len(sc.s) != n || len(sc.order) != n || len(sc.fault) != n {
		return nil, false
	}
	seen := map[int]bool{}
	for _, o := range sc.order {
		if o >= n || seen[o] {
			return nil, false
		}
		seen[o] = true
	}
	for i, p := range sc.pts {
		if sc.raw && p != "reqmod" && p != "rt" && p != "resmod" { // the points that need no server-side observer
			return nil, false
		}
		switch p {
		case "idle", "head", "reqmod", "rt", "resmod", "write":
		case "phead": // mid request head, the fragment having arrived in the same segment as the previous request
		case "rbody", "wbody":
			// rbody: the proxy does not read the origin's body while parked in the response modifier —
			// the first half must fit the socket buffers
			// (and there must be a second half for the origin to hold back)
			if !sc.real || sc.body < 1 || (p == "rbody" && sc.body > 100000) {
				return nil, false
			}
			// the origin parks after it has written half of the body: impossible while the client of a
			// large response does not read
			if sc.stall > 0 && sc.body > 100000 {
				return nil, false
			}
			if sc.fault[i] != 0 { // these points need the origin to get half of its answer out
				return nil, false
			}
		case "tunnel", "cdial", "creqmod", "cresmod": // blind CONNECT tunnel (no MITM)
			if sc.mitm {
				return nil, false
			}
		case "mpeek": // MITM'd tunnel whose client has not sent its first byte
			if !sc.mitm {
				return nil, false
			}
		case "h2s": // an HTTP/2 session relayed inside a MITM'd tunnel
			if !sc.mitm || sc.x[i] != 0 {
				return nil, false
			}
		case "hjq", "hjs": // a modifier that hijacks the connection
		case "gate", "late":
			if i != n-1 { // Serve is stuck behind a gate conn; after shutdown it accepts at most one more
				return nil, false
			}
		default:
			return nil, false
		}
		if sc.x[i] > 3 {
			return nil, false
		}
	}
	return sc, true
}

type verdict struct {
	fail, sig string
}

func (v *verdict) set(sig, format string, a ...interface{}) {
	if v.fail == "" {
		v.fail = fmt.Sprintf(format, a...)
		v.sig = sig
	}
}

func runScenario(sc *scenario) (trace []string, v verdict, counted map[int]bool) {
	n := len(sc.pts)
	plans := make([]*cplan, n)
	for k := 0; k < n; k++ {
		plans[k] = newPlan(sc.pts[k], sc.x[k], sc.s[k])
		if sc.inTunnel(k) {
			plans[k].parkSeq++ // the CONNECT that opened the tunnel was request 0
		}
		if sc.upload[k] >= 7 {
			plans[k].readBody = true
		}
		plans[k].proto = sc.proto[k]
		if sc.fault[k] > 0 {
			// which exchange's origin fails: the parked one where there is one (before, in or after its round
			// trip), else the last warm-up exchange (a 502 already served when shutdown finds the connection idle)
			switch sc.pts[k] {
			case "reqmod", "rt", "resmod", "write":
				plans[k].fault, plans[k].failSeq = sc.fault[k], plans[k].parkSeq
			case "idle", "head", "phead":
				if sc.x[k] > 0 {
					plans[k].fault, plans[k].failSeq = sc.fault[k], plans[k].parkSeq-1
				}
			}
		}
		if sc.pts[k] == "phead" {
			plans[k].parkSeq = -1 // no exchange of this connection is parked (its q/s flags mean nothing)
		}
	}
	w, err := newWorldT(sc.body, plans, sc.real, sc.chunk, sc.mitm)
	if err != nil {
		v.set("c07:harness", "listen: %v", err)
		return nil, v, nil
	}
	if sc.tmo > 0 {
		w.p.SetTimeout(time.Duration(sc.tmo) * time.Millisecond) // no connection exists yet
	}
	sentAt := make([]time.Time, n) // when the parked request of connection k was sent
	w.sbuf = sc.sbuf
	w.raw = sc.raw
	if sc.raw {
		w.log.add("raw")
	}
	counted = map[int]bool{}
	clients := make([]*client, n)
	defer func() {
		for _, cl := range clients {
			if cl != nil && cl.hold != nil {
				cl.resume()
			}
		}
		for _, pl := range plans {
			pl.release()
			pl.orelease()
		}
		w.ln.Close()
		for _, cl := range clients {
			if cl != nil {
				atomic.StoreInt32(&cl.closed, 1)
				cl.c.Close()
			}
		}
		w.tln.Close()
		w.closeTargets()
		waitCh(w.serveDone, stepDeadline)
		if w.org != nil {
			w.org.close()
			if o, ok := w.p.GetRoundTripper().(rtObs); ok {
				if tr, ok := o.base.(*http.Transport); ok {
					tr.CloseIdleConnections()
				}
			}
		}
	}()
	// the head of the parked response reaches the client side while the origin still holds the second
	// half only if the first half overflows the proxy's 4 KiB write buffer
	headFlushes := sc.body/2 >= 8192
	writeBegun := func(k int) bool {
		return poll(stepDeadline, func() bool { return w.byIdx[k].started() > sc.x[k] })
	}

	connect := func(k int) bool {
		cl, err := w.dial()
		if err != nil {
			v.set("c07:harness", "dial %d: %v", k, err)
			return false
		}
		clients[k] = cl
		if !poll(stepDeadline, func() bool { return w.nAccepted() > k }) {
			v.set("c07:no-progress:accept", "connection %d was not accepted within %v", k, stepDeadline)
			return false
		}
		cl.k = k
		if sc.stalls(k) {
			cl.hold = make(chan struct{})
			cl.holdSeq = sc.x[k]
		}
		if plans[k].failSeq >= 0 {
			cl.failIdx = plans[k].failSeq
			if sc.inTunnel(k) {
				cl.failIdx-- // the CONNECT's 200 is not counted among the responses
			}
		}
		if sc.rchunk > 0 {
			switch sc.pts[k] {
			case "reqmod", "rt", "resmod", "write", "rbody", "wbody":
				cl.rchunk, cl.rpause, cl.rfrom = sc.rchunk<<10, time.Duration(sc.rpause)*time.Microsecond, sc.x[k]
			}
		}
		if sc.inTunnel(k) {
			if err := cl.mitmConnect(fmt.Sprintf("m%d.c07.test", k), true); err != nil {
				v.set("c07:no-progress:mitm", "connection %d: no MITM'd tunnel: %v", k, err)
				return false
			}
		}
		if sc.pts[k] == "h2s" {
			if err := cl.h2Connect(); err != nil {
				v.set("c07:no-progress:h2s", "connection %d: no HTTP/2 session through the MITM: %v", k, err)
				return false
			}
			return true // the HTTP/2 client owns the connection
		}
		go cl.reader()
		return true
	}
	// the end of connection k: its handler's conn.Close(); in raw mode (no server-side observer) the client's EOF
	connClosed := func(k int) <-chan struct{} {
		if sc.raw && clients[k] != nil {
			return clients[k].eof
		}
		return w.byIdx[k].closed
	}
	serverIdle := func(k int, minRead int64) bool {
		sc := w.byIdx[k]
		return poll(stepDeadline, func() bool {
			return atomic.LoadInt32(&sc.inRead) == 1 && atomic.LoadInt64(&sc.readN) >= minRead
		})
	}

	// 0. history: earlier connections of this proxy, opened, used and closed before the ones under test
	if sc.hist > 0 {
		w.mu.Lock()
		w.inHist = true
		w.mu.Unlock()
		for j := 0; j < sc.hist; j++ {
			hc, err := w.dial()
			if err != nil {
				v.set("c07:harness", "dial: %v", err)
				return w.log.snapshot(), v, counted
			}
			want := j + 1
			if !poll(stepDeadline, func() bool { w.mu.Lock(); defer w.mu.Unlock(); return len(w.hist) >= want }) {
				v.set("c07:no-progress:accept", "history connection %d was not accepted", j)
				return w.log.snapshot(), v, counted
			}
			hc.k = histBase + j
			go hc.reader()
			for e := 0; e < sc.hexch; e++ {
				hc.sendFull(false)
				w2 := int32(e + 1)
				if !poll(stepDeadline, func() bool { return atomic.LoadInt32(&hc.resps) >= w2 }) {
					v.set("c07:no-progress:warmup", "history connection %d: no complete response to exchange %d", j, e)
					return w.log.snapshot(), v, counted
				}
			}
			if sc.hexch == 0 { // its handler has at least started reading
				hs := w.hist[j]
				poll(stepDeadline, func() bool { return atomic.LoadInt32(&hs.inRead) == 1 })
			}
			hc.goneAway("tcl")
			if !waitCh(w.hist[j].closed, stepDeadline) {
				v.set("c07:conn-not-closed", "history connection %d was not closed after its client left", j)
				return w.log.snapshot(), v, counted
			}
			waitCh(hc.eof, stepDeadline)
		}
		// the handlers have returned from conn.Close(); give their deferred conns.Done() a moment
		time.Sleep(2 * time.Millisecond)
		w.mu.Lock()
		w.inHist = false
		w.mu.Unlock()
	}

	// 1. drive every connection to its point
	for k := 0; k < n; k++ {
		pt := sc.pts[k]
		if pt == "late" {
			continue
		}
		if !connect(k) {
			return w.log.snapshot(), v, counted
		}
		cl := clients[k]
		if pt == "gate" {
			if waitCh(plans[k].parked, 500*time.Millisecond) {
				continue
			}
			// Serve no longer evaluates RemoteAddr between Accept and the spawn (e.g. the debug log was
			// removed): the schedule of F07 cannot be forced this way; the connection is an idle one
			core.Count("gate-ineffective")
			plans[k].release()
			pt = "idle"
			sc.pts[k] = "idle"
		}
		var sent int64
		for i := 0; i < sc.x[k]; i++ {
			b := cl.reqBytes(false)
			sent += int64(len(b))
			if err := cl.sendFull(false); err != nil {
				v.set("c07:harness", "send: %v", err)
				return w.log.snapshot(), v, counted
			}
			want := int32(i + 1)
			if !poll(stepDeadline, func() bool { return atomic.LoadInt32(&cl.resps) >= want }) {
				v.set("c07:no-progress:warmup", "connection %d: no complete response to warm-up exchange %d", k, i)
				return w.log.snapshot(), v, counted
			}
		}
		switch pt {
		case "idle":
			if !serverIdle(k, sent) {
				v.set("c07:no-progress:idle", "connection %d: handler did not reach the request read", k)
				return w.log.snapshot(), v, counted
			}
		case "phead":
			// pipelining: one more complete request and the first half of the next head in ONE write, so that
			// the fragment is already in the proxy's read buffer when the exchange is over
			full := cl.reqBytes(false)
			w.log.add("snd:%d:f:0", k)
			cl.sent(false)
			cl.seq++
			next := cl.reqBytes(false)
			part := next[:len(next)/2]
			w.log.add("snd:%d:p", k)
			cl.c.SetWriteDeadline(time.Now().Add(stepDeadline))
			cl.c.Write(append(append([]byte{}, full...), part...))
			want := int32(sc.x[k] + 1)
			if !poll(stepDeadline, func() bool { return atomic.LoadInt32(&cl.resps) >= want }) {
				v.set("c07:no-progress:phead", "connection %d: no complete response to the pipelined exchange", k)
				return w.log.snapshot(), v, counted
			}
			if !serverIdle(k, sent+int64(len(full)+len(part))) {
				v.set("c07:no-progress:phead", "connection %d: handler did not read the pipelined partial head", k)
				return w.log.snapshot(), v, counted
			}
		case "head":
			b := cl.reqBytes(false)
			part := b[:len(b)/2]
			w.log.add("snd:%d:p", k)
			cl.c.Write(part)
			if !serverIdle(k, sent+int64(len(part))) {
				v.set("c07:no-progress:head", "connection %d: handler did not read the partial head", k)
				return w.log.snapshot(), v, counted
			}
		case "h2s": // the HTTP/2 session is up (connect)
		case "mpeek": // MITM: the 200 of the CONNECT arrives; the client stays silent
			if err := cl.sendConnect(fmt.Sprintf("m%d.c07.test:443", k)); err != nil {
				v.set("c07:harness", "send: %v", err)
				return w.log.snapshot(), v, counted
			}
			if !poll(stepDeadline, func() bool { return atomic.LoadInt32(&cl.cresps) >= 1 }) || atomic.LoadInt32(&cl.cstatus) != 200 {
				v.set("c07:no-progress:mpeek", "connection %d: CONNECT was not answered 200", k)
				return w.log.snapshot(), v, counted
			}
		case "tunnel", "cdial", "creqmod", "cresmod":
			if err := cl.sendConnect(fmt.Sprintf("t%d.c07.test:443", k)); err != nil {
				v.set("c07:harness", "send: %v", err)
				return w.log.snapshot(), v, counted
			}
			ok := true
			if pt == "tunnel" { // the tunnel is up once bytes have gone through it and back
				ok = poll(stepDeadline, func() bool { return atomic.LoadInt32(&cl.cresps) >= 1 }) &&
					atomic.LoadInt32(&cl.cstatus) == 200 && cl.echo(16)
			} else {
				ok = waitCh(plans[k].parked, stepDeadline)
			}
			if !ok {
				v.set("c07:no-progress:"+pt, "connection %d: CONNECT did not reach %s", k, pt)
				return w.log.snapshot(), v, counted
			}
		default:
			var err error
			sentAt[k] = time.Now()
			if u := sc.upload[k]; u >= 7 {
				cl.bodyRead = true
				err = cl.sendUpload([]int{1, 3}[u-7], sc.q[k])
				cl.upIdx = -1 // the rest follows during the round trip (release), not after the response
			} else if u > 0 {
				cl.upLeave = u > 3
				err = cl.sendUpload((u-1)%3+1, sc.q[k])
			} else {
				err = cl.sendFull(sc.q[k])
			}
			if err != nil {
				v.set("c07:harness", "send: %v", err)
				return w.log.snapshot(), v, counted
			}
			ok := true
			switch pt {
			case "rbody": // origin has sent half, exchange parked in the response modifier
				ok = waitCh(plans[k].oparked, stepDeadline) && waitCh(plans[k].parked, stepDeadline)
			case "wbody": // origin has sent half, the proxy is past the response modifier and relays the body
				ok = waitCh(plans[k].oparked, stepDeadline) && waitCh(plans[k].rmDone, stepDeadline) && (!headFlushes || writeBegun(k))
			default:
				ok = waitCh(plans[k].parked, stepDeadline)
			}
			if !ok {
				v.set("c07:no-progress:"+pt, "connection %d: exchange did not reach %s", k, pt)
				return w.log.snapshot(), v, counted
			}
		}
		counted[k] = true // its handler has read from the connection, hence passed conns.Add(1)
	}

	// 2. shutdown
	ret := make(chan struct{})
	var retOnce sync.Once
	for i := 0; i < sc.nclose; i++ {
		w.log.add("call")
		go func() {
			defer func() {
				if x := recover(); x != nil {
					if e, ok := x.(error); ok && strings.Contains(e.Error(), "close of closed channel") {
						w.log.add("panic") // a further caller of Close(): outside the statement, compared with the model
					} else {
						w.log.add("bad:-1:close-panic")
					}
				}
			}()
			w.p.Close()
			w.log.add("ret")
			retOnce.Do(func() { close(ret) })
		}()
	}
	if !poll(stepDeadline, w.p.Closing) {
		v.set("c07:no-progress:closing", "Closing() not true %v after Close() was called", stepDeadline)
		return w.log.snapshot(), v, counted
	}
	w.log.add("obs")
	for k := 0; k < n; k++ {
		if sc.pts[k] == "late" {
			if !connect(k) {
				// the listener may already be closed by Serve: then nothing was accepted
				v = verdict{}
				clients[k] = nil
				break
			}
			clients[k].sendFull(false) // tempt the proxy to serve it
		}
	}

	if sc.delay > 0 {
		time.Sleep(time.Duration(sc.delay) * time.Microsecond)
	}
	if sc.park > 0 {
		time.Sleep(time.Duration(sc.park) * time.Millisecond) // Close() is pending, the exchanges stay parked
	}

	// 3. releases, in the given order
	var stalled []int
	for _, k := range sc.order {
		switch sc.pts[k] {
		case "idle", "late":
		case "head", "phead":
			// shutdown in the middle of a request head closes the connection as it is: the handler must not wait
			// for the rest of the head (nor for the client to go away). Only then does the client send the rest.
			if !waitCh(w.byIdx[k].closed, stepDeadline) {
				v.set("c07:conn-not-closed", "connection %d (%s: half of a request head received) was not closed within %v of shutdown while the head was still incomplete", k, sc.pts[k], stepDeadline)
			}
			b := clients[k].reqBytes(false)
			w.log.add("snd:%d:f:0", k) // the request is complete now (too late: the handler has given up)
			clients[k].c.SetWriteDeadline(time.Now().Add(time.Second))
			clients[k].c.Write(b[len(b)/2:])
		case "gate":
			select {
			case <-ret:
			case <-time.After(3 * time.Millisecond): // let Close reach conns.Wait (it then holds connsMu)
			}
			w.log.add("open:%d", k)
			plans[k].release()
		case "tunnel", "mpeek":
			// an open tunnel ends when its peers are done: the target (q=1) or the client leaves
			if sc.pts[k] == "tunnel" && sc.q[k] {
				w.log.add("tcl:%d", k)
				w.closeTarget(k)
			} else {
				clients[k].goneAway("tcl")
			}
			if !waitCh(w.byIdx[k].closed, stepDeadline) {
				v.set("c07:conn-not-closed", "connection %d (%s) was not closed within %v of its tunnel's peer leaving", k, sc.pts[k], stepDeadline)
			}
		case "h2s":
			// the session was handed the closing channel: it ends by itself, no peer has to do anything
			if !waitCh(w.byIdx[k].closed, stepDeadline) {
				w.log.add("h2alive:%d", k) // not in the model's alphabet: the model says the session stops
				clients[k].goneAway("tcl")
				if !waitCh(w.byIdx[k].closed, stepDeadline) {
					v.set("c07:conn-not-closed", "connection %d (HTTP/2 session) was not closed within %v of its client leaving", k, stepDeadline)
				}
			}
		case "cdial", "creqmod", "cresmod":
			w.log.add("open:%d", k)
			plans[k].release()
			cl := clients[k]
			if poll(stepDeadline, func() bool { return atomic.LoadInt32(&cl.cresps) >= 1 }) && atomic.LoadInt32(&cl.cstatus) == 200 {
				// the tunnel opens although shutdown has begun; the client uses it once and leaves
				core.Count("tunnel-opened-during-shutdown")
				cl.echo(16)
				cl.goneAway("tcl")
			}
			if !waitCh(w.byIdx[k].closed, stepDeadline) {
				v.set("c07:conn-not-closed", "connection %d (CONNECT parked in %s) was not closed within %v of its release during shutdown", k, sc.pts[k], stepDeadline)
			}
		default:
			if sc.tmo > 0 && !sentAt[k].IsZero() && 2*time.Since(sentAt[k]) > time.Duration(sc.tmo)*time.Millisecond {
				// the exchange has outlasted (or is about to outlast) the idle deadline the APPLICATION configured
				// with SetTimeout: handleLoop armed it on the client connection before reading the request, so the
				// response write will fail with a timeout — the environment's doing, like a client that went away
				w.log.add("tmo:%d", k)
			}
			w.log.add("open:%d", k)
			plans[k].release()
			if sc.upload[k] >= 7 {
				// the upload goes on during the round trip, after shutdown was requested
				w.log.add("snd:%d:t", k)
				clients[k].c.SetWriteDeadline(time.Now().Add(stepDeadline))
				clients[k].c.Write(clients[k].upTail)
			}
			if sc.pts[k] == "rbody" {
				// the response modifier returns; the proxy relays what it has; then the origin sends the rest
				if headFlushes {
					writeBegun(k)
				} else {
					time.Sleep(time.Millisecond)
				}
				w.log.add("open:%d", k)
				plans[k].orelease()
			}
			if sc.stalls(k) {
				stalled = append(stalled, k) // its client is not reading: it is drained after the stall
				continue
			}
			if !waitCh(connClosed(k), 2*stepDeadline) {
				v.set("c07:conn-not-closed", "connection %d (parked in %s) was not closed within %v of its release during shutdown", k, sc.pts[k], 2*stepDeadline)
			}
		}
	}

	// 3b. the clients of the stalled connections have not been reading for sc.stall ms (longer than any
	// deadline a proxy could plausibly put on a draining connection); now they read everything
	if len(stalled) > 0 {
		time.Sleep(time.Duration(sc.stall) * time.Millisecond)
		for _, k := range stalled {
			// was the writer really blocked (response larger than what the socket buffers absorb)?
			if sc.inTunnel(k) {
				core.Count("stall:inside-mitm-tunnel-writes-unobserved")
			} else if int(atomic.LoadInt32(&w.byIdx[k].wdone)) <= sc.x[k] {
				core.Count("stall:writer-blocked")
			} else {
				core.Count("stall:absorbed-by-socket-buffers")
			}
		}
		w.log.add("resume")
		for _, k := range stalled {
			if sc.abort {
				clients[k].goneAway("cx") // the client gives up on the response instead of reading it
			}
			clients[k].resume()
		}
		for _, k := range stalled {
			if !waitCh(w.byIdx[k].closed, 3*stepDeadline) {
				v.set("c07:conn-not-closed", "connection %d (parked in %s, client stalled %d ms) was not closed within %v of its client reading again", k, sc.pts[k], sc.stall, 3*stepDeadline)
			}
		}
	}

	// 4. settle
	if !waitCh(ret, stepDeadline) {
		v.set("c07:close-hang", "Close() did not return within %v after every parked exchange was released", stepDeadline)
	}
	for k := 0; k < len(w.byIdx) && k < n; k++ {
		d := stepDeadline
		if v.fail != "" {
			d = 200 * time.Millisecond
		}
		if !sc.raw && !waitCh(w.byIdx[k].closed, d) {
			v.set("c07:conn-not-closed", "connection %d (%s) was never closed by its handler", k, sc.pts[k])
		}
		if clients[k] != nil && !waitCh(clients[k].eof, d) {
			v.set("c07:conn-not-closed", "client of connection %d (%s) saw no EOF", k, sc.pts[k])
		}
	}
	return w.log.snapshot(), v, counted
}

// ---- the property oracle, over the event log only ----

type ev struct {
	kind string
	k    int
	arg  string
}

func parseEv(s string) ev {
	f := strings.Split(s, ":")
	e := ev{kind: f[0], k: -1}
	if len(f) > 1 {
		if n, err := strconv.Atoi(f[1]); err == nil {
			e.k = n
		}
	}
	if len(f) > 2 {
		e.arg = strings.Join(f[2:], ":")
	}
	return e
}

// judge evaluates C07 over the log. counted[k]: the handler of connection k read from it before
// Close() was called (event rd:k), so it had passed conns.Add.
func judge(trace []string) (v verdict, early bool) {
	counted := map[int]bool{}
	evs := make([]ev, len(trace))
	posRet, posObs, posCall := -1, -1, -1
	rawMode := false // no server-side observer: only the modifiers and the clients speak
	for i, s := range trace {
		evs[i] = parseEv(s)
		switch evs[i].kind {
		case "raw":
			rawMode = true
		case "ret":
			posRet = i
		case "obs":
			posObs = i
		case "call":
			if posCall < 0 {
				posCall = i
			}
		}
	}
	type cs struct {
		acc, cc, eof, rd   int
		rqs, we, resp, rme []int
		marks              []string
		ws                 int
		bad                string
		kinds              []bool // per complete request sent: CONNECT?
		cresp, hj          int    // responses to CONNECT seen by the client; exchanges a modifier hijacked
		cx, tls            bool   // the client gave up during a response write; the client runs TLS inside a MITM'd tunnel
	}
	conns := map[int]*cs{}
	get := func(k int) *cs {
		if conns[k] == nil {
			conns[k] = &cs{acc: -1, cc: -1, eof: -1, rd: -1}
		}
		return conns[k]
	}
	for i, e := range evs {
		if e.kind == "bad" {
			if e.k < 0 {
				v.set("c07:panic", "%s", trace[i])
				continue
			}
			c := get(e.k)
			if c.bad == "" {
				c.bad = e.arg
			}
			continue
		}
		if e.k < 0 {
			continue
		}
		c := get(e.k)
		switch e.kind {
		case "acc":
			c.acc = i
		case "rd":
			c.rd = i
			if posCall < 0 || i < posCall {
				counted[e.k] = true
			}
		case "cc":
			c.cc = i
		case "eof":
			c.eof = i
		case "rtx":
			if c.bad == "" {
				c.bad = "round trip abandoned by the proxy (" + e.arg + ") although the origin answers"
			}
		case "rqs":
			c.rqs = append(c.rqs, i)
		case "rme":
			c.rme = append(c.rme, i)
		case "we":
			c.we = append(c.we, i)
		case "ws":
			c.ws++
		case "resp":
			c.resp = append(c.resp, i)
			c.marks = append(c.marks, e.arg)
		case "snd":
			if e.arg == "c" {
				c.kinds = append(c.kinds, true)
			} else if strings.HasPrefix(e.arg, "f") || strings.HasPrefix(e.arg, "u") {
				c.kinds = append(c.kinds, false)
			}
		case "cresp":
			c.cresp++
		case "h2":
			c.tls = true
		case "hj":
			c.hj++
		case "cx", "tmo":
			c.cx = true
		case "tls":
			c.tls = true
		}
	}
	var ks []int
	for k := range conns {
		ks = append(ks, k)
	}
	sort.Ints(ks)
	for _, k := range ks {
		c := conns[k]
		if c.acc < 0 {
			continue
		}
		// every exchange whose request modifier started gets its complete response before the close
		if c.bad != "" {
			v.set("c07:incomplete-response", "connection %d: %s (request modifier started %d times, %d complete responses)", k, c.bad, len(c.rqs), len(c.resp))
		}
		// exchanges that are not owed a response by the proxy: a modifier hijacked the connection; the
		// client itself gave up while the response was being written (at most the one in flight)
		got := len(c.resp) + c.cresp + c.hj
		if got != len(c.rqs) && !(c.cx && got+1 == len(c.rqs)) {
			v.set("c07:incomplete-response", "connection %d: request modifier started %d times but the client received %d complete responses (%d of them to CONNECT; %d exchanges hijacked)", k, len(c.rqs), len(c.resp)+c.cresp, c.cresp, c.hj)
		}
		nwe := 0
		for _, p := range c.we {
			if c.cc < 0 || p < c.cc {
				nwe++
			}
		}
		// (inside a MITM'd tunnel the server-side writes are TLS records: only the client side is observed)
		if !c.tls && !rawMode && nwe+c.hj != len(c.rqs) && !(c.cx && nwe+c.hj+1 == len(c.rqs)) {
			v.set("c07:incomplete-response", "connection %d: closed with %d responses completely written for %d started exchanges", k, nwe, len(c.rqs))
		}
		// marked connection-close whenever shutdown was observable at the close decision (the i-th return
		// of the response modifier belongs to the i-th request; responses to CONNECT open a tunnel and are
		// not subject to the marking rule)
		mi := 0
		for i, p := range c.rme {
			if i < len(c.kinds) && c.kinds[i] {
				continue
			}
			if posObs >= 0 && p > posObs && mi < len(c.marks) && c.marks[mi] != "1" {
				v.set("c07:unmarked-response", "connection %d exchange %d: response modifier returned after shutdown was observable, response not marked Connection: close", k, i)
			}
			mi++
		}
		// no request modifier starts after Close has returned
		for _, p := range c.rqs {
			if posRet >= 0 && p > posRet {
				v.set("c07:reqmod-after-return", "connection %d: request modifier started after Close() had returned", k)
			}
		}
		// connections accepted after shutdown began are closed without being served
		// ("served" starts with the handler reading a request from the connection)
		if posObs >= 0 && c.acc > posObs && (len(c.rqs) > 0 || c.ws > 0 || c.rd >= 0) {
			v.set("c07:late-conn-served", "connection %d was accepted after shutdown was observable; its handler went on to serve it (request reads: %v, request modifier starts: %d, responses: %d)", k, c.rd >= 0, len(c.rqs), c.ws)
		}
		// Close returns only after every accepted connection has been closed by its handler
		if !rawMode && posRet >= 0 && c.acc < posRet && (c.cc < 0 || c.cc > posRet) {
			early = true
			if counted[k] {
				v.set("c07:close-returned-before-counted-handler-done", "Close() returned while connection %d, whose handler was already serving it, was not closed", k)
			} else {
				v.set("c07:close-returned-before-uncounted-conn-closed", "Close() returned while connection %d, accepted before the return but whose handler had not yet executed conns.Add(1), was still open; it was closed afterwards", k)
			}
		}
	}
	return v, early
}

func render(trace []string) string {
	var b strings.Builder
	b.WriteString("trace")
	for _, t := range trace {
		e := parseEv(t)
		switch e.kind {
		case "open", "head", "bad", "resume", "raw": // not part of the model's alphabet (bad: oracle only)
			continue
		}
		if strings.Contains(t, "@") { // client event of a connection that was never accepted
			continue
		}
		b.WriteByte(' ')
		b.WriteString(t)
	}
	return b.String()
}

func implLine(trace []string, early bool) string {
	n := len(strings.Fields(render(trace))) - 1
	e := 0
	if early {
		e = 1
	}
	return fmt.Sprintf("ok n=%d early=%d", n, e)
}

// renumber: connections are numbered in the order the proxy accepted them — the h history connections
// (logged as histBase+j) first, then the scenario's own.
func renumber(trace []string, h int) []string {
	if h == 0 {
		return trace
	}
	out := make([]string, len(trace))
	for i, t := range trace {
		f := strings.SplitN(t, ":", 3)
		if len(f) >= 2 {
			if k, err := strconv.Atoi(f[1]); err == nil && k >= 0 {
				if k >= histBase {
					k -= histBase
				} else {
					k += h
				}
				f[1] = strconv.Itoa(k)
				t = strings.Join(f, ":")
			}
		}
		out[i] = t
	}
	return out
}

type ex struct{}

func (P) NewExec() core.Exec { return &ex{} }
func (e *ex) Close()         {}

// hangs counts scenarios that ended in a deadline (something did not happen). After a few of them the
// remaining scenarios of the run are skipped: each costs several deadlines, the failing inputs are
// already recorded, and the check must stay bounded when the proxy hangs systematically.
var hangs int32

func isHang(sig string) bool {
	return sig == "c07:close-hang" || sig == "c07:conn-not-closed" || strings.HasPrefix(sig, "c07:no-progress")
}

func (e *ex) Do(op string) core.Result {
	if atomic.LoadInt32(&hangs) >= 6 && (strings.HasPrefix(op, "scn ") || strings.HasPrefix(op, "race ")) {
		core.Count("skipped-after-repeated-hangs")
		return core.Result{Impl: "skipped", SkipModel: true}
	}
	r := e.do(op)
	if isHang(r.Sig) {
		atomic.AddInt32(&hangs, 1)
	}
	return r
}

func (e *ex) do(op string) core.Result {
	switch {
	case strings.HasPrefix(op, "scn "):
		sc, ok := parseScn(op)
		if !ok {
			return core.Result{Impl: "bad-op", SkipModel: true}
		}
		trace, v, counted := runScenario(sc)
		trace = renumber(trace, sc.hist)
		_ = counted
		jv, early := judge(trace)
		if jv.fail != "" {
			v = jv
		}
		for _, pt := range sc.pts {
			core.Count("point:" + pt)
		}
		core.Count(fmt.Sprintf("conns:%d", len(sc.pts)))
		if sc.real {
			core.Count("real-transport")
			if sc.chunk {
				core.Count("real-transport:chunked")
			}
		}
		if early {
			core.Count("close-returned-early")
		}
		if sc.mitm {
			core.Count("mitm")
		}
		if sc.abort {
			core.Count("client-abort")
		}
		if sc.stall > 0 && !sc.abort {
			core.Count("client-stall")
		}
		core.Count(fmt.Sprintf("close-callers:%d", sc.nclose))
		detail := v.fail
		if detail != "" {
			detail += " | trace: " + strings.Join(trace, " ")
		}
		if os.Getenv("C07_TRACE") != "" {
			fmt.Fprintln(os.Stderr, "C07_TRACE", op, "|", strings.Join(trace, " "))
		}
		if sc.raw {
			core.Count("raw-tcp-conn")
		}
		if sc.rchunk > 0 {
			core.Count("slow-reader")
		}
		for k, pv := range sc.proto {
			if pv > 0 {
				core.Count(fmt.Sprintf("origin-answer-http10:%s:%d", sc.pts[k], pv))
			}
		}
		if sc.hist > 0 {
			core.Count(fmt.Sprintf("history:%d-conns-%d-exchanges", sc.hist, sc.hexch))
		}
		if sc.tmo > 0 {
			core.Count(fmt.Sprintf("proxy-timeout:%dms:parked-%dx", sc.tmo, sc.park/sc.tmo))
		}
		for k, u := range sc.upload {
			if u > 0 {
				core.Count(fmt.Sprintf("open-request-body:%s:%d", sc.pts[k], u))
			}
		}
		for k, f := range sc.fault {
			if f > 0 {
				core.Count(fmt.Sprintf("origin-fault:%s:%d", sc.pts[k], f))
			}
		}
		// without server-side events (raw mode) the trace cannot be validated against the model: oracle only
		return core.Result{Impl: implLine(trace, early), Fail: detail, Sig: v.sig, ModelOp: render(trace), SkipModel: sc.raw}
	case strings.HasPrefix(op, "race "):
		return doRace(op)
	}
	return core.Result{Impl: "bad-op", SkipModel: true}
}

// ---- race: N clients against Close ----

func doRace(op string) core.Result {
	nc, delay := 4, 0
	for _, t := range strings.Fields(op)[1:] {
		kv := strings.SplitN(t, "=", 2)
		if len(kv) != 2 {
			return core.Result{Impl: "bad-op", SkipModel: true}
		}
		n, err := strconv.Atoi(kv[1])
		if err != nil || n < 0 || n > 1000000 {
			return core.Result{Impl: "bad-op", SkipModel: true}
		}
		switch kv[0] {
		case "c":
			nc = n
		case "d":
			delay = n
		default:
			return core.Result{Impl: "bad-op", SkipModel: true}
		}
	}
	if nc > 64 {
		nc = 64
	}
	w, err := newWorld(32, nil)
	if err != nil {
		return core.Result{Impl: "harness-error", Fail: err.Error(), Sig: "c07:harness", SkipModel: true}
	}
	var v verdict
	var wg sync.WaitGroup
	var cmu sync.Mutex
	var clients []*client
	for i := 0; i < nc; i++ {
		wg.Add(1)
		go func(i int) {
			defer wg.Done()
			cl, err := w.dial()
			if err != nil {
				return
			}
			cmu.Lock()
			clients = append(clients, cl)
			cmu.Unlock()
			go cl.reader()
			for j := 0; j < 1+i%3; j++ {
				if cl.sendFull(false) != nil {
					break
				}
				want := int32(j + 1)
				if !poll(2*time.Second, func() bool {
					select {
					case <-cl.eof:
						return true
					default:
					}
					return atomic.LoadInt32(&cl.resps) >= want
				}) {
					break
				}
			}
			waitCh(cl.eof, stepDeadline)
		}(i)
	}
	time.Sleep(time.Duration(delay) * time.Microsecond)
	ret := make(chan struct{})
	w.log.add("call")
	go func() {
		defer func() {
			if x := recover(); x != nil {
				w.log.add("bad:-1:close-panic")
			}
		}()
		w.p.Close()
		w.log.add("ret")
		close(ret)
	}()
	if !waitCh(ret, stepDeadline) {
		v.set("c07:close-hang", "Close() did not return within %v with %d racing clients", stepDeadline, nc)
	}
	done := make(chan struct{})
	go func() { wg.Wait(); close(done) }()
	// every accepted connection is closed by its handler
	poll(stepDeadline, func() bool {
		w.mu.Lock()
		defer w.mu.Unlock()
		for _, sc := range w.byIdx {
			select {
			case <-sc.closed:
			default:
				return false
			}
		}
		return true
	})
	w.ln.Close()
	waitCh(w.serveDone, stepDeadline)
	if !waitCh(done, 2*stepDeadline) {
		v.set("c07:conn-not-closed", "a racing client saw neither a response nor EOF")
	}
	cmu.Lock()
	for _, cl := range clients {
		cl.c.Close()
	}
	cmu.Unlock()
	raw := w.log.snapshot()
	// resolve client keys (@addr) to connection indices
	idx := map[string]int{}
	w.mu.Lock()
	for a, sc := range w.conns {
		idx[a] = sc.k
	}
	unclosed := -1
	for _, sc := range w.byIdx {
		select {
		case <-sc.closed:
		default:
			unclosed = sc.k
		}
	}
	w.mu.Unlock()
	if unclosed >= 0 {
		v.set("c07:conn-not-closed", "connection %d was accepted but never closed by its handler", unclosed)
	}
	trace := make([]string, 0, len(raw))
	for _, t := range raw {
		if i := strings.Index(t, "@"); i >= 0 {
			rest := t[i+1:]
			// the address itself contains ':' — it ends at the next ':' after the port
			f := strings.SplitN(rest, ":", 3)
			addr := f[0]
			tail := ""
			if len(f) >= 2 {
				addr = f[0] + ":" + f[1]
			}
			if len(f) == 3 {
				tail = ":" + f[2]
			}
			if k, ok := idx[addr]; ok {
				t = t[:i] + strconv.Itoa(k) + tail
			}
		}
		trace = append(trace, t)
	}
	// a client's send may be logged before the accept of its connection: the model only needs the sends
	// to precede the request read, so move every accept in front of the first event of its connection
	trace = hoistAccepts(trace)
	jv, early := judge(trace)
	if v.fail == "" {
		v = jv
	}
	started := 0
	for _, t := range trace {
		if strings.HasPrefix(t, "rqs:") {
			started = 1
		}
	}
	core.Count(fmt.Sprintf("race-started:%d", started))
	if early {
		core.Count("close-returned-early")
	}
	detail := v.fail
	if detail != "" {
		detail += " | trace: " + strings.Join(trace, " ")
	}
	// the model driver keeps one candidate state per way of placing the invisible steps: beyond 6
	// simultaneously racing handlers that set is too large, the op is then judged by the oracle only
	return core.Result{Impl: implLine(trace, early) + fmt.Sprintf(" started=%d", started), Fail: detail, Sig: v.sig,
		ModelOp: render(trace) + fmt.Sprintf(" started=%d", started), SkipModel: nc > 6}
}

// hoistAccepts keeps the relative order of all accepts (the acceptor is sequential) and of all other
// events, and delays client sends of connection k until just after acc:k. Sends are environment
// moves; delaying them is sound for acceptance because the proxy cannot have reacted to bytes of a
// connection it had not accepted.
func hoistAccepts(trace []string) []string {
	accepted := map[int]bool{}
	pending := map[int][]string{}
	var out []string
	for _, t := range trace {
		e := parseEv(t)
		if e.kind == "acc" {
			accepted[e.k] = true
			out = append(out, t)
			out = append(out, pending[e.k]...)
			delete(pending, e.k)
			continue
		}
		if e.kind == "snd" && e.k >= 0 && !accepted[e.k] {
			pending[e.k] = append(pending[e.k], t)
			continue
		}
		out = append(out, t)
	}
	return out
}

// ---- generator ----

func join(xs []int) string {
	s := make([]string, len(xs))
	for i, x := range xs {
		s[i] = strconv.Itoa(x)
	}
	return strings.Join(s, ",")
}

func perms(n int) [][]int {
	if n == 1 {
		return [][]int{{0}}
	}
	var out [][]int
	for _, p := range perms(n - 1) {
		for i := 0; i <= len(p); i++ {
			q := append(append(append([]int{}, p[:i]...), n-1), p[i:]...)
			out = append(out, q)
		}
	}
	return out
}

func scnOp(pts []string, x, q, s, o []int, body int) string {
	return fmt.Sprintf("scn p=%s x=%s q=%s s=%s o=%s b=%d", strings.Join(pts, ","), join(x), join(q), join(s), join(o), body)
}

func randScn(r *core.Rand, special bool) string {
	n := r.Range(1, 3)
	pts := make([]string, n)
	x, q, s := make([]int, n), make([]int, n), make([]int, n)
	for i := range pts {
		pts[i] = points[r.Intn(len(points))]
		if r.Chance(1, 3) {
			x[i] = r.Range(1, 2)
		}
		if r.Chance(1, 6) {
			q[i] = 1
		}
		if r.Chance(1, 6) {
			s[i] = 1
		}
	}
	if special {
		pts[n-1] = r.Pick("gate", "late")
		x[n-1], q[n-1], s[n-1] = 0, 0, 0
	}
	ps := perms(n)
	body := []int{0, 1, 64, 64, 5000, 70000}[r.Intn(6)]
	return scnOp(pts, x, q, s, ps[r.Intn(len(ps))], body)
}

// real-transport scenarios (t=1): points of the upstream phase first
var realPoints = []string{"rt", "rbody", "wbody", "rt", "rbody", "wbody", "reqmod", "resmod", "write", "idle", "head", "phead"}

func realOp(pts []string, x, q, s, o []int, body, chunked, delay int) string {
	return scnOp(pts, x, q, s, o, body) + fmt.Sprintf(" t=1 te=%d d=%d", chunked, delay)
}

func randReal(r *core.Rand) string {
	n := 1
	if r.Chance(1, 3) {
		n = r.Range(2, 3)
	}
	pts := make([]string, n)
	x, q, s := make([]int, n), make([]int, n), make([]int, n)
	for i := range pts {
		pts[i] = realPoints[r.Intn(len(realPoints))]
		if r.Chance(1, 3) {
			x[i] = r.Range(1, 2)
		}
		if r.Chance(1, 6) {
			q[i] = 1
		}
		if r.Chance(1, 6) {
			s[i] = 1
		}
	}
	ps := perms(n)
	body := []int{0, 1, 64, 5000, 20000, 70000, 70000}[r.Intn(7)]
	for _, p := range pts {
		if body == 0 && (p == "rbody" || p == "wbody") {
			body = 1
		}
	}
	return realOp(pts, x, q, s, ps[r.Intn(len(ps))], body, r.Intn(2), []int{0, 200, 2000, 2000}[r.Intn(4)])
}

// realGrid: every upstream point × framing × body size × warm-up, one connection.
func realGrid(emit func(ops []string), full bool) {
	bodies := []int{64, 70000}
	xs := []int{0}
	if full {
		bodies = []int{0, 1, 64, 5000, 20000, 70000}
		xs = []int{0, 1, 2}
	}
	for _, p := range []string{"reqmod", "rt", "rbody", "wbody", "resmod", "write"} {
		for te := 0; te < 2; te++ {
			for _, b := range bodies {
				if b == 0 && (p == "rbody" || p == "wbody") {
					continue
				}
				for _, x := range xs {
					emit([]string{realOp([]string{p}, []int{x}, []int{0}, []int{0}, []int{0}, b, te, 2000)})
				}
			}
		}
	}
}

// extended point sets of round 3
var (
	blindPoints = []string{"idle", "head", "reqmod", "rt", "resmod", "write", "phead", "tunnel", "cdial", "creqmod", "cresmod", "hjq", "hjs"}
	mitmPoints  = []string{"idle", "head", "reqmod", "rt", "resmod", "write", "phead", "mpeek", "hjq", "hjs", "h2s"}
)

func extOp(pts []string, x, q, s, o []int, body int, mitm bool, ncl int) string {
	op := scnOp(pts, x, q, s, o, body)
	if mitm {
		op += " m=1"
	}
	if ncl > 1 {
		op += fmt.Sprintf(" cl=%d", ncl)
	}
	return op
}

// randExt: 1..3 connections over the extended point sets (tunnels, MITM, hijack), 1..3 callers of Close.
func randExt(r *core.Rand) string {
	n := r.Range(1, 3)
	mitm := r.Chance(2, 5)
	pool := blindPoints
	if mitm {
		pool = mitmPoints
	}
	pts := make([]string, n)
	x, q, s := make([]int, n), make([]int, n), make([]int, n)
	for i := range pts {
		if r.Chance(1, 2) {
			pts[i] = pool[6+r.Intn(len(pool)-6)] // the new points
		} else {
			pts[i] = pool[r.Intn(len(pool))]
		}
		if r.Chance(1, 3) && pts[i] != "h2s" {
			x[i] = r.Range(1, 2)
		}
		if r.Chance(1, 5) {
			q[i] = 1
		}
		if r.Chance(1, 5) {
			s[i] = 1
		}
	}
	if r.Chance(1, 6) {
		pts[n-1] = r.Pick("gate", "late")
		x[n-1], q[n-1], s[n-1] = 0, 0, 0
	}
	ps := perms(n)
	body := []int{0, 64, 64, 5000, 70000}[r.Intn(5)]
	ncl := []int{1, 1, 1, 2, 3}[r.Intn(5)]
	return extOp(pts, x, q, s, ps[r.Intn(len(ps))], body, mitm, ncl)
}

// faultScn: the six progress points (and the pipelined head) × ORIGIN FAULTS. On 1..3 connections the origin of
// one exchange fails — connection closed before any answer (dial refused / reset), truncated response head,
// timeout — with the stub round tripper (released with an error), the real transport against the raw origin,
// or inside MITM'd tunnels. The exchange concerned is the parked one (shutdown before, during or after its
// failing round trip) or, for a connection found reading, the last one served. At least one connection has
// shutdown placed before its failing round trip returns.
func faultScn(r *core.Rand) string {
	n := r.Range(1, 3)
	pool := []string{"reqmod", "rt", "reqmod", "rt", "resmod", "write", "idle", "head", "phead"}
	pts := make([]string, n)
	x, q, s, f := make([]int, n), make([]int, n), make([]int, n), make([]int, n)
	for i := range pts {
		pts[i] = pool[r.Intn(len(pool))]
		if r.Chance(1, 3) {
			x[i] = r.Range(1, 2)
		}
		if r.Chance(1, 6) {
			q[i] = 1
		}
		if r.Chance(2, 3) {
			f[i] = r.Range(1, 3)
			switch pts[i] {
			case "idle", "head", "phead":
				if x[i] == 0 {
					x[i] = 1 // the failed exchange is the last warm-up
				}
			}
		}
	}
	k := r.Intn(n)
	pts[k], f[k] = r.Pick("reqmod", "rt"), r.Range(1, 3)
	ps := perms(n)
	op := scnOp(pts, x, q, s, ps[r.Intn(len(ps))], []int{0, 64, 5000, 70000}[r.Intn(4)]) + " f=" + join(f)
	switch r.Intn(4) {
	case 0:
		op += fmt.Sprintf(" t=1 te=%d d=%d", r.Intn(2), []int{0, 500, 2000}[r.Intn(3)])
	case 1:
		op += " m=1"
	}
	return op
}

// faultGrid: shutdown before / during the failing round trip × fault kind × stub / real transport × warm-up.
func faultGrid(emit func(ops []string)) {
	for _, p := range []string{"reqmod", "rt"} {
		for f := 1; f <= 3; f++ {
			for x := 0; x <= 1; x++ {
				op := scnOp([]string{p}, []int{x}, []int{0}, []int{0}, []int{0}, 64) + fmt.Sprintf(" f=%d", f)
				emit([]string{op})
				emit([]string{op + " t=1 te=0 d=500"})
			}
		}
	}
	for _, p := range []string{"resmod", "write", "idle", "phead"} { // the 502 is already on its way / served
		emit([]string{scnOp([]string{p}, []int{1}, []int{0}, []int{0}, []int{0}, 64) + " f=1"})
	}
	emit([]string{scnOp([]string{"rt"}, []int{1}, []int{0}, []int{0}, []int{0}, 64) + " f=2 m=1"})
}

// uploadScn: exchanges whose REQUEST BODY is incomplete when the response is ready × the progress points of an
// exchange × shutdown: the client of the parked exchange announced Content-Length 1000 and sent 400 bytes, or
// holds the whole body back behind Expect: 100-continue, or stopped in the middle of a chunk; the stub round
// tripper answers without reading the body. Having the complete response the client sends the rest (keep-alive
// response) or leaves (response marked close; or u>3: it gives the upload up in any case).
func uploadScn(r *core.Rand) string {
	n := r.Range(1, 3)
	pool := []string{"reqmod", "rt", "resmod", "write", "idle", "head"}
	pts := make([]string, n)
	x, q, s, u := make([]int, n), make([]int, n), make([]int, n), make([]int, n)
	for i := range pts {
		pts[i] = pool[r.Intn(len(pool))]
		if r.Chance(1, 3) {
			x[i] = r.Range(1, 2)
		}
		if r.Chance(1, 6) {
			q[i] = 1
		}
		if r.Chance(1, 6) {
			s[i] = 1
		}
	}
	k := r.Intn(n)
	pts[k] = pool[r.Intn(4)]
	for i := range pts {
		switch pts[i] {
		case "reqmod", "rt", "resmod", "write":
			if i == k || r.Chance(1, 2) {
				u[i] = r.Range(1, 6)
				if (pts[i] == "reqmod" || pts[i] == "rt") && r.Chance(1, 2) {
					u[i] = r.Range(7, 8) // the upload is still in flight during the round trip, which reads it
				}
			}
		}
	}
	ps := perms(n)
	op := scnOp(pts, x, q, s, ps[r.Intn(len(ps))], []int{0, 64, 5000, 70000}[r.Intn(4)]) + " u=" + join(u)
	switch r.Intn(5) {
	case 0:
		op += " m=1"
	case 1:
		op += " cl=2"
	}
	return op
}

// withHistory: the same scenario on a proxy that has already seen 1..3 connections come and go (each with 0..2
// exchanges), all of them closed before the connections under test are opened.
func withHistory(r *core.Rand, op string) string {
	if strings.Contains(op, " rw=1") {
		return op
	}
	return op + fmt.Sprintf(" hs=%d he=%d", r.Range(1, 3), r.Range(0, 2))
}

// inflightGrid: an upload that is still in flight when shutdown is requested and that the round tripper reads to
// the end — Content-Length / chunked × parked before / in the round trip × stub / real transport / MITM'd tunnel.
func inflightGrid(emit func(ops []string)) {
	for _, p := range []string{"reqmod", "rt"} {
		for u := 7; u <= 8; u++ {
			op := scnOp([]string{p}, []int{u - 7}, []int{0}, []int{0}, []int{0}, 64) + fmt.Sprintf(" u=%d", u)
			emit([]string{op})
			emit([]string{op + " t=1 te=0 d=500"})
			emit([]string{op + " m=1"})
		}
	}
}

// historyGrid: every one of the six points (and a tunnel, a hijacker) on a proxy with a history.
func historyGrid(emit func(ops []string)) {
	for i, p := range []string{"idle", "head", "reqmod", "rt", "resmod", "write", "tunnel", "hjq"} {
		emit([]string{scnOp([]string{p}, []int{0}, []int{0}, []int{0}, []int{0}, 64) + fmt.Sprintf(" hs=%d he=%d", 1+i%2, i%3)})
	}
	emit([]string{scnOp([]string{"rt", "reqmod"}, []int{0, 1}, []int{0, 0}, []int{0, 0}, []int{1, 0}, 64) + " hs=3 he=1 m=1"})
	emit([]string{scnOp([]string{"rt"}, []int{0}, []int{0}, []int{0}, []int{0}, 64) + " hs=2 he=2 t=1 te=1 d=0"})
}

func uploadGrid(emit func(ops []string)) {
	for _, p := range []string{"reqmod", "rt", "resmod", "write"} {
		for u := 1; u <= 3; u++ {
			emit([]string{scnOp([]string{p}, []int{0}, []int{0}, []int{0}, []int{0}, 64) + fmt.Sprintf(" u=%d", u)})
		}
		emit([]string{scnOp([]string{p}, []int{1}, []int{0}, []int{0}, []int{0}, 64) + fmt.Sprintf(" u=%d", 4+len(p)%3)})
	}
	emit([]string{scnOp([]string{"resmod"}, []int{1}, []int{0}, []int{0}, []int{0}, 64) + " u=2 m=1"})
	emit([]string{scnOp([]string{"rt"}, []int{0}, []int{1}, []int{0}, []int{0}, 64) + " u=1 rw=1"})
}

// timeoutScn: the proxy's CONFIGURATION during shutdown — SetTimeout small (300 ms .. 1 s), 1..3 exchanges parked
// in a modifier or the round tripper, and they stay parked 2–3 × the timeout while Close() is pending. Close()
// must keep waiting (no handler's progress depends on p.timeout while it is parked there); after the release the
// exchange proceeds, and its response write meets the expired idle deadline (tmo: the application's choice).
func timeoutScn(r *core.Rand, quick bool) string {
	n := r.Range(1, 3)
	pts := make([]string, n)
	x := make([]int, n)
	for i := range pts {
		pts[i] = r.Pick("reqmod", "rt", "resmod")
		if r.Chance(1, 3) {
			x[i] = 1
		}
	}
	ps := perms(n)
	to := []int{300, 500, 1000}[r.Intn(3)]
	if quick {
		to = []int{300, 400}[r.Intn(2)]
	}
	op := scnOp(pts, x, make([]int, n), make([]int, n), ps[r.Intn(len(ps))], []int{64, 5000}[r.Intn(2)])
	if r.Chance(1, 4) {
		op += " cl=2"
	}
	return op + fmt.Sprintf(" to=%d pk=%d", to, to*r.Range(2, 3))
}

// protoScn: response protocol versions × Connection tokens of the origin's answer in shutdown scenarios: the parked
// exchange is answered HTTP/1.0 with Connection: keep-alive (persistent, so not yet marked), HTTP/1.0 without it,
// HTTP/1.1, HTTP/1.1 with Connection: close (s=1) — by the stub (ProtoMajor/Minor, Close) or by the raw origin
// through the real transport. What the client receives must carry the close marking whenever shutdown was
// observable at the decision: for HTTP/1.0 that is an explicit `Connection: close` line (net/http writes it next
// to the origin's `keep-alive`, and every HTTP/1.0 reader then treats the response as the last one).
func protoScn(r *core.Rand) string {
	n := r.Range(1, 3)
	pool := []string{"reqmod", "rt", "resmod", "write", "idle", "head"}
	pts := make([]string, n)
	x, q, s, pv := make([]int, n), make([]int, n), make([]int, n), make([]int, n)
	for i := range pts {
		pts[i] = pool[r.Intn(len(pool))]
		if r.Chance(1, 3) {
			x[i] = r.Range(1, 2)
		}
		if r.Chance(1, 6) {
			q[i] = 1
		}
		if r.Chance(1, 5) {
			s[i] = 1
		}
	}
	pts[r.Intn(n)] = pool[r.Intn(3)]
	for i := range pts {
		switch pts[i] {
		case "reqmod", "rt", "resmod", "write":
			pv[i] = []int{1, 1, 2, 0}[r.Intn(4)]
		}
	}
	ps := perms(n)
	op := scnOp(pts, x, q, s, ps[r.Intn(len(ps))], []int{0, 64, 5000, 70000}[r.Intn(4)]) + " pv=" + join(pv)
	switch r.Intn(4) {
	case 0:
		op += fmt.Sprintf(" t=1 te=0 d=%d", []int{0, 500}[r.Intn(2)])
	case 1:
		op += " m=1"
	}
	return op
}

func protoGrid(emit func(ops []string)) {
	for _, p := range []string{"reqmod", "rt", "resmod", "write"} {
		for pv := 1; pv <= 2; pv++ {
			op := scnOp([]string{p}, []int{pv - 1}, []int{0}, []int{0}, []int{0}, 64) + fmt.Sprintf(" pv=%d", pv)
			emit([]string{op})
			emit([]string{op + " t=1 te=0 d=500"})
		}
	}
}

// slowScn: clients that never stop reading but drain slower than the proxy writes (rk KiB every rp µs), a
// multi-MiB response, shutdown in the middle of the exchange. raw: the proxy is handed the accepted
// *net.TCPConn itself (whatever it does to real TCP sockets — socket options at close, linger — happens),
// the response is judged at the client: every byte of the body, then a clean end of stream.
func slowScn(r *core.Rand, raw bool) string {
	n := r.Range(1, 2)
	pool := []string{"reqmod", "rt", "resmod"}
	if !raw {
		pool = append(pool, "write")
	}
	pts := make([]string, n)
	x, q, s := make([]int, n), make([]int, n), make([]int, n)
	for i := range pts {
		pts[i] = pool[r.Intn(len(pool))]
		if r.Chance(1, 4) {
			x[i] = 1
		}
		if r.Chance(1, 6) {
			q[i] = 1
		}
		if r.Chance(1, 6) {
			s[i] = 1
		}
	}
	ps := perms(n)
	op := scnOp(pts, x, q, s, ps[r.Intn(len(ps))], []int{4 << 20, 8 << 20, 16 << 20}[r.Intn(3)])
	if r.Chance(1, 3) {
		op += fmt.Sprintf(" t=1 te=%d d=0", r.Intn(2))
	}
	// about 32 MB/s (16 MiB in half a second): slower than the proxy writes, fast enough for loaded machines
	rk := []int{16, 32, 64}[r.Intn(3)]
	op += fmt.Sprintf(" rk=%d rp=%d", rk, rk*31)
	if sb := []int{0, 0, 64, 128}[r.Intn(4)]; sb > 0 {
		op += fmt.Sprintf(" sb=%d", sb)
	}
	if raw {
		op += " rw=1"
	}
	return op
}

// abortScn: the clients of the parked exchanges give up (close) while a response far larger than the
// socket buffers is being written to them during the drain phase.
func abortScn(r *core.Rand) string {
	n := r.Range(1, 2)
	pool := []string{"reqmod", "rt", "resmod", "write"}
	pts := make([]string, n)
	x := make([]int, n)
	for i := range pts {
		pts[i] = pool[r.Intn(len(pool))]
		if r.Chance(1, 3) {
			x[i] = 1
		}
	}
	ps := perms(n)
	op := scnOp(pts, x, make([]int, n), make([]int, n), ps[r.Intn(len(ps))], []int{2 << 20, 4 << 20}[r.Intn(2)])
	if r.Chance(1, 3) {
		op += fmt.Sprintf(" t=1 te=%d d=0", r.Intn(2))
	}
	return op + fmt.Sprintf(" st=%d sb=%d ab=1", r.Range(150, 400), []int{64, 128}[r.Intn(2)])
}

// extGrid: every new point alone (with and without a warm-up exchange, both flag values where they mean
// something), every point inside a MITM'd tunnel; full = also all pairs over the extended sets × both orders.
func extGrid(emit func(ops []string), full bool) {
	one := func(p string, x, q, s int, mitm bool, ncl int) {
		emit([]string{extOp([]string{p}, []int{x}, []int{q}, []int{s}, []int{0}, 64, mitm, ncl)})
	}
	for x := 0; x <= 1; x++ {
		one("tunnel", x, 0, 0, false, 1) // the client leaves
		one("tunnel", x, 1, 0, false, 1) // the target leaves
		one("cdial", x, 0, 0, false, 1)  // the tunnel opens during shutdown
		one("cdial", x, 0, 1, false, 1)  // the dial fails: 502, the connection goes on
		one("creqmod", x, 0, 0, false, 1)
		one("cresmod", x, 0, 0, false, 1)
		one("hjq", x, 0, 0, false, 1)
		one("hjs", x, 0, 0, false, 1)
		one("phead", x, 0, 0, false, 1) // mid request head reached by pipelining
		for _, p := range mitmPoints {
			if p == "h2s" && x > 0 {
				continue
			}
			one(p, x, 0, 0, true, 1)
		}
	}
	for _, p := range []string{"idle", "reqmod", "write", "tunnel", "hjq"} {
		one(p, 0, 0, 0, false, 2)
		one(p, 1, 0, 0, false, 3)
	}
	one("reqmod", 0, 0, 0, true, 2)
	if !full {
		return
	}
	for _, set := range [][]string{blindPoints, mitmPoints} {
		mitm := len(set) == len(mitmPoints)
		for _, a := range set {
			for _, b := range set {
				isNew := func(p string) bool {
					for _, o := range points {
						if o == p {
							return false
						}
					}
					return true
				}
				if !mitm && !isNew(a) && !isNew(b) {
					continue // pairs of the six old points are in the exhaustive part
				}
				for _, o := range perms(2) {
					emit([]string{extOp([]string{a, b}, []int{0, 0}, []int{0, 0}, []int{0, 0}, o, 64, mitm, 1)})
				}
			}
		}
	}
}

// stallScn: slow clients during the drain phase. 1..3 connections parked inside an exchange (so that the
// shutdown falls before, at or after the close decision), a response much larger than the socket buffers,
// and clients that do not read for `stall` ms after the exchanges were released — longer than any deadline
// a proxy could plausibly put on a connection it is draining. All stalled connections of one scenario
// stall concurrently, so a scenario costs one stall.
func stallScn(r *core.Rand, stall int, real bool, defaultBufs bool) string {
	n := r.Range(1, 3)
	if defaultBufs {
		n = r.Range(1, 2) // 48 MiB each
	}
	pool := []string{"reqmod", "rt", "resmod", "write"}
	if real {
		// (not wbody: with a client that does not read, the origin cannot get half of a multi-MiB body out)
		pool = []string{"rt", "reqmod", "resmod", "write"}
	}
	pts := make([]string, n)
	x, q, s := make([]int, n), make([]int, n), make([]int, n)
	// shutdown before the close decision on at least one connection
	for i := range pts {
		pts[i] = pool[r.Intn(len(pool))]
		if r.Chance(1, 3) {
			x[i] = 1
		}
		if r.Chance(1, 6) {
			q[i] = 1
		}
		if r.Chance(1, 6) {
			s[i] = 1
		}
	}
	pts[r.Intn(n)] = r.Pick("reqmod", "rt", "resmod")
	ps := perms(n)
	body := []int{2 << 20, 4 << 20, 8 << 20}[r.Intn(3)]
	sb := []int{64, 128, 256}[r.Intn(3)]
	if defaultBufs {
		body, sb = 48<<20, 0
		for i := range x {
			x[i] = 0
		}
	}
	op := scnOp(pts, x, q, s, ps[r.Intn(len(ps))], body)
	if real {
		op += fmt.Sprintf(" t=1 te=%d d=%d", r.Intn(2), []int{0, 500, 2000}[r.Intn(3)])
	}
	return op + fmt.Sprintf(" st=%d sb=%d", stall, sb)
}

func (P) Gen(r *core.Rand, tier string, emit func(ops []string)) {
	zeros := func(n int) []int { return make([]int, n) }
	if tier == "thorough" {
		// exhaustive: every placement of the 6 points on 1..3 connections × every release order
		var rec func(pts []string, n int)
		rec = func(pts []string, n int) {
			if len(pts) == n {
				for _, o := range perms(n) {
					emit([]string{scnOp(pts, zeros(n), zeros(n), zeros(n), o, 64)})
				}
				return
			}
			for _, p := range points {
				rec(append(append([]string{}, pts...), p), n)
			}
		}
		for n := 1; n <= 3; n++ {
			rec(nil, n)
		}
		core.Notes["exhaustive"] = "all 6^n placements × n! release orders for n=1..3 (1374 scenarios), x=q=s=0, body 64"
		// one connection: every point × warm-up exchanges × close flags × body sizes
		for _, p := range points {
			for x := 0; x <= 2; x++ {
				for fl := 0; fl < 4; fl++ {
					for _, b := range []int{0, 64, 5000, 70000} {
						emit([]string{scnOp([]string{p}, []int{x}, []int{fl & 1}, []int{fl >> 1}, []int{0}, b)})
					}
				}
			}
		}
		realGrid(emit, true)
		for _, b := range []int{300000, 1 << 20} {
			for te := 0; te < 2; te++ {
				emit([]string{realOp([]string{"wbody"}, []int{0}, []int{0}, []int{0}, []int{0}, b, te, 2000)})
			}
		}
		for i := 0; i < 4000; i++ {
			emit([]string{randScn(r, i%4 == 0)})
		}
		for i := 0; i < 800; i++ {
			emit([]string{randReal(r)})
		}
		for i := 0; i < 200; i++ {
			emit([]string{fmt.Sprintf("race c=%d d=%d", r.Pick2(r.Range(1, 6), r.Range(7, 32)), r.Pick2(0, r.Range(0, 3000)))})
		}
		// slow clients: 8 scenarios, stalls of 6.5 .. 12 s (an op must end within core.OpTimeout = 30 s also on a
		// loaded machine), stub and real transport, small and default socket buffers
		for i, st := range []int{6500, 7000, 8000, 9000, 10000, 12000} {
			emit([]string{stallScn(r, st, i%2 == 1, false)})
		}
		emit([]string{stallScn(r, 7000, false, true)})
		emit([]string{stallScn(r, 7000, true, true)})
		extGrid(emit, true)
		for i := 0; i < 2500; i++ {
			emit([]string{randExt(r)})
		}
		for i := 0; i < 60; i++ {
			emit([]string{abortScn(r)})
		}
		for i := 0; i < 50; i++ {
			emit([]string{slowScn(r, i%5 < 3)})
		}
		faultGrid(emit)
		for i := 0; i < 800; i++ {
			emit([]string{faultScn(r)})
		}
		uploadGrid(emit)
		for i := 0; i < 600; i++ {
			emit([]string{uploadScn(r)})
		}
		for i := 0; i < 30; i++ {
			emit([]string{timeoutScn(r, false)})
		}
		protoGrid(emit)
		for i := 0; i < 400; i++ {
			emit([]string{protoScn(r)})
		}
		inflightGrid(emit)
		historyGrid(emit)
		for i := 0; i < 600; i++ {
			switch i % 4 {
			case 0:
				emit([]string{withHistory(r, randScn(r, i%8 == 0))})
			case 1:
				emit([]string{withHistory(r, randExt(r))})
			case 2:
				emit([]string{withHistory(r, randReal(r))})
			default:
				emit([]string{withHistory(r, uploadScn(r))})
			}
		}
		return
	}
	// quick: exhaustive for 1 and 2 connections (6 + 36·2 scenarios), then a seeded sample
	var rec2 func(pts []string, n int)
	rec2 = func(pts []string, n int) {
		if len(pts) == n {
			for _, o := range perms(n) {
				emit([]string{scnOp(pts, zeros(n), zeros(n), zeros(n), o, 64)})
			}
			return
		}
		for _, p := range points {
			rec2(append(append([]string{}, pts...), p), n)
		}
	}
	rec2(nil, 1)
	rec2(nil, 2)
	core.Notes["exhaustive"] = "all 6^n placements × n! release orders for n=1..2 (78 scenarios), x=q=s=0, body 64"
	realGrid(emit, false)
	for i := 0; i < 420; i++ {
		emit([]string{randScn(r, i%5 == 0)})
	}
	for i := 0; i < 80; i++ {
		emit([]string{randReal(r)})
	}
	for i := 0; i < 30; i++ {
		emit([]string{fmt.Sprintf("race c=%d d=%d", r.Pick2(r.Range(1, 6), r.Range(7, 24)), r.Pick2(0, r.Range(0, 2000)))})
	}
	extGrid(emit, false)
	for i := 0; i < 160; i++ {
		emit([]string{randExt(r)})
	}
	for i := 0; i < 6; i++ {
		emit([]string{abortScn(r)})
	}
	for i := 0; i < 5; i++ {
		emit([]string{slowScn(r, i < 3)})
	}
	faultGrid(emit)
	for i := 0; i < 40; i++ {
		emit([]string{faultScn(r)})
	}
	uploadGrid(emit)
	for i := 0; i < 30; i++ {
		emit([]string{uploadScn(r)})
	}
	for i := 0; i < 2; i++ {
		emit([]string{timeoutScn(r, true)})
	}
	protoGrid(emit)
	for i := 0; i < 20; i++ {
		emit([]string{protoScn(r)})
	}
	inflightGrid(emit)
	historyGrid(emit)
	for i := 0; i < 40; i++ {
		switch i % 4 {
		case 0:
			emit([]string{withHistory(r, randScn(r, i%8 == 0))})
		case 1:
			emit([]string{withHistory(r, randExt(r))})
		case 2:
			emit([]string{withHistory(r, randReal(r))})
		default:
			emit([]string{withHistory(r, uploadScn(r))})
		}
	}
	// one slow-client scenario (≈ 7–9 s): clients stalled during the drain phase, bodies ≫ socket buffers
	emit([]string{stallScn(r, r.Range(6500, 8500), r.Chance(1, 2), false)})
}
