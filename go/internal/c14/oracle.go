package c14

// The property oracle: the statement of C14 evaluated directly on (header before, header
// after, outcome), written without reference to the Lean model or to the modifiers' code.

import (
	"fmt"
	"net/http"
	"reflect"
	"regexp"
	"strings"
)

type fl struct{ sig, msg string }

// known-finding signatures sort last so that they never mask another failure of the same op.
// One finding is open (F14b, Connection-listed Via); the other three signatures of the previous
// round (c14:stack-te-unflagged, c14:stack-connection-listed-cl-unflagged,
// c14:stack-loop-missed-after-framing-error) are repaired in /repo and are ordinary violations now.
var knownSigs = map[string]bool{
	"c14:stack-connection-listed-via-loop-missed": true,
}

// hasErr: does the error class list ("ok" or classes joined by "+", as errClass writes it) contain c?
func hasErr(cls, c string) bool {
	for _, x := range strings.Split(cls, "+") {
		if x == c {
			return true
		}
	}
	return false
}

func first(fs []*fl) *fl {
	for _, f := range fs {
		if f != nil && !knownSigs[f.sig] {
			return f
		}
	}
	for _, f := range fs {
		if f != nil {
			return f
		}
	}
	return nil
}

// RFC 7230 hop-by-hop fields (section 6.1 and the fields whose definitions say so), lower case.
var rfcHopByHop = []string{"connection", "keep-alive", "proxy-authenticate", "proxy-authorization", "te", "trailer", "transfer-encoding", "upgrade"}

var stamped = map[string]bool{"via": true, "x-forwarded-for": true, "x-forwarded-proto": true, "x-forwarded-host": true, "x-forwarded-url": true}

func asciiLower(s string) string {
	b := []byte(s)
	for i, c := range b {
		if 'A' <= c && c <= 'Z' {
			b[i] = c + 32
		}
	}
	return string(b)
}

func trimOWS(s string) string { return strings.Trim(s, " \t") }

// elems splits header lines into comma-separated elements, OWS-trimmed; empty elements dropped.
func elems(lines []string) []string {
	var o []string
	for _, l := range lines {
		for _, e := range strings.Split(l, ",") {
			if e = trimOWS(e); e != "" {
				o = append(o, e)
			}
		}
	}
	return o
}

// listed: the lower-cased names given in the Connection header(s).
func listed(h http.Header) map[string]bool {
	m := map[string]bool{}
	for _, e := range elems(h["Connection"]) {
		m[asciiLower(e)] = true
	}
	return m
}

func isFixed(lk string) bool {
	for _, f := range rfcHopByHop {
		if f == lk {
			return true
		}
	}
	return false
}

// exotic: bytes on which "white space" is debatable (VT, FF, CR, LF, NUL, non-ASCII); the
// oracle abstains from clauses whose verdict would depend on them.
func exotic(lines []string) bool {
	for _, l := range lines {
		for i := 0; i < len(l); i++ {
			if c := l[i]; c >= 0x80 || c == '\n' || c == '\r' || c == '\v' || c == '\f' || c == 0 {
				return true
			}
		}
	}
	return false
}

// oracleHop: no hop-by-hop header survives, every other header is untouched. `skip` names
// (lower case) headers other clauses speak about (stamped ones, Content-Length in the stack).
func oracleHop(before, after http.Header, skip map[string]bool) []*fl {
	var fs []*fl
	if exotic(before["Connection"]) {
		return nil
	}
	ls := listed(before)
	for k := range after {
		lk := asciiLower(k)
		if skip[lk] || lk == "proxy-connection" {
			continue
		}
		if nonCanonical(k) && (isFixed(lk) || ls[lk]) {
			// a key written into the map directly in a spelling net/http never produces: outside the
			// statement's quantifier (header multisets as received); compared with the model only
			continue
		}
		if isFixed(lk) {
			fs = append(fs, &fl{"c14:hop-by-hop-survived", fmt.Sprintf("hop-by-hop header %q survived (%q)", k, after[k])})
		} else if ls[lk] {
			fs = append(fs, &fl{"c14:connection-listed-survived", fmt.Sprintf("header %q is named in Connection %q but survived", k, before["Connection"])})
		} else if _, ok := before[k]; !ok {
			fs = append(fs, &fl{"c14:header-invented", fmt.Sprintf("header %q (%q) appeared from nowhere", k, after[k])})
		}
	}
	for k, vs := range before {
		lk := asciiLower(k)
		// Proxy-Connection: a de-facto hop-by-hop header the code also removes; the RFC does not
		// list it, so the oracle neither demands its removal nor its survival.
		if skip[lk] || isFixed(lk) || ls[lk] || lk == "proxy-connection" {
			continue
		}
		if nonCanonical(k) && skip[asciiLower(http.CanonicalHeaderKey(k))] {
			continue
		}
		avs, ok := after[k]
		if !ok || !reflect.DeepEqual(append([]string{}, vs...), append([]string{}, avs...)) {
			fs = append(fs, &fl{"c14:other-header-changed", fmt.Sprintf("end-to-end header %q changed from %q to %q (present=%v)", k, vs, avs, ok)})
		}
	}
	return fs
}

// nonCanonical: a map key that is not in the spelling net/http's parser stores (only a modifier
// writing the map directly can produce it).
func nonCanonical(k string) bool { return http.CanonicalHeaderKey(k) != k }

var wsSplit = regexp.MustCompile("[ \t]+")

// namesInstance: some Via element's received-by (second field) is this proxy's pseudonym.
func namesInstance(via []string, tag string) bool {
	for _, e := range elems(via) {
		f := wsSplit.Split(e, -1)
		if len(f) >= 2 && f[1] == tag {
			return true
		}
	}
	return false
}

func viaDecidable(via []string) bool { return !exotic(via) }

func eqStrs(a, b []string) bool {
	if len(a) != len(b) {
		return false
	}
	for i := range a {
		if a[i] != b[i] {
			return false
		}
	}
	return true
}

// oracleVia: loop iff instance named (then error + skip); else exactly one entry appended last.
// viaListed: Via was named in Connection (the old chain is a hop-by-hop header then);
// framingFlagged: the stack already returned a framing error.
func oracleVia(before, after http.Header, tag, mine, cls string, skip, viaListed, framingFlagged bool) []*fl {
	if !viaDecidable(before["Via"]) {
		return nil
	}
	var fs []*fl
	named := namesInstance(before["Via"], tag)
	loop := hasErr(cls, "loop")
	if named {
		if !loop || !skip {
			sig := "c14:loop-missed"
			if viaListed {
				sig = "c14:stack-connection-listed-via-loop-missed"
			} else if framingFlagged {
				sig = "c14:stack-loop-missed-after-framing-error"
			}
			fs = append(fs, &fl{sig, fmt.Sprintf("Via %q names this instance (%s) but outcome is %s skip=%v: the request would be sent upstream", before["Via"], tag, cls, skip)})
		}
		return fs
	}
	if loop || skip {
		fs = append(fs, &fl{"c14:false-loop", fmt.Sprintf("Via %q does not name %s but outcome is %s skip=%v", before["Via"], tag, cls, skip)})
		return fs
	}
	// Not stopped, so martian.Proxy forwards it (a request flagged for its framing too: the proxy only
	// adds a Warning): exactly one entry for this proxy after the existing ones.
	old := elems(before["Via"])
	if viaListed {
		old = nil
	}
	got := elems(after["Via"])
	want := append(append([]string{}, old...), mine)
	if !eqStrs(got, want) {
		sig := "c14:via-not-appended"
		if framingFlagged {
			sig = "c14:stack-flagged-request-no-via"
		}
		fs = append(fs, &fl{sig, fmt.Sprintf("Via after = %q, want the existing entries %q followed by exactly %q (outcome %s)", after["Via"], old, mine, cls)})
	}
	return fs
}

var remoteV6 = regexp.MustCompile(`^\[([^\[\]]*)\]:([^:\[\]]*)$`)
var remoteV4 = regexp.MustCompile(`^([^:\[\]]*):([^:\[\]]*)$`)

func clientOf(remote string) (string, bool) {
	if m := remoteV6.FindStringSubmatch(remote); m != nil {
		return m[1], true
	}
	if m := remoteV4.FindStringSubmatch(remote); m != nil {
		return m[1], true
	}
	if !strings.ContainsAny(remote, ":[]") {
		return remote, true // no port: the address itself
	}
	return "", false // odd shape: abstain
}

// oracleFwd: X-Forwarded-For gains the client address after the existing ones; -Proto/-Host/-Url
// are preserved when present, else reflect the request. removed: lower-case names that the
// hop-by-hop rule removed before (stack only).
func oracleFwd(before, after http.Header, scheme, host, us, remote string, removed map[string]bool) []*fl {
	var fs []*fl
	eff := func(k string) []string {
		if removed[asciiLower(k)] {
			return nil
		}
		return before[k]
	}
	if c, ok := clientOf(remote); ok && !exotic(eff("X-Forwarded-For")) && c != "" {
		want := append(elems(eff("X-Forwarded-For")), c)
		if got := elems(after["X-Forwarded-For"]); !eqStrs(got, want) {
			fs = append(fs, &fl{"c14:xff-not-appended", fmt.Sprintf("X-Forwarded-For after = %q, want existing %q followed by client %q", after["X-Forwarded-For"], eff("X-Forwarded-For"), c)})
		}
	}
	for _, p := range []struct{ k, want, sig string }{{"X-Forwarded-Proto", scheme, "c14:xf-proto"}, {"X-Forwarded-Host", host, "c14:xf-host"}, {"X-Forwarded-Url", us, "c14:xf-url"}} {
		b := eff(p.k)
		allEmpty := true
		for _, v := range b {
			if v != "" {
				allEmpty = false
			}
		}
		switch {
		case allEmpty:
			if got := after[p.k]; len(got) != 1 || got[0] != p.want {
				fs = append(fs, &fl{p.sig, fmt.Sprintf("%s after = %q, want %q (none before)", p.k, got, p.want)})
			}
		case b[0] != "":
			if got := after[p.k]; !eqStrs(got, b) {
				fs = append(fs, &fl{p.sig, fmt.Sprintf("%s after = %q, existing %q not preserved", p.k, got, b)})
			}
		}
	}
	return fs
}

// framingFacts: does the request carry a Transfer-Encoding not ending in chunked / two
// different Content-Length values?
func framingFacts(h http.Header) (teBad, clConflict bool) {
	if tes := h["Transfer-Encoding"]; len(tes) > 0 && !exotic(tes) {
		parts := strings.Split(tes[len(tes)-1], ",")
		teBad = asciiLower(trimOWS(parts[len(parts)-1])) != "chunked"
	}
	if cls := h["Content-Length"]; !exotic(cls) {
		seen := map[string]bool{}
		for _, e := range elems(cls) {
			seen[e] = true
		}
		clConflict = len(seen) > 1
	}
	return
}

func oracleStackReq(before, after http.Header, tag, mine, scheme, host, us, remote, cls string, skip bool) ([]*fl, string) {
	var fs []*fl
	ls := listed(before)
	removed := map[string]bool{}
	for k := range before {
		lk := asciiLower(k)
		if isFixed(lk) || ls[lk] {
			removed[lk] = true
		}
	}
	if exotic(before["Connection"]) {
		return nil, ""
	}
	skipKeys := map[string]bool{"content-length": true}
	for k := range stamped {
		skipKeys[k] = true
	}
	// 1. hop-by-hop gone, others untouched (stamped headers and Content-Length have their own clauses)
	fs = append(fs, oracleHop(before, after, skipKeys)...)
	if removed["content-length"] {
		if _, ok := after["Content-Length"]; ok {
			fs = append(fs, &fl{"c14:connection-listed-survived", "Content-Length is named in Connection but survived"})
		}
	}
	// 2. framing
	teBad, clConflict := framingFacts(before)
	framingFlagged := hasErr(cls, "cl") || hasErr(cls, "te")
	if hasErr(cls, "other") {
		fs = append(fs, &fl{"c14:spurious-error", "the stack returned an error that is neither a framing nor a loop error (" + cls + ")"})
	}
	if clConflict && !framingFlagged {
		sig := "c14:stack-cl-conflict-unflagged"
		if removed["content-length"] {
			sig = "c14:stack-connection-listed-cl-unflagged"
		}
		fs = append(fs, &fl{sig, fmt.Sprintf("Content-Length %q conflict but the stack returned %s", before["Content-Length"], cls)})
	}
	if teBad && !framingFlagged {
		fs = append(fs, &fl{"c14:stack-te-unflagged", fmt.Sprintf("Transfer-Encoding %q does not end in chunked but the stack returned %s", before["Transfer-Encoding"], cls)})
	}
	if len(before["Content-Length"]) == 0 && len(before["Transfer-Encoding"]) == 0 && framingFlagged {
		fs = append(fs, &fl{"c14:spurious-error", "framing error without Content-Length / Transfer-Encoding"})
	}
	// Content-Length of a request that is not flagged: the agreed value, once (unless removed)
	if !framingFlagged && !removed["content-length"] && len(before["Content-Length"]) > 0 && !exotic(before["Content-Length"]) && !teBad && len(before["Transfer-Encoding"]) == 0 {
		if es := elems(before["Content-Length"]); len(es) > 0 && !clConflict {
			if got := after["Content-Length"]; len(got) != 1 || trimOWS(got[0]) != es[0] {
				fs = append(fs, &fl{"c14:other-header-changed", fmt.Sprintf("Content-Length %q became %q", before["Content-Length"], got)})
			}
		}
	}
	// 3. Via / loop
	vfs := oracleVia(before, after, tag, mine, cls, skip, removed["via"], framingFlagged)
	fs = append(fs, vfs...)
	loopSig := ""
	if viaDecidable(before["Via"]) && namesInstance(before["Via"], tag) {
		loopSig = "c14:loop-not-400"
		for _, f := range vfs {
			if knownSigs[f.sig] {
				loopSig = f.sig
			}
		}
	}
	// 4. X-Forwarded-*
	fs = append(fs, oracleFwd(before, after, scheme, host, us, remote, removed)...)
	return fs, loopSig
}
