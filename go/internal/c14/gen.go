package c14

import (
	"fmt"
	"net"
	"net/http"
	"net/url"
	"strings"

	"verif/harness/internal/core"
)

var ordinary = []string{"Accept", "User-Agent", "X-Custom", "Foo", "Cookie", "Etag", "Www-Authenticate", "A", "X_y", "X.Y-Z9", "Keep-Alive-Extra",
	"Upgrade-Insecure-Requests", "X-Te", "Te-Xyz", "Proxy-Foo", "Trailers", "Close", "Hop-By-Hop", "X-Connection", "Authorization", "Content-Type", "Host-Hint", "Warning"}

// fixed hop-by-hop names as the RFC spells them plus the code's extra one
var fixedNames = []string{"Connection", "Keep-Alive", "Proxy-Authenticate", "Proxy-Authorization", "Proxy-Connection", "Te", "Trailer", "Transfer-Encoding", "Upgrade"}

var stampedNames = []string{"Via", "X-Forwarded-For", "X-Forwarded-Proto", "X-Forwarded-Host", "X-Forwarded-Url", "Content-Length"}

const valueAlphabet = "abcXYZ019 -_/.;=\"()"

func genValue(r *core.Rand) string {
	switch r.Intn(12) {
	case 0:
		return ""
	case 1:
		return " " + randStr(r, valueAlphabet, r.Intn(5)) + " "
	case 2:
		return randStr(r, valueAlphabet, r.Intn(4)) + "," + randStr(r, valueAlphabet, r.Intn(4))
	case 3:
		if r.Chance(1, 6) {
			return "caf\xc3\xa9" // non-ASCII: oracle only
		}
		return "v"
	}
	return randStr(r, valueAlphabet, r.Range(1, 8))
}

func randStr(r *core.Rand, alphabet string, n int) string {
	b := make([]byte, n)
	for i := range b {
		b[i] = alphabet[r.Intn(len(alphabet))]
	}
	return string(b)
}

func mangleCase(r *core.Rand, s string) string {
	switch r.Intn(5) {
	case 0:
		return strings.ToLower(s)
	case 1:
		return strings.ToUpper(s)
	case 2:
		b := []byte(s)
		for i := range b {
			if r.Bool() {
				if 'a' <= b[i] && b[i] <= 'z' {
					b[i] -= 32
				} else if 'A' <= b[i] && b[i] <= 'Z' {
					b[i] += 32
				}
			}
		}
		return string(b)
	}
	return s
}

func pad(r *core.Rand, s string) string {
	ws := []string{"", "", " ", "  ", "\t", " \t "}
	if r.Chance(1, 25) {
		// white space a parser never leaves inside a value (a folded line, bare CR/LF, VT, FF): only a
		// modifier writing the map can; the oracle abstains, the model comparison does not
		core.Count("gen:exotic-whitespace")
		ws = []string{"\r\n ", "\n", "\r\n\t", "\v", "\f", " \r"}
	}
	return ws[r.Intn(len(ws))] + s + ws[r.Intn(len(ws))]
}

// respell returns k in a spelling other than the canonical one ("" when there is none, e.g. "9").
func respell(r *core.Rand, k string) string {
	for i := 0; i < 6; i++ {
		var c string
		switch r.Intn(3) {
		case 0:
			c = strings.ToLower(k)
		case 1:
			c = strings.ToUpper(k)
		default:
			b := []byte(k)
			for j := range b {
				if r.Bool() {
					if 'a' <= b[j] && b[j] <= 'z' {
						b[j] -= 32
					} else if 'A' <= b[j] && b[j] <= 'Z' {
						b[j] += 32
					}
				}
			}
			c = string(b)
		}
		if c != http.CanonicalHeaderKey(c) {
			return c
		}
	}
	return ""
}

type genOpts struct {
	name, boundary string
	loopChance     int    // 1/loopChance of the Via chain naming this instance (0 = never)
	client         string // the client address the request will come from ("" = unknown)
}

func genViaEntry(r *core.Rand, o genOpts, mine bool) string {
	tag := o.name + "-" + o.boundary
	if mine {
		core.Count("gen:via-names-instance")
		return r.Pick("1.1 "+tag, "1.0 "+tag, "1.1  "+tag, "1.1\t"+tag, "HTTP/1.1 "+tag+" (loop)", "1.1 "+tag+" \t(c)", "2 "+tag, "2.0 \t "+tag)
	}
	switch r.Intn(12) {
	case 0:
		core.Count("gen:via-near-miss")
		return r.Pick("1.1 "+strings.ToUpper(tag), "1.1 "+tag+"x", "1.1 x"+tag, tag, "1.1 x "+tag, "1.1 "+o.name, "1.1 "+o.name+"-", "1.1 "+o.name+"-"+strings.Repeat("0", 20),
			"1.1 "+tag[:len(tag)-1], "1.1"+tag, "1.1 ("+tag+")")
	case 1:
		return ""
	case 2:
		return "1.1"
	}
	return r.Pick("1.1 ", "1.0 ", "HTTP/1.1 ", "2 ") + r.Pick("fred", "proxy.example.com:8080", "p", "nowhere.com (Apache/1.1)", "ricky", "martian", "other-"+o.boundary)
}

// realisticValue: what the fixed hop-by-hop header k carries in real traffic.
func realisticValue(r *core.Rand, k string) string {
	var v string
	switch k {
	case "Te":
		v = r.Pick("trailers", "trailers", "deflate, trailers", "trailers, deflate;q=0.5", "gzip", "deflate", "trailers;q=1", " trailers ", "gzip,trailers", "")
	case "Keep-Alive":
		return r.Pick("timeout=5, max=100", "timeout=5", "max=1000", "300")
	case "Upgrade":
		v = r.Pick("websocket", "h2c", "websocket, h2c", "HTTP/2.0, SHTTP/1.3", "TLS/1.0")
	case "Proxy-Authorization":
		return r.Pick("Basic dXNlcjpwYXNz", "Bearer abc.def.ghi", "Digest username=\"u\", realm=\"r\", nonce=\"n\"", "Negotiate YII=")
	case "Proxy-Authenticate":
		return r.Pick("Basic realm=\"proxy\"", "Digest realm=\"r\", qop=\"auth\", nonce=\"n\"", "Negotiate", "Basic realm=\"a\", Bearer")
	case "Trailer":
		v = r.Pick("X-Foo", "Expires", "X-Checksum, X-Foo", "Grpc-Status, Grpc-Message")
	case "Proxy-Connection":
		v = r.Pick("keep-alive", "close", "Keep-Alive")
	default:
		return "x"
	}
	return mangleCase(r, v)
}

func viaSep(r *core.Rand) string {
	if r.Chance(1, 30) {
		core.Count("gen:exotic-whitespace")
		return r.Pick(",\r\n ", ",\n", "\r\n\t, ")
	}
	return r.Pick(", ", ",", " , ", ",\t")
}

func genHeader(r *core.Rand, o genOpts) http.Header {
	h := http.Header{}
	put := func(k string, n int) {
		for i := 0; i < n; i++ {
			h[k] = append(h[k], genValue(r))
		}
	}
	// ordinary end-to-end headers
	for i, n := 0, r.Intn(6); i < n; i++ {
		k := http.CanonicalHeaderKey(ordinary[r.Intn(len(ordinary))])
		if _, ok := h[k]; ok {
			continue
		}
		if r.Chance(1, 40) {
			h[k] = []string{} // key present, no values
			continue
		}
		put(k, 1+r.Intn(3)/2)
	}
	if r.Chance(1, 8) { // a random token-shaped name, canonicalised the way the parser would
		k := http.CanonicalHeaderKey(randStr(r, "abcXYZ09-_.!~", r.Range(1, 8)))
		if _, ok := h[k]; !ok {
			put(k, 1)
		}
	}
	// fixed hop-by-hop headers (values irrelevant); Connection and Transfer-Encoding below
	for _, k := range fixedNames {
		if k != "Connection" && k != "Transfer-Encoding" && r.Chance(1, 5) {
			switch {
			case k == "Keep-Alive" && r.Bool():
				h[k] = []string{r.Pick("timeout=5, max=100", "timeout=5", "max=1;x", "300", "timeout=5,max=100, X-Custom")}
				core.Count("gen:keep-alive-params")
			case k == "Proxy-Connection" && r.Bool():
				// a token list like Connection's; its tokens are NOT connection options
				v := r.Pick("keep-alive", "close", "Keep-Alive, Foo")
				var pks []string
				for pk := range h {
					pks = append(pks, pk)
				}
				sortStrings(pks)
				if len(pks) > 0 && r.Bool() {
					v = r.Pick("keep-alive, ", "", "close,") + mangleCase(r, pks[r.Intn(len(pks))])
				}
				h[k] = []string{v}
				core.Count("gen:proxy-connection-list")
			case r.Chance(2, 3):
				// the values these headers carry in real traffic (an implementation may branch on them:
				// TE: trailers, Upgrade: websocket, Proxy-Connection: keep-alive …), on 1-2 lines, tokens in
				// any letter case; the clause is value-independent, so every one of them must go
				for i, n := 0, 1+r.Intn(4)/3; i < n; i++ {
					h[k] = append(h[k], realisticValue(r, k))
				}
				core.Count("gen:realistic-value:" + k)
			default:
				put(k, 1+r.Intn(3)/2)
			}
		}
	}
	// pre-existing Via
	switch r.Intn(5) {
	case 0, 1:
		lines := r.Range(1, 3)
		mineAt := -1
		if o.loopChance > 0 && r.Chance(1, o.loopChance) {
			mineAt = r.Intn(lines)
		}
		for i := 0; i < lines; i++ {
			n := r.Range(1, 3)
			minePos := -1
			if i == mineAt {
				minePos = r.Intn(n)
			}
			var es []string
			for j := 0; j < n; j++ {
				es = append(es, genViaEntry(r, o, j == minePos))
			}
			h["Via"] = append(h["Via"], strings.Join(es, viaSep(r)))
		}
	}
	// pre-existing X-Forwarded-*
	if r.Chance(1, 3) {
		for i, n := 0, r.Range(1, 2); i < n; i++ {
			v := r.Pick("10.0.0.1", "192.0.2.7, 10.1.1.1", "2001:db8::1", "", " 172.16.0.9 ", "unknown", "a,,b")
			if o.client != "" && r.Chance(1, 3) {
				// the chain already names this very client (two hops on one host, a NAT that pre-populated
				// the header): last, first, alone, padded — it is appended once more all the same
				v = r.Pick(o.client, "192.0.2.7, "+o.client, o.client+", 10.1.1.1", " "+o.client+" ", "10.1.1.1,"+o.client)
				core.Count("gen:xff-names-client")
			}
			h["X-Forwarded-For"] = append(h["X-Forwarded-For"], v)
		}
	}
	for _, k := range []string{"X-Forwarded-Proto", "X-Forwarded-Host", "X-Forwarded-Url"} {
		if r.Chance(1, 4) {
			for i, n := 0, 1+r.Intn(4)/3; i < n; i++ {
				h[k] = append(h[k], r.Pick("https", "orig.example.com", "http://orig.example.com/p?q=1", "", "x"))
			}
		}
	}
	// Content-Length / Transfer-Encoding
	switch r.Intn(10) {
	case 0:
		h["Content-Length"] = []string{"5"}
	case 1:
		h["Content-Length"] = []string{"5", "5"}
		core.Count("gen:cl-dup-equal")
	case 2:
		h["Content-Length"] = []string{r.Pick("5, 5", "5,5", " 5 , 5", "5,\t5 ")}
		core.Count("gen:cl-dup-equal")
	case 3:
		h["Content-Length"] = pickStrs(r, []string{"5", "6"}, []string{"5, 6"}, []string{"5", "5", "7"}, []string{"5,5", "05"}, []string{"0", "00"}, []string{"5 ,6"})
		core.Count("gen:cl-conflict")
	case 4:
		h["Content-Length"] = pickStrs(r, []string{""}, []string{",5"}, []string{"5,"}, []string{"", "5"}, []string{" "}, []string{"5", ""}, []string{"abc"}, []string{"-1", "-1"}, []string{"5,\r\n 5"}, []string{"5\n", "5"}, []string{"5\v", "6"})
		core.Count("gen:cl-odd")
	}
	switch r.Intn(10) {
	case 0:
		h["Transfer-Encoding"] = []string{"chunked"}
	case 1:
		h["Transfer-Encoding"] = pickStrs(r, []string{"gzip, chunked"}, []string{"gzip", "chunked"}, []string{" chunked "}, []string{"gzip ,\tchunked"}, []string{"chunked", "chunked"})
	case 2:
		h["Transfer-Encoding"] = pickStrs(r, []string{"gzip"}, []string{"chunked, gzip"}, []string{"chunked", "identity"}, []string{"chunked,"}, []string{""}, []string{"chunkedx"}, []string{"xchunked"}, []string{"chunked", ""}, []string{"gzip,\r\n chunked\r\n"}, []string{"chunked\f"}, []string{"gzip", "\nidentity"})
		core.Count("gen:te-bad")
	case 3:
		if r.Chance(1, 3) {
			h["Transfer-Encoding"] = []string{r.Pick("Chunked", "CHUNKED", "gzip, Chunked")}
			core.Count("gen:te-chunked-other-case")
		}
	}
	// keys in a spelling net/http's parser never stores (a modifier wrote the map directly): an
	// existing key re-spelled (moved or duplicated), or a hop-by-hop / stamped name in another spelling
	if r.Chance(1, 6) {
		for i, n := 0, r.Range(1, 2); i < n; i++ {
			var ks []string
			for k := range h {
				ks = append(ks, k)
			}
			sortStrings(ks)
			switch {
			case len(ks) > 0 && r.Chance(1, 2):
				k := ks[r.Intn(len(ks))]
				if c := respell(r, k); c != "" {
					h[c] = append([]string{}, h[k]...)
					if r.Bool() {
						delete(h, k)
					}
					core.Count("gen:noncanonical-key:respelled")
				}
			default:
				k := r.Pick("Keep-Alive", "Transfer-Encoding", "Connection", "Via", "Content-Length", "X-Forwarded-For", "X-Forwarded-Proto", "Upgrade", "Te", "X-Custom")
				if c := respell(r, k); c != "" {
					h[c] = []string{r.Pick("x", "chunked", "5", "X-Custom, close", "1.1 "+o.name+"-"+o.boundary, "gzip", "https")}
					core.Count("gen:noncanonical-key:named")
				}
			}
		}
	}
	// Connection: 0-3 lines, 0-4 tokens each
	if r.Chance(3, 5) {
		var present []string
		for k := range h {
			present = append(present, k)
		}
		sortStrings(present)
		for i, lines := 0, r.Range(1, 3); i < lines; i++ {
			var toks []string
			for j, n := 0, r.Intn(5); j < n; j++ {
				var tk string
				switch r.Intn(10) {
				case 0, 1, 2, 3:
					if len(present) > 0 {
						tk = mangleCase(r, present[r.Intn(len(present))])
						core.Count("gen:conn-names-present")
					} else {
						tk = "close"
					}
				case 4:
					tk = mangleCase(r, fixedNames[r.Intn(len(fixedNames))])
				case 5:
					tk = r.Pick("close", "keep-alive", "Keep-Alive", "upgrade", "TE")
				case 6:
					tk = mangleCase(r, ordinary[r.Intn(len(ordinary))])
				case 7:
					tk = ""
					core.Count("gen:conn-empty-token")
				case 8:
					if r.Chance(1, 2) {
						tk = mangleCase(r, stampedNames[r.Intn(len(stampedNames))])
						core.Count("gen:conn-names-stamped")
					} else {
						tk = r.Pick("foo bar", "a b", "x;y", "\"q\"", "foo\tbar", "Foo@")
					}
				default:
					tk = randStr(r, "abcXYZ09-_", r.Range(1, 6))
				}
				toks = append(toks, pad(r, tk))
			}
			h["Connection"] = append(h["Connection"], strings.Join(toks, ","))
		}
		core.Count(fmt.Sprintf("gen:conn-lines:%d", len(h["Connection"])))
	} else {
		core.Count("gen:conn-lines:0")
	}
	return h
}

func sortStrings(s []string) {
	for i := 1; i < len(s); i++ {
		for j := i; j > 0 && s[j] < s[j-1]; j-- {
			s[j], s[j-1] = s[j-1], s[j]
		}
	}
}

func pickStrs(r *core.Rand, xs ...[]string) []string {
	return append([]string{}, xs[r.Intn(len(xs))]...)
}

type env struct {
	major, minor                      int
	name, boundary                    string
	scheme, host, url, remote, client string
}

func genEnv(r *core.Rand) env {
	var e env
	switch r.Intn(4) {
	case 0:
		e.major, e.minor = 1, 0
	case 1:
		e.major, e.minor = 2, 0
	default:
		e.major, e.minor = 1, 1
	}
	e.name = r.Pick("martian", "martian", "martian.mobile", "p", "my-proxy")
	e.boundary = fmt.Sprintf("%x", r.Bytes(10))
	for {
		u := url.URL{Scheme: r.Pick("http", "http", "https"), Host: r.Pick("example.com", "example.com:8080", "10.0.0.9", "[::1]:8443", "h"),
			Path: r.Pick("/", "", "/a/b", "/a%20b", "/x;y"), RawQuery: r.Pick("", "", "q=1", "a=b&c=d%2F")}
		s := u.String()
		if p, err := url.Parse(s); err == nil && p.String() == s && p.Scheme == u.Scheme {
			e.scheme, e.url = u.Scheme, s
			e.host = u.Host
			if r.Chance(1, 5) {
				e.host = r.Pick("other.example.com", "EXAMPLE.com", "")
			}
			break
		}
	}
	switch r.Intn(8) {
	case 0:
		e.client = "2001:db8::2"
		e.remote = net.JoinHostPort(e.client, "4711")
	case 1:
		e.client = "10.0.0.1"
		e.remote = e.client // no port
	case 2:
		e.remote = r.Pick("[::1]", "::1", "a:b:c", "[x]y:1", "[[x]:1", "[x]]:1", "x]:1", "", ":", "[]:", "host:", "[::1]:", "[a]:b:1")
	default:
		e.client = fmt.Sprintf("192.0.2.%d", r.Intn(250)+1)
		e.remote = net.JoinHostPort(e.client, fmt.Sprint(1024+r.Intn(60000)))
	}
	return e
}

func hx(s string) string { return core.HexS(s) }

// genStatus: the response status code is a dimension of every response-side op: the hop-by-hop clause
// speaks about every response, so codes an implementation might special-case are all generated
// (interim and switching 1xx, bodiless 204/205/304, redirects, 407/426, 5xx, unassigned codes).
func genStatus(r *core.Rand) int {
	var st int
	switch r.Intn(4) {
	case 0:
		st = 200
	case 1:
		st = []int{100, 101, 102, 103, 199, 201, 204, 205, 206, 299, 300, 301, 302, 304, 307, 308, 399}[r.Intn(17)]
	case 2:
		st = []int{400, 401, 403, 404, 407, 408, 417, 421, 426, 428, 431, 499, 500, 501, 502, 503, 504, 505, 599}[r.Intn(19)]
	default:
		st = r.Range(100, 599)
	}
	core.Count(fmt.Sprintf("gen:status:%dxx", st/100))
	if st == 101 {
		core.Count("gen:status:101")
	}
	return st
}

func (P) Gen(r *core.Rand, tier string, emit func([]string)) {
	nStack, nLib, nE2E := 700, 40, 40
	if tier == "thorough" {
		nStack, nLib, nE2E = 40000, 2000, 600
	}
	for i := 0; i < nStack; i++ {
		e := genEnv(r)
		o := genOpts{name: e.name, boundary: e.boundary, loopChance: 3, client: e.client}
		h := genHeader(r, o)
		hs := encHeader(h)
		resHs := encHeader(genHeader(r, genOpts{name: e.name, boundary: e.boundary}))
		ops := []string{
			fmt.Sprintf("stackreq %d %d %s %s %s %s %s %s %s", e.major, e.minor, hx(e.name), hx(e.boundary), hx(e.scheme), hx(e.host), hx(e.url), hx(e.remote), hs),
			fmt.Sprintf("stackres %d %s", genStatus(r), resHs),
		}
		// the same header through each member alone
		ops = append(ops,
			"hbh "+hs,
			fmt.Sprintf("hbhres %d %s", genStatus(r), r.Pick(resHs, hs)),
			fmt.Sprintf("via %d %d %s %s %s", e.major, e.minor, hx(e.name), hx(e.boundary), hs),
			fmt.Sprintf("fwd %s %s %s %s %s", hx(e.scheme), hx(e.host), hx(e.url), hx(e.remote), hs),
			"framing "+hs)
		emit(ops)
	}
	for i := 0; i < nLib; i++ {
		emit(genLib(r, 12))
	}
	for i := 0; i < nE2E; i++ {
		emit(genE2E(r))
	}
}

func genLib(r *core.Rand, n int) []string {
	var ops []string
	for i := 0; i < n; i++ {
		switch r.Intn(8) {
		case 0, 1:
			ops = append(ops, "hdr.canon "+hx(r.Pick(randStr(r, "abXY-09_", r.Intn(9)), randStr(r, "aB- :@\t~!", r.Intn(7)), mangleCase(r, ordinary[r.Intn(len(ordinary))]), mangleCase(r, fixedNames[r.Intn(len(fixedNames))]))))
		case 2:
			ops = append(ops, "net.shp "+hx(r.Pick(genEnv(r).remote, randStr(r, "[]:a1.", r.Intn(9)))))
		case 3:
			ops = append(ops, "re.field2 "+hx(randStr(r, "ab \t1.", r.Intn(10))))
		default:
			h := genHeader(r, genOpts{name: "m", boundary: "00"})
			keys := []string{"Accept", "accept", "via", "VIA", "X-Custom", "x-forwarded-for", "Foo", "foo bar", "Content-length", "nope", "connection"}
			k := keys[r.Intn(len(keys))]
			switch r.Intn(5) {
			case 0:
				ops = append(ops, "hdr.get "+encHeader(h)+" "+hx(k))
			case 1:
				ops = append(ops, "hdr.values "+encHeader(h)+" "+hx(k))
			case 2:
				ops = append(ops, "hdr.set "+encHeader(h)+" "+hx(k)+" "+hx(genValue(r)))
			case 3:
				ops = append(ops, "hdr.add "+encHeader(h)+" "+hx(k)+" "+hx(genValue(r)))
			default:
				ops = append(ops, "hdr.del "+encHeader(h)+" "+hx(k))
			}
		}
	}
	return ops
}
