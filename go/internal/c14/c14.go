// Package c14: the spec-compliance stack (httpspec.NewStack) and its members: hop-by-hop
// removal, Via stamping / loop detection, X-Forwarded-*, framing errors.
//
// Op grammar (tokens are hex, "-" = empty; <hdr> = "-" or "key=v,v;key=~;…", keys sorted):
//
//	hbh <hdr>                                              header.NewHopByHopModifier alone
//	hbhres <status> <hdr>                                  header.NewHopByHopModifier's ModifyResponse alone, any status code
//	via <maj> <min> <name> <boundary> <hdr>                header.NewViaModifier alone (SetBoundary)
//	fwd <scheme> <host> <url> <remote> <hdr>               header.NewForwardedModifier alone
//	framing <hdr>                                          header.NewBadFramingModifier alone
//	stackreq <maj> <min> <name> <boundary> <scheme> <host> <url> <remote> <hdr>
//	                                                       httpspec.NewStack(name).ModifyRequest
//	stackres <status> <hdr>                                ….ModifyResponse on the request/context of the last stackreq
//	e2e <name> <boundary> <raw header lines> <status> <hdr>  a real proxy using the stack (see e2e.go); the model is sent
//	    e2e <name> <boundary> <scheme> <host> <url> <remote> <status> <request header as parsed> <hdr>
//	hdr.canon|get|values|set|add|del, net.shp, re.field2   stdlib-model differential ops
package c14

import (
	"bytes"
	crand "crypto/rand"
	"encoding/hex"
	"fmt"
	"net"
	"net/http"
	"net/url"
	"regexp"
	"sort"
	"strconv"
	"strings"
	"sync"

	"github.com/google/martian/v3"
	"github.com/google/martian/v3/fifo"
	"github.com/google/martian/v3/header"
	"github.com/google/martian/v3/httpspec"
	"github.com/google/martian/v3/proxyutil"

	"verif/harness/internal/core"
)

type P struct{}

func init() { core.Register(P{}) }

func (P) ID() string { return "C14" }
func (P) Rule() string {
	return "case = one generated header multiset (keys as net/http parses them and, in 1 of 6, keys a modifier wrote in another spelling; 0-3 Connection " +
		"lines with 0-4 tokens each in random case/spacing - also folded lines, bare CR/LF, VT, FF - naming present, absent, fixed hop-by-hop and stamped " +
		"headers, empty tokens; Proxy-Connection token lists, Keep-Alive parameters; 0-3 pre-existing Via lines with and without this instance and near " +
		"misses; pre-existing single/multi-line/empty X-Forwarded-*; Content-Length / Transfer-Encoding combinations) sent through the real stack " +
		"(stackreq + stackres on the same context) and through each member modifier alone, or a batch of stdlib-model ops (CanonicalHeaderKey, Header " +
		"Get/Set/Add/Del/Values, net.SplitHostPort, the Via whitespace split), or one e2e exchange through a real proxy using the stack (raw request with " +
		"names in any case, obs-folded values, optional white space; scripted origin response) compared with the model's exchange; distinct by hash of " +
		"the op list; non-trivial when the stack changed the header set (something removed) and kept at least one header"
}

func (P) Nontrivial(ops []string, impl []string) bool {
	for i, op := range ops {
		t := strings.Fields(op)
		if len(t) == 0 || i >= len(impl) {
			continue
		}
		if t[0] == "stackreq" || t[0] == "hbh" {
			before, ok := decHeader(t[len(t)-1])
			f := strings.Fields(impl[i])
			if !ok || len(f) == 0 {
				continue
			}
			after, ok := decHeader(f[len(f)-1])
			if !ok {
				continue
			}
			removed, kept := 0, 0
			for k := range before {
				if _, ok := after[k]; ok {
					kept++
				} else {
					removed++
				}
			}
			if removed > 0 && kept > 0 {
				return true
			}
		}
		if t[0] == "e2e" {
			return true
		}
	}
	return false
}

// ---- header token codec ----

func encHeader(h http.Header) string {
	if len(h) == 0 {
		return "-"
	}
	keys := make([]string, 0, len(h))
	for k := range h {
		keys = append(keys, k)
	}
	sort.Strings(keys)
	var es []string
	for _, k := range keys {
		vs := h[k]
		if len(vs) == 0 {
			es = append(es, core.HexS(k)+"=~")
			continue
		}
		hv := make([]string, len(vs))
		for i, v := range vs {
			hv[i] = core.HexS(v)
		}
		es = append(es, core.HexS(k)+"="+strings.Join(hv, ","))
	}
	return strings.Join(es, ";")
}

func decHeader(s string) (http.Header, bool) {
	h := http.Header{}
	if s == "-" {
		return h, true
	}
	for _, e := range strings.Split(s, ";") {
		kv := strings.Split(e, "=")
		if len(kv) != 2 {
			return nil, false
		}
		k, ok := core.Unhex(kv[0])
		if !ok {
			return nil, false
		}
		if kv[1] == "~" {
			h[string(k)] = []string{}
			continue
		}
		var vs []string
		for _, hv := range strings.Split(kv[1], ",") {
			v, ok := core.Unhex(hv)
			if !ok {
				return nil, false
			}
			vs = append(vs, string(v))
		}
		h[string(k)] = vs
	}
	return h, true
}

func cloneHeader(h http.Header) http.Header {
	c := http.Header{}
	for k, vs := range h {
		c[k] = append([]string{}, vs...)
	}
	return c
}

func arg(t []string, i int) string {
	if i >= len(t) {
		return ""
	}
	b, _ := core.Unhex(t[i])
	return string(b)
}

// errClass maps a modifier error to the model's enum: one class per aggregated error
// (martian.MultiError joins its members with a newline; inside a Warning value the newline
// is the two characters `\n`), joined by "+".
func errClass(err error) string {
	if err == nil {
		return "ok"
	}
	var cs []string
	for _, l := range strings.Split(strings.ReplaceAll(err.Error(), `\n`, "\n"), "\n") {
		switch {
		case strings.Contains(l, "detected request loop"):
			cs = append(cs, "loop")
		case strings.Contains(l, "mismatched"):
			cs = append(cs, "cl")
		case strings.Contains(l, "does not end in"):
			cs = append(cs, "te")
		default:
			cs = append(cs, "other")
		}
	}
	return strings.Join(cs, "+")
}

// newStack builds httpspec.NewStack(name) with a chosen boundary: the via modifier inside the
// stack draws its boundary from crypto/rand.Reader, which is pinned for the duration of the call.
var randMu sync.Mutex

func newStack(name, boundary string) (*fifo.Group, *fifo.Group, bool) {
	raw, err := hex.DecodeString(boundary)
	if err != nil || len(raw) != 10 || strings.ToLower(boundary) != boundary {
		return nil, nil, false
	}
	randMu.Lock()
	defer randMu.Unlock()
	old := crand.Reader
	crand.Reader = bytes.NewReader(raw)
	defer func() { crand.Reader = old }()
	outer, inner := httpspec.NewStack(name)
	return outer, inner, true
}

type ex struct {
	outer   *fifo.Group
	req     *http.Request
	remove  func()
	loopSig string // "" = the last stackreq's Via did not name this instance; "?" = undecidable; else the sig to use if 400 is missing
	e2e     *e2eEnv
}

func (P) NewExec() core.Exec { return &ex{} }
func (e *ex) Close() {
	if e.remove != nil {
		e.remove()
	}
	if e.e2e != nil {
		e.e2e.close()
	}
}

func atoi(s string) int { v, _ := strconv.Atoi(s); return v }

var wsRe = regexp.MustCompile("[\t ]+")

func (e *ex) Do(op string) core.Result {
	t := strings.Fields(op)
	if len(t) == 0 {
		return core.Result{Impl: "bad-op"}
	}
	switch t[0] {
	case "hbh":
		if len(t) != 2 {
			break
		}
		h, ok := decHeader(t[1])
		if !ok {
			break
		}
		before := cloneHeader(h)
		req := &http.Request{Method: "GET", URL: &url.URL{Scheme: "http", Host: "h", Path: "/"}, Header: h}
		err := header.NewHopByHopModifier().ModifyRequest(req)
		r := core.Result{Impl: encHeader(req.Header)}
		if err != nil {
			r.Fail, r.Sig = "hop-by-hop modifier returned an error: "+err.Error(), "c14:hbh-error"
			return r
		}
		if f := first(oracleHop(before, req.Header, nil)); f != nil {
			r.Fail, r.Sig = f.msg, f.sig
		}
		core.Count("op:hbh")
		return r
	case "hbhres":
		// the hop-by-hop modifier's response side alone, on a response with the given status
		if len(t) != 3 {
			break
		}
		h, ok := decHeader(t[2])
		if !ok {
			break
		}
		status := atoi(t[1])
		before := cloneHeader(h)
		req := &http.Request{Method: "GET", URL: &url.URL{Scheme: "http", Host: "h", Path: "/"}, Header: http.Header{}}
		res := proxyutil.NewResponse(status, nil, req)
		res.Header = h
		err := header.NewHopByHopModifier().ModifyResponse(res)
		r := core.Result{Impl: fmt.Sprintf("%d %s", res.StatusCode, encHeader(res.Header))}
		if err != nil {
			r.Fail, r.Sig = "hop-by-hop modifier returned an error: "+err.Error(), "c14:hbh-error"
			return r
		}
		fs := oracleHop(before, res.Header, nil)
		if res.StatusCode != status {
			fs = append(fs, &fl{"c14:status-changed", fmt.Sprintf("hop-by-hop modifier changed the status %d to %d", status, res.StatusCode)})
		}
		if f := first(fs); f != nil {
			r.Fail, r.Sig = fmt.Sprintf("response status %d: %s", status, f.msg), f.sig
		}
		core.Count("op:hbhres")
		return r
	case "via":
		if len(t) != 6 {
			break
		}
		h, ok := decHeader(t[5])
		if !ok {
			break
		}
		name, bd := arg(t, 3), arg(t, 4)
		before := cloneHeader(h)
		req := &http.Request{Method: "GET", URL: &url.URL{Scheme: "http", Host: "h", Path: "/"}, Header: h, ProtoMajor: atoi(t[1]), ProtoMinor: atoi(t[2])}
		ctx, remove, err := martian.TestContext(req, nil, nil)
		if err != nil {
			return core.Result{Impl: "bad-op"}
		}
		defer remove()
		vm := header.NewViaModifier(name)
		vm.SetBoundary(bd)
		merr := vm.ModifyRequest(req)
		_, key := ctx.Get("via.LoopDetection")
		r := core.Result{Impl: fmt.Sprintf("%s skip=%v key=%v %s", errClass(merr), ctx.SkippingRoundTrip(), key, encHeader(req.Header))}
		mine := fmt.Sprintf("%d.%d %s-%s", req.ProtoMajor, req.ProtoMinor, name, bd)
		if f := first(oracleVia(before, req.Header, name+"-"+bd, mine, errClass(merr), ctx.SkippingRoundTrip(), false, false)); f != nil {
			r.Fail, r.Sig = f.msg, f.sig
		}
		// response side: 400 iff the loop was seen
		res := proxyutil.NewResponse(200, nil, req)
		rerr := vm.ModifyResponse(res)
		named := namesInstance(before["Via"], name+"-"+bd)
		if r.Fail == "" && viaDecidable(before["Via"]) {
			if named && (res.StatusCode != 400 || rerr == nil) {
				r.Fail, r.Sig = fmt.Sprintf("Via %q names %s-%s but the response is %d (err %v)", before["Via"], name, bd, res.StatusCode, rerr), "c14:loop-not-400"
			}
			if !named && (res.StatusCode != 200 || rerr != nil) {
				r.Fail, r.Sig = fmt.Sprintf("Via %q does not name this instance but the response is %d (err %v)", before["Via"], res.StatusCode, rerr), "c14:false-loop"
			}
		}
		core.Count("op:via:" + errClass(merr))
		return r
	case "fwd":
		if len(t) != 6 {
			break
		}
		h, ok := decHeader(t[5])
		if !ok {
			break
		}
		scheme, host, us, remote := arg(t, 1), arg(t, 2), arg(t, 3), arg(t, 4)
		u, err := url.Parse(us)
		if err != nil || u.String() != us || u.Scheme != scheme {
			return core.Result{Impl: "bad-op"}
		}
		before := cloneHeader(h)
		req := &http.Request{Method: "GET", URL: u, Host: host, Header: h, RemoteAddr: remote}
		merr := header.NewForwardedModifier().ModifyRequest(req)
		r := core.Result{Impl: encHeader(req.Header)}
		if merr != nil {
			r.Fail, r.Sig = "forwarded modifier returned an error: "+merr.Error(), "c14:fwd-error"
			return r
		}
		if f := first(oracleFwd(before, req.Header, scheme, host, us, remote, nil)); f != nil {
			r.Fail, r.Sig = f.msg, f.sig
		}
		core.Count("op:fwd")
		return r
	case "framing":
		if len(t) != 2 {
			break
		}
		h, ok := decHeader(t[1])
		if !ok {
			break
		}
		before := cloneHeader(h)
		req := &http.Request{Method: "POST", URL: &url.URL{Scheme: "http", Host: "h", Path: "/"}, Header: h}
		merr := header.NewBadFramingModifier().ModifyRequest(req)
		cls := errClass(merr)
		r := core.Result{Impl: cls + " " + encHeader(req.Header)}
		teBad, clConflict := framingFacts(before)
		switch {
		case clConflict && cls != "cl" && cls != "te":
			r.Fail, r.Sig = fmt.Sprintf("Content-Length %q conflict but the framing modifier returned %s", before["Content-Length"], cls), "c14:framing-cl-unflagged"
		case teBad && cls != "te" && cls != "cl":
			r.Fail, r.Sig = fmt.Sprintf("Transfer-Encoding %q does not end in chunked but the framing modifier returned %s", before["Transfer-Encoding"], cls), "c14:framing-te-unflagged"
		case len(before["Content-Length"]) == 0 && len(before["Transfer-Encoding"]) == 0 && merr != nil:
			r.Fail, r.Sig = "framing error without Content-Length / Transfer-Encoding: "+merr.Error(), "c14:spurious-error"
		}
		core.Count("op:framing:" + cls)
		return r
	case "stackreq":
		if len(t) != 10 {
			break
		}
		h, ok := decHeader(t[9])
		if !ok {
			break
		}
		name, bd, scheme, host, us, remote := arg(t, 3), arg(t, 4), arg(t, 5), arg(t, 6), arg(t, 7), arg(t, 8)
		u, err := url.Parse(us)
		if err != nil || u.String() != us || u.Scheme != scheme {
			return core.Result{Impl: "bad-op"}
		}
		outer, _, ok := newStack(name, bd)
		if !ok {
			return core.Result{Impl: "bad-op"}
		}
		if e.remove != nil {
			e.remove()
			e.remove = nil
		}
		before := cloneHeader(h)
		req := &http.Request{Method: "POST", URL: u, Host: host, Header: h, ProtoMajor: atoi(t[1]), ProtoMinor: atoi(t[2]), RemoteAddr: remote}
		ctx, remove, err := martian.TestContext(req, nil, nil)
		if err != nil {
			return core.Result{Impl: "bad-op"}
		}
		e.outer, e.req, e.remove = outer, req, remove
		merr := outer.ModifyRequest(req)
		cls := errClass(merr)
		skip := ctx.SkippingRoundTrip()
		r := core.Result{Impl: fmt.Sprintf("%s skip=%v %s", cls, skip, encHeader(req.Header))}
		mine := fmt.Sprintf("%d.%d %s-%s", req.ProtoMajor, req.ProtoMinor, name, bd)
		fs, loopSig := oracleStackReq(before, req.Header, name+"-"+bd, mine, scheme, host, us, remote, cls, skip)
		e.loopSig = loopSig
		if !viaDecidable(before["Via"]) || exotic(before["Connection"]) {
			e.loopSig = "?" // the oracle abstains on this request's loop clause, hence on the response status too
		}
		if f := first(fs); f != nil {
			r.Fail, r.Sig = f.msg, f.sig
		}
		core.Count("stackreq:" + cls)
		if skip {
			core.Count("stackreq:skip")
		}
		return r
	case "stackres":
		if len(t) != 3 {
			break
		}
		h, ok := decHeader(t[2])
		if !ok {
			break
		}
		status := atoi(t[1])
		if e.outer == nil {
			outer, _, _ := newStack("martian", "00000000000000000000")
			req := &http.Request{Method: "GET", URL: &url.URL{Scheme: "http", Host: "h", Path: "/"}, Header: http.Header{}}
			_, remove, err := martian.TestContext(req, nil, nil)
			if err != nil {
				return core.Result{Impl: "bad-op"}
			}
			e.outer, e.req, e.remove, e.loopSig = outer, req, remove, ""
		}
		before := cloneHeader(h)
		res := proxyutil.NewResponse(status, nil, e.req)
		res.Header = h
		merr := e.outer.ModifyResponse(res)
		cls := errClass(merr)
		r := core.Result{Impl: fmt.Sprintf("%s %d %s", cls, res.StatusCode, encHeader(res.Header))}
		var fs []*fl
		if e.loopSig == "?" {
			core.Count("stackres:oracle-abstains")
		} else if e.loopSig != "" {
			if res.StatusCode != 400 {
				fs = append(fs, &fl{e.loopSig, fmt.Sprintf("the request's Via named this instance but the response status is %d, not 400", res.StatusCode)})
			}
			// the 400 still travels to the client through the stack: no hop-by-hop header on it either
			fs = append(fs, oracleHop(before, res.Header, nil)...)
		} else {
			if res.StatusCode != status {
				fs = append(fs, &fl{"c14:status-changed", fmt.Sprintf("response status %d became %d without a loop", status, res.StatusCode)})
			}
			// without a loop the whole response stack runs: hop-by-hop gone, others untouched
			fs = append(fs, oracleHop(before, res.Header, nil)...)
			if merr != nil {
				fs = append(fs, &fl{"c14:spurious-error", "response stack error without a loop: " + merr.Error()})
			}
		}
		if f := first(fs); f != nil {
			r.Fail, r.Sig = f.msg, f.sig
		}
		core.Count("stackres:" + cls)
		return r
	case "e2e":
		return e.doE2E(t)
	case "hdr.canon":
		return core.Result{Impl: core.HexS(http.CanonicalHeaderKey(arg(t, 1)))}
	case "net.shp":
		hst, _, err := net.SplitHostPort(arg(t, 1))
		if err != nil {
			return core.Result{Impl: "none"}
		}
		return core.Result{Impl: "some " + core.HexS(hst)}
	case "re.field2":
		parts := wsRe.Split(arg(t, 1), 3)
		if len(parts) < 2 {
			return core.Result{Impl: "none"}
		}
		return core.Result{Impl: "some " + core.HexS(parts[1])}
	case "hdr.get", "hdr.values", "hdr.del":
		if len(t) != 3 {
			break
		}
		h, ok := decHeader(t[1])
		if !ok {
			break
		}
		switch t[0] {
		case "hdr.get":
			return core.Result{Impl: core.HexS(h.Get(arg(t, 2)))}
		case "hdr.values":
			vs := h.Values(arg(t, 2))
			if len(vs) == 0 {
				return core.Result{Impl: "~"}
			}
			o := make([]string, len(vs))
			for i, v := range vs {
				o[i] = core.HexS(v)
			}
			return core.Result{Impl: strings.Join(o, ",")}
		default:
			h.Del(arg(t, 2))
			return core.Result{Impl: encHeader(h)}
		}
	case "hdr.set", "hdr.add":
		if len(t) != 4 {
			break
		}
		h, ok := decHeader(t[1])
		if !ok {
			break
		}
		if t[0] == "hdr.set" {
			h.Set(arg(t, 2), arg(t, 3))
		} else {
			h.Add(arg(t, 2), arg(t, 3))
		}
		return core.Result{Impl: encHeader(h)}
	}
	return core.Result{Impl: "bad-op"}
}
