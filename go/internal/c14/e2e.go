package c14

import (
	"verif/harness/internal/core"
)

type e2eEnv struct{}

func (e *e2eEnv) close() {}

func (e *ex) doE2E(t []string) core.Result { return core.Result{Impl: "e2e", SkipModel: true} }

func genE2E(r *core.Rand) []string { return []string{"e2e"} }
