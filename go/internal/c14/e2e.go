package c14

// e2e tier: a real martian.Proxy whose request and response modifier is the real httpspec stack, a
// raw TCP client, and a recording round tripper standing for the origin (what it is handed is what
// would be sent upstream; how often it is called is the origin log).
//
//	e2e <name> <boundary> <raw request header lines> <status> <scripted origin response header>
//
// Observation (compared with the model's `exchange`): how often the origin was contacted, the
// error classes of the request side (from the proxy's Warning on the forwarded request) and of the
// response side (Warning on the response), the client's status, the header the origin was handed and
// the header the client got (the proxy's own Warning values and its own framing headers removed).
// The model is handed what net/http parsed from the raw lines (the codec is trusted) and the
// client address the proxy saw.

import (
	"bufio"
	"fmt"
	"io"
	"net"
	"net/http"
	"sort"
	"strings"
	"sync"
	"time"

	"github.com/google/martian/v3"

	"verif/harness/internal/core"
)

type e2eEnv struct{}

func (e *e2eEnv) close() {}

type recRT struct {
	mu     sync.Mutex
	calls  int
	seen   http.Header
	status int
	hdr    http.Header
}

func (r *recRT) RoundTrip(req *http.Request) (*http.Response, error) {
	r.mu.Lock()
	defer r.mu.Unlock()
	r.calls++
	r.seen = cloneHeader(req.Header)
	return &http.Response{StatusCode: r.status, Status: http.StatusText(r.status), Proto: "HTTP/1.1", ProtoMajor: 1, ProtoMinor: 1,
		Header: cloneHeader(r.hdr), Body: http.NoBody, ContentLength: 0, Request: req}, nil
}

const e2eURL = "http://origin.test/p?q=1"

func (e *ex) doE2E(t []string) core.Result {
	out := core.Result{SkipModel: true, Impl: "e2e"}
	if len(t) != 6 {
		out.Impl = "bad-op"
		return out
	}
	name, bd, rawHdr, status := arg(t, 1), arg(t, 2), arg(t, 3), atoi(t[4])
	resHdr, ok := decHeader(t[5])
	outer, _, ok2 := newStack(name, bd)
	if !ok || !ok2 {
		out.Impl = "bad-op"
		return out
	}
	raw := "GET " + e2eURL + " HTTP/1.1\r\nHost: origin.test\r\n" + rawHdr + "\r\n"
	breq, perr := http.ReadRequest(bufio.NewReader(strings.NewReader(raw)))
	if perr != nil {
		out.Impl = "e2e unparsable"
		core.Count("e2e:unparsable")
		return out
	}
	before := breq.Header

	p := martian.NewProxy()
	p.SetRequestModifier(outer)
	p.SetResponseModifier(outer)
	rt := &recRT{status: status, hdr: resHdr}
	p.SetRoundTripper(rt)
	l, err := net.Listen("tcp", "127.0.0.1:0")
	if err != nil {
		out.Impl = "e2e no-listener"
		return out
	}
	go p.Serve(l)
	defer func() {
		l.Close()
		go p.Close() // may wait for the connection handler; never awaited
	}()
	conn, err := net.DialTimeout("tcp", l.Addr().String(), 10*time.Second)
	if err != nil {
		out.Impl = "e2e no-conn"
		return out
	}
	defer conn.Close()
	conn.SetDeadline(time.Now().Add(12 * time.Second))
	if _, err := io.WriteString(conn, raw); err != nil {
		return core.Result{SkipModel: true, Impl: "e2e", Fail: "write to proxy: " + err.Error(), Sig: "c14:e2e-io"}
	}
	res, err := http.ReadResponse(bufio.NewReader(conn), nil)
	if err != nil {
		return core.Result{SkipModel: true, Impl: "e2e", Fail: "no response from proxy: " + err.Error(), Sig: "c14:e2e-io"}
	}
	io.Copy(io.Discard, io.LimitReader(res.Body, 1<<20))
	res.Body.Close()
	rt.mu.Lock()
	calls, seen := rt.calls, rt.seen
	rt.mu.Unlock()
	remote := conn.LocalAddr().String()

	// ---- the observation, and the line the model is asked about
	reqCls, seenS := "-", "-"
	if calls > 0 {
		reqCls = "ok"
		if mw := stripMartianWarnings(seen); len(mw) > 0 {
			reqCls = errClass(fmt.Errorf("%s", strings.Join(mw, "\n")))
		}
		seenS = encHeader(seen)
	}
	resCls := "ok"
	if mw := stripMartianWarnings(res.Header); len(mw) > 0 {
		resCls = errClass(fmt.Errorf("%s", strings.Join(mw, "\n")))
	}
	got := cloneHeader(res.Header)
	for _, k := range []string{"Connection", "Content-Length", "Transfer-Encoding"} { // the proxy's own framing of the response
		delete(got, k)
	}
	out.SkipModel = false
	out.Impl = fmt.Sprintf("e2e calls=%d req=%s status=%d res=%s seen=%s reshdr=%s", calls, reqCls, res.StatusCode, resCls, seenS, encHeader(got))
	out.ModelOp = fmt.Sprintf("e2e %s %s %s %s %s %s %d %s %s", t[1], t[2], hx("http"), hx("origin.test"), hx(e2eURL), hx(remote), status, encHeader(before), t[5])
	core.Count(fmt.Sprintf("e2e:calls=%d", calls))

	// ---- the property oracle
	tag := name + "-" + bd
	mine := "1.1 " + tag
	var fs []*fl
	ls := listed(before)
	if exotic(before["Connection"]) || !viaDecidable(before["Via"]) {
		core.Count("e2e:oracle-abstains")
		return out
	}
	named := namesInstance(before["Via"], tag)
	if named {
		core.Count("e2e:loop")
		if calls != 0 || res.StatusCode != 400 {
			sig := "c14:e2e-loop-not-stopped"
			if ls["via"] {
				sig = "c14:stack-connection-listed-via-loop-missed"
			}
			fs = append(fs, &fl{sig, fmt.Sprintf("Via %q names this instance but the origin was contacted %d time(s) and the client got %d", before["Via"], calls, res.StatusCode)})
		}
	} else {
		core.Count("e2e:forwarded")
		if calls != 1 {
			fs = append(fs, &fl{"c14:e2e-not-forwarded", fmt.Sprintf("origin contacted %d times for a request without a loop (client got %d)", calls, res.StatusCode)})
		} else {
			rfs, _ := oracleStackReq(before, seen, tag, mine, "http", "origin.test", e2eURL, remote, reqCls, false)
			fs = append(fs, rfs...)
			if res.StatusCode != status {
				fs = append(fs, &fl{"c14:status-changed", fmt.Sprintf("origin answered %d, client got %d", status, res.StatusCode)})
			}
			// the proxy's own framing of the response is not the stack's business
			skip := map[string]bool{"connection": true, "content-length": true, "transfer-encoding": true}
			fs = append(fs, oracleHop(resHdr, res.Header, skip)...)
		}
	}
	if f := first(fs); f != nil {
		out.Fail, out.Sig = "e2e: "+f.msg, f.sig
	}
	return out
}

// stripMartianWarnings removes (and returns) the Warning values the proxy itself added
// (proxyutil.Warning: `199 "martian" …`), leaving Warning values that travelled in the message.
func stripMartianWarnings(h http.Header) []string {
	var mine, rest []string
	for _, w := range h["Warning"] {
		if strings.HasPrefix(w, `199 "martian" `) {
			mine = append(mine, w)
		} else {
			rest = append(rest, w)
		}
	}
	if len(mine) > 0 {
		if len(rest) == 0 {
			delete(h, "Warning")
		} else {
			h["Warning"] = rest
		}
	}
	return mine
}

// genE2E: a generated header multiset that can travel in a bodiless GET (no Content-Length /
// Transfer-Encoding), as raw header lines; values are what a parser keeps (OWS-trimmed).
func genE2E(r *core.Rand) []string {
	e := genEnv(r)
	clean := func(h http.Header) http.Header {
		o := http.Header{}
		ks := make([]string, 0, len(h))
		for k := range h {
			ks = append(ks, k)
		}
		sort.Strings(ks)
		for _, k0 := range ks {
			vs := h[k0]
			// names as the wire parser on the other side will store them (the generator also writes
			// other spellings into the map; on the wire they are the same field)
			k := http.CanonicalHeaderKey(k0)
			if k == "Content-Length" || k == "Transfer-Encoding" || k == "Trailer" || len(vs) == 0 {
				continue
			}
			for _, v := range vs {
				// what can travel in one header line: no CR/LF/VT/FF (the wire writer would replace them)
				v = strings.Map(func(c rune) rune {
					if c == '\r' || c == '\n' || c == '\v' || c == '\f' {
						return ' '
					}
					return c
				}, v)
				o[k] = append(o[k], strings.Trim(v, " \t"))
			}
		}
		return o
	}
	h := clean(genHeader(r, genOpts{name: e.name, boundary: e.boundary, loopChance: 3, client: "127.0.0.1"}))
	keys := make([]string, 0, len(h))
	for k := range h {
		keys = append(keys, k)
	}
	sort.Strings(keys)
	// on the wire: field names in any letter case (the parser canonicalises them), values optionally
	// folded over two lines (obs-fold: the parser joins the pieces with one space), optional white
	// space around the value
	var b strings.Builder
	for _, k := range keys {
		for _, v := range h[k] {
			wk := k
			if r.Chance(1, 3) {
				wk = mangleCase(r, k)
				core.Count("e2e:wire-name-case")
			}
			if i := strings.IndexAny(v, " "); i > 0 && i < len(v)-1 && r.Chance(1, 4) && strings.TrimLeft(v[i:], " \t") != "" {
				v = v[:i] + r.Pick("\r\n ", "\r\n\t", "\r\n  ") + strings.TrimLeft(v[i:], " \t")
				core.Count("e2e:obs-fold")
			}
			b.WriteString(wk + ":" + r.Pick(" ", " ", "", "\t", "  ") + v + r.Pick("", "", " ", "\t") + "\r\n")
		}
	}
	rh := clean(genHeader(r, genOpts{name: e.name, boundary: e.boundary}))
	return []string{fmt.Sprintf("e2e %s %s %s %d %s", hx(e.name), hx(e.boundary), hx(b.String()), e2eStatus(r), encHeader(rh))}
}

// e2eStatus: final status codes the scripted origin answers with (1xx interim responses are not
// final responses on the wire; 101 is: it ends the HTTP exchange).
func e2eStatus(r *core.Rand) int {
	if r.Bool() {
		return r.Pick2(200, 404)
	}
	return []int{101, 201, 204, 205, 206, 299, 301, 304, 307, 400, 407, 426, 500, 502, 503, 599}[r.Intn(16)]
}
