// h1.* ops: the real net/http HTTP/1 codec (http.ReadRequest / http.ReadResponse + io.ReadAll of
// the body, Request.Write / Response.Write) on byte strings, printed as the canonical line the
// Lean model (lean/Martian/Model/Http1.lean through Drv/Http1.lean) prints for the same bytes.
package golib

import (
	"bufio"
	"bytes"
	"fmt"
	"hash/fnv"
	"io"
	"net/http"
	"sort"
	"strconv"
	"strings"

	"verif/harness/internal/core"
)

// H1Class maps an error of the codec to the model's outcome class.
func H1Class(err error) string {
	if err == nil {
		return "ok"
	}
	if err == io.EOF || err == io.ErrUnexpectedEOF || err.Error() == "http: unexpected EOF reading trailer" {
		return "incomplete"
	}
	return "malformed"
}

func fnv64(b []byte) string {
	h := fnv.New64a()
	h.Write(b)
	return fmt.Sprintf("%016x", h.Sum64())
}

func kvs(h http.Header) string {
	keys := make([]string, 0, len(h))
	for k := range h {
		keys = append(keys, k)
	}
	sort.Strings(keys)
	var out []string
	for _, k := range keys {
		for _, v := range h[k] {
			out = append(out, core.HexS(k)+":"+core.HexS(v))
		}
	}
	if len(out) == 0 {
		return "-"
	}
	return strings.Join(out, ",")
}

func keysOf(h http.Header) string {
	if h == nil {
		return "none"
	}
	keys := make([]string, 0, len(h))
	for k := range h {
		keys = append(keys, core.HexS(k))
	}
	// sort by the decoded key: hex of ASCII preserves byte order
	sort.Strings(keys)
	if len(keys) == 0 {
		return "-"
	}
	return strings.Join(keys, ",")
}

func trailerTok(h http.Header) string {
	if h == nil {
		return "none"
	}
	return kvs(h)
}

func b01(x bool) string {
	if x {
		return "1"
	}
	return "0"
}

// H1Msg is one message as read by the real codec (body read to its end).
type H1Msg struct {
	Req             bool
	Method, URI     string
	Major, Minor    int
	Code            int
	Status, Host    string
	Chunked         bool
	CL              int64
	Close           bool
	Header, Trailer http.Header
	Decl            string
	Body            []byte
	Class           string // ok | incomplete | malformed
	Err             error  // the codec error when Class != ok
	Request         *http.Request
	Response        *http.Response
}

func (m *H1Msg) Line(left int) string {
	if m.Class != "ok" {
		return m.Class
	}
	return fmt.Sprintf("ok m=%s u=%s p=%d.%d c=%d s=%s h=%s te=%s cl=%d close=%s hdr=%s body=%d:%s tr=%s decl=%s left=%d",
		core.HexS(m.Method), core.HexS(m.URI), m.Major, m.Minor, m.Code, core.HexS(m.Status), core.HexS(m.Host),
		b01(m.Chunked), m.CL, b01(m.Close), kvs(m.Header), len(m.Body), fnv64(m.Body), trailerTok(m.Trailer), m.Decl, left)
}

func isChunked(te []string) bool { return len(te) > 0 && te[len(te)-1] == "chunked" }

// ReadReq runs http.ReadRequest + io.ReadAll(Body) on br.
func ReadReq(br *bufio.Reader) *H1Msg {
	req, err := http.ReadRequest(br)
	if err != nil {
		return &H1Msg{Class: H1Class(err), Err: err}
	}
	decl := keysOf(req.Trailer)
	body, err := io.ReadAll(req.Body)
	if err != nil {
		return &H1Msg{Class: H1Class(err), Err: err}
	}
	return &H1Msg{Req: true, Method: req.Method, URI: req.RequestURI, Major: req.ProtoMajor, Minor: req.ProtoMinor,
		Host: req.Host, Chunked: isChunked(req.TransferEncoding), CL: req.ContentLength, Close: req.Close,
		Header: req.Header, Trailer: req.Trailer, Decl: decl, Body: body, Class: "ok", Request: req}
}

// ReadRes runs http.ReadResponse (for a request with the given method) + io.ReadAll(Body) on br.
func ReadRes(br *bufio.Reader, method string) *H1Msg {
	res, err := http.ReadResponse(br, &http.Request{Method: method})
	if err != nil {
		return &H1Msg{Class: H1Class(err), Err: err}
	}
	decl := keysOf(res.Trailer)
	body, err := io.ReadAll(res.Body)
	if err != nil {
		return &H1Msg{Class: H1Class(err), Err: err}
	}
	return &H1Msg{Major: res.ProtoMajor, Minor: res.ProtoMinor, Code: res.StatusCode, Status: res.Status,
		Chunked: isChunked(res.TransferEncoding), CL: res.ContentLength, Close: res.Close,
		Header: res.Header, Trailer: res.Trailer, Decl: decl, Body: body, Class: "ok", Response: res}
}

type h1src struct {
	rd *bytes.Reader
	br *bufio.Reader
}

func newSrc(b []byte) *h1src {
	rd := bytes.NewReader(b)
	return &h1src{rd, bufio.NewReader(rd)}
}
func (s *h1src) left() int { return s.br.Buffered() + s.rd.Len() }

func streamLine(lines []string, stop string) string {
	h := fnv.New64a()
	for _, l := range lines {
		h.Write([]byte(l))
		h.Write([]byte{10})
	}
	return fmt.Sprintf("n=%d h=%016x stop=%s", len(lines), h.Sum64(), stop)
}

// h1Expect checks the generator's expectation tokens (oracle, independent of the model):
//
//	want=ok:<len>:<fnv>   the bytes are a complete well-formed message with this body
//	want=notok            the bytes are a strict prefix of a length-delimited message
//	want=n:<k>            the stream holds exactly k complete messages and ends cleanly
func h1Expect(toks []string, m *H1Msg, stream string) (fail, sig string) {
	for _, t := range toks {
		if !strings.HasPrefix(t, "want=") {
			continue
		}
		w := strings.TrimPrefix(t, "want=")
		switch {
		case strings.HasPrefix(w, "ok:"):
			if m == nil || m.Class != "ok" {
				cl := "?"
				if m != nil {
					cl = m.Class
				}
				return "a well-formed message was not read as complete: " + cl, "h1:valid-not-read"
			}
			if got := fmt.Sprintf("ok:%d:%s", len(m.Body), fnv64(m.Body)); got != w {
				return "body read " + got + " sent " + w, "h1:body-differs"
			}
		case w == "notok":
			if m != nil && m.Class == "ok" {
				return "a strict prefix of a length-delimited message was read as a complete message", "h1:prefix-read-complete"
			}
		case strings.HasPrefix(w, "n:"):
			if !strings.HasPrefix(stream, "n="+strings.TrimPrefix(w, "n:")+" ") || !strings.HasSuffix(stream, "stop=end") {
				return "pipelined messages not recovered one by one: " + stream + " expected " + w, "h1:stream-split"
			}
		}
	}
	return "", ""
}

// DoH1 executes one h1.* op. Tokens starting with "want=" are the generator's expectation: they
// are judged here and stripped from the line the model sees.
func DoH1(op string) (core.Result, bool) {
	t := strings.Fields(op)
	if len(t) == 0 || !strings.HasPrefix(t[0], "h1.") {
		return core.Result{}, false
	}
	var args, wants []string
	for _, x := range t {
		if strings.HasPrefix(x, "want=") {
			wants = append(wants, x)
		} else {
			args = append(args, x)
		}
	}
	res := core.Result{ModelOp: strings.Join(args, " ")}
	un := func(i int) []byte {
		if i >= len(args) {
			return nil
		}
		b, _ := core.Unhex(args[i])
		return b
	}
	switch args[0] {
	case "h1.readreq":
		s := newSrc(un(1))
		m := ReadReq(s.br)
		res.Impl = m.Line(s.left())
		res.Fail, res.Sig = h1Expect(wants, m, "")
		core.Count("h1.readreq:" + m.Class)
	case "h1.readres":
		s := newSrc(un(2))
		m := ReadRes(s.br, string(un(1)))
		res.Impl = m.Line(s.left())
		res.Fail, res.Sig = h1Expect(wants, m, "")
		core.Count("h1.readres:" + m.Class)
	case "h1.readreqs":
		s := newSrc(un(1))
		var lines []string
		stop := "end"
		for s.left() > 0 {
			m := ReadReq(s.br)
			if m.Class != "ok" {
				stop = m.Class
				break
			}
			lines = append(lines, m.Line(0))
		}
		res.Impl = streamLine(lines, stop)
		res.Fail, res.Sig = h1Expect(wants, nil, res.Impl)
		core.Count("h1.readreqs:" + stop)
	case "h1.readress":
		s := newSrc(un(2))
		var methods []string
		if len(args) > 1 && args[1] != "-" {
			for _, x := range strings.Split(args[1], ",") {
				b, _ := core.Unhex(x)
				methods = append(methods, string(b))
			}
		}
		var lines []string
		stop := ""
		for _, meth := range methods {
			m := ReadRes(s.br, meth)
			if m.Class != "ok" {
				stop = m.Class
				break
			}
			lines = append(lines, m.Line(0))
			if m.Close {
				break
			}
		}
		if stop == "" {
			stop = "end"
			if s.left() > 0 {
				stop = "left:" + strconv.Itoa(s.left())
			}
		}
		res.Impl = streamLine(lines, stop)
		res.Fail, res.Sig = h1Expect(wants, nil, res.Impl)
		core.Count("h1.readress:" + strings.SplitN(stop, ":", 2)[0])
	default:
		if r, ok := doH1Write(args, wants); ok {
			return r, true
		}
		// not a codec op of this package (h1.reqclose / h1.reswrite belong to the exchange-machine harness)
		return core.Result{}, false
	}
	return res, true
}
