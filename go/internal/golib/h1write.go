package golib

import (
	"bufio"
	"bytes"
	"net/http"
	"strings"

	"verif/harness/internal/core"
)

// doH1Write: the real writers on a message parsed by the real readers, exactly as martian.Proxy
// uses them (handle(): URL.Scheme/Host fixed up, res.Close decided by the proxy):
//
//	h1.wirereq <hex>                       ReadRequest, then Request.Write (= Transport's write, no proxy)
//	h1.wireres <method> <closing> <hex>    ReadResponse, then Response.Write
//
// The observation is the written bytes re-read by the real reader; the model gets the written
// bytes too (ModelOp) and must (a) predict that line from its own relay + wire + reader and
// (b) read the real bytes to the same result (w=1).
func doH1Write(args, wants []string) (core.Result, bool) {
	un := func(i int) []byte {
		if i >= len(args) {
			return nil
		}
		b, _ := core.Unhex(args[i])
		return b
	}
	switch args[0] {
	case "h1.wirereq":
		in := un(1)
		br := bufio.NewReader(bytes.NewReader(in))
		req, err := http.ReadRequest(br)
		if err != nil {
			core.Count("h1.wirereq:unread")
			return core.Result{Impl: H1Class(err), ModelOp: strings.Join(args, " ") + " -"}, true
		}
		// what handle() does before the round trip
		req.URL.Scheme = "http"
		if req.URL.Host == "" {
			req.URL.Host = req.Host
		}
		var w bytes.Buffer
		if err := req.Write(&w); err != nil {
			cl := "body-error" // the head was read: Write fails on the body it copies
			core.Count("h1.wirereq:" + cl)
			return core.Result{Impl: cl, ModelOp: strings.Join(args, " ") + " -"}, true
		}
		s := newSrc(w.Bytes())
		m := ReadReq(s.br)
		core.Count("h1.wirereq:" + m.Class)
		return core.Result{Impl: m.Line(s.left()) + " w=1", ModelOp: strings.Join(args, " ") + " " + core.Hex(w.Bytes())}, true
	case "h1.wireres":
		method := string(un(1))
		closing := len(args) > 2 && args[2] == "1"
		in := un(3)
		br := bufio.NewReader(bytes.NewReader(in))
		res, err := http.ReadResponse(br, &http.Request{Method: method})
		if err != nil {
			core.Count("h1.wireres:unread")
			return core.Result{Impl: H1Class(err), ModelOp: strings.Join(args, " ") + " -"}, true
		}
		if closing || res.Close {
			res.Close = true
		}
		var w bytes.Buffer
		if err := res.Write(&w); err != nil {
			cl := "body-error"
			core.Count("h1.wireres:" + cl)
			return core.Result{Impl: cl, ModelOp: strings.Join(args, " ") + " -"}, true
		}
		s := newSrc(w.Bytes())
		m := ReadRes(s.br, method)
		core.Count("h1.wireres:" + m.Class)
		return core.Result{Impl: m.Line(s.left()) + " w=1", ModelOp: strings.Join(args, " ") + " " + core.Hex(w.Bytes())}, true
	}
	return core.Result{}, false
}

// GenH1Write emits writer ops over well-formed messages (and some deviations the readers accept).
func GenH1Write(r *core.Rand, maxBody int) []string {
	var ops []string
	for i := 0; i < 6; i++ {
		req := r.Bool()
		s := GenH1Spec(r, req, maxBody)
		if r.Chance(1, 4) {
			s.weird(r)
		}
		w := s.Wire()
		if req {
			ops = append(ops, "h1.wirereq "+core.Hex(w))
		} else {
			ops = append(ops, "h1.wireres "+core.HexS(s.ReqMethod)+" "+b01(r.Chance(1, 4))+" "+core.Hex(w))
		}
	}
	return ops
}
