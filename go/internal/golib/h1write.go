package golib

import "verif/harness/internal/core"

func doH1Write(args, wants []string) (core.Result, bool) { return core.Result{}, false }
