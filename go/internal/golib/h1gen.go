package golib

import (
	"bytes"
	"fmt"
	"strconv"
	"strings"

	"verif/harness/internal/core"
	"verif/harness/internal/msggen"
)

// H1Spec describes one HTTP/1 message on the wire, knob by knob (an independent serialiser: nothing
// of net/http is used to produce the bytes).
type H1Spec struct {
	Req       bool
	Method    string
	Target    string
	Proto     string
	StatusLn  string // response: everything after the protocol, e.g. "200 OK"
	Fields    [][2]string
	Framing   string // cl | chunked | none | eof
	Body      []byte
	Chunks    []int
	Trailer   [][2]string
	ReqMethod string // response: the method of the request it answers
	EOL       string
	ChunkDeco func(i int, size string) string // decoration of a chunk-size line
	CLText    string                          // overrides the Content-Length value
	TEText    string                          // overrides the Transfer-Encoding value
	Valid     bool                            // a plain well-formed message (oracle: must be read back)
	// offsets filled by Wire()
	StartEnd, HeadEnd, BodyEnd, End int
	SizeLines                       [][2]int
}

func (s *H1Spec) Wire() []byte {
	var b bytes.Buffer
	eol := s.EOL
	if eol == "" {
		eol = "\r\n"
	}
	if s.Req {
		b.WriteString(s.Method + " " + s.Target + " " + s.Proto + eol)
	} else {
		b.WriteString(s.Proto + " " + s.StatusLn + eol)
	}
	s.StartEnd = b.Len()
	for _, f := range s.Fields {
		if f[0] == "\x00raw" { // a raw line (no colon inserted)
			b.WriteString(f[1] + eol)
			continue
		}
		b.WriteString(f[0] + ": " + f[1] + eol)
	}
	switch s.Framing {
	case "cl":
		v := strconv.Itoa(len(s.Body))
		if s.CLText != "" {
			v = s.CLText
		}
		b.WriteString("Content-Length: " + v + eol)
	case "chunked":
		v := "chunked"
		if s.TEText != "" {
			v = s.TEText
		}
		b.WriteString("Transfer-Encoding: " + v + eol)
	}
	b.WriteString(eol)
	s.HeadEnd = b.Len()
	s.SizeLines = nil
	if s.Framing == "chunked" {
		rest := s.Body
		i := 0
		emit := func(n int) {
			sz := strconv.FormatInt(int64(n), 16)
			if s.ChunkDeco != nil {
				sz = s.ChunkDeco(i, sz)
			}
			i++
			st := b.Len()
			b.WriteString(sz + "\r\n")
			s.SizeLines = append(s.SizeLines, [2]int{st, b.Len()})
			b.Write(rest[:n])
			b.WriteString("\r\n")
			rest = rest[n:]
		}
		for _, n := range s.Chunks {
			if n <= 0 || len(rest) == 0 {
				continue
			}
			if n > len(rest) {
				n = len(rest)
			}
			emit(n)
		}
		if len(rest) > 0 {
			emit(len(rest))
		}
		st := b.Len()
		b.WriteString("0\r\n")
		s.SizeLines = append(s.SizeLines, [2]int{st, b.Len()})
		s.BodyEnd = b.Len()
		for _, t := range s.Trailer {
			b.WriteString(t[0] + ": " + t[1] + eol)
		}
		b.WriteString(eol)
	} else if s.Framing != "none" {
		b.Write(s.Body)
		s.BodyEnd = b.Len()
	} else {
		s.BodyEnd = b.Len()
	}
	s.End = b.Len()
	return b.Bytes()
}

// CutClass names the part of the message a cut at offset k falls into.
func (s *H1Spec) CutClass(k int) string {
	switch {
	case k < s.StartEnd:
		return "startline"
	case k < s.HeadEnd:
		return "header"
	case k >= s.BodyEnd:
		return "trailer"
	}
	if s.Framing == "chunked" {
		for _, sl := range s.SizeLines {
			if k >= sl[0] && k < sl[1] {
				return "chunksize"
			}
		}
		return "chunkdata"
	}
	return "clbody"
}

var h1Methods = []string{"GET", "POST", "PUT", "DELETE", "HEAD", "PATCH", "OPTIONS", "M-SEARCH", "get", "X!#$%&'*+-.^_`|~"}
var h1Targets = []string{"/", "/p", "/a/b/c?x=1&y=2", "/q%20r?k=v%20w", "http://h.example/", "http://origin.test:8080/x?y",
	"https://a.b.c.example/p/./q/../r", "http://h.example", "http://h.example?q", "*", "/a+b/~t/(1)!$,'*;p=1", "//double//slash/"}
var h1Names = []string{"X-A", "x-b-lower", "X-Repeat", "X-Repeat", "Accept", "X-Empty", "Cookie", "X-MiXeD-CaSe", "Authorization",
	"If-None-Match", "User-Agent", "Set-Cookie", "ETag", "Cache-Control", "Zz-Last", "A-First", "Content-Type", "Content-Encoding", "Via"}
var h1Values = []string{"v", "", "a b  c", "text/plain; charset=utf-8", "\"abc\"", "a=1; b=2", "caf\xc3\xa9", "gzip", "*/*", "0", "x,y, z"}

func h1Fields(r *core.Rand, req bool, host string) [][2]string {
	var fs [][2]string
	if req && host != "" {
		fs = append(fs, [2]string{"Host", host})
	}
	for i, n := 0, r.Intn(7); i < n; i++ {
		fs = append(fs, [2]string{h1Names[r.Intn(len(h1Names))], h1Values[r.Intn(len(h1Values))]})
	}
	if r.Chance(1, 5) {
		fs = append(fs, [2]string{r.Pick("Connection", "connection", "CONNECTION"),
			r.Pick("close", "keep-alive", "Close", "Keep-Alive, foo", "foo , close", "upgrade", "closed", "")})
	}
	if r.Chance(1, 12) {
		fs = append(fs, [2]string{"Pragma", r.Pick("no-cache", "no-cache", "x")})
	}
	// shuffle lightly so that Host is not always first
	if len(fs) > 1 && r.Chance(1, 3) {
		i, j := r.Intn(len(fs)), r.Intn(len(fs))
		fs[i], fs[j] = fs[j], fs[i]
	}
	return fs
}

func h1Body(r *core.Rand, max int) []byte {
	n := msggen.Size(r, max)
	return msggen.Payload(r, r.Pick("text", "bin", "zero", "utf8"), n)
}

func h1Chunks(r *core.Rand, n int) []int {
	var cs []int
	for i, k := 0, r.Intn(5); i < k; i++ {
		cs = append(cs, 1+r.Intn(1+n/2+3))
	}
	if r.Chance(1, 8) { // many one-byte chunks
		for i := 0; i < n && i < 300; i++ {
			cs = append(cs, 1)
		}
	}
	return cs
}

var h1Trailers = [][2]string{{"X-Checksum", "abc"}, {"X-T", "v"}, {"Expires", "0"}, {"A-Tr", ""}, {"X-T", "second"}}

// GenH1Spec draws a well-formed message (Valid) in one of the framings in scope.
// H1Body / H1Chunks: exported for the end-to-end generators.
func H1Body(r *core.Rand, max int) []byte { return h1Body(r, max) }
func H1Chunks(r *core.Rand, n int) []int  { return h1Chunks(r, n) }

func GenH1Spec(r *core.Rand, req bool, maxBody int) *H1Spec {
	s := &H1Spec{Req: req, Proto: "HTTP/1.1", Valid: true}
	if r.Chance(1, 10) {
		s.Proto = "HTTP/1.0"
	}
	host := r.Pick("h.example", "origin.test:8080", "a.b.c.example")
	if req {
		s.Method = h1Methods[r.Intn(7)]
		s.Target = h1Targets[r.Intn(len(h1Targets))]
		if strings.HasPrefix(s.Target, "http") && r.Chance(1, 2) {
			host = "" // absolute form: the Host field is optional
		}
		s.Fields = h1Fields(r, true, host)
		switch x := r.Intn(10); {
		case x < 3:
			s.Framing = "cl"
		case x < 6:
			s.Framing = "chunked"
		default:
			s.Framing = "none"
		}
	} else {
		code := []int{200, 200, 200, 201, 206, 301, 404, 500, 299, 204, 304, 100, 101, 199}[r.Intn(14)]
		s.StatusLn = strconv.Itoa(code) + " " + r.Pick("OK", "Some Reason", "X")
		s.ReqMethod = r.Pick("GET", "GET", "POST", "HEAD")
		s.Fields = h1Fields(r, false, "")
		switch x := r.Intn(10); {
		case x < 3:
			s.Framing = "cl"
		case x < 6:
			s.Framing = "chunked"
		default:
			s.Framing = "eof"
		}
		if code < 200 || code == 204 || code == 304 || s.ReqMethod == "HEAD" {
			// bodiless by rule: the framing headers may be present, the body never is
			s.Framing = r.Pick("none", "none", "clhead", "chunkedhead")
		}
	}
	if s.Proto == "HTTP/1.0" && s.Framing == "chunked" {
		s.Framing = "cl"
	}
	switch s.Framing {
	case "cl", "chunked", "eof":
		s.Body = h1Body(r, maxBody)
	case "clhead":
		s.Framing = "none"
		s.Fields = append(s.Fields, [2]string{"Content-Length", strconv.Itoa(r.Intn(5000))})
	case "chunkedhead":
		s.Framing = "none"
		s.Fields = append(s.Fields, [2]string{"Transfer-Encoding", "chunked"})
	}
	if s.Framing == "chunked" {
		s.Chunks = h1Chunks(r, len(s.Body))
		if r.Chance(2, 5) {
			for i, n := 0, 1+r.Intn(3); i < n; i++ {
				s.Trailer = append(s.Trailer, h1Trailers[r.Intn(len(h1Trailers))])
			}
			if r.Chance(2, 3) {
				ks := []string{}
				for _, t := range s.Trailer {
					ks = append(ks, t[0])
				}
				if r.Chance(1, 3) {
					ks = append(ks, "X-Unsent")
				}
				s.Fields = append(s.Fields, [2]string{"Trailer", strings.Join(ks, r.Pick(", ", ","))})
			}
		} else if r.Chance(1, 6) {
			s.Fields = append(s.Fields, [2]string{"Trailer", "X-Unsent"})
		}
	}
	return s
}

// weird applies one deviation from the plain grammar (still often accepted by net/http).
func (s *H1Spec) weird(r *core.Rand) string {
	s.Valid = false
	pick := r.Intn(34)
	name := fmt.Sprintf("w%02d", pick)
	addF := func(k, v string) { s.Fields = append(s.Fields, [2]string{k, v}) }
	insF := func(k, v string) {
		i := r.Intn(len(s.Fields) + 1)
		s.Fields = append(s.Fields[:i], append([][2]string{{k, v}}, s.Fields[i:]...)...)
	}
	switch pick {
	case 0:
		s.EOL = "\n"
	case 1:
		insF("\x00raw", r.Pick("No-Colon-Here", "No-Colon x", "a", "=:"[:1]))
	case 2:
		insF("X-Space ", "v")
	case 3:
		insF(r.Pick(" X-Fold", "\tX-Fold"), "continued")
	case 4:
		insF("X-Bad(name)", "v")
	case 5:
		insF("X-Ctl", r.Pick("a\x00b", "a\x7fb", "a\rb", "a\x01", "tab\there", "\x80\xff"))
	case 6:
		insF("X-Ows", r.Pick("  lead", "trail  ", " \t both \t ", "\t"))
	case 7:
		s.CLText = r.Pick("-1", "+5", "0x10", "", " 7 ", "007", "9223372036854775807", "9223372036854775808", "1e3", "5,5", "٣")
		if s.Framing != "cl" {
			addF("Content-Length", s.CLText)
		}
	case 8:
		n := strconv.Itoa(len(s.Body))
		addF("Content-Length", r.Pick(n, n, "3", " "+n))
		if s.Framing != "cl" {
			addF("Content-Length", n)
		}
	case 9:
		s.TEText = r.Pick("Chunked", "CHUNKED", "identity", "gzip, chunked", "chunked, chunked", "chunked ", "gzip", "")
		if s.Framing != "chunked" {
			addF("Transfer-Encoding", s.TEText)
		}
	case 10:
		addF("Transfer-Encoding", "chunked")
		addF("Content-Length", strconv.Itoa(r.Intn(50)))
	case 11:
		addF("Transfer-Encoding", "chunked")
		addF("Transfer-Encoding", r.Pick("chunked", "gzip"))
	case 12:
		s.Proto = r.Pick("HTTP/1", "HTTP/11.1", "HTTP/2.0", "http/1.1", "HTTP/0.9", "HTTP/0.0", "HTTP/1.2", "HTTP/1.1 ", "HTTP/a.b", "HTTP/1,1", "HTTP/3.7")
	case 13:
		if s.Req {
			s.Method = r.Pick("G(T", "", "GE T", "get", "CONNECT", "PRI", "G\x00T")
		} else {
			s.StatusLn = r.Pick("200", "200 ", " 200 OK", "20 OK", "2000 OK", "+20 OK", "-20 OK", "200OK", "abc OK", "200  Two Spaces", "999 Nine", "000 Zero")
		}
	case 14:
		if s.Req {
			s.Target = r.Pick("", "x", "http://u@h.example/", "/%zz", "/a b", "h.example:443", "http://[::1]/", "http://h.example:/", "http://h.example:80:90/",
				"/caf\xc3\xa9", "ftp://h.example/", "HTTP://h.example/", "http:///nohost", "/x#frag", "http://h_x.example/", "?q", "http://h.example/%41%zz")
		} else {
			s.ReqMethod = r.Pick("HEAD", "CONNECT", "head")
		}
	case 15:
		s.ChunkDeco = func(i int, sz string) string {
			return r.Pick("0", "00", "", "000000000000") + sz + r.Pick("", ";ext=1", " ", ";", " ;x", "\t")
		}
	case 16:
		s.ChunkDeco = func(i int, sz string) string { return strings.ToUpper(sz) }
	case 17:
		bad := r.Pick("zz", "", "-1", "12345678901234567", "0x5", " 5", "g", "4000000000000000", "ffffffffffffffff")
		k := r.Intn(4)
		s.ChunkDeco = func(i int, sz string) string {
			if i == k {
				return bad
			}
			return sz
		}
	case 18:
		n := r.Pick2(3000, 6000)
		s.ChunkDeco = func(i int, sz string) string {
			if i == 0 {
				return sz + ";" + strings.Repeat("e", n)
			}
			return sz
		}
	case 19:
		// many padded size lines: the reader's overhead budget
		s.Framing = "chunked"
		s.Body = bytes.Repeat([]byte("x"), r.Pick2(200, 2500))
		s.Chunks = make([]int, len(s.Body))
		for i := range s.Chunks {
			s.Chunks[i] = 1
		}
		pad := strings.Repeat("0", r.Pick2(14, 15))
		s.ChunkDeco = func(i int, sz string) string { return pad + sz }
		s.fixFramingFields()
	case 20:
		s.Trailer = append(s.Trailer, [2]string{r.Pick("Bad Trailer", "X-Ok", " X-Fold", "X(", ""), r.Pick("v", "a\x00")})
	case 21:
		s.Trailer = append(s.Trailer, [2]string{"X-Long", strings.Repeat("t", r.Pick2(3000, 5000))})
	case 22:
		addF("Trailer", r.Pick("Content-Length", "Transfer-Encoding", "Trailer, X-T", "", " , ", "x-lower,X-T", "X-T,X-T"))
	case 23:
		addF("Pragma", "no-cache")
		if r.Bool() {
			addF("Cache-Control", "max-age=0")
		}
	case 24:
		if s.Req {
			addF("Host", "second.example")
		} else {
			addF("Connection", "close")
			addF("Connection", "x-other")
		}
	case 25:
		s.Fields = append([][2]string{{" Leading", "space"}}, s.Fields...)
	case 26:
		insF("X-Long", strings.Repeat("z", r.Pick2(4090, 9000)))
	case 27:
		insF("", "empty name")
	case 28:
		insF("X-Colons", "a:b:c")
	case 29:
		s.Proto = "HTTP/1.0"
		if r.Bool() {
			addF("Connection", "keep-alive")
		}
	case 30:
		if !s.Req {
			s.StatusLn = r.Pick("100 Continue", "204 No Content", "304 Not Modified", "101 Switching")
		} else {
			s.Method = "HEAD"
		}
	case 31:
		s.ChunkDeco = func(i int, sz string) string { return sz + "\r" } // CR CR LF
	case 32:
		insF("X-Dup-Key", "one")
		insF("x-dup-key", "two")
		insF("X-DUP-KEY", "three")
	case 33:
		s.EOL = "\n"
		s.ChunkDeco = func(i int, sz string) string { return sz + ";x" }
	}
	return name
}

func (s *H1Spec) fixFramingFields() {
	var out [][2]string
	for _, f := range s.Fields {
		k := strings.ToLower(f[0])
		if k == "content-length" || k == "transfer-encoding" {
			continue
		}
		out = append(out, f)
	}
	s.Fields = out
}

func want(s *H1Spec) string {
	if !s.Valid {
		return ""
	}
	body := s.Body
	if s.Framing == "none" {
		body = nil
	}
	return fmt.Sprintf(" want=ok:%d:%s", len(body), fnv64(body))
}

func (s *H1Spec) op(w []byte, extra string) string {
	if s.Req {
		return "h1.readreq " + core.Hex(w) + extra
	}
	return "h1.readres " + core.HexS(s.ReqMethod) + " " + core.Hex(w) + extra
}

func mutate(r *core.Rand, w []byte) []byte {
	w = append([]byte(nil), w...)
	if len(w) == 0 {
		return w
	}
	switch r.Intn(5) {
	case 0:
		w[r.Intn(len(w))] = byte(r.U64())
	case 1:
		i := r.Intn(len(w))
		w = append(w[:i], w[i+1:]...)
	case 2:
		i := r.Intn(len(w))
		w = append(w[:i], append([]byte{byte(r.Pick("\r", "\n", " ", ":", "\x00", "0", ";")[0])}, w[i:]...)...)
	case 3:
		i, j := r.Intn(len(w)), r.Intn(len(w))
		if i > j {
			i, j = j, i
		}
		w = append(w[:i], w[j:]...)
	case 4:
		w = bytes.Replace(w, []byte("\r\n"), []byte("\n"), 1+r.Intn(3))
	}
	return w
}

// GenH1Read emits one case of reader ops: well-formed messages in every framing (own serialiser and
// msggen's), each followed by arbitrary further bytes; strict prefixes in every region; deviations
// from the grammar; byte-level mutations; pipelined sequences.
func GenH1Read(r *core.Rand, maxBody int) []string {
	var ops []string
	for i := 0; i < 6; i++ {
		req := r.Bool()
		s := GenH1Spec(r, req, maxBody)
		cls := "valid"
		if r.Chance(2, 5) {
			cls = s.weird(r)
		}
		w := s.Wire()
		core.Count("h1.gen:" + cls)
		core.Count("h1.framing:" + b01(req) + ":" + s.Framing)
		full := w
		if s.Framing != "eof" && r.Chance(1, 2) { // what follows on the connection is left unread
			full = append(append([]byte(nil), w...), []byte(r.Pick("GET / HTTP/1.1\r\n\r\n", "HTTP/1.1 200 OK\r\n", "\r\n", "x", "\x00\x01\x02"))...)
		}
		ops = append(ops, s.op(full, want(s)))
		// strict prefixes
		lengthDelimited := s.Valid && s.Framing != "eof"
		for j := 0; j < 3 && len(w) > 1; j++ {
			k := r.Intn(len(w))
			switch r.Intn(6) {
			case 0:
				k = r.Intn(s.StartEnd)
			case 1:
				k = s.StartEnd + r.Intn(s.HeadEnd-s.StartEnd)
			case 2:
				if len(s.SizeLines) > 0 {
					sl := s.SizeLines[r.Intn(len(s.SizeLines))]
					k = sl[0] + r.Intn(sl[1]-sl[0]+1)
				}
			case 3:
				if s.End > s.BodyEnd {
					k = s.BodyEnd + r.Intn(s.End-s.BodyEnd)
				}
			case 4:
				k = len(w) - 1 - r.Intn(imin(4, len(w)-1))
			}
			if k >= len(w) {
				k = len(w) - 1
			}
			core.Count("h1.cut:" + s.CutClass(k))
			x := ""
			if lengthDelimited {
				x = " want=notok"
			}
			ops = append(ops, s.op(w[:k], x))
		}
		if r.Chance(1, 3) {
			core.Count("h1.gen:mutated")
			ops = append(ops, s.op(mutate(r, w), ""))
		}
	}
	// msggen's independent serialiser (the C15/C16 message generator)
	for i := 0; i < 2; i++ {
		sp := msggen.Gen(r, r.Bool(), maxBody)
		a := sp.Abs()
		w := a.Wire()
		core.Count("h1.gen:msggen")
		if a.Req {
			ops = append(ops, "h1.readreq "+core.Hex(w)+fmt.Sprintf(" want=ok:%d:%s", len(a.Body), fnv64(a.Body)))
		} else {
			ops = append(ops, "h1.readres "+core.HexS("GET")+" "+core.Hex(w)+fmt.Sprintf(" want=ok:%d:%s", len(a.Body), fnv64(a.Body)))
		}
		if len(w) > 2 {
			ops = append(ops, map[bool]string{true: "h1.readreq ", false: "h1.readres " + core.HexS("GET") + " "}[a.Req]+core.Hex(w[:r.Intn(len(w))]))
		}
	}
	return ops
}

// GenH1Streams emits pipelined request sequences and kept-alive response sequences.
func GenH1Streams(r *core.Rand, maxBody int) []string {
	var ops []string
	for i := 0; i < 3; i++ {
		var buf bytes.Buffer
		n := r.Range(1, 6)
		ok := true
		for j := 0; j < n; j++ {
			s := GenH1Spec(r, true, maxBody)
			if r.Chance(1, 12) {
				s.weird(r)
				ok = false
			}
			buf.Write(s.Wire())
		}
		w := buf.Bytes()
		x := ""
		if ok {
			x = fmt.Sprintf(" want=n:%d", n)
		}
		if r.Chance(1, 5) && len(w) > 0 {
			w = w[:r.Intn(len(w))]
			x = ""
		}
		core.Count("h1.gen:reqstream")
		ops = append(ops, "h1.readreqs "+core.Hex(w)+x)
	}
	for i := 0; i < 3; i++ {
		var buf bytes.Buffer
		var ms []string
		n := r.Range(1, 5)
		for j := 0; j < n; j++ {
			s := GenH1Spec(r, false, maxBody)
			if s.Framing == "eof" && r.Chance(3, 4) {
				s.Framing = "cl"
			}
			if r.Chance(1, 12) {
				s.weird(r)
			}
			buf.Write(s.Wire())
			ms = append(ms, core.HexS(s.ReqMethod))
		}
		w := buf.Bytes()
		if r.Chance(1, 5) && len(w) > 0 {
			w = w[:r.Intn(len(w))]
		}
		core.Count("h1.gen:resstream")
		ops = append(ops, "h1.readress "+strings.Join(ms, ",")+" "+core.Hex(w))
	}
	return ops
}

func imin(a, b int) int {
	if a < b {
		return a
	}
	return b
}

// GenH1Trunc emits, for one well-formed length-delimited response (Content-Length or chunked, with
// or without trailers), EVERY strict prefix (all offsets when the message is short, a spread of
// offsets in every region otherwise), each of which must not be read as a complete message, then
// the whole message followed by the next response (which must be read completely and leave the next
// one untouched), and the truncated message followed by the next one as a response stream.
func GenH1Trunc(r *core.Rand, maxBody int) []string {
	var ops []string
	s := GenH1Spec(r, false, maxBody)
	s.ReqMethod = r.Pick("GET", "POST")
	code := []int{200, 200, 201, 206, 404, 500}[r.Intn(6)]
	s.StatusLn = strconv.Itoa(code) + " X"
	s.Framing = r.Pick("cl", "chunked", "chunked")
	s.Proto = "HTTP/1.1"
	var fs [][2]string
	for _, f := range s.Fields {
		k := strings.ToLower(f[0])
		if k == "content-length" || k == "transfer-encoding" || k == "trailer" || k == "connection" {
			continue
		}
		fs = append(fs, f)
	}
	s.Fields = fs
	s.Body = h1Body(r, maxBody)
	s.Chunks, s.Trailer = nil, nil
	if s.Framing == "chunked" {
		s.Chunks = h1Chunks(r, len(s.Body))
		if r.Chance(1, 3) {
			s.Trailer = append(s.Trailer, h1Trailers[r.Intn(len(h1Trailers))])
		}
	}
	w := s.Wire()
	next := []byte("HTTP/1.1 404 Not Found\r\nContent-Length: 3\r\n\r\nnxt")
	meth := core.HexS(s.ReqMethod)
	var ks []int
	if len(w) <= 260 {
		for k := 0; k < len(w); k++ {
			ks = append(ks, k)
		}
	} else {
		for i := 0; i < 60; i++ {
			k := r.Intn(len(w))
			switch i % 4 {
			case 0:
				k = r.Intn(s.HeadEnd)
			case 1:
				if len(s.SizeLines) > 0 {
					sl := s.SizeLines[r.Intn(len(s.SizeLines))]
					k = sl[0] + r.Intn(sl[1]-sl[0]+1)
				}
			case 2:
				k = s.BodyEnd + r.Intn(s.End-s.BodyEnd+1)
			}
			if k >= len(w) {
				k = len(w) - 1
			}
			ks = append(ks, k)
		}
	}
	for _, k := range ks {
		core.Count("h1.trunc:" + s.Framing + ":" + s.CutClass(k))
		ops = append(ops, "h1.readres "+meth+" "+core.Hex(w[:k])+" want=notok")
	}
	ops = append(ops, "h1.readres "+meth+" "+core.Hex(append(append([]byte(nil), w...), next...))+want(s))
	ops = append(ops, "h1.readress "+meth+","+core.HexS("GET")+" "+core.Hex(append(append([]byte(nil), w...), next...))+" want=n:2")
	k := r.Intn(len(w))
	ops = append(ops, "h1.readress "+meth+","+core.HexS("GET")+" "+core.Hex(append(append([]byte(nil), w[:k]...), next...)))
	return ops
}
