// Package golib executes the "golib.*" ops against the real Go standard library; the Lean
// driver answers the same ops from Martian/Go/*.lean (the stdlib models are trusted base, and
// this is their differential test).
package golib

import (
	"bytes"
	"io"
	"net/http/httputil"
	"path/filepath"
	"strconv"
	"strings"

	"verif/harness/internal/core"
)

func hexList(l []string) string {
	var o []string
	for _, s := range l {
		o = append(o, core.HexS(s))
	}
	return strings.Join(o, "|")
}

// Do returns (observation, handled).
func Do(op string) (string, bool) {
	t := strings.Fields(op)
	if len(t) > 0 && strings.HasPrefix(t[0], "h1.") { // the HTTP/1 codec ops (h1.go); oracle verdicts need DoH1
		r, ok := DoH1(op)
		return r.Impl, ok
	}
	if len(t) == 0 || !strings.HasPrefix(t[0], "golib.") {
		return "", false
	}
	arg := func(i int) string {
		if i >= len(t) {
			return ""
		}
		b, _ := core.Unhex(t[i])
		return string(b)
	}
	switch t[0] {
	case "golib.clean":
		return core.HexS(filepath.Clean(arg(1))), true
	case "golib.join2":
		return core.HexS(filepath.Join(arg(1), arg(2))), true
	case "golib.atoi":
		v, err := strconv.Atoi(arg(1))
		if err != nil {
			return "none", true
		}
		return "some " + strconv.Itoa(v), true
	case "golib.itoa":
		v, _ := strconv.Atoi(t[1])
		return core.HexS(strconv.Itoa(v)), true
	case "golib.split":
		n, _ := strconv.Atoi(t[2])
		return hexList(strings.Split(arg(1), string([]byte{byte(n)}))), true
	case "golib.trimleft":
		return core.HexS(strings.TrimLeft(arg(1), arg(2))), true
	case "golib.trimspace":
		return core.HexS(strings.TrimSpace(arg(1))), true
	case "golib.dechunk":
		b, err := io.ReadAll(httputil.NewChunkedReader(bytes.NewReader([]byte(arg(1)))))
		if err != nil {
			return "none", true
		}
		return "some " + core.Hex(b), true
	case "golib.tolower":
		return core.HexS(strings.ToLower(arg(1))), true
	case "golib.hassuffix":
		return strconv.FormatBool(strings.HasSuffix(arg(1), arg(2))), true
	}
	return "bad-op", true
}

// AsciiFrom draws n bytes from the alphabet.
func AsciiFrom(r *core.Rand, alphabet string, n int) string {
	b := make([]byte, n)
	for i := range b {
		b[i] = alphabet[r.Intn(len(alphabet))]
	}
	return string(b)
}

// GenChunked emits chunked-body streams (well-formed with random chunk sizes, then mutated ones).
func GenChunked(r *core.Rand, n int) []string {
	var ops []string
	for i := 0; i < n; i++ {
		var b bytes.Buffer
		k := r.Intn(5)
		for j := 0; j < k; j++ {
			sz := r.Range(1, 40)
			if r.Chance(1, 10) {
				sz = r.Range(200, 5000)
			}
			d := r.Bytes(sz)
			if r.Chance(1, 6) {
				b.WriteString(r.Pick("0", "00", "") + strconvHex(sz) + r.Pick("", ";ext=1", " ") + "\r\n")
			} else {
				b.WriteString(strconvHex(sz) + "\r\n")
			}
			b.Write(d)
			b.WriteString("\r\n")
		}
		b.WriteString("0\r\n")
		if r.Bool() {
			b.WriteString(r.Pick("\r\n", "X-T: v\r\n\r\n", "GET / HTTP/1.1\r\n"))
		}
		s := b.Bytes()
		if r.Chance(1, 4) && len(s) > 0 { // malformed
			switch r.Intn(3) {
			case 0:
				s = s[:r.Intn(len(s))]
			case 1:
				s[r.Intn(len(s))] = byte(r.U64())
			case 2:
				s = append(s[:r.Intn(len(s))], s[r.Intn(len(s)):]...)
			}
		}
		ops = append(ops, "golib.dechunk "+core.Hex(s))
	}
	return ops
}

func strconvHex(n int) string { return strconv.FormatInt(int64(n), 16) }

// Gen emits one case of stdlib-model ops.
func Gen(r *core.Rand, n int) []string {
	var ops []string
	for i := 0; i < n; i++ {
		switch r.Intn(8) {
		case 0, 1:
			ops = append(ops, "golib.clean "+core.HexS(AsciiFrom(r, "/./ab.", r.Intn(14))))
		case 2:
			ops = append(ops, "golib.join2 "+core.HexS(AsciiFrom(r, "/.ab", r.Intn(8)))+" "+core.HexS(AsciiFrom(r, "/..ab", r.Intn(10))))
		case 3:
			s := AsciiFrom(r, "0123456789", r.Intn(22))
			if r.Chance(1, 3) {
				s = r.Pick("+", "-", " ", "_", "x", "") + s
			}
			if r.Chance(1, 8) {
				s = r.Pick("9223372036854775807", "9223372036854775808", "-9223372036854775808", "-9223372036854775809", "18446744073709551616", "+0", "-0", "00012")
			}
			ops = append(ops, "golib.atoi "+core.HexS(s))
		case 4:
			ops = append(ops, "golib.split "+core.HexS(AsciiFrom(r, "a-,b", r.Intn(10)))+" "+r.Pick("45", "44"))
		case 5:
			ops = append(ops, "golib.trimleft "+core.HexS(AsciiFrom(r, "bytes=01 -", r.Intn(12)))+" "+core.HexS("bytes="))
		case 6:
			ops = append(ops, "golib.trimspace "+core.HexS(AsciiFrom(r, " \t\n\r\v\fa1", r.Intn(8))))
		case 7:
			ops = append(ops, "golib.tolower "+core.HexS(AsciiFrom(r, "aAzZ@[`{09-=", r.Intn(8))))
		}
	}
	return ops
}
