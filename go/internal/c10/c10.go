// Package c10: termination of one HTTP/2 relay session (h2.Config.Proxy / relay.relayFrames).
//
// Every case drives ONE real session: a raw http2.Framer client over net.Pipe <-> h2.Config.Proxy
// <-> a raw http2.Framer TLS server on loopback. The ops are the environment events of the Lean
// process model (Model/H2Session.lean) annotated with the concrete frame that realises them; the
// model driver answers what it predicts for `probe`/`finish` (returned?, upstream closed?, which
// kinds of session goroutines exist) and the harness prints the same line from real observations
// (return of Proxy, EOF at the TLS server, goroutine dump filtered to martian/v3/h2).
package c10

import (
	"fmt"
	"net"
	"os"
	"runtime"
	"runtime/debug"
	"strconv"
	"strings"
	"time"

	"golang.org/x/net/http2"

	"verif/harness/internal/core"
)

type P struct{}

func init() { core.Register(P{}) }

func (P) ID() string { return "C10" }
func (P) Rule() string {
	return "case = one real Config.Proxy call (raw h2 client over net.Pipe <-> h2.Config.Proxy <-> raw h2 TLS server, or a server that refuses / " +
		"fails the TLS handshake) that either ends before the relays exist (dial refused, TLS failing, client preface eof / short / wrong / " +
		"dribbled, server gone before the preface write, closing before the preface, any event around the first SETTINGS) or is brought into a " +
		"state (idle | mid-stream on 1-4 streams | DATA queued behind a closed stream window - announced zero or exhausted 65535 - in either " +
		"direction, 1-30 or 61-300 frames, optionally partly released | s2c output channel full behind a client that stopped reading, optionally " +
		"with queued DATA | destMu of the s2c relay held inside a blocked write by the s2c reader (PING / SETTINGS / ack / GOAWAY), the c2s " +
		"reader (window acknowledgement) or the s2c writer, with the other users waiting for it) followed by one terminating event (client EOF, " +
		"server EOF, write failure toward the client noticed by the s2c reader / the s2c writer / the c2s reader, also of the blocked write, " +
		"server reset + write toward it, malformed frame or bad HPACK from either side, proxy closing) and optional trailing traffic; distinct " +
		"by hash of the op list; non-trivial when the case has a terminating event and the finish line was produced after Proxy was given the bound"
}

func (P) Nontrivial(ops []string, impl []string) bool {
	term := false
	for _, o := range ops {
		if isTerminating(strings.Fields(o)) {
			term = true
		}
	}
	return term && len(impl) > 0 && strings.HasPrefix(impl[len(impl)-1], "returned=")
}

func isTerminating(f []string) bool {
	if len(f) >= 2 && f[0] == "rep" {
		f = f[2:]
	}
	if len(f) >= 2 && f[0] == "begin" && f[1] != "ok" {
		return true // the dial fails
	}
	if len(f) >= 2 && f[0] == "env" && (f[1] == "closing" || f[1] == "failwrites") {
		return true
	}
	if len(f) >= 3 && f[0] == "env" && f[1] == "preface" {
		switch f[2] {
		case "eof", "short", "wrong":
			return true
		}
	}
	if len(f) >= 4 && f[0] == "env" && f[1] == "deliver" {
		switch f[3] {
		case "eof", "err", "bad":
			return true
		}
	}
	return false
}

const (
	returnBound = 3 * time.Second // >= 20x the latency of a passing case (a few ms, reported in stats)
	closeBound  = 1 * time.Second
	leakBound   = 1 * time.Second
)

// confirmed counts, per failure class, how often a failing verdict was reproduced on fresh sessions in
// this run. Once a class has reproduced twice, later cases of the class are not re-run and use bounds
// divided by three (still >= 20x the passing latency of a few ms), so a tree on which every case
// fails is still judged in minutes.
var confirmed = map[string]int{}

func anyConfirmed() bool {
	for _, n := range confirmed {
		if n >= 2 {
			return true
		}
	}
	return false
}

func scale(d time.Duration) time.Duration {
	if anyConfirmed() {
		return d / 3
	}
	return d
}

type runner struct {
	s    *session
	fail string // harness-level problem (not a property failure)
}

type ex struct {
	r    *runner
	hist []string
	gc   int
}

// While a case runs the garbage collector is off: an upstream connection that Proxy forgot to close
// would otherwise be closed by its finalizer at the next collection (often within milliseconds) and
// the leak would look like a close. (GOMEMLIMIT, set by ./check, still bounds the heap.)
func (P) NewExec() core.Exec { return &ex{r: &runner{}, gc: debug.SetGCPercent(-1)} }

func (e *ex) Close() {
	if e.r.s != nil {
		e.r.s.teardown()
	}
	debug.SetGCPercent(e.gc)
	runtime.GC()
}

func splitRep(op string) (int, []string) {
	f := strings.Fields(op)
	rep := 1
	if len(f) >= 2 && f[0] == "rep" {
		n, err := strconv.Atoi(f[1])
		if err != nil || n < 0 || n > 100000 {
			return 0, nil
		}
		rep, f = n, f[2:]
	}
	return rep, f
}

func (e *ex) Do(op string) core.Result {
	rep, f := splitRep(op)
	if len(f) == 0 {
		return core.Result{Impl: "bad-op"}
	}
	switch f[0] {
	case "finish":
		return e.finish()
	case "probe":
		if e.r.s == nil {
			return core.Result{Impl: "bad-op"}
		}
		e.r.s.stable()
		return core.Result{Impl: e.r.s.obs()}
	}
	e.hist = append(e.hist, op)
	out := "ok"
	for i := 0; i < rep; i++ {
		out = e.r.apply(f)
		if out != "ok" {
			break
		}
	}
	return core.Result{Impl: out}
}

func u32(s string) uint32 {
	n, _ := strconv.ParseUint(s, 10, 32)
	return uint32(n)
}

// apply performs one op on the real session. Environment ops always answer "ok": whether the relay
// takes the bytes is what the later observations are about.
func (r *runner) apply(f []string) string {
	if f[0] == "start" || f[0] == "begin" {
		if r.s != nil {
			return "bad-op"
		}
		var s *session
		var err error
		if f[0] == "start" {
			s, err = startSession()
		} else {
			if len(f) < 2 || (f[1] != "ok" && f[1] != "refuse" && f[1] != "tlsfail") {
				return "bad-op"
			}
			variant := ""
			if len(f) >= 3 {
				variant = f[2]
			}
			s, err = begin(f[1], variant)
			if s != nil && f[1] != "ok" {
				s.markTerm("dial-fails:" + strings.Join(f[1:], "-"))
			}
		}
		r.s = s
		if err != nil {
			r.fail = err.Error()
			core.Count("start_failed")
			return "start-failed"
		}
		return "ok"
	}
	s := r.s
	if s == nil {
		return "bad-op"
	}
	switch f[0] {
	case "hint": // schedule hint for the model only
		return "ok"
	case "settle":
		wc, ws := -1, -1
		if len(f) >= 3 {
			if n, err := strconv.Atoi(f[1]); err == nil {
				wc = n
			}
			if n, err := strconv.Atoi(f[2]); err == nil {
				ws = n
			}
		}
		if wc < 0 && ws < 0 {
			time.Sleep(30 * time.Millisecond)
			return "ok"
		}
		// wait for the announced frame counts - but not once nothing moves any more (no send of the
		// client pending, both counters unchanged for 250 ms): the counts of a shrunk case are never reached
		lastC, lastS, lastAt := -1, -1, time.Now()
		idle := false
		ok := waitFor(500*time.Millisecond, func() bool {
			c, _, _ := s.cstat.get()
			sv, _, _ := s.sstat.get()
			if c != lastC || sv != lastS || s.cq.pending() > 0 {
				lastC, lastS, lastAt = c, sv, time.Now()
			} else if time.Since(lastAt) > 250*time.Millisecond {
				idle = true
				return true
			}
			return (wc < 0 || c >= wc) && (ws < 0 || sv >= ws)
		})
		ok = ok && !idle
		if !ok {
			core.Count("settle_timeout")
			if os.Getenv("C10_DEBUG") != "" {
				c, _, _ := s.cstat.get()
				sv, _, _ := s.sstat.get()
				fmt.Fprintf(os.Stderr, "settle timeout: want %d %d have %d %d\n", wc, ws, c, sv)
			}
		}
		time.Sleep(2 * time.Millisecond) // let the readers get back into their select
		return "ok"
	case "settings":
		if !s.running {
			return "bad-op"
		}
		if err := s.settings(); err != nil {
			r.fail = err.Error()
			core.Count("start_failed")
		}
		return "ok"
	case "env":
		if len(f) < 2 {
			return "bad-op"
		}
		switch f[1] {
		case "preface":
			if len(f) < 3 || s.prefaced {
				return "bad-op"
			}
			k := 0
			if len(f) >= 4 {
				k, _ = strconv.Atoi(f[3])
			}
			switch f[2] {
			case "good", "split":
			case "eof", "short", "wrong":
				if s.mode == "ok" && !s.isReturned() {
					defer s.markTerm("preface:" + strings.Join(f[2:], "-"))
				}
			default:
				return "bad-op"
			}
			if err := s.preface(f[2], k); err != nil {
				if f[2] == "good" || f[2] == "split" {
					if !s.sReset && !s.termed {
						r.fail = err.Error()
						core.Count("start_failed")
					}
				}
			}
			return "ok"
		case "closing":
			s.closeOnce.Do(func() { close(s.closing) })
			s.markTerm("closing")
			return "ok"
		case "stall":
			if len(f) == 3 && f[2] == "s2c" {
				s.stallClient(true)
				return "ok"
			}
			return "bad-op"
		case "unstall":
			if len(f) == 3 && f[2] == "s2c" {
				s.stallClient(false)
				if s.termed {
					s.termAt = time.Now()
				}
				return "ok"
			}
			return "bad-op"
		case "failwrites":
			if len(f) == 3 && f[2] == "s2c" {
				blocked := s.proxyEnd.inWrite.Load() > 0
				s.proxyEnd.fail()
				if blocked && !s.termed { // a write toward the client was blocked: it fails now
					s.markTerm("blocked-write-toward-client-fails")
				}
				return "ok"
			}
			if len(f) == 3 && f[2] == "c2s" { // realised by `reset`
				return "ok"
			}
			return "bad-op"
		case "deliver":
			return r.deliver(f[2:])
		}
	}
	return "bad-op"
}

func (s *session) markTerm(why string) {
	s.termed = true
	s.termWhy = why
	s.termAt = time.Now()
}

// deliver: f = <dir> <work…> : <concrete…>
func (r *runner) deliver(f []string) string {
	s := r.s
	if len(f) < 2 {
		return "bad-op"
	}
	dir := f[0]
	if dir != "c2s" && dir != "s2c" {
		return "bad-op"
	}
	i := 0
	for i < len(f) && f[i] != ":" {
		i++
	}
	if i+1 >= len(f) {
		return "bad-op"
	}
	work, c := f[1:i], f[i+1:]
	if !s.running && !(dir == "s2c" && (work[0] == "err" || work[0] == "eof") && (c[0] == "reset" || c[0] == "close")) {
		return "bad-op" // before the relays exist only the server can act (it goes away)
	}
	if isTerminating(append([]string{"env", "deliver", dir}, work...)) {
		if s.running || !s.termed {
			defer s.markTerm(dir + ":" + strings.Join(c, "-"))
		}
	} else if s.proxyEnd.failWrites.Load() && len(work) >= 1 &&
		((dir == "s2c" && (work[0] == "own" || work[0] == "direct" || work[0] == "settings" || (work[0] == "data" && work[1] != "0"))) ||
			(dir == "c2s" && work[0] == "data")) {
		// the relay's next write toward the client fails: a forwarded frame (s2c) or the window
		// acknowledgement of a client DATA frame (c2s)
		defer s.markTerm("write-toward-client-fails:" + dir + ":" + strings.Join(c, "-"))
	}
	var err error
	switch c[0] {
	case "headers":
		if len(c) != 2 {
			return "bad-op"
		}
		blk := s.headerBlock(dir, u32(c[1]))
		err = s.write(dir, func(fr *http2.Framer) error {
			return fr.WriteHeaders(http2.HeadersFrameParam{StreamID: u32(c[1]), BlockFragment: blk, EndHeaders: true})
		})
	case "headers-open": // HEADERS without END_HEADERS: the whole block, the (empty) rest follows in CONTINUATION
		if len(c) != 2 {
			return "bad-op"
		}
		blk := s.headerBlock(dir, u32(c[1]))
		err = s.write(dir, func(fr *http2.Framer) error {
			return fr.WriteHeaders(http2.HeadersFrameParam{StreamID: u32(c[1]), BlockFragment: blk[:(len(blk)+1)/2], EndHeaders: false})
		})
		s.openBlock[dir] = blk[(len(blk)+1)/2:] // the first fragment is never empty (x/net rejects an empty HEADERS payload)
	case "pushpromise-open": // PUSH_PROMISE without END_HEADERS (server only)
		if len(c) != 3 || dir != "s2c" {
			return "bad-op"
		}
		blk := s.headerBlock("c2s", u32(c[2]))
		err = s.write(dir, func(fr *http2.Framer) error {
			return fr.WritePushPromise(http2.PushPromiseParam{StreamID: u32(c[1]), PromiseID: u32(c[2]), BlockFragment: blk[:(len(blk)+1)/2], EndHeaders: false})
		})
		s.openBlock[dir] = blk[(len(blk)+1)/2:] // the first fragment is never empty (x/net rejects an empty HEADERS payload)
	case "cont", "cont-end": // CONTINUATION: one more byte of the open block / the rest of it with END_HEADERS
		if len(c) != 2 {
			return "bad-op"
		}
		rest := s.openBlock[dir]
		frag := rest
		if c[0] == "cont" {
			if len(rest) > 1 {
				frag, s.openBlock[dir] = rest[:1], rest[1:]
			} else {
				frag = nil
			}
		} else {
			s.openBlock[dir] = nil
		}
		end := c[0] == "cont-end"
		err = s.write(dir, func(fr *http2.Framer) error { return fr.WriteContinuation(u32(c[1]), end, frag) })
	case "data":
		if len(c) != 3 {
			return "bad-op"
		}
		n, _ := strconv.Atoi(c[2])
		if n < 0 || n > 16384 {
			return "bad-op"
		}
		err = s.write(dir, func(fr *http2.Framer) error { return fr.WriteData(u32(c[1]), false, make([]byte, n)) })
	case "ping":
		err = s.write(dir, func(fr *http2.Framer) error { return fr.WritePing(false, [8]byte{1, 2, 3}) })
	case "pong":
		err = s.write(dir, func(fr *http2.Framer) error { return fr.WritePing(true, [8]byte{1, 2, 3}) })
	case "settings":
		err = s.write(dir, func(fr *http2.Framer) error {
			return fr.WriteSettings(http2.Setting{ID: http2.SettingMaxConcurrentStreams, Val: 100})
		})
	case "settings-ack":
		err = s.write(dir, func(fr *http2.Framer) error { return fr.WriteSettingsAck() })
	case "goaway":
		err = s.write(dir, func(fr *http2.Framer) error { return fr.WriteGoAway(0, http2.ErrCodeNo, []byte("bye")) })
	case "wupdate":
		if len(c) != 3 {
			return "bad-op"
		}
		err = s.write(dir, func(fr *http2.Framer) error { return fr.WriteWindowUpdate(u32(c[1]), u32(c[2])) })
	case "settings-iw":
		if len(c) != 2 {
			return "bad-op"
		}
		err = s.write(dir, func(fr *http2.Framer) error {
			return fr.WriteSettings(http2.Setting{ID: http2.SettingInitialWindowSize, Val: u32(c[1])})
		})
	case "rst":
		if len(c) != 2 {
			return "bad-op"
		}
		err = s.write(dir, func(fr *http2.Framer) error { return fr.WriteRSTStream(u32(c[1]), http2.ErrCodeCancel) })
	case "malformed": // DATA on stream 0: Framer.ReadFrame answers a connection error (PROTOCOL_ERROR)
		err = s.write(dir, func(fr *http2.Framer) error { return fr.WriteRawFrame(http2.FrameData, 0, 0, []byte("x")) })
	case "streamerr": // frames Framer.ReadFrame rejects with an http2.StreamError: the error names one stream only
		if len(c) != 3 {
			return "bad-op"
		}
		err = s.write(dir, func(fr *http2.Framer) error {
			switch c[2] {
			case "wupdate0": // WINDOW_UPDATE with a zero increment on a stream
				return fr.WriteRawFrame(http2.FrameWindowUpdate, 0, u32(c[1]), []byte{0, 0, 0, 0})
			case "prio-len": // PRIORITY whose payload is not 5 bytes (the framer calls this one a connection error)
				return fr.WriteRawFrame(http2.FramePriority, 0, u32(c[1]), []byte{0, 0, 0, 0})
			default: // "rst-len": RST_STREAM whose payload is not 4 bytes (connection error, FRAME_SIZE_ERROR)
				return fr.WriteRawFrame(http2.FrameRSTStream, 0, u32(c[1]), []byte{0, 0, 0})
			}
		})
	case "badhpack":
		if len(c) != 2 {
			return "bad-op"
		}
		err = s.write(dir, func(fr *http2.Framer) error {
			return fr.WriteHeaders(http2.HeadersFrameParam{StreamID: u32(c[1]), BlockFragment: []byte{0xff, 0xff, 0xff, 0xff, 0xff, 0xff, 0xff}, EndHeaders: true})
		})
	case "close":
		if dir == "c2s" {
			if len(c) >= 3 && c[1] == "race" { // close only once the server has seen K released DATA frames
				k, _ := strconv.Atoi(c[2])
				s.armed = waitFor(300*time.Millisecond, func() bool { _, d, _ := s.sstat.get(); return d >= k })
				if !s.armed {
					core.Count("race_not_armed")
				}
			}
			s.cClosed = true
			s.cq.closeAfterPending()
		} else {
			s.sClosedW = true
			if s.srvConn != nil {
				err = s.srvConn.CloseWrite()
			}
		}
	case "reset":
		if dir != "s2c" {
			return "bad-op"
		}
		s.sReset = true
		if sc := s.server(); sc != nil {
			if tc, ok := sc.NetConn().(*net.TCPConn); ok {
				tc.SetLinger(0)
			}
			sc.NetConn().Close()
			time.Sleep(2 * time.Millisecond) // let the RST arrive
		}
	default:
		return "bad-op"
	}
	if err != nil {
		core.Count("env_write_error") // the relay did not take the bytes (closed / wedged); an observation, not a failure
	}
	return "ok"
}

// obs: the canonical observation line, also produced by the model.
func (s *session) obs() string {
	ret := 0
	if s.isReturned() {
		ret = 1
	}
	sc := "open"
	if s.mode != "ok" {
		sc = "none" // tls.Dial never returned a connection
	} else if s.upstreamClosed() {
		sc = "closed"
	}
	return fmt.Sprintf("returned=%d sc=%s left=%s", ret, sc, kindsOf(s.mine()))
}

type verdict struct {
	obs, fail, sig string
	returned       bool
	proven         bool // the goroutine dump shows a permanent block, the verdict does not depend on the clock
	latency        time.Duration
}

// finish waits (bounded) for Proxy to return, then does what the caller of Proxy does (closes the
// client connection), and evaluates the property over the observations.
func (s *session) finish() verdict {
	var v verdict
	bound := 150 * time.Millisecond
	if s.termed {
		bound = scale(returnBound) - time.Since(s.termAt)
		if bound < 100*time.Millisecond {
			bound = 100 * time.Millisecond
		}
	}
	deadline := time.After(bound)
	tick := time.NewTicker(250 * time.Millisecond)
	defer tick.Stop()
	proven := 0
wait:
	for {
		select {
		case <-s.returned:
			v.returned = true
			if s.termed {
				v.latency = s.returnedAt.Sub(s.termAt)
			}
			break wait
		case <-deadline:
			break wait
		case <-tick.C:
			// A reader in `chan send` on the peer's output whose only receiver (the peer's writer) has
			// exited can never continue: no need to sit out the rest of the bound (>= 750 ms have passed).
			if s.termed && s.provenDeadlock() {
				if proven++; proven >= 3 {
					v.proven = true
					break wait
				}
			} else {
				proven = 0
			}
		}
	}
	if !v.returned {
		gs := s.stable()
		v.obs = s.obs()
		if s.termed && s.proxyEnd.isStalled() {
			// the client still neither reads nor fails: "a write completes or fails" does not hold for
			// this case (yet), so nothing is demanded; the model's prediction is still compared
			core.Count("finish_while_stalled")
		} else if s.termed {
			site := "none"
			for _, g := range gs {
				if g.kind == "reader" {
					// the most specific blocked reader names the class
					if site == "none" || site == "select" || g.site == "peer-emit" {
						site = g.site
					}
				}
			}
			if site == "none" {
				for _, g := range gs {
					if g.kind == "main" && g.site != "" {
						site = g.site // stuck before the relays exist: dial | preface-read | preface-write
					}
				}
			}
			v.sig = "c10:not-returned:" + site
			v.fail = fmt.Sprintf("Config.Proxy has not returned %v after the terminating event %q; session goroutines left: %s (reader blocked at: %s)",
				returnBound, s.termWhy, kindsOf(gs), site)
		}
		return v
	}
	// the caller of Proxy (Proxy.handleLoop) closes the client connection afterwards
	s.proxyEnd.Close()
	closedSeen := s.mode != "ok" || waitFor(scale(closeBound), s.upstreamClosed)
	if os.Getenv("C10_DEBUG") != "" {
		_, _, e := s.sstat.get()
		fmt.Fprintf(os.Stderr, "finish: closedSeen=%v inode=%q fdOpen=%v serverEnded=%v err=%q\n", closedSeen, s.scInode, fdOpen(s.scInode), e, s.sstat.endErr)
	}
	if closedSeen {
		waitFor(scale(leakBound), func() bool { return len(s.mine()) == 0 })
	}
	left := s.mine()
	v.obs = s.obs()
	if !s.termed {
		return v
	}
	switch {
	case !closedSeen:
		v.sig = "c10:upstream-open-after-return"
		v.fail = fmt.Sprintf("Config.Proxy returned after %q but %v later its end of the upstream connection is still open (file descriptor present, no EOF/close seen by the TLS server)", s.termWhy, closeBound)
	case len(left) > 0:
		v.sig = "c10:goroutines-left:" + kindsOf(left)
		v.fail = fmt.Sprintf("Config.Proxy returned after %q and the client connection was closed, but %v later session goroutines remain: %s\n%s",
			s.termWhy, leakBound, kindsOf(left), left[0].text)
	}
	return v
}

// provenDeadlock: a reader is blocked sending into the peer's output and only one writer goroutine
// exists; or Proxy sits in the preface read of a client that the case keeps silent.
func (s *session) provenDeadlock() bool {
	writers, peerEmit := 0, false
	for _, g := range s.mine() {
		if g.kind == "main" && g.site == "preface-read" && !s.prefaced {
			return true
		}
		if g.kind == "writer" {
			writers++
		}
		if g.kind == "reader" && g.site == "peer-emit" && strings.HasPrefix(g.state, "chan send") {
			peerEmit = true
		}
	}
	return peerEmit && writers == 1
}

func replay(hist []string) (verdict, *session) {
	r := &runner{}
	for _, op := range hist {
		rep, f := splitRep(op)
		for i := 0; i < rep && len(f) > 0; i++ {
			if r.apply(f) != "ok" {
				break
			}
		}
	}
	if r.s == nil {
		return verdict{obs: "bad-op"}, nil
	}
	return r.s.finish(), r.s
}

func isRace(hist []string) bool {
	for _, h := range hist {
		if strings.Contains(h, "close race") {
			return true
		}
	}
	return false
}

func (e *ex) finish() core.Result {
	if e.r.s == nil {
		return core.Result{Impl: "bad-op"}
	}
	if e.r.fail != "" {
		return core.Result{Impl: "start-failed"}
	}
	v := e.r.s.finish()
	if v.returned && v.latency > 0 {
		ms := int(v.latency / time.Millisecond)
		if ms > core.Stats["max_return_latency_ms"] {
			core.Stats["max_return_latency_ms"] = ms
		}
	}
	switch {
	case isRace(e.hist) && v.returned && e.r.s.armed:
		// the scheduling window of the directed F10c race was missed: try again on fresh sessions
		for i := 0; i < 2 && v.returned; i++ {
			core.Count("race_retry")
			v2, s2 := replay(e.hist)
			if s2 != nil {
				s2.teardown()
			}
			v = v2
		}
	case v.fail != "" && !v.proven && confirmed[v.sig] < 2:
		// a verdict that depends on a wall-clock bound counts only if it reproduces (DESIGN App. D)
		sig := v.sig
		for i := 0; i < 2; i++ {
			v2, s2 := replay(e.hist)
			if s2 != nil {
				s2.teardown()
			}
			if v2.fail == "" {
				core.Count("flaky_verdict_dropped")
				v = v2
				break
			}
		}
		if v.fail != "" {
			confirmed[sig]++
		}
	}
	if v.fail == "" {
		core.Count("verdict:ok")
	} else {
		core.Count("verdict:" + v.sig)
	}
	res := core.Result{Impl: v.obs, Fail: v.fail, Sig: v.sig}
	if isRace(e.hist) && v.returned {
		// the schedule pinned by the `hint` ops (the F10c race) did not happen in this run: the model's
		// prediction is about another schedule and is not compared; the oracle above still holds
		core.Count("race_missed")
		res.ModelOp = "finish missed-race"
	}
	return res
}
