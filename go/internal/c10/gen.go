package c10

import (
	"fmt"

	"verif/harness/internal/core"
)

// sb builds one case and keeps the abstract bookkeeping needed to name each frame's Work class
// (which locks processFrame takes for it, how many frames the relay will emit) and the frame counts
// to wait for.
type sb struct {
	r          *core.Rand
	ops        []string
	expC, expS int // frames the raw client / server must have received once the relay is quiescent
	stalled    bool
	failS      bool            // writes toward the client fail
	zero       map[string]bool // direction whose DATA is held behind a closed stream window
	queued     map[string]int  // DATA frames (of qlen bytes) queued in that direction's relay
	qlen       int
	open       map[uint32]bool
	nextSid    uint32
	state      string
	held       bool // a goroutine of the relay is blocked inside a write toward the stalled client holding destMu
	noWU       bool // no window updates: the case relies on an exact window arithmetic or on a closed window
}

func newSB(r *core.Rand) *sb {
	return &sb{r: r, zero: map[string]bool{}, queued: map[string]int{}, open: map[uint32]bool{}, nextSid: 1, ops: []string{"start"}}
}

func (b *sb) add(f string, a ...interface{}) { b.ops = append(b.ops, fmt.Sprintf(f, a...)) }

func (b *sb) settle() {
	if b.stalled {
		b.add("settle - %d", b.expS)
	} else {
		b.add("settle %d %d", b.expC, b.expS)
	}
}
func (b *sb) pause() { b.add("settle - -") }

func (b *sb) toward(dir string, n int) {
	if dir == "c2s" {
		b.expS += n
	} else {
		b.expC += n
	}
}
func (b *sb) back(dir string, n int) {
	if dir == "c2s" {
		b.expC += n
	} else {
		b.expS += n
	}
}

func (b *sb) headers(dir string, sid uint32) {
	b.add("env deliver %s own 1 : headers %d", dir, sid)
	b.toward(dir, 1)
}

// data frame with room in the windows (total volume per case stays far below 65535 unless the case
// exhausts the window on purpose). A DATA frame with payload is acknowledged first (two
// WINDOW_UPDATEs to its sender, written under the PEER relay's destMu): Work class `data`.
func (b *sb) data(dir string, sid uint32, n int) {
	k := 1
	if b.zero[dir] {
		k = 0
		b.queued[dir]++
	} else {
		b.toward(dir, 1)
	}
	if n > 0 {
		b.add("env deliver %s data %d : data %d %d", dir, k, sid, n)
		b.back(dir, 2)
	} else {
		b.add("env deliver %s own %d : data %d %d", dir, k, sid, n)
	}
}

// directKinds: frames processFrame forwards itself under its relay's destMu.
var directKinds = []string{"ping", "pong", "settings", "settings-ack", "goaway"}

func (b *sb) direct(dir, kind string) {
	b.add("env deliver %s direct : %s", dir, kind)
	b.toward(dir, 1)
}

func (b *sb) ping(dir string) { b.direct(dir, b.r.Pick(directKinds[:4]...)) }

// wupdate: a WINDOW_UPDATE from dir that releases nothing (Work class `peer 0`: the PEER relay's flowMu
// is taken and given back). sid 0 = the connection window.
func (b *sb) wupdate(dir string, sid uint32) {
	if b.noWU || b.zero[other(dir)] {
		return
	}
	b.add("env deliver %s peer 0 : wupdate %d %d", dir, sid, b.r.Range(1, 70000))
	core.Count("wupdate")
}

func (b *sb) newStream() uint32 {
	sid := b.nextSid
	b.nextSid += 2
	b.headers("c2s", sid)
	if b.r.Chance(1, 2) {
		// the client enlarges its receive window for the stream right after its request HEADERS, before
		// anything has flowed toward it on that stream (as nghttp2 / curl do)
		b.wupdate("c2s", sid)
	}
	if b.r.Chance(3, 4) {
		b.headers("s2c", sid)
	}
	b.open[sid] = true
	return sid
}

func other(d string) string {
	if d == "c2s" {
		return "s2c"
	}
	return "c2s"
}

// ---- session states ----

func (b *sb) midStream() {
	n := b.r.Range(1, 4)
	var sids []uint32
	for i := 0; i < n; i++ {
		sids = append(sids, b.newStream())
	}
	for i := b.r.Range(1, 8); i > 0; i-- {
		sid := sids[b.r.Intn(len(sids))]
		switch b.r.Intn(8) {
		case 6: // a window update from either side: connection level, a stream in use, a stream never used / long gone
			b.wupdate(b.r.Pick("c2s", "s2c"), []uint32{0, sid, 2*uint32(b.r.Range(500, 600)) + 1}[b.r.Intn(3)])
			continue
		case 7: // … directly followed by traffic the other way on that stream (it needs the same flowMu)
			d := b.r.Pick("c2s", "s2c")
			fresh := b.nextSid
			b.nextSid += 2
			b.wupdate(d, fresh)
			b.headers(other(d), fresh)
			b.data(other(d), fresh, b.r.Range(1, 200))
			continue
		}
		switch b.r.Intn(6) {
		case 0, 1:
			b.data("c2s", sid, b.r.Range(0, 300))
		case 2, 3:
			b.data("s2c", sid, b.r.Range(0, 300))
		case 4:
			b.ping(b.r.Pick("c2s", "s2c"))
		case 5:
			d := b.r.Pick("c2s", "s2c")
			b.add("env deliver %s own 1 : rst %d", d, sid)
			b.toward(d, 1)
		}
	}
	b.settle()
}

// zeroWindow: DATA of direction d is queued in the relay behind a closed stream window of d's
// receiver: announced as zero (SETTINGS_INITIAL_WINDOW_SIZE 0) or used up (4 x 16384 bytes against the
// default 65535 without a WINDOW_UPDATE). long: 61..300 frames queued (a relay that bounds, batches or
// blocks on its per-stream queue behaves differently only past some length).
func (b *sb) zeroWindow(d string, long bool) {
	exhausted := b.r.Chance(1, 3)
	b.noWU = true
	var sid uint32
	if exhausted {
		sid = b.newStream()
		b.settle()
		b.add("rep 3 env deliver %s data 1 : data %d 16384", d, sid)
		b.toward(d, 3)
		b.back(d, 6)
		b.zero[d] = true
		b.qlen = b.r.Range(1, 50)
		b.add("env deliver %s data 0 : data %d 16384", d, sid) // 16383 left: does not fit
		b.queued[d]++
		b.back(d, 2)
		b.settle()
		core.Count("window:exhausted")
	} else {
		b.add("env deliver %s settings 0 : settings-iw 0", other(d))
		b.toward(other(d), 1)
		b.zero[d] = true
		b.settle()
		sid = b.newStream()
		b.qlen = b.r.Range(1, 50)
		core.Count("window:zero")
	}
	k := b.r.Range(1, 30)
	if long {
		k = b.r.Range(61, 300)
	}
	b.add("rep %d env deliver %s data 0 : data %d %d", k, d, sid, b.qlen)
	b.queued[d] += k
	b.back(d, 2*k)
	b.settle()
	if !exhausted && !long && b.r.Chance(1, 3) { // part of it is released and fully drained BEFORE the terminating event
		j := b.r.Range(1, b.queued[d])
		b.add("env deliver %s peer %d : wupdate %d %d", other(d), j, sid, j*b.qlen)
		b.toward(d, j)
		b.queued[d] -= j
		b.settle()
	}
}

// outputFull: the client stops reading; the s2c writer blocks in its write (holding the s2c destMu),
// the s2c output channel fills up and the s2c reader blocks on `output <- f` holding flowMu.
func (b *sb) outputFull() {
	b.add("env stall s2c")
	b.stalled = true
	n := b.r.Range(18, 40)
	if b.r.Bool() {
		b.add("rep %d env deliver s2c own 1 : headers %d", n, 2*b.r.Range(1, 50))
	} else {
		for i := 0; i < n; i++ {
			b.add("env deliver s2c own 1 : %s", b.r.Pick("headers 2", "rst 4", "headers 6"))
		}
	}
	b.expC += n
	b.held = true
	b.pause()
}

// contended: the client stops reading while a goroutine of the relay writes toward it, so that
// goroutine sits inside the write holding the s2c destMu: the s2c reader itself (a directly forwarded
// control frame), the c2s reader (window acknowledgement of a client DATA frame) or the s2c writer (a
// queued frame). Then the other users of that mutex arrive and wait for it.
func (b *sb) contended() {
	sid := b.newStream()
	b.settle()
	b.add("env stall s2c")
	b.stalled = true
	holder := b.r.Pick("reader", "peer", "writer")
	switch holder {
	case "reader":
		b.direct("s2c", b.r.Pick(directKinds...))
	case "peer":
		b.data("c2s", sid, b.r.Range(1, 100))
	case "writer":
		b.headers("s2c", sid+100)
	}
	b.pause()
	// the others queue up behind the mutex (in any order, any subset)
	for i := b.r.Range(1, 3); i > 0; i-- {
		switch b.r.Intn(3) {
		case 0:
			if holder != "reader" {
				b.direct("s2c", b.r.Pick(directKinds...))
				holder = "reader+" // the s2c reader is now stuck too: no further s2c frame is read
			}
		case 1:
			b.data("c2s", sid, b.r.Range(1, 100))
		case 2:
			if holder != "reader" && holder != "reader+" {
				b.headers("s2c", sid+102+uint32(2*i))
			}
		}
	}
	b.held = true
	b.pause()
	core.Count("contended:" + holder)
}

// midBlock: direction d has delivered HEADERS (or, from the server, PUSH_PROMISE) without END_HEADERS,
// possibly further CONTINUATION fragments, and its endpoint then stays silent: the header block is
// open. The relay's reader of that direction has only buffered the fragments and waits for the next
// frame - in its select, like between any two frames.
func (b *sb) midBlock(d string) {
	sid := b.nextSid
	b.nextSid += 2
	if d == "s2c" {
		sid = b.newStream()
		b.settle()
	}
	if d == "s2c" && b.r.Bool() {
		// x/net's Framer accepts no CONTINUATION after PUSH_PROMISE (it answers a connection error): the
		// block stays open and the server silent
		b.add("env deliver s2c frag : pushpromise-open %d %d", sid, 2*b.r.Range(1, 40))
	} else {
		b.add("env deliver %s frag : headers-open %d", d, sid)
		for i := b.r.Range(0, 2); i > 0; i-- {
			b.add("env deliver %s frag : cont %d", d, sid)
		}
		if b.r.Chance(1, 4) { // one block completed, a second one left open
			b.add("env deliver %s own 1 : cont-end %d", d, sid)
			b.toward(d, 1)
			b.add("env deliver %s frag : headers-open %d", d, sid+200)
		}
	}
	b.settle()
	b.pause()
	core.Count("midblock:" + d)
}

func (b *sb) unstall() {
	if b.stalled {
		b.pause()
		b.add("env unstall s2c")
		b.stalled = false
	}
}

var events = []string{"client-eof", "server-eof", "wfail-client-direct", "wfail-client-writer", "wfail-client-ack", "server-reset",
	"malformed-c2s", "malformed-s2c", "badhpack-c2s", "badhpack-s2c", "streamerr-c2s", "streamerr-s2c", "closing"}

func (b *sb) event(ev string) {
	sid := uint32(99)
	switch ev {
	case "client-eof":
		b.add("env deliver c2s eof : close")
		if b.stalled { // closing the pipe also fails the blocked write and everything after it
			b.add("env failwrites s2c")
			b.add("env unstall s2c")
			b.stalled = false
		}
	case "server-eof":
		b.add("env deliver s2c eof : close")
	case "wfail-client-direct":
		b.add("env failwrites s2c")
		b.add("env deliver s2c direct : %s", b.r.Pick(directKinds...))
	case "wfail-client-writer":
		b.add("env failwrites s2c")
		b.add("env deliver s2c own 1 : headers %d", sid)
	case "wfail-client-ack": // the c2s reader's window acknowledgement toward the client fails
		b.add("env failwrites s2c")
		b.add("env deliver c2s data 1 : data %d %d", sid, b.r.Range(1, 100))
	case "server-reset":
		b.add("env deliver s2c err : reset")
		b.add("env failwrites c2s")
		if b.r.Bool() {
			b.add("env deliver c2s own 1 : headers %d", sid)
		}
	case "malformed-c2s":
		b.add("env deliver c2s err : malformed")
	case "malformed-s2c":
		b.add("env deliver s2c err : malformed")
	case "streamerr-c2s": // a stream-scoped framer error (http2.StreamError), not a connection error
		b.add("env deliver c2s err : streamerr %d %s", sid, b.r.Pick("wupdate0", "prio-len", "rst-len"))
	case "streamerr-s2c":
		b.add("env deliver s2c err : streamerr %d %s", sid, b.r.Pick("wupdate0", "prio-len", "rst-len"))
	case "badhpack-c2s":
		b.add("env deliver c2s bad : badhpack %d", sid)
	case "badhpack-s2c":
		b.add("env deliver s2c bad : badhpack %d", sid)
	case "closing":
		b.add("env closing")
	case "wfail-blocked": // writes toward the client fail from now on: whatever is blocked in one fails
		b.add("env failwrites s2c")
	}
	core.Count("event:" + ev)
}

// trailing traffic from a side that is still there (never a window release: that is the F10c race)
func (b *sb) trailing(ev string) {
	if !b.r.Chance(1, 3) {
		return
	}
	d := "s2c"
	switch ev {
	case "server-eof", "server-reset", "malformed-s2c", "badhpack-s2c", "streamerr-s2c":
		d = "c2s"
	}
	if d == "c2s" && b.stalled {
		return
	}
	for i := b.r.Range(1, 3); i > 0; i-- {
		if b.r.Bool() {
			b.add("env deliver %s own 1 : headers %d", d, 101+2*i)
		} else {
			b.add("env deliver %s direct : ping", d)
		}
	}
	core.Count("trailing")
}

// pairEvents: what may follow (or precede) another terminating event.
var pairEvents = append(append([]string{}, events...), "wfail-blocked")

func buildCase(r *core.Rand, state, ev string) []string { return buildSeq(r, state, ev, "") }

// buildSeq: a state, a terminating event and (ev2 != "") a second one while the session is still
// winding down from the first - the stall, if any, still on, or ended and started again in between.
func buildSeq(r *core.Rand, state, ev, ev2 string) []string {
	b := newSB(r)
	b.state = state
	switch state {
	case "idle":
	case "mid":
		b.midStream()
	case "zero-c2s":
		if r.Bool() {
			b.midStream()
		}
		b.zeroWindow("c2s", false)
	case "zero-s2c":
		if r.Bool() {
			b.midStream()
		}
		b.zeroWindow("s2c", false)
	case "long-c2s":
		b.zeroWindow("c2s", true)
	case "long-s2c":
		b.zeroWindow("s2c", true)
	case "full":
		if r.Bool() {
			b.midStream()
		}
		b.outputFull()
	case "zero+full":
		b.zeroWindow(r.Pick("c2s", "s2c"), r.Chance(1, 4))
		b.outputFull()
	case "contended":
		if r.Chance(1, 3) {
			b.midStream()
		}
		b.contended()
	case "midblock-c2s":
		if r.Chance(1, 3) {
			b.midStream()
		}
		b.midBlock("c2s")
	case "midblock-s2c":
		if r.Chance(1, 3) {
			b.midStream()
		}
		b.midBlock("s2c")
	}
	if r.Chance(1, 2) {
		b.add("probe")
	}
	b.event(ev)
	if ev2 != "" {
		switch {
		case b.stalled && r.Chance(1, 4):
			b.pause()
			b.add("env unstall s2c")
			b.pause()
			b.add("env stall s2c")
		case r.Chance(2, 3):
			b.pause()
		}
		b.event(ev2)
		core.Count("pairs")
	}
	b.trailing(ev)
	b.unstall()
	b.add("finish")
	core.Count("state:" + state)
	return b.ops
}

// stalledStates: a write toward the client is blocked when the first event arrives.
var stalledStates = []string{"full", "zero+full", "contended"}

// failsBlockedWrite: events that make the blocked write fail.
var failsBlockedWrite = []string{"wfail-blocked", "client-eof", "wfail-client-direct", "wfail-client-writer", "wfail-client-ack"}

// early: the session ends (or the proxy shuts down) before, during or right after the steps that
// precede the relays: dial, TLS handshake, preface read, preface write, the first SETTINGS.
func early(r *core.Rand, kind string) []string {
	core.Count("early:" + kind)
	k := r.Range(1, 23)
	switch kind {
	case "dial-refused":
		return []string{"begin refuse", "finish"}
	case "tls-fails":
		return []string{"begin tlsfail " + r.Pick("close", "garbage", "badcert"), "finish"}
	case "dial-refused-then-client":
		return []string{"begin " + r.Pick("refuse", "tlsfail close"), "env preface " + r.Pick("good", "eof", "wrong"), "finish"}
	case "preface-eof":
		return []string{"begin ok", "probe", "env preface eof", "finish"}
	case "preface-short":
		return []string{"begin ok", fmt.Sprintf("env preface short %d", k), "finish"}
	case "preface-wrong":
		return []string{"begin ok", "env preface wrong", "finish"}
	case "preface-closing-then-client": // shutdown is seen as soon as the relays exist
		return []string{"begin ok", "env closing", fmt.Sprintf("env preface %s", r.Pick("good", fmt.Sprintf("split %d", k), "eof", "wrong")), "finish"}
	case "preface-server-gone": // the server resets / closes before the preface can be written to it
		if r.Bool() {
			return []string{"begin ok", "env deliver s2c err : reset", "env preface good", "finish"}
		}
		return []string{"begin ok", "env deliver s2c eof : close", "env preface good", "finish"}
	case "preface-split":
		return []string{"begin ok", fmt.Sprintf("env preface split %d", k), "probe", "env deliver c2s eof : close", "finish"}
	}
	// right after the preface, without (or in the middle of) the SETTINGS exchange
	ops := []string{"begin ok", "env preface good"}
	switch r.Intn(4) {
	case 0:
	case 1:
		ops = append(ops, "env deliver c2s direct : settings", "settle 0 1")
	case 2:
		ops = append(ops, "env deliver c2s direct : settings", "env deliver s2c direct : settings", "settle 1 1")
	case 3:
		ops = append(ops, "settings")
	}
	b := newSB(r)
	b.ops = ops
	b.event(kind[len("first-settings-"):])
	return append(b.ops, "finish")
}

var earlyKinds = []string{"dial-refused", "tls-fails", "dial-refused-then-client", "preface-eof", "preface-short", "preface-wrong",
	"preface-closing-then-client", "preface-server-gone", "preface-split"}

// f10cRace: the directed scheduling that wedges the session (finding F10c). k DATA frames are queued
// behind a zero stream window toward the server; the server releases them with ONE WINDOW_UPDATE;
// as soon as it sees the first released frame the client goes away: the c2s reader/writer pair leaves
// while the s2c reader is still pushing into the c2s output.
func f10cRace(k int) []string {
	return []string{"start",
		"env deliver s2c settings 0 : settings-iw 0", "settle 1 0",
		"env deliver c2s own 1 : headers 1",
		fmt.Sprintf("rep %d env deliver c2s data 0 : data 1 1", k),
		fmt.Sprintf("settle %d 1", 2*k+1),
		fmt.Sprintf("env deliver s2c peer %d : wupdate 1 1000000", k),
		"hint rTake s2c", "hint acquire s2c", "hint push s2c", "hint wTake c2s", "hint wLock c2s", "hint wDone c2s",
		"env deliver c2s eof : close race 1",
		"hint rTake c2s", "hint handshake c2s",
		"finish"}
}

// destMuSweep: every kind of directly forwarded frame (and the window acknowledgement, and a queued
// frame in the writer) as the holder of the s2c destMu inside a blocked write, every other user as the
// one waiting for it, then the blocked write fails (or the client goes away, or the stall just ends
// after another terminating event). Small and systematic: each error path of each direct write is hit
// with somebody waiting behind it.
func destMuSweep(tier string, emit func([]string)) {
	holders := []string{"env deliver s2c direct : ping", "env deliver s2c direct : pong", "env deliver s2c direct : settings",
		"env deliver s2c direct : settings-ack", "env deliver s2c direct : goaway", "env deliver s2c settings 0 : settings-iw 70000",
		"env deliver c2s data 1 : data 1 10", "env deliver s2c own 1 : headers 2"}
	waiters := []string{"env deliver c2s data 1 : data 1 20", "env deliver s2c direct : ping", "env deliver s2c own 1 : headers 4"}
	ends := [][]string{
		{"env failwrites s2c"},
		{"env deliver c2s eof : close", "env failwrites s2c", "env unstall s2c"},
		{"env closing", "settle - -", "env unstall s2c"},
	}
	for _, h := range holders {
		for _, w := range waiters {
			if h[:18] == w[:18] {
				continue // the same goroutine cannot wait behind itself
			}
			if h[:15] == "env deliver s2c" && h[16:19] != "own" && w[:15] == "env deliver s2c" {
				continue // the s2c reader is the holder: it reads no further s2c frame
			}
			for ei, e := range ends {
				if tier != "thorough" && ei > 0 {
					break // quick: the blocked write fails (the error path of every direct write); thorough: every end
				}
				ops := []string{"start", "env deliver c2s own 1 : headers 1", "settle 0 1", "env stall s2c", h, "settle - -", w, "settle - -"}
				ops = append(ops, e...)
				emit(append(ops, "finish"))
				core.Count("destmu_sweep")
			}
		}
	}
}

var states = []string{"idle", "mid", "zero-c2s", "zero-s2c", "long-c2s", "long-s2c", "full", "zero+full", "contended",
	"midblock-c2s", "midblock-s2c"}

func (P) Gen(r *core.Rand, tier string, emit func([]string)) {
	rounds := 1
	if tier == "thorough" {
		rounds = 24
	}
	for i := 0; i < rounds; i++ {
		for _, st := range states {
			for _, ev := range events {
				emit(buildCase(r.Fork(), st, ev))
			}
		}
		for _, k := range earlyKinds {
			emit(early(r.Fork(), k))
		}
		for _, ev := range events {
			emit(early(r.Fork(), "first-settings-"+ev))
		}
	}
	destMuSweep(tier, emit)
	if tier == "thorough" {
		// every ordered pair of terminating events in every state
		for _, st := range states {
			for _, e1 := range pairEvents {
				for _, e2 := range pairEvents {
					if e1 != e2 {
						emit(buildSeq(r.Fork(), st, e1, e2))
					}
				}
			}
		}
	} else {
		// a sample of pairs: in each stalled state every event once together with a failure of the
		// blocked write (before or after it), and a few arbitrary pairs elsewhere
		for i, e := range events {
			st := stalledStates[i%len(stalledStates)]
			f := failsBlockedWrite[r.Intn(len(failsBlockedWrite))]
			if f == e {
				f = "wfail-blocked"
			}
			if r.Chance(2, 3) {
				emit(buildSeq(r.Fork(), st, e, f))
			} else {
				emit(buildSeq(r.Fork(), st, f, e))
			}
		}
		for i := 0; i < 8; i++ {
			e1, e2 := pairEvents[r.Intn(len(pairEvents))], pairEvents[r.Intn(len(pairEvents))]
			if e1 != e2 {
				emit(buildSeq(r.Fork(), states[r.Intn(len(states))], e1, e2))
			}
		}
	}
	if tier != "thorough" {
		// a second, random half round
		for _, st := range states {
			for _, ev := range events {
				if r.Chance(1, 4) {
					emit(buildCase(r.Fork(), st, ev))
				}
			}
		}
	}
	if tier == "thorough" {
		for i := 0; i < 3; i++ {
			emit(f10cRace(r.Range(1500, 4000)))
		}
	}
}
