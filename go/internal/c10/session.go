package c10

import (
	"bytes"
	"crypto/ecdsa"
	"crypto/elliptic"
	"crypto/rand"
	"crypto/tls"
	"crypto/x509"
	"crypto/x509/pkix"
	"errors"
	"fmt"
	"io"
	"math/big"
	"net"
	"net/url"
	"os"
	"regexp"
	"runtime"
	"sort"
	"strconv"
	"strings"
	"sync"
	"sync/atomic"
	"time"

	"github.com/google/martian/v3/h2"
	mlog "github.com/google/martian/v3/log"
	"golang.org/x/net/http2"
	"golang.org/x/net/http2/hpack"
)

// ---- TLS material: own CA + leaf for 127.0.0.1 (h2/testing's certificate is for os.Hostname()) ----

var (
	certOnce sync.Once
	srvCert  tls.Certificate
	rootPool *x509.CertPool
)

func initCerts() {
	certOnce.Do(func() {
		if os.Getenv("C10_DEBUG") == "" {
			mlog.SetLevel(mlog.Silent)
		}
		caKey, _ := ecdsa.GenerateKey(elliptic.P256(), rand.Reader)
		caT := &x509.Certificate{SerialNumber: big.NewInt(1), Subject: pkix.Name{CommonName: "verif-c10-ca"},
			NotBefore: time.Now().Add(-time.Hour), NotAfter: time.Now().Add(24 * time.Hour), IsCA: true,
			KeyUsage: x509.KeyUsageCertSign | x509.KeyUsageDigitalSignature, BasicConstraintsValid: true}
		caDER, err := x509.CreateCertificate(rand.Reader, caT, caT, &caKey.PublicKey, caKey)
		if err != nil {
			panic(err)
		}
		ca, _ := x509.ParseCertificate(caDER)
		rootPool = x509.NewCertPool()
		rootPool.AddCert(ca)
		key, _ := ecdsa.GenerateKey(elliptic.P256(), rand.Reader)
		t := &x509.Certificate{SerialNumber: big.NewInt(2), Subject: pkix.Name{CommonName: "127.0.0.1"},
			NotBefore: time.Now().Add(-time.Hour), NotAfter: time.Now().Add(24 * time.Hour),
			KeyUsage: x509.KeyUsageDigitalSignature, ExtKeyUsage: []x509.ExtKeyUsage{x509.ExtKeyUsageServerAuth},
			IPAddresses: []net.IP{net.ParseIP("127.0.0.1")}, DNSNames: []string{"localhost"}}
		der, err := x509.CreateCertificate(rand.Reader, t, ca, &key.PublicKey, caKey)
		if err != nil {
			panic(err)
		}
		srvCert = tls.Certificate{Certificate: [][]byte{der}, PrivateKey: key}
	})
}

var (
	otherOnce sync.Once
	otherC    tls.Certificate
)

// otherCert: a self-signed leaf the proxy's root pool does not contain.
func otherCert() tls.Certificate {
	otherOnce.Do(func() {
		key, _ := ecdsa.GenerateKey(elliptic.P256(), rand.Reader)
		t := &x509.Certificate{SerialNumber: big.NewInt(3), Subject: pkix.Name{CommonName: "127.0.0.1"},
			NotBefore: time.Now().Add(-time.Hour), NotAfter: time.Now().Add(24 * time.Hour),
			KeyUsage: x509.KeyUsageDigitalSignature, ExtKeyUsage: []x509.ExtKeyUsage{x509.ExtKeyUsageServerAuth},
			IPAddresses: []net.IP{net.ParseIP("127.0.0.1")}}
		der, err := x509.CreateCertificate(rand.Reader, t, t, &key.PublicKey, key)
		if err != nil {
			panic(err)
		}
		otherC = tls.Certificate{Certificate: [][]byte{der}, PrivateKey: key}
	})
	return otherC
}

// ---- goroutine dump, filtered to frames of martian/v3/h2 ----

type gor struct {
	id    string
	state string
	kind  string // main | reader | writer | readframe | watcher | other
	site  string // where a reader is blocked (for signatures)
	text  string
}

var gorHead = regexp.MustCompile(`^goroutine (\d+) \[([^\]]*)\]`)

var (
	dumpMu  sync.Mutex
	dumpBuf = make([]byte, 1<<20) // reused: the collector is off while a case runs
)

func h2Goroutines() []gor {
	dumpMu.Lock()
	defer dumpMu.Unlock()
	var buf []byte
	for {
		n := runtime.Stack(dumpBuf, true)
		if n < len(dumpBuf) {
			buf = dumpBuf[:n]
			break
		}
		dumpBuf = make([]byte, 2*len(dumpBuf))
	}
	var out []gor
	for _, blk := range strings.Split(string(buf), "\n\n") {
		if !strings.Contains(blk, "martian/v3/h2.") {
			continue
		}
		m := gorHead.FindStringSubmatch(blk)
		if m == nil {
			continue
		}
		g := gor{id: m[1], state: m[2], text: blk}
		switch {
		case strings.Contains(blk, "h2.(*relay).relayFrames("):
			g.kind = "reader"
			switch {
			case strings.Contains(blk, "emitEligibleFrames") && (strings.Contains(blk, "h2.(*relay).updateWindow") || strings.Contains(blk, "h2.(*relay).updateInitialWindowSize")):
				g.site = "peer-emit"
			case strings.Contains(blk, "emitEligibleFrames"):
				g.site = "own-emit"
			case strings.Contains(blk, "relayFrames.func1"):
				g.site = "readerdone-handshake"
			case strings.Contains(blk, "sync.(*Mutex).Lock"):
				g.site = "mutex"
			case strings.Contains(blk, "h2.(*relay).processFrame"):
				g.site = "process-frame"
			case strings.Contains(blk, ").ReadFrame("):
				g.site = "inline-read" // the reader itself sits in ReadFrame, outside its select
			default:
				g.site = "select"
				if !strings.HasPrefix(g.state, "select") && g.state != "running" && g.state != "runnable" {
					// in relayFrames itself but not in its select: name what it is blocked on
					g.site = strings.ReplaceAll(strings.SplitN(g.state, ",", 2)[0], " ", "-")
				}
			}
		case strings.Contains(blk, "relayFrames.func") && (strings.Contains(blk, "ReadFrame") || strings.HasPrefix(g.state, "chan send")):
			// blocked in the read, or (after it) on `frameReady <- struct{}{}`
			g.kind = "readframe"
		case strings.Contains(blk, "relayFrames.func"):
			g.kind = "writer"
		case strings.Contains(blk, "h2.(*Config).Proxy.func"):
			g.kind = "watcher"
		case strings.Contains(blk, "h2.(*Config).Proxy("):
			g.kind = "main"
			switch {
			case strings.Contains(blk, "h2.forwardPreface(") && strings.Contains(blk, "io.ReadFull"):
				g.site = "preface-read"
			case strings.Contains(blk, "h2.forwardPreface("):
				g.site = "preface-write"
			case strings.Contains(blk, "tls.Dial"):
				g.site = "dial"
			}
		default:
			g.kind = "other"
		}
		out = append(out, g)
	}
	return out
}

func kindsOf(gs []gor) string {
	if len(gs) == 0 {
		return "-"
	}
	var ks []string
	for _, g := range gs {
		ks = append(ks, g.kind)
	}
	sort.Strings(ks)
	return strings.Join(ks, ",")
}

// ---- fault-injecting wrapper around the proxy's end of the client connection ----

type faultConn struct {
	net.Conn
	failWrites atomic.Bool
	inWrite    atomic.Int32 // Write calls that have not returned (waiting at the gate or inside the pipe)

	mu      sync.Mutex
	gate    chan struct{} // closed = the client takes bytes; replaced by an open channel while it is stalled
	stalled bool
	failCh  chan struct{} // closed by fail()
	closeCh chan struct{} // closed by Close()
	once    sync.Once
}

func newFaultConn(c net.Conn) *faultConn {
	g := make(chan struct{})
	close(g)
	return &faultConn{Conn: c, gate: g, failCh: make(chan struct{}), closeCh: make(chan struct{})}
}

var errInjected = errors.New("injected write failure")

// Write: while the client is stalled no byte passes and the call blocks (a peer that keeps the
// connection open but does not read); fail() and Close() end a blocked call.
func (c *faultConn) Write(b []byte) (int, error) {
	if c.failWrites.Load() {
		return 0, errInjected
	}
	c.inWrite.Add(1)
	defer c.inWrite.Add(-1)
	for {
		c.mu.Lock()
		g := c.gate
		c.mu.Unlock()
		select {
		case <-g:
		case <-c.failCh:
			return 0, errInjected
		case <-c.closeCh:
			return 0, io.ErrClosedPipe
		}
		c.mu.Lock()
		open := !c.stalled
		c.mu.Unlock()
		if open {
			break
		}
	}
	n, err := c.Conn.Write(b)
	if c.failWrites.Load() && err != nil {
		return n, errInjected
	}
	return n, err
}

func (c *faultConn) Close() error {
	c.once.Do(func() { close(c.closeCh) })
	return c.Conn.Close()
}

func (c *faultConn) isStalled() bool {
	c.mu.Lock()
	defer c.mu.Unlock()
	return c.stalled && !c.failWrites.Load()
}

func (c *faultConn) stall(on bool) {
	c.mu.Lock()
	defer c.mu.Unlock()
	if on && !c.stalled {
		c.gate = make(chan struct{})
		c.stalled = true
	} else if !on && c.stalled {
		c.stalled = false
		close(c.gate)
	}
}

// fail makes every write toward the client fail from now on, a blocked one too.
func (c *faultConn) fail() {
	if !c.failWrites.Swap(true) {
		close(c.failCh)
	}
	c.Conn.SetWriteDeadline(time.Unix(1, 0))
}

// ---- the client's sending side: an in-order queue, so that (as with a TCP socket) a write of the
// client does not wait for the relay to read; a close is queued behind the bytes written before it.

type sendQ struct {
	mu     sync.Mutex
	cond   *sync.Cond
	items  [][]byte // nil item = close the connection
	closed bool     // the pump has closed the connection (or was stopped)
	conn   net.Conn
}

func newSendQ(c net.Conn) *sendQ {
	q := &sendQ{conn: c}
	q.cond = sync.NewCond(&q.mu)
	go q.pump()
	return q
}

func (q *sendQ) Write(b []byte) (int, error) {
	q.mu.Lock()
	defer q.mu.Unlock()
	if q.closed {
		return 0, io.ErrClosedPipe
	}
	q.items = append(q.items, append([]byte{}, b...))
	q.cond.Signal()
	return len(b), nil
}

func (q *sendQ) closeAfterPending() {
	q.mu.Lock()
	q.items = append(q.items, nil)
	q.cond.Signal()
	q.mu.Unlock()
}

// stop ends the pump (teardown): pending bytes are dropped.
func (q *sendQ) stop() {
	q.mu.Lock()
	q.closed = true
	q.items = nil
	q.cond.Signal()
	q.mu.Unlock()
	q.conn.Close()
}

func (q *sendQ) pending() int {
	q.mu.Lock()
	defer q.mu.Unlock()
	return len(q.items)
}

func (q *sendQ) pump() {
	for {
		q.mu.Lock()
		for len(q.items) == 0 && !q.closed {
			q.cond.Wait()
		}
		if q.closed {
			q.mu.Unlock()
			return
		}
		it := q.items[0]
		q.mu.Unlock()
		var err error
		if it == nil {
			q.conn.Close()
			err = io.ErrClosedPipe
		} else {
			_, err = q.conn.Write(it)
		}
		q.mu.Lock()
		if err != nil {
			q.closed = true
			q.items = nil
			q.mu.Unlock()
			return
		}
		if len(q.items) > 0 {
			q.items = q.items[1:]
		}
		q.mu.Unlock()
	}
}

// ---- one relay session: raw client <-net.Pipe-> Config.Proxy <-TLS/TCP-> raw server ----

type peerStats struct {
	mu     sync.Mutex
	frames int // frames received after the settings handshake
	data   int
	typ    map[http2.FrameType]int
	endAt  time.Time // read returned EOF / error
	endErr string
}

func (p *peerStats) get() (frames, data int, ended bool) {
	p.mu.Lock()
	defer p.mu.Unlock()
	return p.frames, p.data, !p.endAt.IsZero()
}

type session struct {
	base map[string]bool // goroutine ids that existed before

	mode       string // server behaviour: ok | refuse | tlsfail
	prefaced   bool   // the client has sent (something as) its preface
	running    bool   // the good preface reached the server: the relays run
	srvGotConn atomic.Bool
	scInode    string // inode of the proxy's end of the upstream connection ("" = not identified)

	ln        net.Listener
	closing   chan bool
	closeOnce sync.Once

	cliConn  net.Conn // harness (client) end of the pipe
	proxyEnd *faultConn
	cf       *http2.Framer
	cfMu     sync.Mutex
	cstat    peerStats
	cq       *sendQ // the client's sending side
	cClosed  bool

	srvConn  *tls.Conn
	srvRaw   net.Conn
	sf       *http2.Framer
	sfMu     sync.Mutex
	sstat    peerStats
	srvReady chan error
	sClosedW bool
	sReset   bool

	returned   chan struct{}
	returnedAt time.Time
	proxyErr   error

	openBlock map[string][]byte       // the unsent rest of a header block a peer has started
	henc    map[string]*hpack.Encoder // one HPACK encoder (dynamic table) per sending peer
	hbuf    map[string]*bytes.Buffer
	termAt  time.Time // time of the last terminating event / unstall after it
	termed  bool
	termWhy string
	armed   bool // race: close the client only once the server has seen a released DATA frame
	armData int
}

func baseline() map[string]bool {
	m := map[string]bool{}
	for _, g := range h2Goroutines() {
		m[g.id] = true
	}
	return m
}

// stable waits (bounded) until the session's goroutines have all come to rest — none running or
// runnable, the same picture in three consecutive dumps — and returns that picture: a reader between
// two iterations of its loop has no ReadFrame goroutine for a moment.
func (s *session) stable() []gor {
	var last string
	same := 0
	var gs []gor
	end := time.Now().Add(500 * time.Millisecond)
	for {
		gs = s.mine()
		busy := false
		for _, g := range gs {
			if g.state == "running" || g.state == "runnable" {
				busy = true
			}
		}
		k := kindsOf(gs)
		if !busy && k == last {
			same++
		} else {
			same = 0
		}
		last = k
		if same >= 2 || time.Now().After(end) {
			return gs
		}
		time.Sleep(time.Millisecond)
	}
}

func (s *session) mine() []gor {
	var out []gor
	for _, g := range h2Goroutines() {
		if !s.base[g.id] {
			out = append(out, g)
		}
	}
	return out
}

const ioDeadline = 5 * time.Second

// begin creates the endpoints and calls Config.Proxy. mode: "ok" (raw TLS h2 server), "refuse"
// (nobody listens: the TCP connect fails), "tlsfail" (a TCP server that never completes the TLS
// handshake; variant close | garbage | badcert).
func begin(mode, variant string) (*session, error) {
	initCerts()
	s := &session{base: baseline(), mode: mode, closing: make(chan bool), returned: make(chan struct{}), srvReady: make(chan error, 1)}
	s.cstat.typ = map[http2.FrameType]int{}
	s.sstat.typ = map[http2.FrameType]int{}
	s.henc = map[string]*hpack.Encoder{}
	s.hbuf = map[string]*bytes.Buffer{}
	s.openBlock = map[string][]byte{}
	for _, d := range []string{"c2s", "s2c"} {
		s.hbuf[d] = &bytes.Buffer{}
		s.henc[d] = hpack.NewEncoder(s.hbuf[d])
	}
	var addr string
	switch mode {
	case "ok":
		ln, err := tls.Listen("tcp", "127.0.0.1:0", &tls.Config{Certificates: []tls.Certificate{srvCert}, NextProtos: []string{"h2"}})
		if err != nil {
			return nil, err
		}
		s.ln = ln
		addr = ln.Addr().String()
		go s.serve()
	case "refuse":
		ln, err := net.Listen("tcp", "127.0.0.1:0")
		if err != nil {
			return nil, err
		}
		addr = ln.Addr().String()
		ln.Close()
	case "tlsfail":
		var ln net.Listener
		var err error
		if variant == "badcert" { // a certificate the proxy's root pool does not know
			ln, err = tls.Listen("tcp", "127.0.0.1:0", &tls.Config{Certificates: []tls.Certificate{otherCert()}, NextProtos: []string{"h2"}})
		} else {
			ln, err = net.Listen("tcp", "127.0.0.1:0")
		}
		if err != nil {
			return nil, err
		}
		s.ln = ln
		addr = ln.Addr().String()
		go func() {
			c, err := ln.Accept()
			if err != nil {
				return
			}
			s.srvRaw = c
			c.SetDeadline(time.Now().Add(ioDeadline))
			switch variant {
			case "garbage":
				c.Write([]byte("HTTP/1.1 400 Bad Request\r\n\r\n"))
				c.Close()
			case "badcert":
				c.(*tls.Conn).Handshake()
				c.Close()
			default:
				c.Close()
			}
		}()
	default:
		return nil, errors.New("unknown server mode")
	}

	c1, c2 := net.Pipe()
	s.cliConn = c1
	s.proxyEnd = newFaultConn(c2)
	s.cq = newSendQ(c1)
	s.cf = http2.NewFramer(s.cq, c1)

	cfg := &h2.Config{RootCAs: rootPool, AllowedHostsFilter: func(string) bool { return true }}
	u := &url.URL{Scheme: "https", Host: addr}
	go func() {
		s.proxyErr = cfg.Proxy(s.closing, s.proxyEnd, u)
		s.returnedAt = time.Now()
		close(s.returned)
	}()
	if mode == "ok" {
		// the dial (TCP + TLS handshake) completes before anything else happens: the stages of a case are
		// then what its ops say, not what the scheduler made of them
		if !waitFor(ioDeadline, func() bool { return s.srvGotConn.Load() }) {
			return s, errors.New("the proxy did not dial the server")
		}
		s.scInode = dialledSocket(addr)
	}
	return s, nil
}

// dialledSocket finds, in this process, the socket connected TO addr (the proxy's end of the upstream
// connection; the harness's own end is connected FROM it) and returns its inode.
func dialledSocket(addr string) string {
	_, portS, err := net.SplitHostPort(addr)
	if err != nil {
		return ""
	}
	port, _ := strconv.Atoi(portS)
	b, err := os.ReadFile("/proc/self/net/tcp")
	if err != nil {
		return ""
	}
	want := fmt.Sprintf("0100007F:%04X", port)
	found := ""
	for _, l := range strings.Split(string(b), "\n")[1:] {
		f := strings.Fields(l)
		if len(f) < 10 || f[2] != want || f[1] == want {
			continue
		}
		if f[9] != "0" && fdOpen(f[9]) {
			if found != "" {
				return "" // ambiguous
			}
			found = f[9]
		}
	}
	return found
}

// fdOpen: some file descriptor of this process still refers to the socket with this inode.
func fdOpen(inode string) bool {
	es, err := os.ReadDir("/proc/self/fd")
	if err != nil {
		return true
	}
	want := "socket:[" + inode + "]"
	for _, e := range es {
		if t, err := os.Readlink("/proc/self/fd/" + e.Name()); err == nil && t == want {
			return true
		}
	}
	return false
}

// upstreamClosed: the proxy has closed its end of the upstream connection — seen directly (its file
// descriptor is gone) or by the server (EOF / close on the accepted connection).
func (s *session) upstreamClosed() bool {
	if _, _, ended := s.sstat.get(); ended && !s.sReset {
		return true
	}
	if s.scInode != "" {
		return !fdOpen(s.scInode)
	}
	if s.sReset { // not identified: after a reset by the server itself nothing else can be observed
		return s.isReturned()
	}
	return false
}

var wrongPreface = []byte("GET / HTTP/1.1\r\nHost: x\r\n\r\n")[:len(http2.ClientPreface)]

// preface: what the client sends first. good | split K (good, in two writes) | wrong (24 other bytes) |
// short K (K < 24 bytes of the preface, then the client closes) | eof (the client closes at once).
func (s *session) preface(kind string, k int) error {
	s.prefaced = true
	c1 := s.cliConn
	d := ioDeadline
	if s.isReturned() || s.mode != "ok" {
		d = 50 * time.Millisecond // nobody will read
	}
	c1.SetWriteDeadline(time.Now().Add(d))
	defer c1.SetWriteDeadline(time.Time{})
	pre := []byte(http2.ClientPreface)
	switch kind {
	case "eof":
		s.cClosed = true
		s.cq.stop()
		return nil
	case "short":
		if k < 1 || k >= len(pre) {
			k = 10
		}
		c1.Write(pre[:k])
		s.cClosed = true
		s.cq.stop()
		return nil
	case "wrong":
		_, err := c1.Write(wrongPreface)
		return err
	case "split":
		if k < 1 || k >= len(pre) {
			k = 10
		}
		if _, err := c1.Write(pre[:k]); err != nil {
			return err
		}
		time.Sleep(3 * time.Millisecond)
		if _, err := c1.Write(pre[k:]); err != nil {
			return err
		}
	default:
		if _, err := c1.Write(pre); err != nil {
			return fmt.Errorf("client preface: %v", err)
		}
	}
	if s.mode != "ok" || s.sReset {
		return nil
	}
	select {
	case err := <-s.srvReady:
		if err != nil {
			return err
		}
	case <-time.After(ioDeadline):
		return errors.New("server did not get the preface")
	}
	s.running = true
	go s.clientReader()
	// the relays exist once both readers sit in their select with a ReadFrame goroutine each
	waitFor(ioDeadline, func() bool {
		n := 0
		for _, g := range s.mine() {
			if g.kind == "readframe" {
				n++
			}
		}
		return n >= 2 || s.isReturned()
	})
	return nil
}

// settings: the SETTINGS exchange of both peers through the relay; counters restart afterwards.
func (s *session) settings() error {
	s.cliWrite(func(f *http2.Framer) error { return f.WriteSettings() })
	s.srvWrite(func(f *http2.Framer) error { return f.WriteSettings() })
	s.cliWrite(func(f *http2.Framer) error { return f.WriteSettingsAck() })
	s.srvWrite(func(f *http2.Framer) error { return f.WriteSettingsAck() })
	ok := waitFor(ioDeadline, func() bool {
		cf, _, _ := s.cstat.get()
		sf, _, _ := s.sstat.get()
		return cf >= 2 && sf >= 2
	})
	if !ok {
		return errors.New("settings handshake through the relay did not complete")
	}
	s.cstat.mu.Lock()
	s.cstat.frames = 0
	s.cstat.mu.Unlock()
	s.sstat.mu.Lock()
	s.sstat.frames = 0
	s.sstat.mu.Unlock()
	s.stable()
	return nil
}

func startSession() (*session, error) {
	s, err := begin("ok", "")
	if err != nil {
		return s, err
	}
	if err := s.preface("good", 0); err != nil {
		return s, err
	}
	return s, s.settings()
}

func waitFor(d time.Duration, cond func() bool) bool {
	end := time.Now().Add(d)
	for {
		if cond() {
			return true
		}
		if time.Now().After(end) {
			return false
		}
		time.Sleep(500 * time.Microsecond)
	}
}

func (s *session) serve() {
	c, err := s.ln.Accept()
	if err != nil {
		s.srvReady <- err
		return
	}
	tc := c.(*tls.Conn)
	s.sfMu.Lock()
	s.srvConn = tc
	s.sfMu.Unlock()
	tc.SetDeadline(time.Now().Add(ioDeadline))
	if err := tc.Handshake(); err != nil {
		s.srvReady <- fmt.Errorf("server handshake: %v", err)
		return
	}
	// from here on the server only waits: what ends its read is the proxy closing the connection
	// (or the teardown of the case), never a deadline
	tc.SetDeadline(time.Time{})
	s.srvGotConn.Store(true)
	pre := make([]byte, len(http2.ClientPreface))
	if _, err := io.ReadFull(tc, pre); err != nil {
		s.sstat.end(err)
		s.srvReady <- fmt.Errorf("server preface: %v", err)
		return
	}
	s.sfMu.Lock()
	s.sf = http2.NewFramer(tc, tc)
	s.sfMu.Unlock()
	s.srvReady <- nil
	s.serverReader()
}

func (p *peerStats) record(f http2.Frame) {
	p.mu.Lock()
	p.frames++
	p.typ[f.Header().Type]++
	if f.Header().Type == http2.FrameData {
		p.data++
	}
	p.mu.Unlock()
}

func (p *peerStats) end(err error) {
	p.mu.Lock()
	if p.endAt.IsZero() {
		p.endAt = time.Now()
		p.endErr = fmt.Sprint(err)
	}
	p.mu.Unlock()
}

func (s *session) serverReader() {
	for {
		f, err := s.sf.ReadFrame()
		if err != nil {
			s.sstat.end(err)
			return
		}
		s.sstat.record(f)
	}
}

func (s *session) clientReader() {
	for {
		f, err := s.cf.ReadFrame()
		if err != nil {
			s.cstat.end(err)
			return
		}
		s.cstat.record(f)
	}
}

func (s *session) cliWrite(fn func(*http2.Framer) error) error {
	s.cfMu.Lock()
	defer s.cfMu.Unlock()
	return fn(s.cf)
}

func (s *session) srvWrite(fn func(*http2.Framer) error) error {
	s.sfMu.Lock()
	defer s.sfMu.Unlock()
	if s.srvConn == nil || s.sf == nil {
		return errors.New("no server conn")
	}
	s.srvConn.SetWriteDeadline(time.Now().Add(ioDeadline))
	return fn(s.sf)
}

func (s *session) server() *tls.Conn {
	s.sfMu.Lock()
	defer s.sfMu.Unlock()
	return s.srvConn
}

func (s *session) write(dir string, fn func(*http2.Framer) error) error {
	if dir == "c2s" {
		return s.cliWrite(fn)
	}
	return s.srvWrite(fn)
}

func (s *session) headerBlock(dir string, sid uint32) []byte {
	buf, enc := s.hbuf[dir], s.henc[dir]
	buf.Reset()
	if dir == "s2c" {
		enc.WriteField(hpack.HeaderField{Name: ":status", Value: "200"})
	} else {
		enc.WriteField(hpack.HeaderField{Name: ":method", Value: "POST"})
		enc.WriteField(hpack.HeaderField{Name: ":scheme", Value: "https"})
		enc.WriteField(hpack.HeaderField{Name: ":path", Value: fmt.Sprintf("/s/%d", sid)})
		enc.WriteField(hpack.HeaderField{Name: ":authority", Value: "127.0.0.1"})
	}
	return append([]byte{}, buf.Bytes()...)
}

func (s *session) stallClient(on bool) { s.proxyEnd.stall(on) }

func (s *session) isReturned() bool {
	select {
	case <-s.returned:
		return true
	default:
		return false
	}
}

// teardown releases everything the harness owns; the relay may keep goroutines if it is wedged.
func (s *session) teardown() {
	s.closeOnce.Do(func() { close(s.closing) })
	s.stallClient(false)
	if s.cq != nil {
		s.cq.stop()
	}
	if s.proxyEnd != nil {
		s.proxyEnd.Close()
	}
	if c := s.server(); c != nil {
		c.Close()
	}
	if s.srvRaw != nil {
		s.srvRaw.Close()
	}
	if s.ln != nil {
		s.ln.Close()
	}
}
