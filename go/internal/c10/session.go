package c10

import (
	"bytes"
	"crypto/ecdsa"
	"crypto/elliptic"
	"crypto/rand"
	"crypto/tls"
	"crypto/x509"
	"crypto/x509/pkix"
	"errors"
	"fmt"
	"io"
	"math/big"
	"net"
	"net/url"
	"regexp"
	"runtime"
	"sort"
	"strings"
	"sync"
	"sync/atomic"
	"time"

	"github.com/google/martian/v3/h2"
	mlog "github.com/google/martian/v3/log"
	"golang.org/x/net/http2"
	"golang.org/x/net/http2/hpack"
)

// ---- TLS material: own CA + leaf for 127.0.0.1 (h2/testing's certificate is for os.Hostname()) ----

var (
	certOnce sync.Once
	srvCert  tls.Certificate
	rootPool *x509.CertPool
)

func initCerts() {
	certOnce.Do(func() {
		mlog.SetLevel(mlog.Silent)
		caKey, _ := ecdsa.GenerateKey(elliptic.P256(), rand.Reader)
		caT := &x509.Certificate{SerialNumber: big.NewInt(1), Subject: pkix.Name{CommonName: "verif-c10-ca"},
			NotBefore: time.Now().Add(-time.Hour), NotAfter: time.Now().Add(24 * time.Hour), IsCA: true,
			KeyUsage: x509.KeyUsageCertSign | x509.KeyUsageDigitalSignature, BasicConstraintsValid: true}
		caDER, err := x509.CreateCertificate(rand.Reader, caT, caT, &caKey.PublicKey, caKey)
		if err != nil {
			panic(err)
		}
		ca, _ := x509.ParseCertificate(caDER)
		rootPool = x509.NewCertPool()
		rootPool.AddCert(ca)
		key, _ := ecdsa.GenerateKey(elliptic.P256(), rand.Reader)
		t := &x509.Certificate{SerialNumber: big.NewInt(2), Subject: pkix.Name{CommonName: "127.0.0.1"},
			NotBefore: time.Now().Add(-time.Hour), NotAfter: time.Now().Add(24 * time.Hour),
			KeyUsage: x509.KeyUsageDigitalSignature, ExtKeyUsage: []x509.ExtKeyUsage{x509.ExtKeyUsageServerAuth},
			IPAddresses: []net.IP{net.ParseIP("127.0.0.1")}, DNSNames: []string{"localhost"}}
		der, err := x509.CreateCertificate(rand.Reader, t, ca, &key.PublicKey, caKey)
		if err != nil {
			panic(err)
		}
		srvCert = tls.Certificate{Certificate: [][]byte{der}, PrivateKey: key}
	})
}

// ---- goroutine dump, filtered to frames of martian/v3/h2 ----

type gor struct {
	id    string
	state string
	kind  string // main | reader | writer | readframe | watcher | other
	site  string // where a reader is blocked (for signatures)
	text  string
}

var gorHead = regexp.MustCompile(`^goroutine (\d+) \[([^\]]*)\]`)

func h2Goroutines() []gor {
	buf := make([]byte, 1<<20)
	for {
		n := runtime.Stack(buf, true)
		if n < len(buf) {
			buf = buf[:n]
			break
		}
		buf = make([]byte, 2*len(buf))
	}
	var out []gor
	for _, blk := range strings.Split(string(buf), "\n\n") {
		if !strings.Contains(blk, "martian/v3/h2.") {
			continue
		}
		m := gorHead.FindStringSubmatch(blk)
		if m == nil {
			continue
		}
		g := gor{id: m[1], state: m[2], text: blk}
		switch {
		case strings.Contains(blk, "h2.(*relay).relayFrames("):
			g.kind = "reader"
			switch {
			case strings.Contains(blk, "emitEligibleFrames") && (strings.Contains(blk, "h2.(*relay).updateWindow") || strings.Contains(blk, "h2.(*relay).updateInitialWindowSize")):
				g.site = "peer-emit"
			case strings.Contains(blk, "emitEligibleFrames"):
				g.site = "own-emit"
			case strings.Contains(blk, "relayFrames.func1"):
				g.site = "readerdone-handshake"
			case strings.Contains(blk, "sync.(*Mutex).Lock"):
				g.site = "mutex"
			case strings.Contains(blk, "h2.(*relay).processFrame"):
				g.site = "process-frame"
			default:
				g.site = "select"
			}
		case strings.Contains(blk, "relayFrames.func") && (strings.Contains(blk, "ReadFrame") || strings.HasPrefix(g.state, "chan send")):
			// blocked in the read, or (after it) on `frameReady <- struct{}{}`
			g.kind = "readframe"
		case strings.Contains(blk, "relayFrames.func"):
			g.kind = "writer"
		case strings.Contains(blk, "h2.(*Config).Proxy.func"):
			g.kind = "watcher"
		case strings.Contains(blk, "h2.(*Config).Proxy("):
			g.kind = "main"
		default:
			g.kind = "other"
		}
		out = append(out, g)
	}
	return out
}

func kindsOf(gs []gor) string {
	if len(gs) == 0 {
		return "-"
	}
	var ks []string
	for _, g := range gs {
		ks = append(ks, g.kind)
	}
	sort.Strings(ks)
	return strings.Join(ks, ",")
}

// ---- fault-injecting wrapper around the proxy's end of the client connection ----

type faultConn struct {
	net.Conn
	failWrites atomic.Bool
}

var errInjected = errors.New("injected write failure")

func (c *faultConn) Write(b []byte) (int, error) {
	if c.failWrites.Load() {
		return 0, errInjected
	}
	return c.Conn.Write(b)
}

// ---- one relay session: raw client <-net.Pipe-> Config.Proxy <-TLS/TCP-> raw server ----

type peerStats struct {
	mu     sync.Mutex
	frames int // frames received after the settings handshake
	data   int
	typ    map[http2.FrameType]int
	endAt  time.Time // read returned EOF / error
	endErr string
}

func (p *peerStats) get() (frames, data int, ended bool) {
	p.mu.Lock()
	defer p.mu.Unlock()
	return p.frames, p.data, !p.endAt.IsZero()
}

type session struct {
	base map[string]bool // goroutine ids that existed before

	ln        net.Listener
	closing   chan bool
	closeOnce sync.Once

	cliConn  net.Conn // harness (client) end of the pipe
	proxyEnd *faultConn
	cf       *http2.Framer
	cfMu     sync.Mutex
	cstat    peerStats
	cGate    chan struct{} // closed = client reads; replaced when stalled
	cGateMu  sync.Mutex
	cStalled bool
	cClosed  bool

	srvConn  *tls.Conn
	srvRaw   net.Conn
	sf       *http2.Framer
	sfMu     sync.Mutex
	sstat    peerStats
	srvReady chan error
	sClosedW bool
	sReset   bool

	returned   chan struct{}
	returnedAt time.Time
	proxyErr   error

	henc    map[string]*hpack.Encoder // one HPACK encoder (dynamic table) per sending peer
	hbuf    map[string]*bytes.Buffer
	termAt  time.Time // time of the last terminating event / unstall after it
	termed  bool
	termWhy string
	armed   bool // race: close the client only once the server has seen a released DATA frame
	armData int
}

func baseline() map[string]bool {
	m := map[string]bool{}
	for _, g := range h2Goroutines() {
		m[g.id] = true
	}
	return m
}

func (s *session) mine() []gor {
	var out []gor
	for _, g := range h2Goroutines() {
		if !s.base[g.id] {
			out = append(out, g)
		}
	}
	return out
}

const ioDeadline = 2 * time.Second

func startSession() (*session, error) {
	initCerts()
	s := &session{base: baseline(), closing: make(chan bool), returned: make(chan struct{}), srvReady: make(chan error, 1)}
	s.cstat.typ = map[http2.FrameType]int{}
	s.sstat.typ = map[http2.FrameType]int{}
	s.henc = map[string]*hpack.Encoder{}
	s.hbuf = map[string]*bytes.Buffer{}
	for _, d := range []string{"c2s", "s2c"} {
		s.hbuf[d] = &bytes.Buffer{}
		s.henc[d] = hpack.NewEncoder(s.hbuf[d])
	}
	ln, err := tls.Listen("tcp", "127.0.0.1:0", &tls.Config{Certificates: []tls.Certificate{srvCert}, NextProtos: []string{"h2"}})
	if err != nil {
		return nil, err
	}
	s.ln = ln
	go s.serve()

	c1, c2 := net.Pipe()
	s.cliConn = c1
	s.proxyEnd = &faultConn{Conn: c2}
	s.cf = http2.NewFramer(c1, c1)
	s.cGate = make(chan struct{})
	close(s.cGate)

	cfg := &h2.Config{RootCAs: rootPool, AllowedHostsFilter: func(string) bool { return true }}
	u := &url.URL{Scheme: "https", Host: ln.Addr().String()}
	go func() {
		s.proxyErr = cfg.Proxy(s.closing, s.proxyEnd, u)
		s.returnedAt = time.Now()
		close(s.returned)
	}()

	// client: preface + SETTINGS
	c1.SetWriteDeadline(time.Now().Add(ioDeadline))
	if _, err := c1.Write([]byte(http2.ClientPreface)); err != nil {
		return s, fmt.Errorf("client preface: %v", err)
	}
	select {
	case err := <-s.srvReady:
		if err != nil {
			return s, err
		}
	case <-time.After(ioDeadline):
		return s, errors.New("server did not get the preface")
	}
	go s.clientReader()
	go s.serverReader()
	s.cliWrite(func(f *http2.Framer) error { return f.WriteSettings() })
	s.srvWrite(func(f *http2.Framer) error { return f.WriteSettings() })
	s.cliWrite(func(f *http2.Framer) error { return f.WriteSettingsAck() })
	s.srvWrite(func(f *http2.Framer) error { return f.WriteSettingsAck() })
	ok := waitFor(ioDeadline, func() bool {
		cf, _, _ := s.cstat.get()
		sf, _, _ := s.sstat.get()
		return cf >= 2 && sf >= 2
	})
	if !ok {
		return s, errors.New("settings handshake through the relay did not complete")
	}
	s.cstat.mu.Lock()
	s.cstat.frames = 0
	s.cstat.mu.Unlock()
	s.sstat.mu.Lock()
	s.sstat.frames = 0
	s.sstat.mu.Unlock()
	return s, nil
}

func waitFor(d time.Duration, cond func() bool) bool {
	end := time.Now().Add(d)
	for {
		if cond() {
			return true
		}
		if time.Now().After(end) {
			return false
		}
		time.Sleep(500 * time.Microsecond)
	}
}

func (s *session) serve() {
	c, err := s.ln.Accept()
	if err != nil {
		s.srvReady <- err
		return
	}
	tc := c.(*tls.Conn)
	s.srvConn = tc
	tc.SetDeadline(time.Now().Add(ioDeadline))
	if err := tc.Handshake(); err != nil {
		s.srvReady <- fmt.Errorf("server handshake: %v", err)
		return
	}
	pre := make([]byte, len(http2.ClientPreface))
	if _, err := io.ReadFull(tc, pre); err != nil {
		s.srvReady <- fmt.Errorf("server preface: %v", err)
		return
	}
	tc.SetDeadline(time.Time{})
	s.sf = http2.NewFramer(tc, tc)
	s.srvReady <- nil
}

func (p *peerStats) record(f http2.Frame) {
	p.mu.Lock()
	p.frames++
	p.typ[f.Header().Type]++
	if f.Header().Type == http2.FrameData {
		p.data++
	}
	p.mu.Unlock()
}

func (p *peerStats) end(err error) {
	p.mu.Lock()
	if p.endAt.IsZero() {
		p.endAt = time.Now()
		p.endErr = fmt.Sprint(err)
	}
	p.mu.Unlock()
}

func (s *session) serverReader() {
	for {
		f, err := s.sf.ReadFrame()
		if err != nil {
			s.sstat.end(err)
			return
		}
		s.sstat.record(f)
	}
}

func (s *session) clientReader() {
	for {
		s.cGateMu.Lock()
		g := s.cGate
		s.cGateMu.Unlock()
		<-g
		f, err := s.cf.ReadFrame()
		if err != nil {
			s.cstat.end(err)
			return
		}
		s.cstat.record(f)
	}
}

func (s *session) cliWrite(fn func(*http2.Framer) error) error {
	s.cfMu.Lock()
	defer s.cfMu.Unlock()
	d := ioDeadline
	if s.termed { // the relay may already have stopped reading: do not wait long for it to take trailing traffic
		d = 100 * time.Millisecond
	}
	s.cliConn.SetWriteDeadline(time.Now().Add(d))
	return fn(s.cf)
}

func (s *session) srvWrite(fn func(*http2.Framer) error) error {
	s.sfMu.Lock()
	defer s.sfMu.Unlock()
	if s.srvConn == nil || s.sf == nil {
		return errors.New("no server conn")
	}
	s.srvConn.SetWriteDeadline(time.Now().Add(ioDeadline))
	return fn(s.sf)
}

func (s *session) write(dir string, fn func(*http2.Framer) error) error {
	if dir == "c2s" {
		return s.cliWrite(fn)
	}
	return s.srvWrite(fn)
}

func (s *session) headerBlock(dir string, sid uint32) []byte {
	buf, enc := s.hbuf[dir], s.henc[dir]
	buf.Reset()
	if dir == "s2c" {
		enc.WriteField(hpack.HeaderField{Name: ":status", Value: "200"})
	} else {
		enc.WriteField(hpack.HeaderField{Name: ":method", Value: "POST"})
		enc.WriteField(hpack.HeaderField{Name: ":scheme", Value: "https"})
		enc.WriteField(hpack.HeaderField{Name: ":path", Value: fmt.Sprintf("/s/%d", sid)})
		enc.WriteField(hpack.HeaderField{Name: ":authority", Value: "127.0.0.1"})
	}
	return append([]byte{}, buf.Bytes()...)
}

func (s *session) stallClient(on bool) {
	s.cGateMu.Lock()
	defer s.cGateMu.Unlock()
	if on && !s.cStalled {
		s.cGate = make(chan struct{})
		s.cStalled = true
	} else if !on && s.cStalled {
		close(s.cGate)
		s.cStalled = false
	}
}

func (s *session) isReturned() bool {
	select {
	case <-s.returned:
		return true
	default:
		return false
	}
}

// teardown releases everything the harness owns; the relay may keep goroutines if it is wedged.
func (s *session) teardown() {
	s.closeOnce.Do(func() { close(s.closing) })
	s.stallClient(false)
	if s.cliConn != nil {
		s.cliConn.Close()
	}
	if s.proxyEnd != nil {
		s.proxyEnd.Close()
	}
	if s.srvConn != nil {
		s.srvConn.Close()
	}
	if s.ln != nil {
		s.ln.Close()
	}
}
