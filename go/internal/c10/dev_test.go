package c10

import (
	"fmt"
	"testing"
)

func runOps(ops []string) {
	e := P{}.NewExec()
	defer e.Close()
	for _, o := range ops {
		r := e.Do(o)
		fmt.Printf("%-60s -> %s %s\n", o, r.Impl, r.Sig)
		if r.Fail != "" {
			fmt.Println("   FAIL:", r.Fail)
		}
	}
}

func TestDev(t *testing.T) {
	runOps([]string{"start", "probe", "env deliver c2s eof : close", "finish"})
	runOps([]string{"start", "env deliver c2s own 1 : headers 1", "env deliver s2c own 1 : headers 1", "env deliver c2s own 1 : data 1 10", "settle 3 2", "probe", "env deliver s2c eof : close", "finish"})
	runOps([]string{"start", "env closing", "finish"})
	runOps([]string{"start", "env deliver c2s err : malformed", "finish"})
	runOps([]string{"start", "env deliver s2c err : reset", "finish"})
	runOps([]string{"start", "env failwrites s2c", "env deliver s2c direct 0 : ping", "finish"})
	runOps([]string{"start", "env stall s2c", "rep 25 env deliver s2c own 1 : headers 1", "settle - -", "probe", "env closing", "settle - -", "env unstall s2c", "finish"})
}

func TestF10c(t *testing.T) {
	runOps([]string{"start", "env deliver s2c peer 0 : settings-iw 0", "settle 1 0", "env deliver c2s own 1 : headers 1", "rep 2000 env deliver c2s own 0 : data 1 1", "settle 4001 1", "probe",
		"env deliver s2c peer 2000 : wupdate 1 100000", "env deliver c2s eof : close race 1", "finish"})
}
