package c01

import "verif/harness/internal/core"

// wireEx: the wire-level end-to-end relay executor (filled in below).
type wireEx struct{}

func (w *wireEx) Do(op string) core.Result { return core.Result{Impl: "bad-op"} }
func (w *wireEx) Close()                   {}

func genWire(r *core.Rand, tier string, emit func([]string)) {}
