package c01

// Wire-level end-to-end relay op:
//
//	h1.relay mode=seq|pipe x=<method>:<request hex>:<response hex> ...
//
// A raw client sends the request bytes to a real martian.Proxy (no modifiers); a raw origin answers
// request i with the scripted response bytes. Recorded: the exact bytes the origin received for
// request i and the exact bytes the client received for response i (stream offsets taken after the
// real reader has delimited each message). "ORIGIN" in the request bytes stands for the origin's
// address. The model gets sent and received bytes (ModelOp): it reads them with its own reader and
// predicts the received message from its relay function.

import (
	"bufio"
	"bytes"
	"fmt"
	"io"
	"net"
	"net/http"
	"strconv"
	"strings"
	"sync"
	"time"

	"github.com/google/martian/v3"
	mlog "github.com/google/martian/v3/log"

	"verif/harness/internal/core"
	"verif/harness/internal/golib"
)

const wireTimeout = 10 * time.Second

type wireEx struct {
	proxy  *martian.Proxy
	pl, ol net.Listener
	mu     sync.Mutex
	script map[string][]byte // X-Verif-Id -> response bytes
	closeA map[string]bool   // close the origin connection after this response
	up     map[string][]byte // X-Verif-Id -> bytes the origin received
	seq    int
}

const wireID = "X-Verif-Id"

func (w *wireEx) start() {
	mlog.SetLevel(mlog.Silent)
	w.script, w.closeA, w.up = map[string][]byte{}, map[string]bool{}, map[string][]byte{}
	w.ol, _ = net.Listen("tcp", "127.0.0.1:0")
	w.pl, _ = net.Listen("tcp", "127.0.0.1:0")
	go func() {
		for {
			c, err := w.ol.Accept()
			if err != nil {
				return
			}
			go w.originConn(c)
		}
	}()
	p := martian.NewProxy()
	p.SetTimeout(20 * time.Second)
	if tr, ok := p.GetRoundTripper().(*http.Transport); ok {
		tr.Proxy = nil
	}
	// the one modifier of this executor: requests marked X-Verif-Skip never reach an origin
	p.SetRequestModifier(martian.RequestModifierFunc(func(req *http.Request) error {
		if req.Header.Get("X-Verif-Skip") != "" {
			martian.NewContext(req).SkipRoundTrip()
		}
		return nil
	}))
	w.proxy = p
	go p.Serve(w.pl)
}

// capture records every byte read from the connection.
type capture struct {
	r   io.Reader
	buf bytes.Buffer
}

func (c *capture) Read(p []byte) (int, error) {
	n, err := c.r.Read(p)
	c.buf.Write(p[:n])
	return n, err
}

func (w *wireEx) originConn(c net.Conn) {
	defer c.Close()
	cp := &capture{r: c}
	br := bufio.NewReader(cp)
	off := 0
	for {
		c.SetDeadline(time.Now().Add(15 * time.Second))
		m := golib.ReadReq(br)
		if m.Class != "ok" {
			return
		}
		end := cp.buf.Len() - br.Buffered()
		got := append([]byte(nil), cp.buf.Bytes()[off:end]...)
		off = end
		id := m.Header.Get(wireID)
		w.mu.Lock()
		w.up[id] = got
		res, ok := w.script[id]
		cl := w.closeA[id]
		w.mu.Unlock()
		if !ok {
			fmt.Fprintf(c, "HTTP/1.1 200 OK\r\nContent-Length: 0\r\n\r\n")
			continue
		}
		c.Write(res)
		if cl {
			return
		}
	}
}

func (w *wireEx) Close() {
	for _, l := range []net.Listener{w.pl, w.ol} {
		if l != nil {
			l.Close()
		}
	}
	if w.proxy != nil {
		done := make(chan bool)
		go func() { w.proxy.Close(); close(done) }()
		select {
		case <-done:
		case <-time.After(3 * time.Second):
			core.Count("proxy-close-timeout")
		}
	}
}

type wireX struct {
	method   string
	req, res []byte
	id       string
	dead     bool // the target refuses the connection: the proxy must answer 502 and stay in frame
	skip     bool // a request modifier skips the round trip: 200 from the proxy, body never forwarded
}

// e2eHeaders: the end-to-end fields of a parsed message (hop-by-hop and framing fields excluded, as in
// C01's statement), in canonical form.
var notE2E = map[string]bool{"Connection": true, "Keep-Alive": true, "Proxy-Connection": true, "Transfer-Encoding": true,
	"Content-Length": true, "Trailer": true, "Te": true, "Upgrade": true, "Proxy-Authenticate": true,
	"Proxy-Authorization": true, "Host": true, "User-Agent": true, "X-Verif-Id": true}

func e2eIncluded(sent, got http.Header) string {
	for k, vs := range sent {
		if notE2E[k] {
			continue
		}
		if strings.Join(got[k], "\x00") != strings.Join(vs, "\x00") {
			return fmt.Sprintf("%s: sent %q received %q", k, vs, got[k])
		}
	}
	return ""
}

// Do runs the scenario; a verdict that rests on a read deadline (a loaded machine) is re-established
// once on a fresh connection before it is reported.
func (w *wireEx) Do(op string) core.Result {
	r, timedOut := w.run(op)
	if timedOut {
		core.Count("h1.relay:retried-after-timeout")
		r, _ = w.run(op)
	}
	return r
}

func isTimeoutErr(err error) bool {
	ne, ok := err.(net.Error)
	return ok && ne.Timeout()
}

func (w *wireEx) run(op string) (core.Result, bool) {
	timedOut := false
	toks := strings.Fields(op)
	if w.proxy == nil {
		w.start()
	}
	origin := w.ol.Addr().String()
	mode := "seq"
	var xs []*wireX
	for _, t := range toks[1:] {
		switch {
		case strings.HasPrefix(t, "mode="):
			mode = t[5:]
		case strings.HasPrefix(t, "x="):
			p := strings.Split(t[2:], ":")
			if len(p) != 3 {
				return core.Result{Impl: "bad-op"}, false
			}
			m, _ := core.Unhex(p[0])
			rq, _ := core.Unhex(p[1])
			rs, _ := core.Unhex(p[2])
			if p[2] == "s" {
				rs = nil
			}
			w.seq++
			id := strconv.Itoa(w.seq)
			rq = bytes.ReplaceAll(rq, []byte("ORIGIN"), []byte(origin))
			rq = bytes.ReplaceAll(rq, []byte("VERIFID"), []byte(id))
			xs = append(xs, &wireX{method: string(m), req: rq, res: rs, id: id, dead: p[2] == "-", skip: p[2] == "s"})
		}
	}
	if len(xs) == 0 {
		return core.Result{Impl: "bad-op"}, false
	}
	w.mu.Lock()
	for _, x := range xs {
		w.script[x.id] = x.res
		// a response delimited by the close needs the close
		rm := golib.ReadRes(bufio.NewReader(bytes.NewReader(x.res)), x.method)
		w.closeA[x.id] = rm.Class != "ok" || rm.Close
	}
	w.mu.Unlock()

	c, err := net.DialTimeout("tcp", w.pl.Addr().String(), 2*time.Second)
	if err != nil {
		return core.Result{Impl: "dial-error", Fail: "cannot reach the proxy", Sig: "c01:wire-harness"}, false
	}
	defer c.Close()
	cp := &capture{r: c}
	br := bufio.NewReader(cp)
	off := 0
	down := make([][]byte, len(xs))
	downMsg := make([]*golib.H1Msg, len(xs))
	if mode == "pipe" {
		var all []byte
		for _, x := range xs {
			all = append(all, x.req...)
		}
		c.SetDeadline(time.Now().Add(wireTimeout))
		c.Write(all)
	}
	for i, x := range xs {
		c.SetDeadline(time.Now().Add(wireTimeout))
		if mode != "pipe" {
			if _, err := c.Write(x.req); err != nil {
				break
			}
		}
		m := golib.ReadRes(br, x.method)
		end := cp.buf.Len() - br.Buffered()
		down[i] = append([]byte(nil), cp.buf.Bytes()[off:end]...)
		off = end
		downMsg[i] = m
		if m.Err != nil && isTimeoutErr(m.Err) {
			timedOut = true
		}
		// a "Connection: close" nobody asked for (Response.Write adds one to a HEAD answer without a
		// length) is not obeyed: the property is about whether the connection still serves
		if m.Class != "ok" {
			break
		}
	}
	// what arrives after the last response we waited for (a stray byte is a framing defect)
	c.SetDeadline(time.Now().Add(30 * time.Millisecond))
	extra, _ := io.ReadAll(br)

	var impl, mop []string
	res := core.Result{}
	fail := func(sig, msg string) {
		if res.Fail == "" {
			res.Fail, res.Sig = msg, sig
		}
	}
	mop = append(mop, "h1.relay")
	served := 0
	// an answer to HEAD that carries "Transfer-Encoding: chunked": http.Response.Write ends it with a CRLF
	headChunked := make([]bool, len(xs))
	for i, x := range xs {
		o := golib.ReadRes(bufio.NewReader(bytes.NewReader(x.res)), x.method)
		headChunked[i] = x.method == "HEAD" && o.Class == "ok" && o.Chunked
	}
	lastServed := -1
	for i, x := range xs {
		w.mu.Lock()
		up := w.up[x.id]
		w.mu.Unlock()
		sent := golib.ReadReq(bufio.NewReader(bytes.NewReader(x.req)))
		orig := golib.ReadRes(bufio.NewReader(bytes.NewReader(x.res)), x.method)
		upM := golib.ReadReq(bufio.NewReader(bytes.NewReader(up)))
		dm := downMsg[i]
		if dm == nil {
			impl = append(impl, fmt.Sprintf("%d:unserved", i))
			mop = append(mop, "-")
			continue
		}
		served++
		lastServed = i
		if x.dead || x.skip {
			// nothing listens there (502) or the round trip is skipped (200): either way the proxy
			// answers by itself, and the request body must not be taken for the next request
			want := 502
			if x.skip {
				want = 200
			}
			if dm.Class == "ok" && dm.Code == want {
				impl = append(impl, fmt.Sprintf("%d:unreachable", i))
			} else if dm.Class != "ok" && i > 0 && headChunked[i-1] && bytes.HasPrefix(down[i], []byte("\r\n")) {
				impl = append(impl, fmt.Sprintf("%d:unreachable-but[%s]", i, dm.Line(0)))
				fail("c01:head-chunked-stray-crlf", fmt.Sprintf("response %d is preceded by the CRLF written after the HEAD answer with Transfer-Encoding: chunked (request %d)", i, i-1))
			} else {
				impl = append(impl, fmt.Sprintf("%d:unreachable-but[%s]", i, dm.Line(0)))
				fail("c01:wire-own-answer", fmt.Sprintf("request %d (refusing target / skipped round trip) was answered %s", i, dm.Line(0)))
			}
			mop = append(mop, "u")
			if i+1 < len(xs) && !sent.Close && downMsg[i+1] == nil {
				fail("c01:wire-unframed-after-own-answer", fmt.Sprintf("no response to request %d after the proxy's own %d: the connection is out of frame (request %d had a %d-byte body)", i+1, want, i, len(sent.Body)))
			}
			continue
		}
		upLine, downLine := "none", dm.Line(0)
		if up != nil {
			upLine = upM.Line(0)
		}
		impl = append(impl, fmt.Sprintf("%d:up=[%s] down=[%s]", i, upLine, downLine))
		mop = append(mop, fmt.Sprintf("%s:%s:%s:%s:%s", core.HexS(x.method), core.Hex(x.req), core.Hex(up), core.Hex(x.res), core.Hex(down[i])))
		// the property, stated over what was sent and what was received (no model involved)
		if sent.Class == "ok" {
			switch {
			case up == nil || upM.Class != "ok":
				fail("c01:wire-up-missing", fmt.Sprintf("request %d did not reach the origin as a well-formed request", i))
			case upM.Method != sent.Method:
				fail("c01:wire-up-method", fmt.Sprintf("request %d: method %q became %q", i, sent.Method, upM.Method))
			case upM.Request.URL.RequestURI() != sent.Request.URL.RequestURI():
				fail("c01:wire-up-target", fmt.Sprintf("request %d: target %q became %q", i, sent.Request.URL.RequestURI(), upM.Request.URL.RequestURI()))
			case !bytes.Equal(upM.Body, sent.Body):
				fail("c01:wire-up-body", fmt.Sprintf("request %d: body %d bytes became %d bytes", i, len(sent.Body), len(upM.Body)))
			default:
				if d := e2eIncluded(sent.Header, upM.Header); d != "" {
					fail("c01:wire-up-header", fmt.Sprintf("request %d: %s", i, d))
				}
			}
		}
		if orig.Class == "ok" && sent.Class == "ok" && up != nil {
			switch {
			case dm.Class != "ok" && i > 0 && headChunked[i-1] && bytes.HasPrefix(down[i], []byte("\r\n")):
				fail("c01:head-chunked-stray-crlf", fmt.Sprintf("response %d is preceded by the CRLF written after the HEAD answer with Transfer-Encoding: chunked (request %d)", i, i-1))
			case dm.Class != "ok":
				fail("c01:wire-down-unreadable", fmt.Sprintf("response %d reached the client as %s", i, dm.Class))
			case dm.Code != orig.Code:
				fail("c01:wire-down-status", fmt.Sprintf("response %d: status %d became %d", i, orig.Code, dm.Code))
			case !bytes.Equal(dm.Body, orig.Body):
				fail("c01:wire-down-body", fmt.Sprintf("response %d: body %d bytes became %d bytes", i, len(orig.Body), len(dm.Body)))
			default:
				if d := e2eIncluded(orig.Header, dm.Header); d != "" {
					fail("c01:wire-down-header", fmt.Sprintf("response %d: %s", i, d))
				}
			}
			// the connection stays usable unless either side asked to close
			if i+1 < len(xs) && !sent.Close && !orig.Close && downMsg[i+1] == nil && dm.Class == "ok" {
				fail("c01:wire-keepalive", fmt.Sprintf("no response to request %d on a connection nobody asked to close", i+1))
			}
		}
	}
	if string(extra) == "\r\n" && lastServed >= 0 && headChunked[lastServed] {
		fail("c01:head-chunked-stray-crlf", fmt.Sprintf("a CRLF follows the HEAD answer with Transfer-Encoding: chunked (request %d) on the client connection", lastServed))
	} else if len(extra) > 0 {
		fail("c01:wire-stray-bytes", fmt.Sprintf("%d bytes follow the last response on the client connection: %q", len(extra), trunc(extra, 40)))
	}
	core.Count(fmt.Sprintf("h1.relay:served=%d/%d", served, len(xs)))
	res.Impl = strings.Join(impl, " ; ") + fmt.Sprintf(" ; extra=%d", len(extra))
	res.ModelOp = strings.Join(mop, " ") + fmt.Sprintf(" %d", len(extra))
	return res, timedOut
}

func trunc(b []byte, n int) []byte {
	if len(b) > n {
		return b[:n]
	}
	return b
}

// ---- generator ----

func relaySpec(r *core.Rand, last bool, maxBody int) (*golib.H1Spec, *golib.H1Spec) {
	q := golib.GenH1Spec(r, true, maxBody)
	q.Method = r.Pick("GET", "GET", "POST", "PUT", "DELETE", "HEAD", "PATCH", "OPTIONS")
	path := r.Pick("/", "/p", "/a/b/c?x=1&y=2", "/q%20r?k=v%20w", "/p/./q/../r", "//double//slash/", "/a+b/~t/(1)!$,'*;p=1", "/x?", "/e%2Fs?u=%C3%A9")
	if r.Bool() {
		q.Target = "http://ORIGIN" + path
	} else {
		q.Target = path
	}
	// fields: drop what the generator put as Host / Connection / Pragma; keep end-to-end ones
	var fs [][2]string
	for _, f := range q.Fields {
		k := strings.ToLower(f[0])
		if k == "host" || k == "connection" || k == "pragma" {
			continue
		}
		fs = append(fs, f)
	}
	fs = append([][2]string{{"Host", "ORIGIN"}, {wireID, "VERIFID"}}, fs...)
	if last && r.Chance(1, 3) {
		fs = append(fs, [2]string{"Connection", "close"})
	}
	if !last {
		q.Proto = "HTTP/1.1" // an HTTP/1.0 request closes the connection
	}
	q.Fields = fs
	s := golib.GenH1Spec(r, false, maxBody)
	s.ReqMethod = q.Method
	code := []int{200, 200, 200, 201, 206, 301, 404, 500, 299, 204, 304}[r.Intn(11)]
	s.StatusLn = strconv.Itoa(code) + " " + r.Pick("OK", "Some Reason", "X")
	var rf [][2]string
	for _, f := range s.Fields {
		k := strings.ToLower(f[0])
		if k == "connection" || k == "pragma" || k == "content-length" || k == "transfer-encoding" || k == "trailer" {
			continue
		}
		rf = append(rf, f)
	}
	s.Fields = rf
	s.Trailer = nil
	bodiless := q.Method == "HEAD" || code == 204 || code == 304
	if bodiless {
		s.Framing, s.Body = "none", nil
		if q.Method == "HEAD" {
			switch r.Intn(4) {
			case 0:
				s.Fields = append(s.Fields, [2]string{"Content-Length", strconv.Itoa(r.Intn(5000))})
			case 1:
				s.Fields = append(s.Fields, [2]string{"Transfer-Encoding", "chunked"})
			}
		}
	} else {
		s.Framing = r.Pick("cl", "cl", "chunked", "chunked", "eof")
		s.Body = golib.H1Body(r, maxBody)
		s.Chunks = golib.H1Chunks(r, len(s.Body))
	}
	if s.Framing == "eof" && !last {
		s.Framing = "cl"
	}
	if s.Framing == "chunked" || s.Framing == "eof" {
		s.Proto = "HTTP/1.1"
	}
	if !last {
		s.Proto = "HTTP/1.1"
	}
	if s.Framing != "none" && s.Body == nil {
		s.Body = []byte{}
	}
	if last && r.Chance(1, 4) {
		s.Fields = append(s.Fields, [2]string{"Connection", "close"})
	}
	return q, s
}

// deadSpec: a request with a body to a target that refuses the connection.
func deadSpec(r *core.Rand, skip bool) *golib.H1Spec {
	q := golib.GenH1Spec(r, true, 3000)
	q.Method = r.Pick("POST", "PUT", "PATCH")
	q.Proto = "HTTP/1.1"
	q.Target = "http://127.0.0.1:1/dead" + r.Pick("", "?x=1")
	q.Fields = [][2]string{{"Host", "127.0.0.1:1"}, {wireID, "VERIFID"}, {"X-A", "1"}}
	if skip {
		q.Fields = append(q.Fields, [2]string{"X-Verif-Skip", "1"})
	}
	q.Framing = r.Pick("cl", "chunked")
	q.Trailer = nil
	q.Body = golib.H1Body(r, 3000)
	if len(q.Body) == 0 {
		q.Body = []byte("GET /smuggled HTTP/1.1\r\nHost: x\r\n\r\n")
	}
	q.Chunks = golib.H1Chunks(r, len(q.Body))
	return q
}

func genWire(r *core.Rand, tier string, emit func([]string)) {
	n := 120
	if tier == "thorough" {
		n = 800
	}
	for i := 0; i < n; i++ {
		k := r.Range(1, 4)
		mode := r.Pick("seq", "seq", "pipe")
		op := "h1.relay mode=" + mode
		for j := 0; j < k; j++ {
			maxBody := 3000
			if r.Chance(1, 10) {
				maxBody = 70000
			}
			if j < k-1 && r.Chance(1, 6) {
				skip := r.Bool()
				q := deadSpec(r, skip)
				op += " x=" + core.HexS(q.Method) + ":" + core.Hex(q.Wire()) + ":" + map[bool]string{true: "s", false: "-"}[skip]
				core.Count("h1.relay.gen:req=" + q.Framing + ",res=" + map[bool]string{true: "skipped", false: "unreachable"}[skip])
				continue
			}
			q, s := relaySpec(r, j == k-1, maxBody)
			op += " x=" + core.HexS(q.Method) + ":" + core.Hex(q.Wire()) + ":" + core.Hex(s.Wire())
			core.Count("h1.relay.gen:req=" + q.Framing + ",res=" + s.Framing)
		}
		core.Count("h1.relay.gen:mode=" + mode)
		emit([]string{op})
	}
}
