// Package c01: property C01 over the shared exchange-machine harness (internal/pxy).
package c01

import (
	"verif/harness/internal/core"
	"verif/harness/internal/golib"
	"verif/harness/internal/pxy"
)

type P struct{}

func init() { core.Register(P{}) }

func (P) ID() string                                  { return "C01" }
func (P) NewExec() core.Exec                          { return pxy.New() }
func (P) Nontrivial(ops []string, impl []string) bool { return pxy.Nontrivial(ops, impl) }

func (P) Rule() string {
	return "case = one client connection to a real martian.Proxy with no-op modifiers: 1..6 requests (methods, origin/absolute targets, 0..12 headers with repeats/odd case/empty values, bodies 0 B..64 KiB (MiB in thorough) by Content-Length or chunked) sent one at a time, pipelined in one write, or dribbled 7 bytes at a time; scripted raw origin (Content-Length, chunked, close-delimited, bodiless statuses, HEAD, gzip content-coding, Connection: close); distinct by op-list hash; non-trivial when >= 2 requests were served or the connection closed early"
}

func (P) Gen(r *core.Rand, tier string, emit func([]string)) {
	n := 400
	if tier == "thorough" {
		n = 2500
	}
	pr := pxy.Profile{Rich: true, BigBodies: tier == "thorough"}
	for i := 0; i < n; i++ {
		emit(pxy.GenCase(r, pr))
	}
	// the chunked-reader model behind the body-framing theorems, against net/http's reader
	for i := 0; i < n/10; i++ {
		emit(golib.GenChunked(r, 20))
	}
}
