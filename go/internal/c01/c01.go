// Package c01: property C01 over the shared exchange-machine harness (internal/pxy), plus the
// HTTP/1 codec ops (internal/golib h1.*) and the wire-level end-to-end relay op (h1e2e.go).
package c01

import (
	"strings"

	"verif/harness/internal/core"
	"verif/harness/internal/golib"
	"verif/harness/internal/pxy"
)

type P struct{}

func init() { core.Register(P{}) }

// exec routes the codec ops to golib (with their oracle verdicts) and the wire-level relay op to
// the e2e executor; everything else is the exchange-machine harness.
type exec struct {
	px *pxy.Ex
	w  *wireEx
}

func (e *exec) Do(op string) core.Result {
	if strings.HasPrefix(op, "h1.relay") {
		if e.w == nil {
			e.w = &wireEx{}
		}
		return e.w.Do(op)
	}
	if r, ok := golib.DoH1(op); ok {
		return r
	}
	return e.px.Do(op)
}

func (e *exec) Close() {
	e.px.Close()
	if e.w != nil {
		e.w.Close()
	}
}

func (P) ID() string         { return "C01" }
func (P) NewExec() core.Exec { return &exec{px: pxy.New()} }
func (P) Nontrivial(ops []string, impl []string) bool {
	if len(ops) > 0 && strings.HasPrefix(ops[0], "h1.") {
		return h1Nontrivial(impl)
	}
	return pxy.Nontrivial(ops, impl)
}

func (P) Rule() string {
	return "case = one client connection to a real martian.Proxy with no-op modifiers: 1..6 requests (methods, origin/absolute targets, 0..12 headers with repeats/odd case/empty values, bodies 0 B..64 KiB (MiB in thorough) by Content-Length or chunked) sent one at a time, pipelined in one write, or dribbled 7 bytes at a time; scripted raw origin (Content-Length, chunked, close-delimited, bodiless statuses, HEAD, gzip content-coding, Connection: close); distinct by op-list hash; non-trivial when >= 2 requests were served or the connection closed early. Codec cases (h1.*): byte strings through the real http.ReadRequest/ReadResponse/Write and through the Lean reader (well-formed messages in every framing, every strict-prefix class, deviations from the grammar, pipelined streams), and raw exchanges through the real proxy whose origin-side and client-side bytes are re-read by the model; non-trivial when at least one message was read completely"
}

func h1Nontrivial(impl []string) bool {
	for _, l := range impl {
		if strings.HasPrefix(l, "ok ") || (strings.HasPrefix(l, "n=") && !strings.HasPrefix(l, "n=0 ")) {
			return true
		}
	}
	return false
}

func (P) Gen(r *core.Rand, tier string, emit func([]string)) {
	n := 400
	if tier == "thorough" {
		n = 2500
	}
	pr := pxy.Profile{Rich: true, BigBodies: tier == "thorough"}
	for i := 0; i < n; i++ {
		emit(pxy.GenCase(r, pr))
	}
	// the chunked-reader model behind the body-framing theorems, against net/http's reader
	for i := 0; i < n/10; i++ {
		emit(golib.GenChunked(r, 20))
	}
	// the HTTP/1 codec model against net/http: readers, streams, writers
	maxBody := 6000
	for i := 0; i < n/4; i++ {
		if i%10 == 9 {
			maxBody = 70000
		} else {
			maxBody = 6000
		}
		emit(golib.GenH1Read(r, maxBody))
		emit(golib.GenH1Streams(r, 3000))
		emit(golib.GenH1Write(r, 3000))
	}
	genWire(r, tier, emit)
}
